//! Shared plumbing for every property check: argument parsing, seeded proptest runners spread
//! over worker threads, panic capture, counters / classification, evidence + replay writers,
//! known-findings matching, stdout/stderr silencing and a watchdog.
//!
//! A property binary declares one or more *parts* (a generator + an oracle + case counts per tier)
//! and hands them to [`Check::run`]. Everything random is owned by proptest, seeded from
//! sha-ish mixing of (VERIF_SEED, property id, part name, worker index).

use proptest::strategy::{Strategy, ValueTree};
use proptest::test_runner::{Config, RngAlgorithm, TestCaseError, TestError, TestRng, TestRunner};
use serde::{de::DeserializeOwned, Serialize};
use serde_json::{json, Value};
use std::cell::RefCell;
use std::collections::{BTreeMap, HashSet};
use std::hash::{Hash, Hasher};
use std::io::Write as _;
use std::panic::{catch_unwind, AssertUnwindSafe};
use std::path::PathBuf;
use std::sync::atomic::{AtomicBool, AtomicI32, AtomicU64, Ordering};
use std::sync::{Arc, Mutex};
use std::time::{Duration, Instant};

pub const VERIF_ROOT: &str = "/verif";

// ---------------------------------------------------------------------------------------------
// output: fds 1 and 2 are silenced (LDK test utilities print a lot); reports go to a saved fd.
// ---------------------------------------------------------------------------------------------

static SAVED_STDOUT: AtomicI32 = AtomicI32::new(-1);

/// Redirect fd 1 and 2 to `path` (or /dev/null) and keep a duplicate of the original stdout for
/// [`report`]. Idempotent.
pub fn silence(log_path: Option<&str>) {
	if SAVED_STDOUT.load(Ordering::SeqCst) >= 0 {
		return;
	}
	unsafe {
		let saved = libc::dup(1);
		SAVED_STDOUT.store(saved, Ordering::SeqCst);
		let target = match log_path {
			Some(p) => {
				let c = std::ffi::CString::new(p).unwrap();
				libc::open(c.as_ptr(), libc::O_WRONLY | libc::O_CREAT | libc::O_TRUNC, 0o644)
			},
			None => {
				let c = std::ffi::CString::new("/dev/null").unwrap();
				libc::open(c.as_ptr(), libc::O_WRONLY)
			},
		};
		if target >= 0 {
			libc::dup2(target, 1);
			libc::dup2(target, 2);
			libc::close(target);
		}
	}
}

/// Write a line to the real stdout (bypassing the silenced fd 1).
pub fn report(line: &str) {
	let fd = SAVED_STDOUT.load(Ordering::SeqCst);
	let mut s = line.to_string();
	if !s.ends_with('\n') {
		s.push('\n');
	}
	if fd < 0 {
		let _ = std::io::stdout().write_all(s.as_bytes());
		let _ = std::io::stdout().flush();
	} else {
		let b = s.as_bytes();
		let mut off = 0;
		while off < b.len() {
			let n = unsafe { libc::write(fd, b[off..].as_ptr() as *const libc::c_void, b.len() - off) };
			if n <= 0 {
				break;
			}
			off += n as usize;
		}
	}
}

// ---------------------------------------------------------------------------------------------
// panic capture
// ---------------------------------------------------------------------------------------------

thread_local! {
	static LAST_PANIC: RefCell<Option<(String, String)>> = RefCell::new(None);
}

static GLOBAL_LAST_PANIC: Mutex<Option<String>> = Mutex::new(None);

fn worker_died() -> ! {
	let m = GLOBAL_LAST_PANIC.lock().ok().and_then(|g| g.clone()).unwrap_or_default();
	report(&format!("INCONCLUSIVE harness error: a worker thread died outside a case: {}", m));
	std::process::exit(2);
}

pub fn install_panic_hook() {
	std::panic::set_hook(Box::new(|info| {
		let msg = if let Some(s) = info.payload().downcast_ref::<&str>() {
			s.to_string()
		} else if let Some(s) = info.payload().downcast_ref::<String>() {
			s.clone()
		} else {
			"<non-string panic>".to_string()
		};
		let loc = info.location().map(|l| format!("{}:{}", l.file(), l.line())).unwrap_or_default();
		if let Ok(mut g) = GLOBAL_LAST_PANIC.try_lock() {
			*g = Some(format!("{} at {}", msg.chars().take(600).collect::<String>(), loc));
		}
		LAST_PANIC.with(|p| *p.borrow_mut() = Some((msg, loc)));
	}));
}

static TOLERATED_PANICS: Mutex<Vec<(String, String)>> = Mutex::new(Vec::new());

/// Declare a library panic that is an *observation*, not a verdict of the property under test: a case that
/// ends in a panic whose message contains `substr` is counted as held and labelled `label`. (Used for
/// debug assertions whose release behaviour satisfies the property; each use is justified in DESIGN.md §9.3.)
pub fn tolerate_panic(substr: &str, label: &str) {
	TOLERATED_PANICS.lock().unwrap().push((substr.to_string(), label.to_string()));
}

/// Turn the panic that just ended a case into its verdict.
fn panic_verdict(ctx: &mut Ctx) -> CaseResult {
	let (msg, loc) = take_last_panic().unwrap_or_default();
	for (sub, label) in TOLERATED_PANICS.lock().unwrap().iter() {
		if msg.contains(sub.as_str()) {
			ctx.label(label);
			return Ok(());
		}
	}
	Err(Failure { oracle: "panic".into(), detail: format!("panic at {}: {}", loc, msg), key: format!("panic@{}", loc) })
}

pub fn take_last_panic() -> Option<(String, String)> {
	LAST_PANIC.with(|p| p.borrow_mut().take())
}

/// Restore a panic record (used by cleanup code that may itself catch secondary panics).
pub fn set_last_panic(v: Option<(String, String)>) {
	LAST_PANIC.with(|p| *p.borrow_mut() = v);
}

// ---------------------------------------------------------------------------------------------
// tiers, args
// ---------------------------------------------------------------------------------------------

#[derive(Clone, Copy, Debug, PartialEq, Eq)]
pub enum Tier {
	Quick,
	Thorough,
}
impl Tier {
	pub fn name(&self) -> &'static str {
		match self {
			Tier::Quick => "quick",
			Tier::Thorough => "thorough",
		}
	}
}

#[derive(Clone, Debug)]
pub struct Args {
	pub tier: Tier,
	pub seed: u64,
	pub replay: Option<PathBuf>,
	pub workers: usize,
	/// multiplies every part's case count (for experiments; evidence records the real counts)
	pub scale: f64,
	/// restrict to parts whose name contains this string
	pub only_part: Option<String>,
	pub no_evidence: bool,
}

pub fn parse_args() -> Args {
	let mut tier = match std::env::var("VERIF_TIER").ok().as_deref() {
		Some("thorough") => Tier::Thorough,
		_ => Tier::Quick,
	};
	let mut seed: u64 = std::env::var("VERIF_SEED").ok().and_then(|s| s.trim().parse::<i128>().ok()).map(|v| v as u64).unwrap_or(0);
	let mut replay = None;
	let mut workers = std::thread::available_parallelism().map(|n| n.get()).unwrap_or(8).min(16);
	let mut scale = std::env::var("VERIF_SCALE").ok().and_then(|s| s.parse().ok()).unwrap_or(1.0);
	let mut only_part = None;
	let mut no_evidence = false;
	let argv: Vec<String> = std::env::args().collect();
	let mut i = 1;
	while i < argv.len() {
		match argv[i].as_str() {
			"--tier" => {
				i += 1;
				tier = if argv[i] == "thorough" { Tier::Thorough } else { Tier::Quick };
			},
			"--seed" => {
				i += 1;
				seed = argv[i].parse::<i128>().expect("seed") as u64;
			},
			"--replay" => {
				i += 1;
				replay = Some(PathBuf::from(&argv[i]));
			},
			"--workers" => {
				i += 1;
				workers = argv[i].parse().expect("workers");
			},
			"--scale" => {
				i += 1;
				scale = argv[i].parse().expect("scale");
			},
			"--part" => {
				i += 1;
				only_part = Some(argv[i].clone());
			},
			"--no-evidence" => no_evidence = true,
			other => panic!("unknown argument {}", other),
		}
		i += 1;
	}
	Args { tier, seed, replay, workers, scale, only_part, no_evidence }
}

// ---------------------------------------------------------------------------------------------
// per-case context and failure
// ---------------------------------------------------------------------------------------------

#[derive(Clone, Debug)]
pub struct Failure {
	/// which oracle clause failed (short, stable)
	pub oracle: String,
	/// human-readable detail
	pub detail: String,
	/// exact signature used for known-finding matching: oracle + discriminating facts
	pub key: String,
}

impl Failure {
	pub fn new(oracle: &str, detail: impl Into<String>) -> Failure {
		Failure { oracle: oracle.to_string(), detail: detail.into(), key: oracle.to_string() }
	}
	pub fn with_key(mut self, key: impl Into<String>) -> Failure {
		self.key = key.into();
		self
	}
}

#[macro_export]
macro_rules! vfail {
	($oracle:expr, $($arg:tt)*) => {
		return Err($crate::Failure::new($oracle, format!($($arg)*)))
	};
}

#[macro_export]
macro_rules! vensure {
	($cond:expr, $oracle:expr, $($arg:tt)*) => {
		if !($cond) {
			return Err($crate::Failure::new($oracle, format!($($arg)*)));
		}
	};
}

pub type CaseResult = Result<(), Failure>;

/// Handed to the oracle for every case; collects classification for the evidence file.
#[derive(Default)]
pub struct Ctx {
	labels: Vec<String>,
	nontrivial: bool,
	discarded: bool,
	summary: Option<Value>,
	/// true when re-executing a saved replay (oracles may log more)
	pub replay: bool,
	extra_evals: u64,
}

impl Ctx {
	pub fn label(&mut self, l: &str) {
		self.labels.push(l.to_string());
	}
	pub fn label_if(&mut self, c: bool, l: &str) {
		if c {
			self.label(l);
		}
	}
	/// the case satisfied the part's stated non-triviality rule
	pub fn nontrivial(&mut self) {
		self.nontrivial = true;
	}
	pub fn nontrivial_if(&mut self, c: bool) {
		if c {
			self.nontrivial = true;
		}
	}
	/// the generated value could not be used (counts towards the discard-rate health check)
	pub fn discard(&mut self) {
		self.discarded = true;
	}
	/// optional compact rendering of the case for evidence samples (default: JSON of the input)
	pub fn summary(&mut self, v: Value) {
		self.summary = Some(v);
	}
	/// the case performed `n` additional independent oracle evaluations (e.g. one per mutation)
	pub fn sub_evaluations(&mut self, n: u64) {
		self.extra_evals += n;
	}
}

// ---------------------------------------------------------------------------------------------
// known findings
// ---------------------------------------------------------------------------------------------

#[derive(Clone, Debug)]
pub struct KnownFinding {
	pub key: String,
	pub what: String,
	pub status: String,
}

pub fn load_known_findings(property: &str) -> Vec<KnownFinding> {
	let p = format!("{}/known_findings.json", VERIF_ROOT);
	let Ok(s) = std::fs::read_to_string(&p) else { return vec![] };
	let Ok(v) = serde_json::from_str::<Value>(&s) else { return vec![] };
	let mut out = vec![];
	if let Some(arr) = v.get("findings").and_then(|f| f.as_array()) {
		for e in arr {
			if e.get("property").and_then(|x| x.as_str()) == Some(property) {
				out.push(KnownFinding {
					key: e.get("key").and_then(|x| x.as_str()).unwrap_or("").to_string(),
					what: e.get("what").and_then(|x| x.as_str()).unwrap_or("").to_string(),
					status: e.get("status").and_then(|x| x.as_str()).unwrap_or("known").to_string(),
				});
			}
		}
	}
	out
}

// ---------------------------------------------------------------------------------------------
// parts and the check driver
// ---------------------------------------------------------------------------------------------

#[derive(Default, Clone)]
struct PartStats {
	evaluations: u64,
	sub_evaluations: u64,
	nontrivial_hashes: HashSet<u64>,
	discards: u64,
	labels: BTreeMap<String, u64>,
	samples: Vec<Value>,
	excluded_known: BTreeMap<String, u64>,
	wall_s: f64,
	rule: String,
	exhaustive: bool,
}

struct FoundFailure {
	part: String,
	value_json: Value,
	failure: Failure,
}

pub struct Check {
	pub id: &'static str,
	pub level: &'static str,
	pub args: Args,
	known: Vec<KnownFinding>,
	parts: Vec<(String, PartStats)>,
	failures: Vec<FoundFailure>,
	assumptions: Vec<String>,
	started: Instant,
	replay_handled: bool,
	replay_result: Option<Result<(), Failure>>,
	notes: BTreeMap<String, Value>,
}

fn mix_seed(seed: u64, id: &str, part: &str, worker: u64) -> [u8; 32] {
	// splitmix-style expansion of a std hash; deterministic across runs (DefaultHasher::new has fixed keys).
	let mut h = std::collections::hash_map::DefaultHasher::new();
	seed.hash(&mut h);
	id.hash(&mut h);
	part.hash(&mut h);
	worker.hash(&mut h);
	let mut x = h.finish();
	let mut out = [0u8; 32];
	for i in 0..4 {
		x = x.wrapping_add(0x9E3779B97F4A7C15);
		let mut z = x;
		z = (z ^ (z >> 30)).wrapping_mul(0xBF58476D1CE4E5B9);
		z = (z ^ (z >> 27)).wrapping_mul(0x94D049BB133111EB);
		z ^= z >> 31;
		out[i * 8..i * 8 + 8].copy_from_slice(&z.to_le_bytes());
	}
	out
}

fn hash_str(s: &str) -> u64 {
	let mut h = std::collections::hash_map::DefaultHasher::new();
	s.hash(&mut h);
	h.finish()
}

fn truncate_value(v: Value) -> Value {
	let s = v.to_string();
	if s.len() > 4000 {
		json!({ "truncated_json": format!("{}…", &s[..s.char_indices().take_while(|(i, _)| *i < 3900).last().map(|(i, c)| i + c.len_utf8()).unwrap_or(0)]) })
	} else {
		v
	}
}

static CASE_STARTS: Mutex<Vec<Option<Instant>>> = Mutex::new(Vec::new());
static WATCHDOG_STARTED: AtomicBool = AtomicBool::new(false);
static WATCHDOG_CASE_SECS: AtomicU64 = AtomicU64::new(300);

fn rss_gb() -> f64 {
	if let Ok(s) = std::fs::read_to_string("/proc/self/status") {
		for l in s.lines() {
			if let Some(r) = l.strip_prefix("VmRSS:") {
				let kb: f64 = r.trim().trim_end_matches("kB").trim().parse().unwrap_or(0.0);
				return kb / 1048576.0;
			}
		}
	}
	0.0
}

fn start_watchdog(id: &'static str) {
	if WATCHDOG_STARTED.swap(true, Ordering::SeqCst) {
		return;
	}
	std::thread::spawn(move || loop {
		std::thread::sleep(Duration::from_secs(2));
		let lim = WATCHDOG_CASE_SECS.load(Ordering::SeqCst);
		let starts = CASE_STARTS.lock().unwrap().clone();
		for (i, s) in starts.iter().enumerate() {
			if let Some(t) = s {
				if t.elapsed() > Duration::from_secs(lim) {
					report(&format!("INCONCLUSIVE property={} worker {} exceeded {}s on one case (watchdog); exit 2", id, i, lim));
					std::process::exit(2);
				}
			}
		}
		if rss_gb() > 48.0 {
			report(&format!("INCONCLUSIVE property={} memory above 48 GB (watchdog); exit 2", id));
			std::process::exit(2);
		}
	});
}

pub struct PartSpec<'a> {
	pub name: &'a str,
	/// how cases are generated and what makes one non-trivial
	pub rule: &'a str,
	pub quick_cases: u64,
	pub thorough_cases: u64,
	/// max shrink iterations
	pub max_shrink: u32,
}

impl Check {
	pub fn new(id: &'static str, level: &'static str) -> Check {
		let args = parse_args();
		install_panic_hook();
		let log = if args.replay.is_some() { Some(format!("{}/replays/last-replay-{}.log", VERIF_ROOT, id)) } else { None };
		silence(log.as_deref());
		start_watchdog(id);
		let known = load_known_findings(id);
		Check {
			id,
			level,
			args,
			known,
			parts: vec![],
			failures: vec![],
			assumptions: vec![],
			started: Instant::now(),
			replay_handled: false,
			replay_result: None,
			notes: BTreeMap::new(),
		}
	}

	pub fn set_case_timeout_secs(&self, s: u64) {
		WATCHDOG_CASE_SECS.store(s, Ordering::SeqCst);
	}

	pub fn assume(&mut self, s: &str) {
		self.assumptions.push(s.to_string());
	}

	pub fn note(&mut self, k: &str, v: Value) {
		self.notes.insert(k.to_string(), v);
	}

	pub fn tier(&self) -> Tier {
		self.args.tier
	}

	fn known_status(&self, key: &str) -> Option<&KnownFinding> {
		self.known.iter().find(|k| k.status == "known" && k.key == key)
	}

	/// Run one part: `cases` generated values of `strategy` spread over the workers, each checked
	/// by `oracle`. In replay mode only the part named in the replay file is executed, on the saved
	/// value.
	pub fn part<T, S, F>(&mut self, spec: PartSpec, strategy: S, oracle: F)
	where
		T: std::fmt::Debug + Clone + Serialize + DeserializeOwned + Send + 'static,
		S: Strategy<Value = T> + Clone + Send + Sync + 'static,
		F: Fn(&T, &mut Ctx) -> CaseResult + Send + Sync + 'static,
	{
		self.part_with(spec, move || strategy.clone(), oracle)
	}

	/// Like [`Check::part`] but takes a factory that builds the strategy inside each worker thread (for
	/// strategies that are not `Send`/`Sync`, e.g. boxed unions).
	pub fn part_with<T, S, MK, F>(&mut self, spec: PartSpec, make_strategy: MK, oracle: F)
	where
		T: std::fmt::Debug + Clone + Serialize + DeserializeOwned + Send + 'static,
		S: Strategy<Value = T>,
		MK: Fn() -> S + Send + Sync + 'static,
		F: Fn(&T, &mut Ctx) -> CaseResult + Send + Sync + 'static,
	{
		if let Some(path) = self.args.replay.clone() {
			self.replay_part::<T, F>(&spec, &path, &oracle);
			return;
		}
		if let Some(only) = &self.args.only_part {
			if !spec.name.contains(only.as_str()) {
				return;
			}
		}
		if !self.failures.is_empty() {
			return; // a previous part already failed: report that one first
		}
		let total = ((match self.args.tier {
			Tier::Quick => spec.quick_cases,
			Tier::Thorough => spec.thorough_cases,
		}) as f64
			* self.args.scale)
			.ceil() as u64;
		let total = total.max(1);
		let workers = (self.args.workers as u64).min(total).max(1);
		let t0 = Instant::now();
		let stop = Arc::new(AtomicBool::new(false));
		let oracle = Arc::new(oracle);
		let make_strategy = Arc::new(make_strategy);
		let known_keys: Arc<Vec<String>> = Arc::new(self.known.iter().filter(|k| k.status == "known").map(|k| k.key.clone()).collect());
		{
			let mut cs = CASE_STARTS.lock().unwrap();
			cs.clear();
			cs.resize(workers as usize, None);
		}
		let mut handles = vec![];
		for w in 0..workers {
			let n = total / workers + if w < total % workers { 1 } else { 0 };
			let make_strategy = make_strategy.clone();
			let oracle = oracle.clone();
			let stop = stop.clone();
			let known_keys = known_keys.clone();
			let seed = mix_seed(self.args.seed, self.id, spec.name, w);
			let max_shrink = spec.max_shrink;
			let h = std::thread::Builder::new()
				.stack_size(64 << 20)
				.name(format!("w{}", w))
				.spawn(move || {
					let strategy = make_strategy();
					let mut stats = PartStats::default();
					let config = Config {
						cases: n as u32,
						failure_persistence: None,
						max_shrink_iters: max_shrink,
						max_shrink_time: 0,
						max_global_rejects: 1 << 20,
						max_local_rejects: 1 << 20,
						verbose: 0,
						..Config::default()
					};
					let rng = TestRng::from_seed(RngAlgorithm::ChaCha, &seed);
					let mut runner = TestRunner::new_with_rng(config, rng);
					let failed_once = std::cell::Cell::new(false);
					let last_fail: RefCell<Option<Failure>> = RefCell::new(None);
					let stats_cell = RefCell::new(&mut stats);
					let res = runner.run(&strategy, |v: T| {
						if stop.load(Ordering::SeqCst) && !failed_once.get() {
							return Ok(());
						}
						CASE_STARTS.lock().unwrap()[w as usize] = Some(Instant::now());
						let mut ctx = Ctx::default();
						let r = catch_unwind(AssertUnwindSafe(|| oracle(&v, &mut ctx)));
						CASE_STARTS.lock().unwrap()[w as usize] = None;
						let r: CaseResult = match r {
							Ok(r) => r,
							Err(_) => panic_verdict(&mut ctx),
						};
						if !failed_once.get() {
							let mut st = stats_cell.borrow_mut();
							st.evaluations += 1;
							st.sub_evaluations += ctx.extra_evals;
							if ctx.discarded {
								st.discards += 1;
							}
							for l in ctx.labels.iter() {
								*st.labels.entry(l.clone()).or_insert(0) += 1;
							}
							if ctx.nontrivial && r.is_ok() {
								let dbg = format!("{:?}", v);
								let fresh = st.nontrivial_hashes.insert(hash_str(&dbg));
								if fresh && st.samples.len() < 3 {
									let val = ctx.summary.take().unwrap_or_else(|| serde_json::to_value(&v).unwrap_or(Value::Null));
									st.samples.push(truncate_value(val));
								}
							}
						}
						match r {
							Ok(()) => Ok(()),
							Err(f) => {
								if known_keys.iter().any(|k| *k == f.key) {
									if !failed_once.get() {
										*stats_cell.borrow_mut().excluded_known.entry(f.key.clone()).or_insert(0) += 1;
									}
									return Ok(());
								}
								failed_once.set(true);
								stop.store(true, Ordering::SeqCst);
								let reason = format!("{}: {}", f.oracle, f.detail);
								*last_fail.borrow_mut() = Some(f);
								Err(TestCaseError::fail(reason))
							},
						}
					});
					drop(stats_cell);
					let failure = match res {
						Ok(()) => None,
						Err(TestError::Fail(_, v)) => {
							// re-evaluate the shrunk value to get the failure record belonging to it
							let mut ctx = Ctx::default();
							let r = catch_unwind(AssertUnwindSafe(|| oracle(&v, &mut ctx)));
							let f = match r {
								Ok(Err(f)) => f,
								Err(_) => match panic_verdict(&mut ctx) {
									Err(f) => f,
									Ok(()) => {
										let mut f = last_fail.borrow().clone().unwrap_or(Failure::new("unknown", "no failure recorded"));
										f.detail = format!("[did not reproduce on re-evaluation of shrunk value] {}", f.detail);
										f
									},
								},
								Ok(Ok(())) => {
									let mut f = last_fail.borrow().clone().unwrap_or(Failure::new("unknown", "no failure recorded"));
									f.detail = format!("[did not reproduce on re-evaluation of shrunk value] {}", f.detail);
									f
								},
							};
							Some((serde_json::to_value(&v).unwrap_or(Value::Null), f))
						},
						Err(TestError::Abort(r)) => Some((Value::Null, Failure::new("harness-abort", format!("proptest aborted: {}", r)).with_key("harness-abort"))),
					};
					(stats, failure)
				})
				.unwrap();
			handles.push(h);
		}
		let mut agg = PartStats::default();
		agg.rule = spec.rule.to_string();
		for h in handles {
			let (st, failure) = h.join().unwrap_or_else(|_| worker_died());
			agg.evaluations += st.evaluations;
			agg.sub_evaluations += st.sub_evaluations;
			agg.discards += st.discards;
			for (k, v) in st.labels {
				*agg.labels.entry(k).or_insert(0) += v;
			}
			for (k, v) in st.excluded_known {
				*agg.excluded_known.entry(k).or_insert(0) += v;
			}
			agg.nontrivial_hashes.extend(st.nontrivial_hashes);
			for s in st.samples {
				if agg.samples.len() < 4 {
					agg.samples.push(s);
				}
			}
			if let Some((value_json, failure)) = failure {
				self.failures.push(FoundFailure { part: spec.name.to_string(), value_json, failure });
			}
		}
		agg.wall_s = t0.elapsed().as_secs_f64();
		self.parts.push((spec.name.to_string(), agg));
	}

	/// Exhaustive / enumerated part: the caller supplies the finite list of cases.
	pub fn enumerate<T, F>(&mut self, name: &str, rule: &str, cases: Vec<T>, exhaustive: bool, oracle: F)
	where
		T: std::fmt::Debug + Clone + Serialize + DeserializeOwned + Send + Sync + 'static,
		F: Fn(&T, &mut Ctx) -> CaseResult + Send + Sync + 'static,
	{
		if let Some(path) = self.args.replay.clone() {
			let spec = PartSpec { name, rule, quick_cases: 0, thorough_cases: 0, max_shrink: 0 };
			self.replay_part::<T, F>(&spec, &path, &oracle);
			return;
		}
		if let Some(only) = &self.args.only_part {
			if !name.contains(only.as_str()) {
				return;
			}
		}
		if !self.failures.is_empty() {
			return;
		}
		let t0 = Instant::now();
		let workers = self.args.workers.max(1).min(cases.len().max(1));
		let cases = Arc::new(cases);
		let next = Arc::new(AtomicU64::new(0));
		let stop = Arc::new(AtomicBool::new(false));
		let oracle = Arc::new(oracle);
		let known_keys: Arc<Vec<String>> = Arc::new(self.known.iter().filter(|k| k.status == "known").map(|k| k.key.clone()).collect());
		{
			let mut cs = CASE_STARTS.lock().unwrap();
			cs.clear();
			cs.resize(workers, None);
		}
		let mut handles = vec![];
		for w in 0..workers {
			let cases = cases.clone();
			let next = next.clone();
			let stop = stop.clone();
			let oracle = oracle.clone();
			let known_keys = known_keys.clone();
			handles.push(
				std::thread::Builder::new()
					.stack_size(64 << 20)
					.spawn(move || {
						let mut st = PartStats::default();
						let mut failure = None;
						loop {
							if stop.load(Ordering::SeqCst) {
								break;
							}
							let i = next.fetch_add(1, Ordering::SeqCst) as usize;
							if i >= cases.len() {
								break;
							}
							let v = &cases[i];
							CASE_STARTS.lock().unwrap()[w] = Some(Instant::now());
							let mut ctx = Ctx::default();
							let r = catch_unwind(AssertUnwindSafe(|| oracle(v, &mut ctx)));
							CASE_STARTS.lock().unwrap()[w] = None;
							let r: CaseResult = match r {
								Ok(r) => r,
								Err(_) => panic_verdict(&mut ctx),
							};
							st.evaluations += 1;
							st.sub_evaluations += ctx.extra_evals;
							for l in ctx.labels.iter() {
								*st.labels.entry(l.clone()).or_insert(0) += 1;
							}
							if ctx.nontrivial && r.is_ok() {
								let fresh = st.nontrivial_hashes.insert(hash_str(&format!("{:?}", v)));
								if fresh && st.samples.len() < 3 {
									let val = ctx.summary.take().unwrap_or_else(|| serde_json::to_value(v).unwrap_or(Value::Null));
									st.samples.push(truncate_value(val));
								}
							}
							if let Err(f) = r {
								if known_keys.iter().any(|k| *k == f.key) {
									*st.excluded_known.entry(f.key.clone()).or_insert(0) += 1;
									continue;
								}
								stop.store(true, Ordering::SeqCst);
								failure = Some((serde_json::to_value(v).unwrap_or(Value::Null), f));
								break;
							}
						}
						(st, failure)
					})
					.unwrap(),
			);
		}
		let mut agg = PartStats::default();
		agg.rule = rule.to_string();
		agg.exhaustive = exhaustive;
		for h in handles {
			let (st, failure) = h.join().unwrap_or_else(|_| worker_died());
			agg.evaluations += st.evaluations;
			agg.sub_evaluations += st.sub_evaluations;
			for (k, v) in st.labels {
				*agg.labels.entry(k).or_insert(0) += v;
			}
			for (k, v) in st.excluded_known {
				*agg.excluded_known.entry(k).or_insert(0) += v;
			}
			agg.nontrivial_hashes.extend(st.nontrivial_hashes);
			for s in st.samples {
				if agg.samples.len() < 4 {
					agg.samples.push(s);
				}
			}
			if let Some((value_json, failure)) = failure {
				self.failures.push(FoundFailure { part: name.to_string(), value_json, failure });
			}
		}
		agg.wall_s = t0.elapsed().as_secs_f64();
		self.parts.push((name.to_string(), agg));
	}

	fn replay_part<T, F>(&mut self, spec: &PartSpec, path: &PathBuf, oracle: &F)
	where
		T: std::fmt::Debug + Clone + Serialize + DeserializeOwned,
		F: Fn(&T, &mut Ctx) -> CaseResult,
	{
		if self.replay_handled {
			return;
		}
		let s = match std::fs::read_to_string(path) {
			Ok(s) => s,
			Err(e) => {
				report(&format!("cannot read replay {}: {}", path.display(), e));
				std::process::exit(2);
			},
		};
		let v: Value = serde_json::from_str(&s).expect("replay json");
		if v.get("part").and_then(|p| p.as_str()) != Some(spec.name) {
			return;
		}
		self.replay_handled = true;
		let value: T = match serde_json::from_value(v.get("value").cloned().unwrap_or(Value::Null)) {
			Ok(x) => x,
			Err(e) => {
				report(&format!("replay value does not deserialize for part {}: {}", spec.name, e));
				std::process::exit(2);
			},
		};
		// LDK's hash maps are randomly keyed: re-execute a few times, any failure counts.
		let mut result = Ok(());
		for _ in 0..5 {
			let mut ctx = Ctx::default();
			ctx.replay = true;
			let r = catch_unwind(AssertUnwindSafe(|| oracle(&value, &mut ctx)));
			let r: CaseResult = match r {
				Ok(r) => r,
				Err(_) => panic_verdict(&mut ctx),
			};
			if r.is_err() {
				result = r;
				break;
			}
		}
		self.replay_result = Some(result);
	}

	/// Run the committed regression replays of this property (files under replays/regress/<ID>/).
	/// Must be called after all parts were declared once... instead each binary calls
	/// `finish`, and the python driver invokes the binary once per regression file.
	pub fn finish(mut self) -> ! {
		let wall = self.started.elapsed().as_secs_f64();
		if let Some(path) = self.args.replay.clone() {
			match self.replay_result.take() {
				None => {
					report(&format!("replay {}: no part of {} matches the file", path.display(), self.id));
					std::process::exit(2);
				},
				Some(Ok(())) => {
					report(&format!("replay {}: property {} held (5 executions)", path.display(), self.id));
					std::process::exit(0);
				},
				Some(Err(f)) => {
					if let Some(k) = self.known_status(&f.key) {
						report(&format!("KNOWN-FINDING: property={} {}", self.id, k.what));
						std::process::exit(0);
					}
					report(&format!("replay {}: {} / {} / key={}", path.display(), f.oracle, f.detail, f.key));
					report(&format!("VIOLATION property={} replay={}", self.id, path.display()));
					std::process::exit(1);
				},
			}
		}

		// known findings: print a line for each listed (status known) finding of this property
		for k in self.known.iter().filter(|k| k.status == "known") {
			report(&format!("KNOWN-FINDING: property={} {}", self.id, k.what));
		}

		let mut exit_code = 0;
		let mut violation_lines = vec![];
		for f in self.failures.iter() {
			if f.failure.key == "harness-abort" {
				report(&format!("INCONCLUSIVE property={} part={} {}", self.id, f.part, f.failure.detail));
				exit_code = 2;
				continue;
			}
			let body = json!({
				"property": self.id,
				"part": f.part,
				"tier": self.args.tier.name(),
				"seed": self.args.seed,
				"oracle": f.failure.oracle,
				"detail": f.failure.detail,
				"key": f.failure.key,
				"value": f.value_json,
			});
			let h = hash_str(&body.to_string());
			let dir = format!("{}/replays", VERIF_ROOT);
			let _ = std::fs::create_dir_all(&dir);
			let path = format!("{}/{}-{:016x}.json", dir, self.id, h);
			let _ = std::fs::write(&path, serde_json::to_string_pretty(&body).unwrap());
			report(&format!("FAIL property={} part={} oracle={} key={}", self.id, f.part, f.failure.oracle, f.failure.key));
			let d = &f.failure.detail;
			report(&format!("  detail: {}", if d.len() > 3000 { &d[..d.char_indices().take_while(|(i, _)| *i < 3000).count()] } else { d }));
			violation_lines.push(format!("VIOLATION property={} replay={}", self.id, path));
			exit_code = 1;
		}

		// evidence
		let mut evaluations = 0u64;
		let mut distinct = 0u64;
		let mut samples: Vec<Value> = vec![];
		let mut parts_json = serde_json::Map::new();
		let mut rules = vec![];
		let mut all_exhaustive = !self.parts.is_empty();
		let mut health_fail = None;
		for (name, st) in self.parts.iter() {
			evaluations += st.evaluations;
			distinct += st.nontrivial_hashes.len() as u64;
			for s in st.samples.iter().take(2) {
				samples.push(json!({ "part": name, "case": s }));
			}
			rules.push(format!("[{}] {}", name, st.rule));
			all_exhaustive &= st.exhaustive;
			if st.evaluations >= 50 && st.discards * 5 > st.evaluations {
				health_fail = Some(format!("part {} discarded {}/{} cases (>20%)", name, st.discards, st.evaluations));
			}
			parts_json.insert(
				name.clone(),
				json!({
					"evaluations": st.evaluations,
					"sub_evaluations": st.sub_evaluations,
					"distinct_nontrivial": st.nontrivial_hashes.len(),
					"discards": st.discards,
					"labels": st.labels,
					"excluded_known": st.excluded_known,
					"wall_s": (st.wall_s * 100.0).round() / 100.0,
					"exhaustive": st.exhaustive,
				}),
			);
		}
		let mut coverage = serde_json::Map::new();
		coverage.insert("evaluations".into(), json!(evaluations));
		coverage.insert("distinct_nontrivial".into(), json!(distinct));
		coverage.insert("rule".into(), json!(rules.join(" || ")));
		coverage.insert("samples".into(), Value::Array(samples));
		coverage.insert("parts".into(), Value::Object(parts_json));
		coverage.insert("exhaustive".into(), json!(all_exhaustive));
		coverage.insert("workers".into(), json!(self.args.workers));
		for (k, v) in self.notes.iter() {
			coverage.insert(k.clone(), v.clone());
		}
		let evidence = json!({
			"property_id": self.id,
			"tier": self.args.tier.name(),
			"seed": self.args.seed as i64,
			"level": self.level,
			"coverage": Value::Object(coverage),
			"assumptions": self.assumptions,
			"wall_s": (wall * 100.0).round() / 100.0,
			"violations": violation_lines.len(),
		});
		if !self.args.no_evidence && self.args.only_part.is_none() {
			let dir = format!("{}/evidence", VERIF_ROOT);
			let _ = std::fs::create_dir_all(&dir);
			let _ = std::fs::write(format!("{}/{}.json", dir, self.id), serde_json::to_string_pretty(&evidence).unwrap());
		}
		report(&format!(
			"{} tier={} seed={} evaluations={} distinct_nontrivial={} wall={:.1}s",
			self.id,
			self.args.tier.name(),
			self.args.seed,
			evaluations,
			distinct,
			wall
		));
		for (name, st) in self.parts.iter() {
			report(&format!(
				"  part {:<28} cases={:<8} sub={:<9} nontrivial={:<7} discards={:<5} {:.1}s",
				name,
				st.evaluations,
				st.sub_evaluations,
				st.nontrivial_hashes.len(),
				st.discards,
				st.wall_s
			));
		}
		for l in violation_lines {
			report(&l);
		}
		if exit_code == 0 {
			if let Some(h) = health_fail {
				report(&format!("INCONCLUSIVE property={} generator health: {}", self.id, h));
				exit_code = 2;
			}
		}
		std::process::exit(exit_code);
	}
}

/// Map a generated index monotonically onto `0..len` (shrinks towards 0 without stalling).
pub fn pick(idx: u16, len: usize) -> usize {
	if len == 0 {
		0
	} else {
		((idx as usize) * len) >> 16
	}
}

/// Helper used by strategies that want "a value tree's current value" outside a runner.
pub fn sample_once<S: Strategy>(s: &S, seed: u64) -> S::Value {
	let rng = TestRng::from_seed(RngAlgorithm::ChaCha, &mix_seed(seed, "sample", "once", 0));
	let mut runner = TestRunner::new_with_rng(Config::default(), rng);
	s.new_tree(&mut runner).unwrap().current()
}

pub fn hex(b: &[u8]) -> String {
	let mut s = String::with_capacity(b.len() * 2);
	for x in b {
		s.push_str(&format!("{:02x}", x));
	}
	s
}

pub fn unhex(s: &str) -> Vec<u8> {
	(0..s.len() / 2).map(|i| u8::from_str_radix(&s[2 * i..2 * i + 2], 16).unwrap_or(0)).collect()
}
