//! Engine E2: a small consensus / UTXO / mempool simulator used as ground truth for everything a node
//! hands to its broadcaster. Independent of LDK: scripts are verified with libbitcoinconsensus through
//! `Transaction::verify`, finality and relative locks are modelled from BIP-65/68/113 (height based only).

use bitcoin::blockdata::block::{Block, Header};
use bitcoin::hashes::Hash;
use bitcoin::{BlockHash, OutPoint, Transaction, TxOut, Txid};
use lightning::ln::functional_test_utils::create_dummy_block;
use std::collections::{BTreeMap, HashMap};

#[derive(Clone, Debug, PartialEq, Eq)]
pub enum Reject {
	/// an input refers to an output that does not exist (neither confirmed nor in the mempool)
	MissingInput(OutPoint),
	/// an input was already spent by a confirmed transaction
	AlreadySpent(OutPoint, Txid),
	Script(String),
	/// nLockTime not yet reached for the block the transaction would be mined in
	NonFinal { lock_time: u32, next_height: u32 },
	/// BIP-68 relative lock not satisfied
	CsvImmature { input: OutPoint, need: u32, have: u32 },
	/// outputs exceed inputs
	NegativeFee { inputs: u64, outputs: u64 },
	/// conflicts with a transaction already in the mempool (not a consensus failure)
	MempoolConflict(Txid),
	Duplicate,
}

#[derive(Clone, Debug)]
pub struct Utxo {
	pub out: TxOut,
	pub height: u32,
}

#[derive(Clone, Debug, Default)]
struct Undo {
	created: Vec<OutPoint>,
	spent: Vec<(OutPoint, Utxo, Txid)>,
	txids: Vec<Txid>,
}

pub struct ChainSim {
	/// active chain, index = height
	pub blocks: Vec<Block>,
	undo: Vec<Undo>,
	pub utxo: HashMap<OutPoint, Utxo>,
	/// confirmed transactions on the active chain
	pub confirmed: HashMap<Txid, (Transaction, u32)>,
	/// who spent a confirmed output (on the active chain)
	pub spent_by: HashMap<OutPoint, Txid>,
	/// valid unconfirmed transactions in arrival order
	pub mempool: Vec<Transaction>,
	/// every transaction ever seen (broadcast or mined), for lookups after reorgs
	pub seen: BTreeMap<Txid, Transaction>,
	/// transactions that were mined at some point and reorged out (candidates for re-mining)
	pub disconnected_txs: Vec<Transaction>,
}

impl ChainSim {
	/// Start from an existing chain (e.g. a node's genesis-only view).
	pub fn new(genesis: Block) -> ChainSim {
		ChainSim {
			blocks: vec![genesis],
			undo: vec![Undo::default()],
			utxo: HashMap::new(),
			confirmed: HashMap::new(),
			spent_by: HashMap::new(),
			mempool: vec![],
			seen: BTreeMap::new(),
			disconnected_txs: vec![],
		}
	}

	pub fn height(&self) -> u32 {
		(self.blocks.len() - 1) as u32
	}

	pub fn tip_hash(&self) -> BlockHash {
		self.blocks.last().unwrap().block_hash()
	}

	pub fn header_at(&self, h: u32) -> Header {
		self.blocks[h as usize].header
	}

	fn lookup(&self, op: &OutPoint, in_block: &HashMap<OutPoint, TxOut>, allow_mempool: bool) -> Option<(TxOut, Option<u32>)> {
		if let Some(u) = self.utxo.get(op) {
			return Some((u.out.clone(), Some(u.height)));
		}
		if let Some(o) = in_block.get(op) {
			return Some((o.clone(), None));
		}
		if allow_mempool {
			for t in self.mempool.iter() {
				if t.compute_txid() == op.txid {
					return t.output.get(op.vout as usize).map(|o| (o.clone(), None));
				}
			}
		}
		None
	}

	/// Consensus check of `tx` as if mined in the block at `at_height`. `in_block` holds outputs created
	/// earlier in the same block. Returns the fee.
	pub fn check_tx(&self, tx: &Transaction, at_height: u32, in_block: &HashMap<OutPoint, TxOut>, allow_mempool_parents: bool) -> Result<u64, Reject> {
		if tx.input.is_empty() {
			// externally funded (wallet / funding source): accepted as given
			return Ok(0);
		}
		// finality (BIP-65 semantics of nLockTime, height based)
		let lt = tx.lock_time.to_consensus_u32();
		let all_final_seq = tx.input.iter().all(|i| i.sequence.0 == 0xffff_ffff);
		if lt != 0 && !all_final_seq {
			if lt < 500_000_000 {
				if !(lt < at_height) {
					return Err(Reject::NonFinal { lock_time: lt, next_height: at_height });
				}
			}
		}
		let mut in_sum = 0u64;
		let mut prevouts: HashMap<OutPoint, TxOut> = HashMap::new();
		for i in tx.input.iter() {
			let op = i.previous_output;
			let Some((out, conf_h)) = self.lookup(&op, in_block, allow_mempool_parents) else {
				if let Some(sp) = self.spent_by.get(&op) {
					return Err(Reject::AlreadySpent(op, *sp));
				}
				return Err(Reject::MissingInput(op));
			};
			// BIP-68 (only enforced for version >= 2, disable flag bit 31, type flag bit 22)
			if tx.version.0 >= 2 && i.sequence.0 & (1 << 31) == 0 && i.sequence.0 & (1 << 22) == 0 {
				let need = i.sequence.0 & 0xffff;
				let have = match conf_h {
					Some(h) => at_height.saturating_sub(h),
					None => 0,
				};
				if have < need {
					return Err(Reject::CsvImmature { input: op, need, have });
				}
			}
			in_sum += out.value.to_sat();
			prevouts.insert(op, out);
		}
		let out_sum: u64 = tx.output.iter().map(|o| o.value.to_sat()).sum();
		if out_sum > in_sum {
			return Err(Reject::NegativeFee { inputs: in_sum, outputs: out_sum });
		}
		if let Err(e) = tx.verify(|op| prevouts.get(op).cloned()) {
			return Err(Reject::Script(format!("{:?}", e)));
		}
		Ok(in_sum - out_sum)
	}

	/// A node handed `tx` to its broadcaster while the chain tip is at `self.height()`: check it as a
	/// candidate for the next block and, if valid and not conflicting, keep it in the mempool.
	pub fn broadcast(&mut self, tx: &Transaction) -> Result<u64, Reject> {
		let txid = tx.compute_txid();
		self.seen.insert(txid, tx.clone());
		if self.confirmed.contains_key(&txid) || self.mempool.iter().any(|t| t.compute_txid() == txid) {
			return Err(Reject::Duplicate);
		}
		let fee = self.check_tx(tx, self.height() + 1, &HashMap::new(), true)?;
		let conflict = self.mempool.iter().find(|t| tx.input.iter().any(|i| t.input.iter().any(|j| j.previous_output == i.previous_output))).map(|t| t.compute_txid());
		// keep conflicting candidates too: the generator decides which one is mined
		self.mempool.push(tx.clone());
		if let Some(c) = conflict {
			return Err(Reject::MempoolConflict(c));
		}
		Ok(fee)
	}

	/// Mine a block with the given transactions (in order; each must be valid). Returns the block.
	/// Invalid transactions are skipped and reported.
	pub fn mine(&mut self, txs: Vec<Transaction>) -> (Block, Vec<(Txid, Reject)>) {
		let height = self.height() + 1;
		let mut in_block: HashMap<OutPoint, TxOut> = HashMap::new();
		let mut spent_in_block: HashMap<OutPoint, Txid> = HashMap::new();
		let mut included = vec![];
		let mut rejected = vec![];
		for tx in txs {
			let txid = tx.compute_txid();
			if self.confirmed.contains_key(&txid) || included.iter().any(|t: &Transaction| t.compute_txid() == txid) {
				continue;
			}
			if let Some(i) = tx.input.iter().find(|i| spent_in_block.contains_key(&i.previous_output)) {
				rejected.push((txid, Reject::AlreadySpent(i.previous_output, spent_in_block[&i.previous_output])));
				continue;
			}
			match self.check_tx(&tx, height, &in_block, false) {
				Ok(_) => {
					for (v, o) in tx.output.iter().enumerate() {
						in_block.insert(OutPoint { txid, vout: v as u32 }, o.clone());
					}
					for i in tx.input.iter() {
						spent_in_block.insert(i.previous_output, txid);
					}
					included.push(tx);
				},
				Err(e) => rejected.push((txid, e)),
			}
		}
		let block = create_dummy_block(self.tip_hash(), height, included.clone());
		let mut undo = Undo::default();
		for tx in included.iter() {
			let txid = tx.compute_txid();
			self.seen.insert(txid, tx.clone());
			for i in tx.input.iter() {
				if let Some(u) = self.utxo.remove(&i.previous_output) {
					undo.spent.push((i.previous_output, u, txid));
				}
				self.spent_by.insert(i.previous_output, txid);
			}
			for (v, o) in tx.output.iter().enumerate() {
				let op = OutPoint { txid, vout: v as u32 };
				self.utxo.insert(op, Utxo { out: o.clone(), height });
				undo.created.push(op);
			}
			self.confirmed.insert(txid, (tx.clone(), height));
			undo.txids.push(txid);
		}
		// drop mined and now-conflicting transactions from the mempool
		let confirmed_inputs: Vec<OutPoint> = included.iter().flat_map(|t| t.input.iter().map(|i| i.previous_output)).collect();
		self.mempool.retain(|t| !included.iter().any(|m| m.compute_txid() == t.compute_txid()) && !t.input.iter().any(|i| confirmed_inputs.contains(&i.previous_output)));
		self.blocks.push(block.clone());
		self.undo.push(undo);
		(block, rejected)
	}

	/// Disconnect the tip block; its transactions become candidates for re-mining.
	pub fn disconnect_tip(&mut self) -> Block {
		assert!(self.blocks.len() > 1);
		let block = self.blocks.pop().unwrap();
		let undo = self.undo.pop().unwrap();
		// outputs created in this block disappear; outputs it spent come back -- except those that were
		// themselves created in this block (parent and child mined together)
		for (op, u, _) in undo.spent {
			self.spent_by.remove(&op);
			if !undo.txids.contains(&op.txid) {
				self.utxo.insert(op, u);
			}
		}
		for op in undo.created {
			self.utxo.remove(&op);
		}
		for txid in undo.txids {
			if let Some((tx, _)) = self.confirmed.remove(&txid) {
				for i in tx.input.iter() {
					self.spent_by.remove(&i.previous_output);
				}
				self.disconnected_txs.push(tx);
			}
		}
		block
	}

	pub fn confirmations(&self, txid: &Txid) -> u32 {
		match self.confirmed.get(txid) {
			Some((_, h)) => self.height() - h + 1,
			None => 0,
		}
	}

	pub fn is_unspent(&self, op: &OutPoint) -> bool {
		self.utxo.contains_key(op)
	}

	/// outputs of confirmed `txid` that are still unspent
	pub fn unspent_outputs_of(&self, txid: &Txid) -> Vec<(u32, TxOut)> {
		let mut v = vec![];
		if let Some((tx, _)) = self.confirmed.get(txid) {
			for (i, o) in tx.output.iter().enumerate() {
				if self.utxo.contains_key(&OutPoint { txid: *txid, vout: i as u32 }) {
					v.push((i as u32, o.clone()));
				}
			}
		}
		v
	}
}

#[allow(dead_code)]
fn _z() -> Txid {
	Txid::all_zeros()
}
