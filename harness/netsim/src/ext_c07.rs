//! Property-specific engine extensions for C07 (owned by the C07 check): unilateral-close scenarios, a
//! generated chain schedule with bounded confirmation delays, a ledger of the closed channel's coins kept
//! from the consensus simulator alone, and the C07 oracles (a)-(e).
//!
//! Ground truth is `sim.chain` (what confirmed, who spent what), the recording signer's history (which
//! commitment transactions exist and what they contain), the `Persist` history (when a monitor was handed a
//! preimage) and the public results of `get_claimable_balances` / `Event::SpendableOutputs` /
//! `Event::BumpTransaction`. Nothing reads crate-private monitor state.

use crate::chain::Reject;
use crate::ops::*;
use crate::rec::*;
use crate::sim::*;
use bitcoin::hashes::Hash;
use bitcoin::secp256k1::Secp256k1;
use bitcoin::{OutPoint, ScriptBuf, Transaction, Txid};
use lightning::chain::chaininterface::ConfirmationTarget;
use lightning::chain::channelmonitor::{Balance, BalanceSource, ANTI_REORG_DELAY};
use lightning::events::bump_transaction::BumpTransactionEvent;
use lightning::events::Event;
use lightning::ln::chan_utils::CommitmentTransaction;
use lightning::sign::{OutputSpender, SpendableOutputDescriptor};
use serde::{Deserialize, Serialize};
use std::collections::{BTreeMap, BTreeSet, HashMap};
use vcore::{pick, CaseResult, Ctx, Failure};

// -------------------------------------------------------------------------------------------------
// the generated case
// -------------------------------------------------------------------------------------------------

#[derive(Clone, Debug, Serialize, Deserialize)]
pub enum Close {
	/// `force_close_broadcasting_latest_txn` by one end. With the link up the peer receives the error message
	/// and broadcasts its own commitment too (two conflicting closes; the schedule picks the winner); with
	/// `cut_link` the peers are disconnected first so only one commitment is broadcast.
	Force { by_funder: bool, cut_link: bool },
	/// the latest holder commitment of one end is confirmed without that node having broadcast it (an earlier
	/// instance / a watchtower did); mined at once so that it cannot be revoked in the meantime
	MineHolder { of_funder: bool, cut_link: bool },
}

#[derive(Clone, Debug, Serialize, Deserialize)]
pub enum Incl {
	/// every mempool transaction, arrival order (first of conflicting ones wins)
	All,
	/// every mempool transaction, reverse arrival order (latest of conflicting ones wins)
	Reverse,
	/// only transactions that reached the case's maximum confirmation delay
	Overdue,
	/// overdue ones plus the pick-th mempool transaction
	Pick(u16),
	/// everything, transactions broadcast by this node first
	Prefer(u16),
}

#[derive(Clone, Debug, Serialize, Deserialize)]
pub enum Pre {
	/// the recipient of a still-claimable payment calls `claim_funds` (late preimage)
	Claim { pay: u16 },
	/// the node's fee estimator now reports this feerate for on-chain sweeps
	Fee { node: u16, rate: u32 },
	/// `ChainMonitor::rebroadcast_pending_claims`
	Rebroadcast { node: u16 },
	Timer { node: u16 },
	Style { node: u16, style: u8 },
}

#[derive(Clone, Debug, Serialize, Deserialize)]
pub struct Step {
	/// first mine (overdue transactions only) up to the height `earliest expiry of a still unspent HTLC output
	/// of a confirmed commitment + offset`, so that schedules reach the expiry boundary by construction
	#[serde(default)]
	pub advance: Option<i8>,
	pub pre: Vec<Pre>,
	pub incl: Incl,
	/// deliver peer messages / forwards after the block (events are always processed)
	pub pump: bool,
}

/// what every node's fee estimator reports for on-chain sweeps, block by block after the closure
#[derive(Clone, Debug, Serialize, Deserialize, Default)]
pub enum Traj {
	/// left alone (only `Pre::Fee` changes it)
	#[default]
	Flat,
	Rising { start: u32, pct: u8 },
	Falling { start: u32, pct: u8 },
	Spike { base: u32, peak: u32, at: u8, len: u8 },
}

impl Traj {
	fn rate(&self, k: u32) -> Option<u32> {
		let pow = |start: u32, num: u64, k: u32| -> u32 {
			let mut r = start as u64;
			for _ in 0..k.min(200) {
				r = (r * num / 100).clamp(253, 50_000);
			}
			r as u32
		};
		match self {
			Traj::Flat => None,
			Traj::Rising { start, pct } => Some(pow(*start, 100 + *pct as u64, k)),
			Traj::Falling { start, pct } => Some(pow(*start, 100 - (*pct as u64).min(90), k)),
			Traj::Spike { base, peak, at, len } => Some(if k >= *at as u32 && k < *at as u32 + *len as u32 { *peak } else { *base }),
		}
	}
}

#[derive(Clone, Debug, Serialize, Deserialize)]
pub struct Case {
	pub spec: WorldSpec,
	/// traffic before the closure (ends in a burst of sends and a partial settlement)
	pub ops: Vec<Op>,
	pub chan: u16,
	pub close: Close,
	pub steps: Vec<Step>,
	/// a valid mempool transaction is confirmed at most this many blocks after it was first seen unless a
	/// conflicting transaction confirmed first (the property presumes claims can confirm)
	pub max_delay: u8,
	/// order used by the deterministic tail (after the generated steps)
	pub tail_reverse: bool,
	#[serde(default)]
	pub traj: Traj,
}

// -------------------------------------------------------------------------------------------------
// ledger types
// -------------------------------------------------------------------------------------------------

#[derive(Clone, Debug)]
pub struct HtlcOut {
	pub vout: u32,
	/// node that offered the HTLC (its timeout path) and node that receives it (its preimage path)
	pub offerer: usize,
	pub receiver: usize,
	pub amount_msat: u64,
	pub cltv: u32,
	pub hash: [u8; 32],
	pub pay: Option<usize>,
}

impl HtlcOut {
	pub fn sat(&self) -> u64 {
		self.amount_msat / 1000
	}
}

/// A channel whose funding output was spent by a confirmed commitment transaction.
#[derive(Clone, Debug)]
pub struct Closed {
	pub chan: usize,
	pub tx: Transaction,
	pub txid: Txid,
	pub conf: u32,
	/// broadcaster (the node whose commitment transaction this is) and the other end
	pub b: usize,
	pub c: usize,
	/// CSV delay on the broadcaster's own outputs
	pub csv: u32,
	pub to_b_sat: u64,
	pub to_c_sat: u64,
	pub htlcs: Vec<HtlcOut>,
	pub anchor_vouts: Vec<u32>,
	pub main_vouts: Vec<u32>,
	/// when the peer had already signed a newer commitment for `b`: this is `b`'s previous, still unrevoked one
	pub newer_signed: bool,
	pub resolved: bool,
}

#[derive(Clone, Debug)]
pub struct Announced {
	pub node: usize,
	pub value: u64,
	pub height: u32,
	pub kind: &'static str,
	pub chan: Option<usize>,
}

#[derive(Clone, Debug)]
struct LastClaim {
	txid: Txid,
	fee: u64,
	weight: u64,
	inputs: Vec<OutPoint>,
}

#[derive(Default, Clone, Debug)]
pub struct Stats {
	pub broadcasts: u64,
	pub benign_conflicts: u64,
	pub benign_stale: u64,
	pub rbf_bumps: u64,
	pub competing: u64,
	pub competing_commitments: u64,
	pub bump_events: u64,
	pub bump_target_raises: u64,
	pub sweeps: u64,
	pub sweeps_dust_only: u64,
	pub balance_checks: u64,
	pub timeliness_checks: u64,
	pub late_claims: u64,
	pub htlc_won_by_preimage: u64,
	pub htlc_won_by_timeout: u64,
	pub blocks: u64,
	pub closed_by_api: bool,
	pub closed_by_mining: bool,
	pub closed_automatically: bool,
}

pub struct Run<'a> {
	pub case: &'a Case,
	pub sim: Sim,
	cur_log: usize,
	cur_hist: usize,
	/// every commitment transaction a node signed for its peer: txid -> (chan, signer node, tx)
	commits: BTreeMap<Txid, (usize, usize, CommitmentTransaction)>,
	/// lowest commitment number signed per (chan, signer)
	newest_signed: BTreeMap<(usize, usize), u64>,
	/// (node, chan, payment hash) -> height at which the node's monitor of that channel was handed the preimage
	preimage_known: BTreeMap<(usize, usize, [u8; 32]), u32>,
	pub closed: Vec<Closed>,
	/// first broadcaster of every transaction
	by: BTreeMap<Txid, usize>,
	harness_txs: BTreeSet<Txid>,
	sweeps: BTreeMap<Txid, usize>,
	first_seen: BTreeMap<Txid, u32>,
	pub announced: BTreeMap<OutPoint, Announced>,
	last_claim: BTreeMap<(usize, OutPoint), LastClaim>,
	/// claim id -> (last target feerate, outputs the claim spends); forgotten once those outputs are spent on chain
	bump_targets: BTreeMap<[u8; 32], (u32, Vec<OutPoint>)>,
	/// transactions a node had rejected at a height (for the stale-parent rule)
	rejected_at: BTreeMap<Txid, u32>,
	/// a (node, outpoint) for which both ends had a transaction in the mempool
	contested: BTreeSet<OutPoint>,
	pub stats: Stats,
	pub tags: Vec<&'static str>,
	pub unfinished: bool,
	/// keys listed as known findings: the first such failure is remembered and reported at the END of the case
	/// (the runner then counts the case as excluded_known), so that every other oracle is still evaluated on
	/// the rest of the case — the search continues behind a known finding
	known: Vec<String>,
	pub known_hit: Option<Failure>,
	blocks_since_close: u32,
	saw_channel_closed: bool,
}

pub fn cold_script(node: usize) -> ScriptBuf {
	// where the harness sweeps every SpendableOutputs descriptor of `node` ("the node's keys")
	let h = bitcoin::hashes::sha256::Hash::hash(&[0xC0, 0x7C, node as u8]);
	ScriptBuf::new_p2wsh(&bitcoin::WScriptHash::from_byte_array(h.to_byte_array()))
}

fn fail(oracle: &str, detail: String) -> Failure {
	Failure::new(oracle, detail)
}

fn is_p2a(s: &ScriptBuf) -> bool {
	s.as_bytes() == [0x51, 0x02, 0x4e, 0x73]
}

impl<'a> Run<'a> {
	pub fn new(case: &'a Case) -> Run<'a> {
		let mut spec = case.spec.clone();
		spec.deferred = false;
		let mut sim = spec.build(false);
		// plenty of confirmed wallet UTXOs: anchor claims must never fail for lack of coins (coin-selection
		// failures are the wallet's business, not the monitor's)
		if spec.ctype != CType::Static {
			sim.fund_wallets(28);
		}
		let mut r = Run {
			case,
			sim,
			cur_log: 0,
			cur_hist: 0,
			commits: BTreeMap::new(),
			newest_signed: BTreeMap::new(),
			preimage_known: BTreeMap::new(),
			closed: vec![],
			by: BTreeMap::new(),
			harness_txs: BTreeSet::new(),
			sweeps: BTreeMap::new(),
			first_seen: BTreeMap::new(),
			announced: BTreeMap::new(),
			last_claim: BTreeMap::new(),
			bump_targets: BTreeMap::new(),
			rejected_at: BTreeMap::new(),
			contested: BTreeSet::new(),
			stats: Stats::default(),
			tags: vec![],
			unfinished: false,
			known: vcore::load_known_findings("C07").into_iter().filter(|k| k.status == "known").map(|k| k.key).collect(),
			known_hit: None,
			blocks_since_close: 0,
			saw_channel_closed: false,
		};
		// broadcasts during channel establishment are not part of the case
		r.cur_log = r.sim.log.len();
		r
	}

	fn n(&self) -> usize {
		self.sim.w.n
	}

	fn funding_outpoint(&self, chan: usize) -> OutPoint {
		OutPoint { txid: self.sim.chans[chan].funding_tx.compute_txid(), vout: 0 }
	}

	fn prevout(&self, op: &OutPoint) -> Option<bitcoin::TxOut> {
		if let Some(u) = self.sim.chain.utxo.get(op) {
			return Some(u.out.clone());
		}
		self.sim.chain.seen.get(&op.txid).and_then(|t| t.output.get(op.vout as usize).cloned())
	}

	fn fee_of(&self, tx: &Transaction) -> Option<u64> {
		let mut i = 0u64;
		for inp in tx.input.iter() {
			i += self.prevout(&inp.previous_output)?.value.to_sat();
		}
		let o: u64 = tx.output.iter().map(|o| o.value.to_sat()).sum();
		i.checked_sub(o)
	}

	fn is_wallet_script(&self, s: &ScriptBuf) -> bool {
		(0..self.n()).any(|i| lightning::util::wallet_utils::WalletSourceSync::get_change_script(&*self.sim.w.nodes[i].wallet_source).map(|w| w == *s).unwrap_or(false))
	}

	// ---------------------------------------------------------------------------------------------
	// history intake: signer + persister facts
	// ---------------------------------------------------------------------------------------------

	fn intake_hist(&mut self) {
		let evs = hist_since(self.cur_hist);
		self.cur_hist += evs.len();
		let height = self.sim.chain.height();
		for (_, ev) in evs {
			match ev {
				HEvent::SignCounterparty { node, tx, params, .. } => {
					let Some(fo) = params.funding_outpoint else { continue };
					let Some(chan) = self.sim.chans.iter().position(|c| c.funding_tx.compute_txid() == fo.txid) else { continue };
					let num = tx.commitment_number();
					let e = self.newest_signed.entry((chan, node)).or_insert(num);
					if num < *e {
						*e = num;
					}
					self.commits.insert(tx.trust().txid(), (chan, node, tx));
				},
				HEvent::PersistUpdate { node, chan, steps, debug, .. } => {
					if !steps.iter().any(|s| s == "PaymentPreimage") {
						continue;
					}
					let Some(ci) = self.sim.chans.iter().position(|c| c.id == chan) else { continue };
					for p in self.sim.pays.iter() {
						if debug.contains(&format!("{:?}", p.preimage)) {
							self.preimage_known.entry((node, ci, p.hash.0)).or_insert(height);
						}
					}
				},
				_ => {},
			}
		}
	}

	// ---------------------------------------------------------------------------------------------
	// (a) validity of everything handed to the broadcaster, (c) fee monotonicity
	// ---------------------------------------------------------------------------------------------

	fn intake_log(&mut self) -> CaseResult {
		let entries: Vec<(u64, SEvent)> = self.sim.log[self.cur_log..].to_vec();
		self.cur_log += entries.len();
		// bump events of this batch, matched to the transactions that follow them
		let mut pending_bumps: Vec<(usize, BumpTransactionEvent)> = vec![];
		for (_, ev) in entries {
			match ev {
				SEvent::Broadcast { node, tx, height, verdict } => {
					self.stats.broadcasts += 1;
					let txid = tx.compute_txid();
					self.by.entry(txid).or_insert(node);
					self.first_seen.entry(txid).or_insert(height);
					let j = self.judge_broadcast(node, &tx, height, &verdict);
					self.soft(j)?;
					if matches!(verdict, Ok(_) | Err(Reject::MempoolConflict(_))) {
						self.fee_monotone(node, &tx)?;
						self.bump_tx_meets_target(node, &tx, &mut pending_bumps)?;
					}
				},
				SEvent::Ldk { node, ev: Event::BumpTransaction(b) } => {
					self.stats.bump_events += 1;
					let (id, target, ops) = match &b {
						BumpTransactionEvent::ChannelClose { claim_id, package_target_feerate_sat_per_1000_weight, commitment_tx, .. } => (claim_id.0, *package_target_feerate_sat_per_1000_weight, commitment_tx.input.iter().map(|i| i.previous_output).collect::<Vec<_>>()),
						BumpTransactionEvent::HTLCResolution { claim_id, target_feerate_sat_per_1000_weight, htlc_descriptors, .. } => (claim_id.0, *target_feerate_sat_per_1000_weight, htlc_descriptors.iter().map(|d| d.outpoint()).collect::<Vec<_>>()),
					};
					// a claim whose outputs were all spent on chain is over; the id may be reused by a new claim
					let chain = &self.sim.chain;
					self.bump_targets.retain(|_, (_, o)| o.iter().any(|x| chain.is_unspent(x)));
					// (c) the feerate a claim asks its wallet for never decreases while the claim is pending
					if let Some((prev, _)) = self.bump_targets.get(&id) {
						// 2 % tolerance as for (c) in general: LDK re-derives the rate from an integer fee / weight
						if (target as u64) * 100 < (*prev as u64) * 98 {
							return Err(fail("bump-target-decreased", format!("node {} BumpTransaction for claim {} asks for {} sat/kw after having asked for {}", node, vcore::hex(&id[..4]), target, prev)));
						}
						if target > *prev {
							self.stats.bump_target_raises += 1;
						}
					}
					self.bump_targets.insert(id, (target, ops));
					pending_bumps.push((node, b));
				},
				SEvent::Ldk { ev: Event::ChannelClosed { .. }, .. } => self.saw_channel_closed = true,
				SEvent::Ldk { node, ev: Event::SpendableOutputs { outputs, channel_id, .. } } => {
					let chan = channel_id.and_then(|id| self.sim.chans.iter().position(|c| c.id == id));
					let height = self.sim.chain.height();
					for d in outputs.iter() {
						let (op, value, kind) = match d {
							SpendableOutputDescriptor::StaticOutput { outpoint, output, .. } => (outpoint.into_bitcoin_outpoint(), output.value.to_sat(), "static"),
							SpendableOutputDescriptor::DelayedPaymentOutput(x) => (x.outpoint.into_bitcoin_outpoint(), x.output.value.to_sat(), "delayed"),
							SpendableOutputDescriptor::StaticPaymentOutput(x) => (x.outpoint.into_bitcoin_outpoint(), x.output.value.to_sat(), "static-payment"),
						};
						// (d) no double counting: an output is announced once, to one node
						if let Some(prev) = self.announced.get(&op) {
							return Err(fail("descriptor-announced-twice", format!("output {} announced as spendable to node {} at height {} and again to node {} at height {}", op, prev.node, prev.height, node, height)));
						}
						self.announced.insert(op, Announced { node, value, height, kind, chan });
					}
				},
				_ => {},
			}
		}
		Ok(())
	}

	/// (a) DESIGN C07: a transaction handed to the broadcaster must be valid for the next block. Benign
	/// verdicts: `Duplicate` (rebroadcast), `MempoolConflict` (RBF of an own claim / race with the peer's
	/// claim: which one confirms is the miner's choice), and *stale* spends that lost to a transaction
	/// confirmed in the very block the node is processing (the claim was generated before the node could know).
	fn judge_broadcast(&mut self, node: usize, tx: &Transaction, height: u32, verdict: &Result<u64, Reject>) -> CaseResult {
		let txid = tx.compute_txid();
		let describe = |r: &Run| format!("node {} broadcast {} at height {} ({} in / {} out, locktime {}, inputs {:?}): {:?}", node, txid, height, tx.input.len(), tx.output.len(), tx.lock_time, tx.input.iter().map(|i| i.previous_output).collect::<Vec<_>>(), verdict.as_ref().err().map(|e| format!("{:?}", e)).unwrap_or_default()) + &r.tx_context(tx);
		match verdict {
			Ok(_) | Err(Reject::Duplicate) => Ok(()),
			Err(Reject::MempoolConflict(_)) => {
				self.stats.benign_conflicts += 1;
				if tx.input.iter().any(|i| self.sim.chans.iter().any(|c| c.funding_tx.compute_txid() == i.previous_output.txid)) {
					self.stats.competing_commitments += 1;
				}
				Ok(())
			},
			Err(Reject::AlreadySpent(_, by)) => {
				let conf = self.sim.chain.confirmed.get(by).map(|(_, h)| *h);
				if conf == Some(height) {
					self.stats.benign_stale += 1;
					self.rejected_at.insert(txid, height);
					Ok(())
				} else {
					let depth = conf.map(|h| height + 1 - h).unwrap_or(0);
					let who = match self.by.get(by) {
						Some(n) if *n == node => "by-self",
						Some(_) => "by-peer",
						None => "by-harness",
					};
					let key = format!("broadcast/already-spent/{}/{}/{}", self.classify(node, tx), who, if depth >= ANTI_REORG_DELAY { "buried" } else { "recent" });
					Err(fail("broadcast-spends-spent-output", format!("{} [conflicting spend has {} confirmations]", describe(self), depth)).with_key(key))
				}
			},
			Err(Reject::MissingInput(op)) => {
				// benign only as the child of a transaction that itself just became stale
				let parent_rejected_now = self.rejected_at.get(&op.txid) == Some(&height);
				let parent_conflicted_now = self.sim.chain.seen.get(&op.txid).map(|p| !self.sim.chain.confirmed.contains_key(&op.txid) && p.input.iter().any(|i| self.sim.chain.spent_by.get(&i.previous_output).and_then(|s| self.sim.chain.confirmed.get(s)).map(|(_, h)| *h == height).unwrap_or(false))).unwrap_or(false);
				if parent_rejected_now || parent_conflicted_now {
					self.stats.benign_stale += 1;
					self.rejected_at.insert(txid, height);
					Ok(())
				} else {
					let key = format!("broadcast/missing-input/{}", self.classify(node, tx));
					Err(fail("broadcast-spends-unknown-output", describe(self)).with_key(key))
				}
			},
			Err(Reject::Script(_)) => Err(fail("broadcast-script-invalid", describe(self)).with_key(format!("broadcast/script/{}", self.classify(node, tx)))),
			Err(Reject::NonFinal { .. }) => Err(fail("broadcast-non-final", describe(self)).with_key(format!("broadcast/non-final/{}", self.classify(node, tx)))),
			Err(Reject::CsvImmature { .. }) => Err(fail("broadcast-csv-immature", describe(self)).with_key(format!("broadcast/csv/{}", self.classify(node, tx)))),
			Err(Reject::NegativeFee { .. }) => Err(fail("broadcast-negative-fee", describe(self)).with_key(format!("broadcast/negative-fee/{}", self.classify(node, tx)))),
		}
	}

	/// what kind of claim a transaction is, relative to the confirmed commitments (for failure keys)
	fn classify(&self, node: usize, tx: &Transaction) -> String {
		for i in tx.input.iter() {
			let op = i.previous_output;
			if self.sim.chans.iter().any(|c| c.funding_tx.compute_txid() == op.txid) {
				return "commitment".into();
			}
			if let Some(cl) = self.closed.iter().find(|c| c.txid == op.txid) {
				let side = if node == cl.b { "holder" } else { "counterparty" };
				if let Some(h) = cl.htlcs.iter().find(|h| h.vout == op.vout) {
					return format!("{}-htlc-{}", side, if h.offerer == node { "timeout" } else { "preimage" });
				}
				if cl.anchor_vouts.contains(&op.vout) {
					return format!("{}-anchor", side);
				}
				return format!("{}-balance-output", side);
			}
			// an output of a known commitment that did not confirm
			if self.commits.contains_key(&op.txid) {
				return "unconfirmed-commitment-output".into();
			}
		}
		"other".into()
	}

	fn tx_context(&self, tx: &Transaction) -> String {
		let mut s = String::new();
		for i in tx.input.iter() {
			if let Some(cl) = self.closed.iter().find(|c| c.txid == i.previous_output.txid) {
				s.push_str(&format!(" [spends output {} of the confirmed commitment of node {} (chan {}, conf {})]", i.previous_output.vout, cl.b, cl.chan, cl.conf));
			}
		}
		s
	}

	/// (c) while an output is unspent, every re-issue of this node's claim of it pays at least the feerate
	/// (and, for the same input set, the absolute fee) of the previous one; 2 % tolerance for signature sizes.
	fn fee_monotone(&mut self, node: usize, tx: &Transaction) -> CaseResult {
		let txid = tx.compute_txid();
		if self.sweeps.contains_key(&txid) {
			return Ok(());
		}
		let Some(fee) = self.fee_of(tx) else { return Ok(()) };
		let weight = tx.weight().to_wu();
		let mut inputs: Vec<OutPoint> = tx.input.iter().map(|i| i.previous_output).collect();
		inputs.sort();
		for inp in tx.input.iter() {
			let op = inp.previous_output;
			// wallet coins are not claims
			if self.prevout(&op).map(|o| self.is_wallet_script(&o.script_pubkey)).unwrap_or(false) {
				continue;
			}
			// the funding output is spent by the pre-signed commitment only
			if self.sim.chans.iter().any(|c| c.funding_tx.compute_txid() == op.txid) {
				continue;
			}
			// the child spending a commitment's anchor pays for the package; its own feerate is meaningless
			// (checked as a package against the BumpTransaction target instead)
			let is_anchor = self.commits.contains_key(&op.txid) && self.prevout(&op).map(|o| o.value.to_sat() == 330 || is_p2a(&o.script_pubkey)).unwrap_or(false);
			if is_anchor {
				continue;
			}
			if let Some(prev) = self.last_claim.get(&(node, op)) {
				if prev.txid != txid {
					self.stats.rbf_bumps += 1;
					// feerate comparison by cross-multiplication: fee/weight >= 0.98 * prev.fee/prev.weight
					let lhs = fee as u128 * prev.weight as u128 * 100;
					let rhs = prev.fee as u128 * weight as u128 * 98;
					if lhs < rhs {
						// listed root cause seen from another side: the remainder of a split aggregated claim inherits the
						// aggregate's feerate; when its own value cannot pay that feerate the library (after having
						// logged the bump refusal) re-issues it with the output floored at the dust limit, i.e. at a
						// lower effective feerate than the aggregate paid
						let remainder = inputs.len() < prev.inputs.len() && inputs.iter().all(|i| prev.inputs.contains(i));
						let key = if remainder && self.bump_refusal_logged(node) { "claim-feerate-decreased/split-remainder-cannot-sustain-inherited-feerate" } else { "claim-feerate-decreased" };
						return Err(fail(
							"claim-feerate-decreased",
							format!("node {} re-issued its claim of {} as {} paying {} sat / {} wu after {} paying {} sat / {} wu", node, op, txid, fee, weight, prev.txid, prev.fee, prev.weight),
						)
						.with_key(key));
					}
					if prev.inputs == inputs && (fee as u128) * 100 < (prev.fee as u128) * 98 {
						return Err(fail("claim-fee-decreased", format!("node {} re-issued its claim of {:?} as {} paying {} sat after {} paying {} sat", node, inputs, txid, fee, prev.txid, prev.fee)));
					}
				}
			}
			self.last_claim.insert((node, op), LastClaim { txid, fee, weight, inputs: inputs.clone() });
			// both ends now have a transaction for this output
			if (0..self.n()).any(|o| o != node && self.last_claim.contains_key(&(o, op))) {
				if self.contested.insert(op) {
					self.stats.competing += 1;
				}
			}
		}
		Ok(())
	}

	/// (c) a transaction built for a `BumpTransaction` event pays at least the feerate the event asked for
	/// (for a commitment bump: the parent + child package does).
	fn bump_tx_meets_target(&mut self, node: usize, tx: &Transaction, pending: &mut Vec<(usize, BumpTransactionEvent)>) -> CaseResult {
		let Some(fee) = self.fee_of(tx) else { return Ok(()) };
		let weight = tx.weight().to_wu();
		let mut done = None;
		for (k, (n, b)) in pending.iter().enumerate() {
			if *n != node {
				continue;
			}
			match b {
				BumpTransactionEvent::HTLCResolution { htlc_descriptors, target_feerate_sat_per_1000_weight, .. } => {
					if htlc_descriptors.iter().any(|d| tx.input.iter().any(|i| i.previous_output == d.outpoint())) {
						if (fee as u128) * 1000 * 100 < (*target_feerate_sat_per_1000_weight as u128) * weight as u128 * 98 {
							return Err(fail("bump-below-target", format!("node {} HTLC transaction {} pays {} sat / {} wu, below the {} sat/kw the monitor asked for", node, tx.compute_txid(), fee, weight, target_feerate_sat_per_1000_weight)));
						}
						done = Some(k);
						break;
					}
				},
				BumpTransactionEvent::ChannelClose { anchor_descriptor, package_target_feerate_sat_per_1000_weight, commitment_tx, commitment_tx_fee_satoshis, .. } => {
					if tx.input.iter().any(|i| i.previous_output == anchor_descriptor.outpoint) {
						let pfee = fee + *commitment_tx_fee_satoshis;
						let pw = weight + commitment_tx.weight().to_wu();
						if (pfee as u128) * 1000 * 100 < (*package_target_feerate_sat_per_1000_weight as u128) * pw as u128 * 98 {
							return Err(fail("bump-below-target", format!("node {} commitment package (child {}) pays {} sat / {} wu, below the {} sat/kw the monitor asked for", node, tx.compute_txid(), pfee, pw, package_target_feerate_sat_per_1000_weight)));
						}
						done = Some(k);
						break;
					}
				},
			}
		}
		if let Some(k) = done {
			pending.remove(k);
		}
		Ok(())
	}

	// ---------------------------------------------------------------------------------------------
	// closure detection and decoding of the confirmed commitment
	// ---------------------------------------------------------------------------------------------

	fn detect_closures(&mut self) {
		for chan in 0..self.sim.chans.len() {
			if self.closed.iter().any(|c| c.chan == chan) {
				continue;
			}
			let fo = self.funding_outpoint(chan);
			let Some(spender) = self.sim.chain.spent_by.get(&fo).cloned() else { continue };
			let Some((tx, conf)) = self.sim.chain.confirmed.get(&spender).cloned() else { continue };
			let Some((_, signer, ctx)) = self.commits.get(&spender).cloned() else { continue };
			let info = self.sim.chans[chan].clone();
			let b = if signer == info.a { info.b } else { info.a };
			let c = signer;
			// to_self_delay in open_channel / accept_channel is what the sender imposes on its *peer*
			let csv = if b == info.a { info.accept.common_fields.to_self_delay } else { info.open.common_fields.to_self_delay } as u32;
			let mut htlcs = vec![];
			for h in ctx.nondust_htlcs().iter() {
				let Some(vout) = h.transaction_output_index else { continue };
				let (offerer, receiver) = if h.offered { (b, c) } else { (c, b) };
				let pay = self.sim.pays.iter().position(|p| p.hash == h.payment_hash);
				htlcs.push(HtlcOut { vout, offerer, receiver, amount_msat: h.amount_msat, cltv: h.cltv_expiry, hash: h.payment_hash.0, pay });
			}
			let zero_fee = self.case.spec.ctype == CType::ZeroFee;
			let anchors = self.case.spec.ctype == CType::Anchors;
			let mut anchor_vouts = vec![];
			let mut main_vouts = vec![];
			for (i, o) in tx.output.iter().enumerate() {
				let i = i as u32;
				if htlcs.iter().any(|h| h.vout == i) {
					continue;
				}
				// BOLT-3: anchor outputs are 330 sat (below every dust limit, so nothing else has that value);
				// zero-fee commitments carry one shared P2A output instead
				if (anchors && o.value.to_sat() == 330) || (zero_fee && is_p2a(&o.script_pubkey)) {
					anchor_vouts.push(i);
				} else {
					main_vouts.push(i);
				}
			}
			let newer_signed = self.newest_signed.get(&(chan, c)).map(|n| *n < ctx.commitment_number()).unwrap_or(false);
			self.closed.push(Closed {
				chan,
				tx,
				txid: spender,
				conf,
				b,
				c,
				csv,
				to_b_sat: ctx.to_broadcaster_value_sat(),
				to_c_sat: ctx.to_countersignatory_value_sat(),
				htlcs,
				anchor_vouts,
				main_vouts,
				newer_signed,
				resolved: false,
			});
		}
	}

	/// confirmed spender of an output: (transaction, height, broadcasting node if it was a node's transaction)
	fn spender(&self, op: &OutPoint) -> Option<(Transaction, u32, Option<usize>)> {
		let s = self.sim.chain.spent_by.get(op)?;
		let (tx, h) = self.sim.chain.confirmed.get(s)?;
		Some((tx.clone(), *h, self.by.get(s).cloned()))
	}

	fn balances(&self, node: usize, chan: usize) -> Option<Vec<Balance>> {
		let id = self.sim.chans[chan].id;
		self.sim.w.nodes[node].chain_monitor.chain_monitor.get_monitor(id).ok().map(|m| m.get_claimable_balances())
	}

	// ---------------------------------------------------------------------------------------------
	// (d) claimable balances equal what is still owed, output by output
	// ---------------------------------------------------------------------------------------------

	fn check_balances(&mut self) -> CaseResult {
		let height = self.sim.chain.height();
		for cl in self.closed.clone().iter() {
			for node in [cl.b, cl.c] {
				let Some(mut actual) = self.balances(node, cl.chan) else { continue };
				// a zero-valued entry (LDK reports its absent balance output as "0 sat awaiting confirmations")
				// claims nothing and is ignored
				actual.retain(|b| !matches!(b, Balance::ClaimableAwaitingConfirmations { amount_satoshis: 0, .. }));
				self.stats.balance_checks += 1;
				let slots = self.expected_balances(cl, node, height);
				let mut used = vec![false; slots.len()];
				for bal in actual.iter() {
					let mut hit = None;
					for (k, s) in slots.iter().enumerate() {
						if !used[k] && s.shapes.iter().any(|sh| sh.matches(bal)) {
							hit = Some(k);
							break;
						}
					}
					match hit {
						Some(k) => used[k] = true,
						None => {
							return Err(fail(
								"balance-unexpected",
								format!("node {} chan {} at height {} (commitment of node {} confirmed at {}): reports {:?} which matches nothing it is still owed.\n expected: {}\n reported: {:?}", node, cl.chan, height, cl.b, cl.conf, bal, render_slots(&slots), actual),
							)
							.with_key(format!("balance-unexpected/{}", balance_kind(bal))));
						},
					}
				}
				for (k, s) in slots.iter().enumerate() {
					if s.required && !used[k] {
						return Err(fail(
							"balance-missing",
							format!("node {} chan {} at height {} (commitment of node {} confirmed at {}): nothing reported for {}.\n expected: {}\n reported: {:?}", node, cl.chan, height, cl.b, cl.conf, s.what, render_slots(&slots), actual),
						)
						.with_key(format!("balance-missing/{}", s.kind)));
					}
				}
			}
		}
		Ok(())
	}

	fn expected_balances(&self, cl: &Closed, node: usize, height: u32) -> Vec<Slot> {
		let mut slots = vec![];
		let ard = ANTI_REORG_DELAY;
		// the node's own balance output
		let (main_sat, main_th, src) = if node == cl.b { (cl.to_b_sat, cl.conf + ard.max(cl.csv) - 1, BalanceSource::HolderForceClosed) } else { (cl.to_c_sat, cl.conf + ard - 1, BalanceSource::CounterpartyForceClosed) };
		if main_sat > 0 {
			let announced = self.announced.iter().any(|(op, a)| op.txid == cl.txid && a.node == node && cl.main_vouts.contains(&op.vout));
			if !announced {
				slots.push(Slot { required: true, kind: "main", what: format!("its own balance output of {} sat (spendable-event height {})", main_sat, main_th), shapes: vec![Shape::Awaiting { amt: main_sat, height: Some(main_th), src: Some(src) }] });
			}
		}
		for h in cl.htlcs.iter() {
			let op = OutPoint { txid: cl.txid, vout: h.vout };
			let is_offerer = h.offerer == node;
			let knows = self.preimage_known.contains_key(&(node, cl.chan, h.hash));
			let unresolved_shape = if is_offerer {
				Shape::MaybeTimeout { amt: h.sat(), height: h.cltv, hash: h.hash, outbound_payment: h.pay.map(|p| self.sim.pays[p].from == node) }
			} else if knows {
				Shape::Contentious { amt: h.sat(), timeout: h.cltv, hash: h.hash }
			} else {
				Shape::MaybePreimage { amt: h.sat(), expiry: h.cltv, hash: h.hash }
			};
			match self.spender(&op) {
				None => slots.push(Slot { required: true, kind: if is_offerer { "htlc-offered" } else if knows { "htlc-received-preimage-known" } else { "htlc-received" }, what: format!("the unspent HTLC output {} ({} sat, expiry {}, {})", h.vout, h.sat(), h.cltv, if is_offerer { "offered by it" } else if knows { "received, preimage known" } else { "received, preimage unknown" }), shapes: vec![unresolved_shape] }),
				Some((stx, x, by)) => {
					if by == Some(node) {
						// own claim confirmed: owed until the output it created is announced as spendable
						let (dop, th) = if node == cl.b {
							let idx = stx.input.iter().position(|i| i.previous_output == op).unwrap_or(0) as u32;
							(OutPoint { txid: stx.compute_txid(), vout: idx }, x + ard.max(cl.csv) - 1)
						} else {
							(OutPoint { txid: stx.compute_txid(), vout: 0 }, x + ard - 1)
						};
						if !self.announced.contains_key(&dop) {
							slots.push(Slot { required: true, kind: "htlc-claimed-awaiting", what: format!("the HTLC output {} ({} sat) it claimed at height {} (spendable-event height {})", h.vout, h.sat(), x, th), shapes: vec![Shape::Awaiting { amt: h.sat(), height: Some(th), src: Some(BalanceSource::Htlc) }] });
						}
					} else if height < x + ard - 1 {
						// lost to the peer; the documentation lets the old balance linger until the peer's spend is
						// ANTI_REORG_DELAY deep
						slots.push(Slot { required: false, kind: "htlc-lost-grace", what: String::new(), shapes: vec![unresolved_shape] });
					}
				},
			}
		}
		slots
	}

	// ---------------------------------------------------------------------------------------------
	// (b) timeliness: claims exist as soon as they are possible
	// ---------------------------------------------------------------------------------------------

	/// the node's log contains the library's refusal to build a claim because the bumped fee would leave less than
	/// the dust limit (only reachable on the fee-bump path, i.e. for a claim that descends from an earlier one)
	fn bump_refusal_logged(&self, node: usize) -> bool {
		self.sim.w.noted(node, "bump-refused-below-dust")
	}

	fn node_has_mempool_spend(&self, node: usize, op: &OutPoint) -> bool {
		self.sim.chain.mempool.iter().any(|t| t.input.iter().any(|i| i.previous_output == *op) && self.by.get(&t.compute_txid()) == Some(&node))
	}

	fn check_timeliness(&mut self) -> CaseResult {
		let height = self.sim.chain.height();
		for cl in self.closed.iter() {
			for h in cl.htlcs.iter() {
				let op = OutPoint { txid: cl.txid, vout: h.vout };
				if !self.sim.chain.is_unspent(&op) {
					continue;
				}
				self.stats.timeliness_checks += 1;
				// inbound HTLC whose preimage the monitor was given: a valid claim must be out
				if self.preimage_known.contains_key(&(h.receiver, cl.chan, h.hash)) && !self.node_has_mempool_spend(h.receiver, &op) {
					let refused = self.last_refused_spend(h.receiver, &op);
					let why = if self.bump_refusal_logged(h.receiver) {
						// listed root cause: the node logged that it cannot bump the remainder of a split claim below the dust
						// limit and issues nothing for it any more
						"claim-aggregated-with-spent-output".to_string()
					} else {
						match &refused {
							Some((_, Reject::AlreadySpent(o, _))) if *o != op => "claim-spends-already-spent-output".to_string(),
							Some((_, r)) => format!("claim-refused-{}", reject_kind(r)),
							None => "no-claim".to_string(),
						}
					};
					return Err(fail(
						"inbound-htlc-not-claimed",
						format!("node {} knows the preimage of the unspent HTLC output {}:{} ({} sat, expiry {}) on the commitment of node {} confirmed at {}, but at height {} it has no valid claim of it in the mempool (last refused attempt: {:?})", h.receiver, cl.txid, h.vout, h.sat(), h.cltv, cl.b, cl.conf, height, refused),
					)
					.with_key(format!("inbound-htlc-not-claimed/{}/{}", if h.receiver == cl.b { "holder" } else { "counterparty" }, why)));
				}
				// outbound HTLC: from its expiry on (a transaction with nLockTime = expiry is final in block expiry+1)
				if height >= h.cltv && !self.node_has_mempool_spend(h.offerer, &op) {
					let refused = self.last_refused_spend(h.offerer, &op);
					let why = if self.bump_refusal_logged(h.offerer) {
						// listed root cause: the node logged that it cannot bump the remainder of a split claim below the dust
						// limit and issues nothing for it any more
						"claim-aggregated-with-spent-output".to_string()
					} else {
						match &refused {
							Some((_, Reject::AlreadySpent(o, _))) if *o != op => "claim-spends-already-spent-output".to_string(),
							Some((_, r)) => format!("claim-refused-{}", reject_kind(r)),
							None => "no-claim".to_string(),
						}
					};
					return Err(fail(
						"outbound-htlc-not-timed-out",
						format!("node {} offered the unspent HTLC output {}:{} ({} sat) which expired at {}, commitment of node {} confirmed at {}; at height {} it has no valid timeout claim in the mempool (last refused attempt: {:?})", h.offerer, cl.txid, h.vout, h.sat(), h.cltv, cl.b, cl.conf, height, refused),
					)
					.with_key(format!("outbound-htlc-not-timed-out/{}/{}", if h.offerer == cl.b { "holder" } else { "counterparty" }, why)));
				}
			}
		}
		Ok(())
	}

	// ---------------------------------------------------------------------------------------------
	// (e) every SpendableOutputs descriptor is spendable at the moment it is announced
	// ---------------------------------------------------------------------------------------------

	fn sweep(&mut self, node: usize, outputs: &[SpendableOutputDescriptor]) -> CaseResult {
		let secp = Secp256k1::new();
		let descs: Vec<&SpendableOutputDescriptor> = outputs.iter().collect();
		let height = self.sim.chain.height();
		let res = self.sim.w.nodes[node].keys_manager.backing.spend_spendable_outputs(&descs, vec![], cold_script(node), 253, None, &secp);
		let tx = match res {
			Ok(tx) => tx,
			Err(()) => {
				return Err(fail("descriptor-unspendable", format!("node {}: spend_spendable_outputs failed at height {} for {:?}", node, height, outputs)));
			},
		};
		// (d) the descriptor states the real output
		for d in outputs.iter() {
			let (op, out) = match d {
				SpendableOutputDescriptor::StaticOutput { outpoint, output, .. } => (outpoint.into_bitcoin_outpoint(), output.clone()),
				SpendableOutputDescriptor::DelayedPaymentOutput(x) => (x.outpoint.into_bitcoin_outpoint(), x.output.clone()),
				SpendableOutputDescriptor::StaticPaymentOutput(x) => (x.outpoint.into_bitcoin_outpoint(), x.output.clone()),
			};
			match self.sim.chain.utxo.get(&op) {
				Some(u) if u.out == out => {},
				other => {
					return Err(fail("descriptor-wrong-output", format!("node {}: descriptor for {} states {:?} but the chain has {:?}", node, op, out, other.map(|u| &u.out))));
				},
			}
		}
		match self.sim.chain.check_tx(&tx, height + 1, &HashMap::new(), false) {
			Ok(_) => {},
			Err(e) => {
				return Err(fail(
					"descriptor-sweep-invalid",
					format!("node {}: the transaction spend_spendable_outputs built at height {} for {:?} is not valid in the next block: {:?}", node, height, outputs.iter().map(describe_desc).collect::<Vec<_>>(), e),
				)
				.with_key(format!("descriptor-sweep-invalid/{}", reject_kind(&e))));
			},
		}
		self.stats.sweeps += 1;
		if tx.output.is_empty() {
			// everything went to fees (a lone dust-sized output): valid scripts, nothing left to own
			self.stats.sweeps_dust_only += 1;
		}
		let txid = tx.compute_txid();
		self.sweeps.insert(txid, node);
		self.harness_txs.insert(txid);
		self.first_seen.insert(txid, height);
		let _ = self.sim.chain.broadcast(&tx);
		Ok(())
	}

	// ---------------------------------------------------------------------------------------------
	// driving
	// ---------------------------------------------------------------------------------------------

	/// take in everything recorded since the last call and evaluate the per-step oracles
	pub fn observe(&mut self) -> CaseResult {
		self.sim.drain_all();
		self.intake_hist();
		self.intake_log()?;
		self.detect_closures();
		Ok(())
	}

	fn process_all_events(&mut self, pump: bool) -> CaseResult {
		for _ in 0..6 {
			let mut progress = false;
			for i in 0..self.n() {
				let evs = self.sim.process_events(i);
				if !evs.is_empty() {
					progress = true;
				}
				// record first (so that the announcement is known), then sweep
				self.observe()?;
				for ev in evs.iter() {
					if let Event::SpendableOutputs { outputs, .. } = ev {
						self.sweep(i, outputs)?;
					}
				}
			}
			if pump {
				let live: Vec<(usize, usize)> = self.sim.links.iter().filter(|(k, q)| !q.is_empty() && self.sim.is_connected(k.0, k.1)).map(|(k, _)| *k).collect();
				for (f, t) in live {
					while self.sim.queued(f, t) > 0 && self.sim.is_connected(f, t) {
						self.sim.deliver(f, t, 1);
						progress = true;
					}
				}
				for i in 0..self.n() {
					if self.sim.w.nodes[i].node.needs_pending_htlc_processing() {
						self.sim.process_forwards(i);
						progress = true;
					}
				}
			}
			if !progress {
				break;
			}
		}
		self.observe()
	}

	fn prune_orphans(&mut self) {
		loop {
			let pool: Vec<Transaction> = self.sim.chain.mempool.clone();
			let ids: BTreeSet<Txid> = pool.iter().map(|t| t.compute_txid()).collect();
			let before = pool.len();
			let chain = &self.sim.chain;
			let keep: Vec<Transaction> = pool.into_iter().filter(|t| t.input.iter().all(|i| chain.utxo.contains_key(&i.previous_output) || ids.contains(&i.previous_output.txid))).collect();
			let after = keep.len();
			self.sim.chain.mempool = keep;
			if after == before {
				break;
			}
		}
	}

	fn select(&self, incl: &Incl) -> Vec<Transaction> {
		let h = self.sim.chain.height();
		let pool = self.sim.chain.mempool.clone();
		let overdue = |t: &Transaction| h.saturating_sub(*self.first_seen.get(&t.compute_txid()).unwrap_or(&h)) >= self.case.max_delay as u32;
		match incl {
			Incl::All => pool,
			Incl::Reverse => pool.into_iter().rev().collect(),
			Incl::Overdue => pool.into_iter().filter(|t| overdue(t)).collect(),
			Incl::Pick(p) => {
				let k = pick(*p, pool.len());
				pool.iter().enumerate().filter(|(i, t)| *i == k || overdue(t)).map(|(_, t)| t.clone()).collect()
			},
			Incl::Prefer(n) => {
				let n = pick(*n, self.n());
				let (mut a, b): (Vec<Transaction>, Vec<Transaction>) = pool.into_iter().partition(|t| self.by.get(&t.compute_txid()) == Some(&n));
				a.extend(b);
				a
			},
		}
	}

	/// failures listed as known findings do not end the case, see `known`
	fn soft(&mut self, r: CaseResult) -> CaseResult {
		match r {
			Err(f) if self.known.iter().any(|k| *k == f.key) => {
				if self.known_hit.is_none() {
					self.known_hit = Some(f);
				}
				Ok(())
			},
			other => other,
		}
	}

	/// the most recent transaction of `node` spending `op` that the consensus simulator refused, and why
	fn last_refused_spend(&self, node: usize, op: &OutPoint) -> Option<(Txid, Reject)> {
		self.sim.log.iter().rev().find_map(|(_, e)| match e {
			SEvent::Broadcast { node: n, tx, verdict: Err(r), .. } if *n == node && !matches!(r, Reject::Duplicate | Reject::MempoolConflict(_)) && tx.input.iter().any(|i| i.previous_output == *op) => Some((tx.compute_txid(), r.clone())),
			_ => None,
		})
	}

	pub fn block(&mut self, incl: &Incl, pump: bool) -> CaseResult {
		if let Some(rate) = self.case.traj.rate(self.blocks_since_close) {
			for i in 0..self.n() {
				self.set_sweep_feerate(i, rate);
			}
		}
		self.blocks_since_close += 1;
		self.prune_orphans();
		let txs = self.select(incl);
		self.sim.mine_block(txs);
		self.stats.blocks += 1;
		self.observe()?;
		self.process_all_events(pump)?;
		self.prune_orphans();
		self.step_checks()?;
		self.sim.trim();
		Ok(())
	}

	/// the per-block oracles (d) and (b)
	fn step_checks(&mut self) -> CaseResult {
		let r = self.check_balances();
		self.soft(r)?;
		let r = self.check_timeliness();
		self.soft(r)
	}

	/// a block mined by a traffic op before the closure: events are handled after every block, as a user's
	/// event loop does (a BumpTransaction event handled a block late would be stale through no fault of LDK)
	pub fn after_traffic_block(&mut self) -> CaseResult {
		self.stats.blocks += 1;
		self.observe()?;
		self.process_all_events(false)?;
		self.step_checks()
	}

	fn set_sweep_feerate(&mut self, node: usize, rate: u32) {
		let fe = self.sim.w.nodes[node].fee_estimator;
		let mut ov = fe.target_override.lock().unwrap();
		ov.insert(ConfirmationTarget::UrgentOnChainSweep, rate);
		ov.insert(ConfirmationTarget::OutputSpendingFee, rate);
		let base = *fe.sat_per_kw.lock().unwrap();
		let cur = ov.get(&ConfirmationTarget::MaximumFeeEstimate).cloned().unwrap_or(base);
		ov.insert(ConfirmationTarget::MaximumFeeEstimate, cur.max(rate));
	}

	/// see [`Step::advance`]
	pub fn advance(&mut self, offset: i8) -> CaseResult {
		for _ in 0..150 {
			let target = self.closed.iter().flat_map(|cl| cl.htlcs.iter().filter(|h| self.sim.chain.is_unspent(&OutPoint { txid: cl.txid, vout: h.vout })).map(|h| h.cltv)).min();
			let Some(t) = target else { return Ok(()) };
			let want = (t as i64 + offset as i64).max(0) as u32;
			// the step's own block follows
			if self.sim.chain.height() + 1 >= want {
				return Ok(());
			}
			self.block(&Incl::Overdue, true)?;
		}
		Ok(())
	}

	pub fn apply_pre(&mut self, p: &Pre) -> CaseResult {
		let n = self.n();
		match p {
			Pre::Claim { pay } => {
				let cands: Vec<usize> = self.sim.pays.iter().filter(|p| p.state == PayState::Claimable).map(|p| p.idx).collect();
				if !cands.is_empty() {
					self.sim.claim(cands[pick(*pay, cands.len())]);
					if !self.closed.is_empty() {
						self.stats.late_claims += 1;
					}
				}
			},
			Pre::Fee { node, rate } => self.set_sweep_feerate(pick(*node, n), *rate),
			Pre::Rebroadcast { node } => {
				let i = pick(*node, n);
				self.sim.w.nodes[i].chain_monitor.chain_monitor.rebroadcast_pending_claims();
				self.sim.drain(i);
			},
			Pre::Timer { node } => self.sim.timer_tick(pick(*node, n)),
			Pre::Style { node, style } => {
				*self.sim.w.nodes[pick(*node, n)].connect_style.borrow_mut() = connect_style_of(*style);
			},
		}
		self.observe()
	}

	pub fn close(&mut self) -> CaseResult {
		self.blocks_since_close = 0;
		if let Some(rate) = self.case.traj.rate(0) {
			for i in 0..self.n() {
				self.set_sweep_feerate(i, rate);
			}
		}
		let ci = pick(self.case.chan, self.sim.chans.len());
		let info = self.sim.chans[ci].clone();
		let (who_funder, cut) = match &self.case.close {
			Close::Force { by_funder, cut_link } => (*by_funder, *cut_link),
			Close::MineHolder { of_funder, cut_link } => (*of_funder, *cut_link),
		};
		let (me, peer) = if who_funder { (info.a, info.b) } else { (info.b, info.a) };
		if self.sim.chan_details(me, ci).is_none() {
			self.tags.push("close-skipped");
			return self.observe();
		}
		if cut {
			self.sim.disconnect(me, peer);
		}
		match &self.case.close {
			Close::Force { .. } => {
				let peer_id = self.sim.w.node_id(peer);
				let r = self.sim.w.nodes[me].node.force_close_broadcasting_latest_txn(&info.id, &peer_id, "harness force close".to_string());
				self.sim.rec(SEvent::Api { node: me, what: format!("force_close chan {}", ci), ok: r.is_ok(), detail: format!("{:?}", r) });
				self.stats.closed_by_api = true;
				self.tags.push("force-close");
				self.observe()
			},
			Close::MineHolder { .. } => {
				let txs = match self.sim.w.nodes[me].chain_monitor.chain_monitor.get_monitor(info.id) {
					Ok(m) => m.unsafe_get_latest_holder_commitment_txn(&self.sim.w.nodes[me].logger),
					Err(()) => vec![],
				};
				let Some(tx) = txs.first().cloned() else {
					self.tags.push("close-skipped");
					return Ok(());
				};
				self.harness_txs.insert(tx.compute_txid());
				self.stats.closed_by_mining = true;
				self.tags.push("mined-holder-commitment");
				self.prune_orphans();
				self.sim.mine_block(vec![tx]);
				self.stats.blocks += 1;
				self.observe()?;
				self.process_all_events(true)?;
				self.step_checks()
			},
		}
	}

	/// everything that can still happen on chain for the closed channels has happened
	fn all_resolved(&self) -> bool {
		if !self.sim.chain.mempool.is_empty() {
			return false;
		}
		// a commitment was broadcast but nothing confirmed yet
		for (chan, c) in self.sim.chans.iter().enumerate() {
			let gone = [c.a, c.b].iter().any(|n| self.sim.chan_details(*n, chan).is_none());
			if gone && !self.closed.iter().any(|cl| cl.chan == chan) {
				return false;
			}
		}
		for cl in self.closed.iter() {
			for node in [cl.b, cl.c] {
				if self.balances(node, cl.chan).map(|b| b.iter().any(|x| !matches!(x, Balance::ClaimableAwaitingConfirmations { amount_satoshis: 0, .. }))).unwrap_or(false) {
					return false;
				}
			}
			if cl.htlcs.iter().any(|h| self.sim.chain.is_unspent(&OutPoint { txid: cl.txid, vout: h.vout })) {
				return false;
			}
		}
		true
	}

	/// deterministic tail: confirm everything as it appears until all closed channels are resolved
	pub fn tail(&mut self, max_blocks: u32) -> CaseResult {
		let incl = if self.case.tail_reverse { Incl::Reverse } else { Incl::Overdue };
		let mut quiet = 0;
		for _ in 0..max_blocks {
			if self.all_resolved() {
				quiet += 1;
				if quiet >= 2 {
					return Ok(());
				}
			} else {
				quiet = 0;
			}
			self.block(&incl, true)?;
		}
		self.unfinished = !self.all_resolved();
		Ok(())
	}

	// ---------------------------------------------------------------------------------------------
	// end of case: (b) completeness, (d)/(e) conservation
	// ---------------------------------------------------------------------------------------------

	pub fn final_checks(&mut self) -> CaseResult {
		let ard = ANTI_REORG_DELAY;
		for cl in self.closed.clone().iter() {
			// balances drained to nothing
			for node in [cl.b, cl.c] {
				if let Some(b) = self.balances(node, cl.chan) {
					if b.iter().any(|x| !matches!(x, Balance::ClaimableAwaitingConfirmations { amount_satoshis: 0, .. })) {
						return Err(fail("balances-not-drained", format!("node {} chan {}: everything is resolved on chain but it still reports {:?}", node, cl.chan, b)));
					}
				}
			}
			// main outputs: announced to their owner with the right kind and value, at the right height
			let mut want: Vec<(usize, u64, &str, u32)> = vec![];
			if cl.to_b_sat > 0 {
				want.push((cl.b, cl.to_b_sat, "delayed", cl.conf + ard.max(cl.csv) - 1));
			}
			if cl.to_c_sat > 0 {
				want.push((cl.c, cl.to_c_sat, "static", cl.conf + ard - 1));
			}
			let mut have: Vec<(OutPoint, Announced)> = self.announced.iter().filter(|(op, _)| op.txid == cl.txid).map(|(o, a)| (*o, a.clone())).collect();
			for (node, sat, kind, th) in want {
				let pos = have.iter().position(|(op, a)| a.node == node && a.value == sat && a.kind.starts_with(kind) && cl.main_vouts.contains(&op.vout));
				match pos {
					Some(p) => {
						let (op, a) = have.remove(p);
						if a.height != th {
							return Err(fail("spendable-event-height", format!("node {} chan {}: balance output {} announced at height {}, expected {} (commitment confirmed at {}, csv {})", node, cl.chan, op, a.height, th, cl.conf, cl.csv)));
						}
					},
					None => {
						return Err(fail("balance-output-not-announced", format!("node {} chan {}: its {} sat balance output of the confirmed commitment {} was never announced as spendable ({}); announcements on that transaction: {:?}", node, cl.chan, sat, cl.txid, kind, self.announced.iter().filter(|(op, _)| op.txid == cl.txid).collect::<Vec<_>>())));
					},
				}
			}
			if let Some((op, a)) = have.first() {
				return Err(fail("unexpected-announcement", format!("chan {}: output {} of the commitment was announced to node {} as {} ({} sat) but is nobody's balance output", cl.chan, op, a.node, a.kind, a.value)));
			}
			// HTLC outputs: spent by a party entitled to, and the proceeds announced to that party
			for h in cl.htlcs.iter() {
				let op = OutPoint { txid: cl.txid, vout: h.vout };
				let Some((stx, x, by)) = self.spender(&op) else {
					// whoever could claim it (the offerer after expiry at the latest) did not
					let refused = self.last_refused_spend(h.offerer, &op);
					let why = if self.bump_refusal_logged(h.offerer) {
						// listed root cause: the node logged that it cannot bump the remainder of a split claim below the dust
						// limit and issues nothing for it any more
						"claim-aggregated-with-spent-output".to_string()
					} else {
						match &refused {
							Some((_, Reject::AlreadySpent(o, _))) if *o != op => "claim-spends-already-spent-output".to_string(),
							Some((_, r)) => format!("claim-refused-{}", reject_kind(r)),
							None => "no-claim".to_string(),
						}
					};
					let f = fail("htlc-output-unclaimed", format!("chan {}: HTLC output {} ({} sat, expiry {}, offered by node {}) was never claimed by anyone (last refused attempt of the offerer: {:?})", cl.chan, op, h.sat(), h.cltv, h.offerer, refused))
						.with_key(format!("htlc-output-unclaimed/{}/{}", if h.offerer == cl.b { "holder" } else { "counterparty" }, why));
					self.soft(Err(f))?;
					continue;
				};
				let Some(by) = by else { continue };
				let known_at = self.preimage_known.get(&(h.receiver, cl.chan, h.hash)).cloned();
				if by == h.offerer {
					self.stats.htlc_won_by_timeout += 1;
					// the receiver lost it: legitimate unless it knew the preimage early enough for its claim to
					// confirm (within the case's confirmation delay) before the timeout became final
					if let Some(k) = known_at {
						let ready = k.max(cl.conf);
						if ready + self.case.max_delay as u32 + 1 <= h.cltv {
							let refused = self.last_refused_spend(h.receiver, &op);
							let why = match &refused {
								Some((_, Reject::AlreadySpent(o, _))) if *o != op => "claim-aggregated-with-spent-output".to_string(),
								Some((_, r)) => format!("claim-refused-{}", reject_kind(r)),
								None => "no-refused-claim".to_string(),
							};
							let f = fail(
								"inbound-htlc-lost",
								format!("chan {}: node {} knew the preimage of HTLC output {} ({} sat, expiry {}) from height {} (commitment confirmed at {}), claims confirm within {} blocks, yet node {} timed it out at height {} (last refused claim attempt: {:?})", cl.chan, h.receiver, op, h.sat(), h.cltv, k, cl.conf, self.case.max_delay, h.offerer, x, refused),
							)
							.with_key(format!("inbound-htlc-lost/{}/{}", if h.receiver == cl.b { "holder" } else { "counterparty" }, why));
							self.soft(Err(f))?;
						}
					}
				} else if by == h.receiver {
					self.stats.htlc_won_by_preimage += 1;
				}
				let (dop, th) = if by == cl.b {
					let idx = stx.input.iter().position(|i| i.previous_output == op).unwrap_or(0) as u32;
					(OutPoint { txid: stx.compute_txid(), vout: idx }, x + ard.max(cl.csv) - 1)
				} else {
					(OutPoint { txid: stx.compute_txid(), vout: 0 }, x + ard - 1)
				};
				match self.announced.get(&dop) {
					Some(a) if a.node == by => {
						if a.height != th {
							return Err(fail("spendable-event-height", format!("node {} chan {}: proceeds {} of HTLC {} announced at height {}, expected {} (claim confirmed at {}, csv {})", by, cl.chan, dop, op, a.height, th, x, cl.csv)));
						}
					},
					other => {
						return Err(fail("htlc-proceeds-not-announced", format!("chan {}: node {} claimed HTLC output {} with {} at height {} but output {} was not announced to it as spendable ({:?})", cl.chan, by, op, stx.compute_txid(), x, dop, other)));
					},
				}
			}
			self.conservation(cl)?;
		}
		Ok(())
	}

	/// Walk every confirmed transaction descending from the funding output. Each satoshi of the channel ends
	/// in a harness sweep to one node's keys, in a miner fee (or a wallet via an anchor spend), or in an
	/// unswept anchor — and every output not yet swept is an anchor.
	fn conservation(&mut self, cl: &Closed) -> CaseResult {
		let value = self.sim.chans[cl.chan].value_sat;
		let mut tracked: Vec<OutPoint> = (0..cl.tx.output.len() as u32).map(|v| OutPoint { txid: cl.txid, vout: v }).collect();
		let commit_out: u64 = cl.tx.output.iter().map(|o| o.value.to_sat()).sum();
		let mut fees = value - commit_out;
		let mut to_node = vec![0u64; self.n()];
		let mut gross = vec![0u64; self.n()];
		let mut unswept_anchors = 0u64;
		let mut seen_tx: BTreeSet<Txid> = BTreeSet::new();
		while let Some(op) = tracked.pop() {
			let val = self.prevout(&op).map(|o| o.value.to_sat()).unwrap_or(0);
			match self.sim.chain.spent_by.get(&op).cloned() {
				None => {
					if op.txid == cl.txid && cl.anchor_vouts.contains(&op.vout) {
						unswept_anchors += val;
					} else if self.prevout(&op).map(|o| (0..self.n()).any(|i| cold_script(i) == o.script_pubkey)).unwrap_or(false) {
						let i = (0..self.n()).find(|i| cold_script(*i) == self.prevout(&op).unwrap().script_pubkey).unwrap();
						to_node[i] += val;
					} else if self.known_hit.is_some() && op.txid == cl.txid && cl.htlcs.iter().any(|h| h.vout == op.vout) {
						// already reported above as htlc-output-unclaimed (a known finding): its value stays on chain
						unswept_anchors += val;
					} else {
						return Err(fail("output-left-unclaimed", format!("chan {}: output {} ({} sat) descending from the closed channel is neither spent, nor swept, nor an anchor at the end of the case (announced: {:?})", cl.chan, op, val, self.announced.get(&op))));
					}
				},
				Some(s) => {
					if !seen_tx.insert(s) {
						continue;
					}
					let Some((stx, _)) = self.sim.chain.confirmed.get(&s).cloned() else { continue };
					// channel-side inputs and outputs of this transaction (wallet coins and change are the wallet's)
					let mut cin = 0u64;
					for i in stx.input.iter() {
						let po = self.prevout(&i.previous_output);
						if po.as_ref().map(|o| self.is_wallet_script(&o.script_pubkey)).unwrap_or(false) {
							continue;
						}
						cin += po.map(|o| o.value.to_sat()).unwrap_or(0);
					}
					let mut cout = 0u64;
					for (v, o) in stx.output.iter().enumerate() {
						// wallet change is the wallet's; an OP_RETURN output (the bump handler adds an empty one
						// when there is no change) is provably unspendable, i.e. burned like a fee
						if self.is_wallet_script(&o.script_pubkey) || o.script_pubkey.is_op_return() {
							continue;
						}
						cout += o.value.to_sat();
						tracked.push(OutPoint { txid: s, vout: v as u32 });
					}
					fees += cin.saturating_sub(cout);
					if let Some(i) = self.sweeps.get(&s) {
						gross[*i] += cin;
					}
				},
			}
		}
		let total: u64 = to_node.iter().sum::<u64>() + fees + unswept_anchors;
		if total != value {
			return Err(fail("harness-accounting", format!("chan {}: accounting does not add up: to nodes {:?} + fees {} + unswept anchors {} != channel value {}", cl.chan, to_node, fees, unswept_anchors, value)).with_key("harness-accounting"));
		}
		// each node's announced outputs = its balance output + the HTLCs it won - the fees its own claim
		// transactions paid out of channel funds
		for node in [cl.b, cl.c] {
			let main = if node == cl.b { cl.to_b_sat } else { cl.to_c_sat };
			let mut won = 0u64;
			let mut claim_fees = 0u64;
			let mut claim_txs: BTreeSet<Txid> = BTreeSet::new();
			for h in cl.htlcs.iter() {
				let op = OutPoint { txid: cl.txid, vout: h.vout };
				if let Some((stx, _, Some(by))) = self.spender(&op) {
					if by == node {
						won += h.sat();
						claim_txs.insert(stx.compute_txid());
					}
				}
			}
			for t in claim_txs.iter() {
				let (stx, _) = self.sim.chain.confirmed.get(t).cloned().unwrap();
				let cin: u64 = stx.input.iter().filter_map(|i| self.prevout(&i.previous_output)).filter(|o| !self.is_wallet_script(&o.script_pubkey)).map(|o| o.value.to_sat()).sum();
				let cout: u64 = stx.output.iter().filter(|o| !self.is_wallet_script(&o.script_pubkey)).map(|o| o.value.to_sat()).sum();
				claim_fees += cin.saturating_sub(cout);
			}
			let announced: u64 = self.announced.iter().filter(|(_, a)| a.node == node && a.chan == Some(cl.chan)).map(|(_, a)| a.value).sum();
			if announced + claim_fees != main + won {
				return Err(fail(
					"node-share-mismatch",
					format!("node {} chan {}: announced spendable outputs {} sat + claim fees {} sat != balance output {} sat + HTLCs won {} sat", node, cl.chan, announced, claim_fees, main, won),
				));
			}
			if gross[node] != announced {
				return Err(fail("sweep-mismatch", format!("node {} chan {}: swept {} sat but {} sat were announced", node, cl.chan, gross[node], announced)));
			}
		}
		Ok(())
	}

	pub fn labels(&self, ctx: &mut Ctx) {
		let st = &self.stats;
		ctx.label(match self.case.spec.ctype {
			CType::Static => "type:static_remote_key",
			CType::Anchors => "type:anchors_zero_fee_htlc",
			CType::ZeroFee => "type:zero_fee_commitments",
		});
		ctx.label(match self.case.spec.topo {
			Topology::Pair => "topo:pair",
			_ => "topo:line3",
		});
		ctx.label_if(st.closed_by_api, "closure:api-force-close");
		ctx.label_if(st.closed_by_mining, "closure:holder-commitment-mined");
		ctx.label_if(self.closed.is_empty(), "no-commitment-confirmed");
		ctx.label_if(self.closed.len() > 1, "two-channels-closed");
		for cl in self.closed.iter() {
			let info = &self.sim.chans[cl.chan];
			ctx.label(if cl.b == info.a { "confirmed:funder-commitment" } else { "confirmed:fundee-commitment" });
			ctx.label_if(cl.newer_signed, "confirmed:previous-unrevoked-commitment");
			ctx.label_if(!self.harness_txs.contains(&cl.txid) && !self.by.contains_key(&cl.txid), "confirmed:unknown-origin");
			ctx.label_if(cl.htlcs.is_empty(), "htlcs-at-close:0");
			ctx.label_if(!cl.htlcs.is_empty() && cl.htlcs.len() < 3, "htlcs-at-close:1-2");
			ctx.label_if(cl.htlcs.len() >= 3, "htlcs-at-close:3+");
			ctx.label_if(cl.htlcs.iter().any(|h| h.offerer == cl.b) && cl.htlcs.iter().any(|h| h.offerer == cl.c), "htlcs-both-directions");
			ctx.label_if(cl.htlcs.iter().any(|h| self.preimage_known.contains_key(&(h.receiver, cl.chan, h.hash)) && h.receiver == cl.b), "preimage-known-to-broadcaster");
			ctx.label_if(cl.htlcs.iter().any(|h| self.preimage_known.contains_key(&(h.receiver, cl.chan, h.hash)) && h.receiver == cl.c), "preimage-known-to-counterparty");
			ctx.label_if(cl.htlcs.iter().any(|h| !self.preimage_known.contains_key(&(h.receiver, cl.chan, h.hash))), "preimage-known-to-nobody");
			ctx.label_if(cl.to_b_sat == 0 || cl.to_c_sat == 0, "a-balance-output-missing");
		}
		ctx.label_if(st.late_claims > 0, "late-preimage-after-close");
		ctx.label_if(st.rbf_bumps > 0, "claim-re-issued");
		ctx.label_if(st.competing > 0, "competing-claims-in-mempool");
		ctx.label_if(st.competing_commitments > 0, "competing-commitments-in-mempool");
		ctx.label_if(st.bump_events > 0, "bump-transaction-events");
		ctx.label_if(st.bump_target_raises > 0, "bump-target-raised");
		ctx.label_if(st.benign_stale > 0, "stale-broadcast-tolerated");
		ctx.label_if(st.htlc_won_by_preimage > 0, "htlc-resolved-by-preimage");
		ctx.label_if(st.htlc_won_by_timeout > 0, "htlc-resolved-by-timeout");
		ctx.label_if(st.sweeps_dust_only > 0, "sweep-all-to-fee");
		ctx.label(if self.unfinished { "unfinished" } else { "finished" });

	}

	pub fn nontrivial(&self) -> bool {
		!self.unfinished && self.closed.iter().any(|cl| !cl.htlcs.is_empty()) && (self.stats.rbf_bumps > 0 || self.stats.competing > 0 || self.stats.competing_commitments > 0 || self.stats.bump_target_raises > 0)
	}
}

// -------------------------------------------------------------------------------------------------
// balance shapes
// -------------------------------------------------------------------------------------------------

#[derive(Clone, Debug)]
pub enum Shape {
	Awaiting { amt: u64, height: Option<u32>, src: Option<BalanceSource> },
	Contentious { amt: u64, timeout: u32, hash: [u8; 32] },
	MaybeTimeout { amt: u64, height: u32, hash: [u8; 32], outbound_payment: Option<bool> },
	MaybePreimage { amt: u64, expiry: u32, hash: [u8; 32] },
}

impl Shape {
	fn matches(&self, b: &Balance) -> bool {
		match (self, b) {
			(Shape::Awaiting { amt, height, src }, Balance::ClaimableAwaitingConfirmations { amount_satoshis, confirmation_height, source }) => {
				amt == amount_satoshis && height.map(|h| h == *confirmation_height).unwrap_or(true) && src.as_ref().map(|s| s == source).unwrap_or(true)
			},
			(Shape::Contentious { amt, timeout, hash }, Balance::ContentiousClaimable { amount_satoshis, timeout_height, payment_hash, .. }) => amt == amount_satoshis && timeout == timeout_height && *hash == payment_hash.0,
			(Shape::MaybeTimeout { amt, height, hash, outbound_payment }, Balance::MaybeTimeoutClaimableHTLC { amount_satoshis, claimable_height, payment_hash, outbound_payment: op }) => {
				amt == amount_satoshis && height == claimable_height && *hash == payment_hash.0 && outbound_payment.map(|x| x == *op).unwrap_or(true)
			},
			(Shape::MaybePreimage { amt, expiry, hash }, Balance::MaybePreimageClaimableHTLC { amount_satoshis, expiry_height, payment_hash }) => amt == amount_satoshis && expiry == expiry_height && *hash == payment_hash.0,
			_ => false,
		}
	}
}

pub struct Slot {
	pub required: bool,
	pub kind: &'static str,
	pub what: String,
	pub shapes: Vec<Shape>,
}

fn render_slots(s: &[Slot]) -> String {
	s.iter().map(|x| format!("{}{:?}", if x.required { "" } else { "optional " }, x.shapes)).collect::<Vec<_>>().join("; ")
}

fn balance_kind(b: &Balance) -> &'static str {
	match b {
		Balance::ClaimableOnChannelClose { .. } => "ClaimableOnChannelClose",
		Balance::ClaimableAwaitingConfirmations { .. } => "ClaimableAwaitingConfirmations",
		Balance::ContentiousClaimable { .. } => "ContentiousClaimable",
		Balance::MaybeTimeoutClaimableHTLC { .. } => "MaybeTimeoutClaimableHTLC",
		Balance::MaybePreimageClaimableHTLC { .. } => "MaybePreimageClaimableHTLC",
		Balance::CounterpartyRevokedOutputClaimable { .. } => "CounterpartyRevokedOutputClaimable",
	}
}

fn reject_kind(r: &Reject) -> &'static str {
	match r {
		Reject::MissingInput(_) => "missing-input",
		Reject::AlreadySpent(..) => "already-spent",
		Reject::Script(_) => "script",
		Reject::NonFinal { .. } => "non-final",
		Reject::CsvImmature { .. } => "csv",
		Reject::NegativeFee { .. } => "negative-fee",
		Reject::MempoolConflict(_) => "mempool-conflict",
		Reject::Duplicate => "duplicate",
	}
}

fn describe_desc(d: &SpendableOutputDescriptor) -> String {
	match d {
		SpendableOutputDescriptor::StaticOutput { outpoint, output, .. } => format!("StaticOutput {}:{} {} sat", outpoint.txid, outpoint.index, output.value.to_sat()),
		SpendableOutputDescriptor::DelayedPaymentOutput(x) => format!("DelayedPaymentOutput {}:{} {} sat to_self_delay {}", x.outpoint.txid, x.outpoint.index, x.output.value.to_sat(), x.to_self_delay),
		SpendableOutputDescriptor::StaticPaymentOutput(x) => format!("StaticPaymentOutput {}:{} {} sat", x.outpoint.txid, x.outpoint.index, x.output.value.to_sat()),
	}
}

/// Run one case end to end.
pub fn run_case(case: &Case, ctx: &mut Ctx, tail_blocks: u32) -> CaseResult {
	let mut r = Run::new(case);
	if ctx.replay {
		// keep the history printable when LDK panics
		let res = std::panic::catch_unwind(std::panic::AssertUnwindSafe(|| run_inner(&mut r, ctx, tail_blocks)));
		if !matches!(res, Ok(Ok(()))) || std::env::var("C07_DUMP").is_ok() {
			println!("==== history ====\n{}", crate::oracle_commit::dump_history(&r.sim));
		}
		return match res {
			Ok(x) => x,
			Err(p) => std::panic::resume_unwind(p),
		};
	}
	run_inner(&mut r, ctx, tail_blocks)
}


fn traffic_and_close(r: &mut Run) -> CaseResult {
	let spec = r.case.spec.clone();
	r.observe()?;
	for op in r.case.ops.iter() {
		if let Op::Mine { blocks, include, pick: p } = op {
			// same semantics as `ops::apply`, but block by block
			let mut txs: Vec<Transaction> = r.sim.chain.mempool.clone();
			match include {
				0 => txs.clear(),
				1 => {},
				2 => txs.reverse(),
				_ => {
					if !txs.is_empty() {
						let i = pick(*p, txs.len());
						txs = vec![txs[i].clone()];
					}
				},
			}
			r.sim.mine_block(txs);
			r.after_traffic_block()?;
			for _ in 1..*blocks {
				r.sim.mine_block(vec![]);
				r.after_traffic_block()?;
			}
			r.tags.push("mine");
			continue;
		}
		let tag = apply(&mut r.sim, &spec, op);
		r.tags.push(tag);
		r.observe()?;
	}
	if !r.closed.is_empty() || r.saw_channel_closed {
		r.stats.closed_automatically = true;
	}
	r.close()
}

fn run_inner(r: &mut Run, ctx: &mut Ctx, tail_blocks: u32) -> CaseResult {
	// A panic inside channel operation while every channel is still open (seen: the `list_channels` debug
	// assertion "some channel balance has been overdrawn") is the verdict of the channel-state properties
	// (C01), not of the on-chain claim machinery: it is labelled and the case is given up.
	let traffic = std::panic::catch_unwind(std::panic::AssertUnwindSafe(|| traffic_and_close(r)));
	match traffic {
		Ok(res) => res?,
		Err(p) => {
			let lp = vcore::take_last_panic();
			let loc = lp.as_ref().map(|(_, l)| l.clone()).unwrap_or_default();
			if !r.saw_channel_closed && r.closed.is_empty() && (loc.contains("/ln/channel_state.rs") || loc.contains("/ln/channel.rs") || loc.contains("/ln/channelmanager.rs")) {
				ctx.label(&format!("foreign-failure:C01:panic@{}", loc.rsplit("/lightning/src/").next().unwrap_or(&loc)));
				return Ok(());
			}
			vcore::set_last_panic(lp);
			std::panic::resume_unwind(p);
		},
	}
	for st in r.case.steps.iter() {
		if let Some(off) = st.advance {
			r.advance(off)?;
		}
		for p in st.pre.iter() {
			r.apply_pre(p)?;
		}
		r.block(&st.incl, st.pump)?;
	}
	r.tail(tail_blocks)?;
	if !r.unfinished {
		r.final_checks()?;
	}
	r.labels(ctx);
	ctx.label_if(r.stats.closed_automatically, "closure:before-the-close-op");
	ctx.label(match r.case.traj {
		Traj::Flat => "fees:flat",
		Traj::Rising { .. } => "fees:rising",
		Traj::Falling { .. } => "fees:falling",
		Traj::Spike { .. } => "fees:spike",
	});
	if let Some(f) = r.known_hit.take() {
		// everything else held; hand the known finding to the runner (counted as excluded_known)
		ctx.label(&format!("known-finding:{}", f.key));
		return Err(f);
	}
	ctx.nontrivial_if(r.nontrivial());
	ctx.sub_evaluations(r.stats.broadcasts + r.stats.balance_checks + r.stats.timeliness_checks + r.stats.sweeps);
	ctx.summary(serde_json::json!({
		"type": format!("{:?}", r.case.spec.ctype),
		"topo": format!("{:?}", r.case.spec.topo),
		"close": format!("{:?}", r.case.close),
		"ops": r.tags,
		"closed": r.closed.iter().map(|c| serde_json::json!({"chan": c.chan, "broadcaster": c.b, "conf_height": c.conf, "htlcs": c.htlcs.len(), "to_b": c.to_b_sat, "to_c": c.to_c_sat})).collect::<Vec<_>>(),
		"blocks": r.stats.blocks,
		"broadcasts": r.stats.broadcasts,
		"re_issued_claims": r.stats.rbf_bumps,
		"sweeps": r.stats.sweeps,
	}));
	Ok(())
}
