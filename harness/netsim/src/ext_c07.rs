//! Property-specific engine extensions for C07 (owned by the C07 check).
