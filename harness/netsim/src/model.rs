//! Independent reference model of one channel: BOLT-2 update bookkeeping driven only by the wire
//! messages the simulator observed, and the BOLT-3 rules that turn an applied update set into the
//! content of a commitment transaction. Nothing here reads LDK state.
//!
//! BOLT-2 rule used (emission side): when node S signs the commitment transaction of its peer P, that
//! commitment contains (a) every update S has sent so far and (b) every update of P that S has
//! acknowledged, i.e. that was covered by a `commitment_signed` of P for which S has sent the
//! `revoke_and_ack`. S's j-th distinct `revoke_and_ack` acknowledges P's j-th distinct
//! `commitment_signed`. A re-signed commitment number is a retransmission and must be identical.

use std::collections::BTreeMap;

#[derive(Clone, Copy, Debug, PartialEq, Eq)]
pub enum ChanType {
	StaticRemoteKey,
	AnchorsZeroFeeHtlc,
	ZeroFeeCommitments,
}

#[derive(Clone, Debug)]
pub struct Params {
	pub value_sat: u64,
	/// side index (0 or 1) of the funder
	pub funder: usize,
	pub init_balance_msat: [u64; 2],
	/// dust limit each side announced for its *own* commitment transaction
	pub dust_limit_sat: [u64; 2],
	pub chan_type: ChanType,
	pub init_feerate: u32,
}

#[derive(Clone, Debug, PartialEq, Eq)]
pub enum Upd {
	Add { id: u64, amt_msat: u64, hash: [u8; 32], cltv: u32 },
	Fulfill { id: u64 },
	Fail { id: u64 },
	Fee { rate: u32 },
}

#[derive(Clone, Debug)]
pub struct CsRec {
	pub number: u64,
	/// how many of the signer's updates this signature covers
	pub covers: usize,
	pub batch: Vec<Upd>,
}

#[derive(Clone, Debug, Default)]
pub struct Side {
	pub updates: Vec<Upd>,
	/// updates emitted since the last commitment_signed
	pub batch: Vec<Upd>,
	pub cs: Vec<CsRec>,
	pub raa_secrets: Vec<[u8; 32]>,
}

#[derive(Clone, Debug, PartialEq, Eq, PartialOrd, Ord)]
pub struct ExpHtlc {
	/// offered by the broadcaster of the commitment
	pub offered: bool,
	pub amt_msat: u64,
	pub hash: [u8; 32],
	pub cltv: u32,
}

#[derive(Clone, Debug)]
pub struct Expected {
	pub feerate: u32,
	pub nondust: Vec<ExpHtlc>,
	pub dust: Vec<ExpHtlc>,
	/// balances after deducting pending HTLCs, before fees: [broadcaster, countersignatory]
	pub balance_msat: [u64; 2],
	pub to_broadcaster_sat: u64,
	pub to_countersignatory_sat: u64,
	pub commit_fee_sat: u64,
	pub anchors_sat: u64,
	pub p2a_sat: Option<u64>,
	/// channel value minus every output = what goes to miners
	pub implied_fee_sat: u64,
	pub n_outputs: usize,
}

pub struct ChanModel {
	pub p: Params,
	pub sides: [Side; 2],
}

pub const COMMIT_WEIGHT: u64 = 724;
pub const COMMIT_WEIGHT_ANCHORS: u64 = 1124;
pub const HTLC_OUTPUT_WEIGHT: u64 = 172;
pub const HTLC_TIMEOUT_WEIGHT: u64 = 663;
pub const HTLC_SUCCESS_WEIGHT: u64 = 703;
pub const ANCHOR_SAT: u64 = 330;
pub const P2A_MAX_SAT: u64 = 240;

impl ChanModel {
	pub fn new(p: Params) -> ChanModel {
		ChanModel { p, sides: [Side::default(), Side::default()] }
	}

	/// `side` emitted an update message.
	pub fn on_update(&mut self, side: usize, u: Upd) {
		self.sides[side].batch.push(u);
	}

	/// `side` emitted commitment_signed for commitment `number` of its peer.
	/// Returns Ok(true) if this is a new signature (the caller then validates the content),
	/// Ok(false) for a faithful retransmission, Err for a retransmission with different updates.
	pub fn on_commit(&mut self, side: usize, number: u64) -> Result<bool, String> {
		let s = &mut self.sides[side];
		let batch = std::mem::take(&mut s.batch);
		if let Some(prev) = s.cs.iter().find(|c| c.number == number) {
			if prev.batch != batch {
				return Err(format!(
					"commitment_signed for number {} retransmitted with different updates: first {:?}, now {:?}",
					number, prev.batch, batch
				));
			}
			return Ok(false);
		}
		if let Some(last) = s.cs.last() {
			// commitment numbers count down by exactly one per new signature
			if last.number != number + 1 {
				return Err(format!("commitment number jumped from {} to {}", last.number, number));
			}
		}
		s.updates.extend(batch.iter().cloned());
		let covers = s.updates.len();
		s.cs.push(CsRec { number, covers, batch });
		Ok(true)
	}

	/// `side` emitted revoke_and_ack carrying `secret`. Returns Err if there is nothing to acknowledge.
	pub fn on_revoke(&mut self, side: usize, secret: [u8; 32]) -> Result<bool, String> {
		if self.sides[side].raa_secrets.contains(&secret) {
			return Ok(false);
		}
		self.sides[side].raa_secrets.push(secret);
		let j = self.sides[side].raa_secrets.len();
		if j > self.sides[1 - side].cs.len() {
			return Err(format!("revoke_and_ack #{} sent but peer only signed {} commitments", j, self.sides[1 - side].cs.len()));
		}
		Ok(true)
	}

	fn acked_by(&self, acker: usize) -> usize {
		// number of the peer's updates that `acker` has acknowledged
		let j = self.sides[acker].raa_secrets.len();
		if j == 0 {
			0
		} else {
			self.sides[1 - acker].cs.get(j - 1).map(|c| c.covers).unwrap_or(0)
		}
	}

	/// Content of the commitment transaction of `broadcaster` as signed by its peer right now.
	pub fn expected_for(&self, broadcaster: usize) -> Result<Expected, String> {
		let signer = 1 - broadcaster;
		let mut applied: [Vec<&Upd>; 2] = [vec![], vec![]];
		applied[signer] = self.sides[signer].updates.iter().collect();
		let acked = self.acked_by(signer);
		applied[broadcaster] = self.sides[broadcaster].updates[..acked].iter().collect();
		self.fold(broadcaster, &applied)
	}

	/// Both sides' settled view when nothing is in flight (all updates applied on both commitments).
	pub fn fully_applied(&self, broadcaster: usize) -> Result<Expected, String> {
		let applied: [Vec<&Upd>; 2] = [self.sides[0].updates.iter().collect(), self.sides[1].updates.iter().collect()];
		self.fold(broadcaster, &applied)
	}

	fn fold(&self, broadcaster: usize, applied: &[Vec<&Upd>; 2]) -> Result<Expected, String> {
		let p = &self.p;
		let mut bal: [i128; 2] = [p.init_balance_msat[0] as i128, p.init_balance_msat[1] as i128];
		// (offerer side, id) -> htlc
		let mut htlcs: BTreeMap<(usize, u64), (u64, [u8; 32], u32)> = BTreeMap::new();
		for side in 0..2 {
			for u in applied[side].iter() {
				if let Upd::Add { id, amt_msat, hash, cltv } = u {
					if htlcs.insert((side, *id), (*amt_msat, *hash, *cltv)).is_some() {
						return Err(format!("duplicate HTLC id {} offered by side {}", id, side));
					}
					bal[side] -= *amt_msat as i128;
				}
			}
		}
		for side in 0..2 {
			for u in applied[side].iter() {
				match u {
					Upd::Fulfill { id } => {
						let (amt, _, _) =
							htlcs.remove(&(1 - side, *id)).ok_or_else(|| format!("side {} fulfilled HTLC {} that is not committed", side, id))?;
						bal[side] += amt as i128;
					},
					Upd::Fail { id } => {
						let (amt, _, _) =
							htlcs.remove(&(1 - side, *id)).ok_or_else(|| format!("side {} failed HTLC {} that is not committed", side, id))?;
						bal[1 - side] += amt as i128;
					},
					_ => {},
				}
			}
		}
		if bal[0] < 0 || bal[1] < 0 {
			return Err(format!("negative balance after applying updates: {:?}", bal));
		}
		let bal: [u64; 2] = [bal[0] as u64, bal[1] as u64];
		let mut feerate = p.init_feerate;
		for u in applied[p.funder].iter() {
			if let Upd::Fee { rate } = u {
				feerate = *rate;
			}
		}
		if p.chan_type == ChanType::ZeroFeeCommitments {
			feerate = 0;
		}
		// BOLT-3 trimming, from the broadcaster's point of view
		let dust_limit = p.dust_limit_sat[broadcaster];
		let zero_fee_htlc = p.chan_type != ChanType::StaticRemoteKey;
		let (timeout_w, success_w) = if zero_fee_htlc { (HTLC_TIMEOUT_WEIGHT + 3, HTLC_SUCCESS_WEIGHT + 3) } else { (HTLC_TIMEOUT_WEIGHT, HTLC_SUCCESS_WEIGHT) };
		let mut nondust = vec![];
		let mut dust = vec![];
		for ((offerer, _id), (amt, hash, cltv)) in htlcs.iter() {
			let offered = *offerer == broadcaster;
			let htlc_fee = if zero_fee_htlc { 0 } else { feerate as u64 * if offered { timeout_w } else { success_w } / 1000 };
			let h = ExpHtlc { offered, amt_msat: *amt, hash: *hash, cltv: *cltv };
			if amt / 1000 < dust_limit + htlc_fee {
				dust.push(h);
			} else {
				nondust.push(h);
			}
		}
		nondust.sort();
		dust.sort();
		let base_w = match p.chan_type {
			ChanType::StaticRemoteKey => COMMIT_WEIGHT,
			_ => COMMIT_WEIGHT_ANCHORS,
		};
		let commit_fee_sat = if p.chan_type == ChanType::ZeroFeeCommitments { 0 } else { feerate as u64 * (base_w + HTLC_OUTPUT_WEIGHT * nondust.len() as u64) / 1000 };
		let anchors_total = if p.chan_type == ChanType::AnchorsZeroFeeHtlc { 2 * ANCHOR_SAT } else { 0 };
		let mut m = bal;
		m[p.funder] = m[p.funder].saturating_sub(anchors_total * 1000);
		let mut sat = [m[0] / 1000, m[1] / 1000];
		sat[p.funder] = sat[p.funder].saturating_sub(commit_fee_sat);
		let mut to_b = sat[broadcaster];
		let mut to_c = sat[1 - broadcaster];
		if to_b < dust_limit {
			to_b = 0;
		}
		if to_c < dust_limit {
			to_c = 0;
		}
		let htlc_sum: u64 = nondust.iter().map(|h| h.amt_msat / 1000).sum();
		let mut anchors_sat = 0;
		let mut n_outputs = nondust.len();
		if to_b > 0 {
			n_outputs += 1;
		}
		if to_c > 0 {
			n_outputs += 1;
		}
		if p.chan_type == ChanType::AnchorsZeroFeeHtlc {
			if to_b > 0 || !nondust.is_empty() {
				anchors_sat += ANCHOR_SAT;
				n_outputs += 1;
			}
			if to_c > 0 || !nondust.is_empty() {
				anchors_sat += ANCHOR_SAT;
				n_outputs += 1;
			}
		}
		let mut p2a_sat = None;
		if p.chan_type == ChanType::ZeroFeeCommitments {
			let trimmed = p.value_sat - htlc_sum - to_b - to_c;
			p2a_sat = Some(trimmed.min(P2A_MAX_SAT));
			n_outputs += 1;
		}
		let outputs = to_b + to_c + htlc_sum + anchors_sat + p2a_sat.unwrap_or(0);
		if outputs > p.value_sat {
			return Err(format!("model outputs {} exceed channel value {}", outputs, p.value_sat));
		}
		Ok(Expected {
			feerate,
			nondust,
			dust,
			balance_msat: [bal[broadcaster], bal[1 - broadcaster]],
			to_broadcaster_sat: to_b,
			to_countersignatory_sat: to_c,
			commit_fee_sat,
			anchors_sat,
			p2a_sat,
			implied_fee_sat: p.value_sat - outputs,
			n_outputs,
		})
	}

	/// pending HTLC count over both directions in the signer-side view of `broadcaster`'s commitment
	pub fn pending_count(&self, broadcaster: usize) -> usize {
		self.expected_for(broadcaster).map(|e| e.nondust.len() + e.dust.len()).unwrap_or(0)
	}

	/// true if each side has sent updates the other has not yet acknowledged
	pub fn both_have_unacked(&self) -> bool {
		(0..2).all(|s| self.sides[s].updates.len() + self.sides[s].batch.len() > self.acked_by(1 - s))
	}
}
