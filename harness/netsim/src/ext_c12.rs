//! Property-specific engine extensions for C12 (owned by the C12 check).
