//! Property-specific engine extensions for C12 (owned by the C12 check): harvesting of persisted objects
//! from simulator histories, serialization oracles for monitors / monitor updates / managers, throw-away
//! reloads of a `ChannelManager`, the twin-world comparison surface and reload, structural TLV-tail locator
//! with unknown-record injection / truncation / mutation oracles, and (modules `aux`, `sweep`) the
//! NetworkGraph, ProbabilisticScorer and OutputSweeper oracles.

use crate::ops::*;
use crate::rec::*;
use crate::sim::*;
use crate::world::*;
use lightning::chain::channelmonitor::{ChannelMonitor, ChannelMonitorUpdate};
use lightning::chain::BlockLocator;
use lightning::ln::channelmanager::ChannelManagerReadArgs;
use lightning::ln::msgs::DecodeError;
use lightning::ln::types::ChannelId;
use lightning::util::ser::{Readable, ReadableArgs, Writeable};
use lightning::util::test_channel_signer::TestChannelSigner;
use lightning::util::test_utils::{TestBroadcaster, TestChainMonitor, TestKeysInterface, TestLogger, TestPersister};
use std::collections::BTreeMap;
use vcore::{CaseResult, Failure};

pub type Mon = ChannelMonitor<TestChannelSigner>;

/// Read a monitor image; returns the monitor and the number of bytes left unread.
pub fn read_mon(bytes: &[u8], keys: &TestKeysInterface) -> Result<(Mon, usize), DecodeError> {
	let mut r = bytes;
	let (_, m) = <(BlockLocator, Mon)>::read(&mut r, (keys, keys))?;
	Ok((m, r.len()))
}

/// Byte histogram: two encodings of equal objects may order hash-map entries differently (LDK's maps are
/// randomly keyed per instance) but must consist of the same bytes.
pub fn histogram(b: &[u8]) -> [u32; 256] {
	let mut h = [0u32; 256];
	for x in b {
		h[*x as usize] += 1;
	}
	h
}

pub fn same_bytes_modulo_order(a: &[u8], b: &[u8]) -> bool {
	a.len() == b.len() && histogram(a) == histogram(b)
}

/// Drain a (throw-away) monitor's pending monitor events and pending events.
pub fn drain_mon_events(m: &Mon, logger: &TestLogger) {
	let _ = m.get_and_clear_pending_monitor_events();
	let h = |_ev: lightning::events::Event| -> Result<(), lightning::events::ReplayEvent> { Ok(()) };
	let _ = m.process_pending_events(&&h, &logger);
}

fn fail(oracle: &str, key: String, detail: String) -> Failure {
	Failure::new(oracle, detail).with_key(key)
}

// -------------------------------------------------------------------------------------------------
// (a) + (b): monitors and monitor updates
// -------------------------------------------------------------------------------------------------

#[derive(Default, Clone, Debug)]
pub struct MonStats {
	pub images: u64,
	pub live_snapshots: u64,
	pub updates: u64,
	pub commute_strict: u64,
	pub commute_lenient_ok: u64,
	pub commute_unverifiable: u64,
	pub commute_modulo_events: u64,
	pub commute_no_prev: u64,
	pub eq_exempt_failed_back: u64,
	pub byte_stable_images: u64,
	pub byte_unstable_images: u64,
	pub closed_channel_updates: u64,
	pub nonquiescent_states: u64,
	pub states_with_pending_htlcs: u64,
	pub states_with_inflight_update: u64,
	pub states_awaiting_conf: u64,
	pub states_pending_claims: u64,
	pub step_kinds: BTreeMap<String, u64>,
	pub manager_images: u64,
	pub manager_live_compared: u64,
	pub manager_same_len: u64,
}

/// A harvested object (serialized) for the corruption parts.
#[derive(Clone, Debug)]
pub struct Harvested {
	pub node: usize,
	pub bytes: Vec<u8>,
	pub nonquiescent: bool,
}

pub struct MonHarvest {
	hist_cur: usize,
	img_cur: Vec<usize>,
	upd_cur: Vec<BTreeMap<ChannelId, usize>>,
	/// latest exactly-known serialized state per (node, channel)
	states: BTreeMap<(usize, ChannelId), (Vec<u8>, Option<Mon>)>,
	/// every `reread_every`-th image is additionally re-read from its re-encoding (idempotence)
	pub reread_every: u64,
	pub stats: MonStats,
	/// any commitment / closing activity seen in this world (enables the documented in-memory-only-field exemption)
	pub closure_seen: bool,
	pub keep: bool,
	pub kept_monitors: Vec<Harvested>,
	pub kept_updates: Vec<Harvested>,
	pub kept_managers: Vec<Harvested>,
	logger: TestLogger,
}

impl MonHarvest {
	pub fn new(sim: &Sim, keep: bool) -> MonHarvest {
		let n = sim.w.n;
		let mut h = MonHarvest {
			hist_cur: hist_len(),
			img_cur: vec![0; n],
			upd_cur: vec![BTreeMap::new(); n],
			states: BTreeMap::new(),
			reread_every: 4,
			stats: MonStats::default(),
			closure_seen: false,
			keep,
			kept_monitors: vec![],
			kept_updates: vec![],
			kept_managers: vec![],
			logger: TestLogger::new(),
		};
		// channel establishment happened before: skip what was recorded so far, start from the live monitors
		for i in 0..n {
			h.img_cur[i] = sim.w.persisters[i].state.lock().unwrap().images.len();
			let mu = sim.w.nodes[i].chain_monitor.monitor_updates.lock().unwrap();
			for (c, v) in mu.iter() {
				h.upd_cur[i].insert(*c, v.len());
			}
		}
		h
	}

	/// Is the (live) monitor in a non-quiescent state? Classified through the public getters only.
	fn classify(&mut self, sim: &Sim, node: usize, m: &Mon) -> bool {
		use lightning::chain::channelmonitor::Balance;
		let chan = m.channel_id();
		let mut nq = false;
		let pend_htlc = sim.w.nodes[node].node.list_channels().iter().any(|c| c.channel_id == chan && (!c.pending_inbound_htlcs.is_empty() || !c.pending_outbound_htlcs.is_empty()));
		let bal = m.get_claimable_balances();
		let bal_htlc = bal.iter().any(|b| matches!(b, Balance::ContentiousClaimable { .. } | Balance::MaybeTimeoutClaimableHTLC { .. } | Balance::MaybePreimageClaimableHTLC { .. }));
		if pend_htlc || bal_htlc {
			self.stats.states_with_pending_htlcs += 1;
			nq = true;
		}
		if sim.w.pending_updates(node).iter().any(|(c, _)| *c == chan) {
			self.stats.states_with_inflight_update += 1;
			nq = true;
		}
		if bal.iter().any(|b| matches!(b, Balance::ClaimableAwaitingConfirmations { .. })) || !m.get_relevant_txids().is_empty() {
			self.stats.states_awaiting_conf += 1;
			nq = true;
		}
		if m.has_pending_claims() {
			self.stats.states_pending_claims += 1;
			nq = true;
		}
		if nq {
			self.stats.nonquiescent_states += 1;
		}
		nq
	}

	/// Harvest everything that happened since the last call. `chain_op`: the operation just applied delivered
	/// or disconnected blocks (monitors then also change outside `update_monitor`, so the state preceding an
	/// update inside such an operation is not exactly known).
	pub fn step(&mut self, sim: &Sim, chain_op: bool) -> CaseResult {
		if !self.closure_seen && sim.broadcasts.iter().any(|b| !b.is_empty()) {
			self.closure_seen = true;
		}
		// persist calls per node since the last step, in order
		let evs = hist_since(self.hist_cur);
		self.hist_cur = hist_len();
		let mut calls: Vec<Vec<(ChannelId, Option<u64>)>> = vec![vec![]; sim.w.n];
		for (_, e) in evs.iter() {
			match e {
				HEvent::PersistNew { node, chan, .. } => calls[*node].push((*chan, None)),
				HEvent::PersistUpdate { node, chan, update_id, .. } => calls[*node].push((*chan, *update_id)),
				_ => {},
			}
		}
		for i in 0..sim.w.n {
			let nd = &sim.w.nodes[i];
			let keys = nd.keys_manager;
			let images: Vec<(ChannelId, u64, Vec<u8>, bool)> = {
				let st = sim.w.persisters[i].state.lock().unwrap();
				st.images[self.img_cur[i]..].to_vec()
			};
			self.img_cur[i] += images.len();
			if images.len() != calls[i].len() {
				return Err(fail("harness", "harness/image-call-mismatch".into(), format!("node {}: {} images vs {} persist calls", i, images.len(), calls[i].len())));
			}
			// the updates handed to Watch since the last step
			let mut new_updates: BTreeMap<ChannelId, Vec<ChannelMonitorUpdate>> = BTreeMap::new();
			{
				let mu = nd.chain_monitor.monitor_updates.lock().unwrap();
				for (c, v) in mu.iter() {
					let cur = self.upd_cur[i].entry(*c).or_insert(0);
					if v.len() > *cur {
						new_updates.insert(*c, v[*cur..].to_vec());
						*cur = v.len();
					}
				}
			}
			for v in new_updates.values() {
				for u in v {
					self.check_update(i, u)?;
				}
			}
			for ((chan, latest, bytes, chain_sync), (cchan, upd_id)) in images.iter().zip(calls[i].iter()) {
				if chan != cchan {
					return Err(fail("harness", "harness/image-call-mismatch".into(), format!("node {}: image of {} vs call for {}", i, chan, cchan)));
				}
				self.stats.images += 1;
				// (a) on the image as persisted: reads, nothing left over, re-encoding is the same bytes up to
				// hash-map order, the re-read object equals the read one
				let (r1, left) = read_mon(bytes, keys).map_err(|e| fail("monitor-read", "monitor-read/image".into(), format!("node {} chan {} update {}: persisted monitor does not read back: {:?}", i, chan, latest, e)))?;
				if left != 0 {
					return Err(fail("monitor-read", "monitor-read/trailing".into(), format!("node {} chan {}: {} bytes unread", i, chan, left)));
				}
				let b2 = r1.encode();
				if !same_bytes_modulo_order(bytes, &b2) {
					return Err(fail("monitor-reencode", "monitor-reencode/image".into(), format!("node {} chan {} update {}: write(read(b)) differs from b beyond ordering: {} vs {} bytes", i, chan, latest, b2.len(), bytes.len())));
				}
				if b2 == *bytes {
					self.stats.byte_stable_images += 1;
				} else {
					self.stats.byte_unstable_images += 1;
				}
				if self.stats.images % self.reread_every.max(1) == 0 {
					let (r2, _) = read_mon(&b2, keys).map_err(|e| fail("monitor-read", "monitor-read/reencoded".into(), format!("node {} chan {}: re-encoded monitor does not read: {:?}", i, chan, e)))?;
					if r1 != r2 {
						return Err(fail("monitor-roundtrip-eq", "monitor-roundtrip-eq/image".into(), format!("node {} chan {} update {}: read(write(read(b))) != read(b)", i, chan, latest)));
					}
				}
				// (b) update commutes with the round trip
				if let Some(k) = upd_id {
					debug_assert!(!chain_sync);
					let u = nd.chain_monitor.monitor_updates.lock().unwrap().get(chan).and_then(|v| v.iter().rev().find(|u| u.update_id == *k).cloned());
					let Some(u) = u else {
						return Err(fail("harness", "harness/update-not-recorded".into(), format!("node {} chan {} update {} persisted but never handed to Watch", i, chan, k)));
					};
					match self.states.remove(&(i, *chan)) {
						None => self.stats.commute_no_prev += 1,
						Some((prev, cached)) => {
							// `cached` is read(prev) kept from the previous step
							let shadow = match cached {
								Some(m) => m,
								None => read_mon(&prev, keys).map_err(|e| fail("monitor-read", "monitor-read/prev".into(), format!("{:?}", e)))?.0,
							};
							if shadow.get_latest_update_id() + 1 != *k && *k != u64::MAX {
								// several updates were applied between two persist calls: cannot happen with a
								// ChainMonitor (one persist call per update)
								return Err(fail("harness", "harness/update-gap".into(), format!("node {} chan {}: prev image at {} but update {}", i, chan, shadow.get_latest_update_id(), k)));
							}
							let bc = TestBroadcaster::with_blocks(nd.blocks.clone());
							let _ = shadow.update_monitor(&u, &&bc, &nd.fee_estimator, &&self.logger);
							let mut ok = shadow == r1;
							let mut modulo = false;
							if !ok {
								// Between two persist calls the ChannelManager / user may have drained the monitor's
								// pending (monitor) events: compare again with both drained.
								let (r1b, _) = read_mon(bytes, keys).unwrap();
								drain_mon_events(&shadow, &self.logger);
								drain_mon_events(&r1b, &self.logger);
								ok = shadow == r1b;
								modulo = ok;
							}
							if ok {
								if modulo {
									self.stats.commute_modulo_events += 1;
								} else if chain_op {
									self.stats.commute_lenient_ok += 1;
								} else {
									self.stats.commute_strict += 1;
								}
							} else if chain_op {
								self.stats.commute_unverifiable += 1;
							} else {
								let kinds = update_step_kinds(&u);
								return Err(fail(
									"update-commutes",
									format!("update-commutes/{}", kinds.join("+")),
									format!("node {} chan {}: read(write(M_{})) + update {} ({:?}) != M_{} as persisted", i, chan, shadow.get_latest_update_id().wrapping_sub(1), k, kinds, k),
								));
							}
						},
					}
				}
				self.states.insert((i, *chan), (bytes.clone(), Some(r1)));
			}
			// live monitors after the operation
			for chan in nd.chain_monitor.chain_monitor.list_monitors() {
				let Ok(m) = nd.chain_monitor.chain_monitor.get_monitor(chan) else { continue };
				let bytes = m.encode();
				// the same live object encodes to the same bytes as long as it did not change: already checked
				if self.states.get(&(i, chan)).map(|(b, _)| *b == bytes).unwrap_or(false) {
					continue;
				}
				self.stats.live_snapshots += 1;
				let nq = self.classify(sim, i, &m);
				let (m2, left) = read_mon(&bytes, keys).map_err(|e| fail("monitor-read", "monitor-read/live".into(), format!("node {} chan {}: live monitor does not read back: {:?}", i, chan, e)))?;
				if left != 0 {
					return Err(fail("monitor-read", "monitor-read/trailing".into(), format!("node {} chan {}: {} bytes unread", i, chan, left)));
				}
				if m2 != *m {
					// `failed_back_htlc_ids` is documented as in-memory only ("Not serialized") and is part of `==`;
					// it is filled only for forwarded HTLCs of a closed channel. Only in that situation fall back to
					// the weaker comparison.
					let forwarding_node = sim.chans.iter().filter(|c| c.a == i || c.b == i).count() > 1;
					let b2 = m2.encode();
					let (m3, _) = read_mon(&b2, keys).map_err(|e| fail("monitor-read", "monitor-read/reencoded".into(), format!("{:?}", e)))?;
					if self.closure_seen && forwarding_node && same_bytes_modulo_order(&bytes, &b2) && m3 == m2 {
						self.stats.eq_exempt_failed_back += 1;
					} else {
						return Err(fail("monitor-roundtrip-eq", "monitor-roundtrip-eq/live".into(), format!("node {} chan {} at update {}: read(write(m)) != m", i, chan, m.get_latest_update_id())));
					}
				}
				if self.keep {
					self.kept_monitors.push(Harvested { node: i, bytes: bytes.clone(), nonquiescent: nq });
				}
				self.states.insert((i, chan), (bytes, Some(m2)));
			}
		}
		Ok(())
	}

	/// The node's ChannelManager as it would be written now: it must read back against the node's current
	/// monitors (themselves read back from their encodings); the re-read object must be a fixed point
	/// (re-encoding and reading again shows the same channels and payments); and if no peer
	/// is connected (so that writing implies no further disconnection) the re-read object shows the same
	/// channels and payments as the live one.
	pub fn check_manager(&mut self, sim: &Sim, node: usize) -> CaseResult {
		let nd = &sim.w.nodes[node];
		let bytes = nd.node.encode();
		self.stats.manager_images += 1;
		let mut mons: Vec<&Mon> = vec![];
		for ((n, _), (_, m)) in self.states.iter() {
			if *n == node {
				if let Some(m) = m {
					mons.push(m);
				}
			}
		}
		let live_disconnected = (0..sim.w.n).all(|j| j == node || !sim.is_connected(node, j));
		let live = if live_disconnected { Some(manager_static_surface(nd.node)) } else { None };
		let r1: Result<(Vec<u8>, Vec<String>, Vec<String>), String> = with_reloaded_manager(sim, node, &bytes, &mons, |res| match res {
			Err(e) => Err(format!("{:?}", e)),
			Ok(m) => {
				let b2 = m.encode();
				let surf = manager_static_surface(m);
				// (pending events are not drained here: that would run the start-up background events, which
				// need the monitors loaded into a ChainMonitor; events are compared in the twin part)
				let evs: Vec<String> = vec![];
				Ok((b2, surf, evs))
			},
		});
		let (b2, surf1, evs1) = r1.map_err(|e| fail("manager-read", "manager-read/every-step".into(), format!("node {}: ChannelManager does not read back from its own encoding and current monitors: {}", node, e)))?;
		if let Some(live) = live {
			self.stats.manager_live_compared += 1;
			if live != surf1 {
				let d = live.iter().zip(surf1.iter()).find(|(x, y)| x != y).map(|(x, y)| format!("live: {} | re-read: {}", x, y)).unwrap_or_else(|| format!("{} vs {} entries", live.len(), surf1.len()));
				return Err(fail("manager-static", "manager-static/disconnected".into(), format!("node {} (no peer connected): channels / payments differ after write -> read: {}", node, d)));
			}
		}
		if b2.len() == bytes.len() {
			self.stats.manager_same_len += 1;
		}
		let r2: Result<(Vec<String>, Vec<String>), String> = with_reloaded_manager(sim, node, &b2, &mons, |res| match res {
			Err(e) => Err(format!("{:?}", e)),
			Ok(m) => {
				let surf = manager_static_surface(m);
				let evs: Vec<String> = vec![];
				Ok((surf, evs))
			},
		});
		let (surf2, evs2) = r2.map_err(|e| fail("manager-read", "manager-read/reencoded".into(), format!("node {}: re-encoded ChannelManager does not read: {}", node, e)))?;
		if surf1 != surf2 || evs1 != evs2 {
			return Err(fail("manager-fixed-point", "manager-fixed-point".into(), format!("node {}: read(write(read(b))) shows different channels / payments than read(b)", node)));
		}
		if self.keep {
			self.kept_managers.push(Harvested { node, bytes, nonquiescent: true });
		}
		Ok(())
	}

	fn check_update(&mut self, node: usize, u: &ChannelMonitorUpdate) -> CaseResult {
		self.stats.updates += 1;
		let kinds = update_step_kinds(u);
		for k in kinds.iter() {
			*self.stats.step_kinds.entry(k.clone()).or_insert(0) += 1;
		}
		let b = u.encode();
		let mut r = &b[..];
		let u2 = ChannelMonitorUpdate::read(&mut r).map_err(|e| fail("update-read", format!("update-read/{}", kinds.join("+")), format!("node {} update {}: {:?}", node, u.update_id, e)))?;
		if !r.is_empty() {
			return Err(fail("update-read", "update-read/trailing".into(), format!("{} bytes unread", r.len())));
		}
		if u2 != *u {
			return Err(fail("update-roundtrip-eq", format!("update-roundtrip-eq/{}", kinds.join("+")), format!("node {} update {} ({:?}): read(write(u)) != u", node, u.update_id, kinds)));
		}
		// updates contain no hash maps: the encoding of the re-read object is byte-identical
		let b2 = u2.encode();
		if b2 != b {
			return Err(fail("update-reencode", format!("update-reencode/{}", kinds.join("+")), format!("node {} update {}: write(read(write(u))) != write(u)", node, u.update_id)));
		}
		if self.keep {
			self.kept_updates.push(Harvested { node, bytes: b, nonquiescent: true });
		}
		Ok(())
	}
}

// -------------------------------------------------------------------------------------------------
// throw-away reload of a ChannelManager
// -------------------------------------------------------------------------------------------------

/// Read `manager_bytes` as node `node`'s ChannelManager against the given monitors, with throw-away chain
/// monitor / persister / broadcaster, hand it to `f` and drop everything again. The node itself is not
/// touched.
pub fn with_reloaded_manager<R>(sim: &Sim, node: usize, manager_bytes: &[u8], monitors: &[&Mon], f: impl FnOnce(Result<&SManager, DecodeError>) -> R) -> R {
	let nd = &sim.w.nodes[node];
	let persister = Box::new(TestPersister::new());
	let bc = Box::new(TestBroadcaster::with_blocks(nd.blocks.clone()));
	// SAFETY: the references handed out below never escape this function; the objects referring to them are
	// dropped (in reverse order) before the boxes.
	let persister_ref: &'static TestPersister = unsafe { &*(&*persister as *const TestPersister) };
	let bc_ref: &'static TestBroadcaster = unsafe { &*(&*bc as *const TestBroadcaster) };
	let cm = Box::new(TestChainMonitor::new(Some(nd.chain_source), bc_ref, nd.logger, nd.fee_estimator, persister_ref, nd.keys_manager));
	let cm_ref: &'static TestChainMonitor<'static> = unsafe { &*(&*cm as *const TestChainMonitor<'static>) };
	let mut channel_monitors = lightning::util::hash_tables::new_hash_map();
	for m in monitors.iter() {
		channel_monitors.insert(m.channel_id(), *m);
	}
	let mut r = manager_bytes;
	let res = <(BlockLocator, SManager)>::read(
		&mut r,
		ChannelManagerReadArgs {
			config: sim.w.configs[node].clone(),
			entropy_source: nd.keys_manager,
			node_signer: nd.keys_manager,
			signer_provider: nd.keys_manager,
			fee_estimator: nd.fee_estimator,
			router: nd.router,
			message_router: nd.message_router,
			chain_monitor: cm_ref,
			tx_broadcaster: bc_ref,
			logger: nd.logger,
			channel_monitors,
		},
	);
	let out = match res {
		Ok((_, mgr)) => {
			let o = f(Ok(&mgr));
			drop(mgr);
			o
		},
		Err(e) => f(Err(e)),
	};
	drop(cm);
	drop(bc);
	drop(persister);
	out
}

/// Channels and recent payments of a manager, rendered and sorted (connection-independent only when the
/// manager has no connected peer).
pub fn manager_static_surface(m: &SManager) -> Vec<String> {
	let mut out = vec![];
	for mut d in m.list_channels() {
		d.pending_inbound_htlcs.sort_by_key(|h| h.htlc_id);
		d.pending_outbound_htlcs.sort_by_key(|h| (h.htlc_id, h.payment_hash.0));
		out.push(format!("{:?}", d));
	}
	for p in m.list_recent_payments() {
		out.push(format!("{:?}", p));
	}
	out.sort();
	out
}

/// Current monitors of a node, each read back from its own encoding.
pub fn reread_monitors(sim: &Sim, node: usize) -> Vec<Mon> {
	let nd = &sim.w.nodes[node];
	let mut out = vec![];
	for chan in nd.chain_monitor.chain_monitor.list_monitors() {
		if let Ok(m) = nd.chain_monitor.chain_monitor.get_monitor(chan) {
			if let Ok((m2, _)) = read_mon(&m.encode(), nd.keys_manager) {
				out.push(m2);
			}
		}
	}
	out
}

pub fn is_chain_tag(tag: &str) -> bool {
	matches!(tag, "mine" | "reorg" | "restart" | "restart-failed")
}


// -------------------------------------------------------------------------------------------------
// (c) twin worlds: the externally observable surface of a world
// -------------------------------------------------------------------------------------------------

/// Multisets of rendered facts keyed by a class name; compared key by key between the twins.
pub type Surface = BTreeMap<String, Vec<String>>;

fn push(s: &mut Surface, k: String, v: String) {
	s.entry(k).or_default().push(v);
}

/// Positions in `sim.log` / broadcast lists from which the "since the fork" facts are collected.
#[derive(Clone, Debug, Default)]
pub struct ForkMark {
	pub log_pos: usize,
	pub bc_pos: Vec<usize>,
}

pub fn fork_mark(sim: &Sim) -> ForkMark {
	ForkMark { log_pos: sim.log.len(), bc_pos: sim.broadcasts.iter().map(|b| b.len()).collect() }
}

/// The public surface of every node. Keys ending in
/// * `.channels`, `.payments`, `.balances`, `.htlc-msgs` are *state / strict* classes: equal multisets;
/// * `.events` (since the fork): nothing the never-reloaded world emits may be missing in the reloaded one
///   (per distinct rendering: count in reloaded >= count in original). The reloaded world may emit more:
///   LDK documents that events may be replayed after a restart and that handling must be idempotent, so a
///   repetition of an event emitted earlier (before or after the fork) is accepted; and on start-up it
///   re-derives payment resolution events from the monitors of closed channels, which can precede the moment
///   the running node emits them: extra events of the kinds in [`STARTUP_REPLAY_KINDS`] are accepted and
///   labelled. Any other extra event is a difference.
/// * `.broadcasts` (since the fork; transactions without wallet inputs, identified by what they spend) are
///   compared as sets, and an element present in only one world is accepted if it was already broadcast
///   before the fork (re-broadcasting is idempotent).
/// * `.bump-events` and `.bump-broadcasts` (transactions with wallet inputs: CPFP children, externally funded
///   HTLC claims) are informational: `BumpTransaction` events are by design not persisted ("will only be
///   regenerated as needed after restarts"), so the running node may still hold one in memory that the
///   reloaded node no longer needs, and the wallet UTXO chosen depends on handling order.
pub fn surface(sim: &Sim, mark: &ForkMark) -> Surface {
	let mut s = Surface::new();
	for i in 0..sim.w.n {
		let nd = &sim.w.nodes[i];
		for mut d in nd.node.list_channels() {
			// every field of ChannelDetails is compared as is (both worlds are quiescent and reconnected)
			d.pending_inbound_htlcs.sort_by_key(|h| h.htlc_id);
			d.pending_outbound_htlcs.sort_by_key(|h| (h.htlc_id, h.payment_hash.0));
			push(&mut s, format!("n{}.channels", i), format!("{:?}", d));
		}
		for p in nd.node.list_recent_payments() {
			push(&mut s, format!("n{}.payments", i), format!("{:?}", p));
		}
		for b in nd.chain_monitor.chain_monitor.get_claimable_balances(&[]) {
			push(&mut s, format!("n{}.balances", i), format!("{:?}", b));
		}
		let wallet_spk = lightning::util::wallet_utils::WalletSourceSync::get_change_script(&*nd.wallet_source).ok();
		for (k, tx) in sim.broadcasts[i].iter().enumerate() {
			// A transaction is identified by the non-wallet outputs it spends: which wallet UTXO a fee-bumping
			// child uses depends on the order in which the (unordered) bump events were handled.
			let mut ins: Vec<String> = vec![];
			for inp in tx.input.iter() {
				let prev_spk = sim.chain.seen.get(&inp.previous_output.txid).and_then(|t| t.output.get(inp.previous_output.vout as usize)).map(|o| o.script_pubkey.clone());
				if prev_spk.is_some() && prev_spk == wallet_spk {
					continue;
				}
				ins.push(format!("{}", inp.previous_output));
			}
			ins.sort();
			let key = format!("spends[{}]", ins.join(","));
			// commitment transactions of anchor / zero-fee-commitment channels are broadcast by the user's
			// BumpTransaction handler, i.e. they follow the (non-persisted) bump events
			let spends_anchor_funding = tx.input.iter().any(|inp| {
				sim.chans.iter().any(|c| {
					c.funding_tx.compute_txid() == inp.previous_output.txid
						&& inp.previous_output.vout == 0
						&& c.open.common_fields.channel_type.as_ref().map(|t| t.supports_anchors_zero_fee_htlc_tx() || t.supports_anchor_zero_fee_commitments()).unwrap_or(false)
				})
			});
			// ... and so do the children spending an anchor output (330 sat keyed anchor / <= 240 sat shared anchor),
			// which may need no wallet input at all when the anchor's own value covers the fee
			let spends_anchor = tx.input.iter().any(|inp| sim.chain.seen.get(&inp.previous_output.txid).and_then(|t| t.output.get(inp.previous_output.vout as usize)).map(|o| o.value.to_sat() <= 330).unwrap_or(false));
			let bump = ins.len() < tx.input.len() || spends_anchor_funding || spends_anchor;
			let class = match (bump, k < mark.bc_pos[i]) {
				(false, true) => "broadcasts-before",
				(false, false) => "broadcasts",
				(true, true) => "bump-broadcasts-before",
				(true, false) => "bump-broadcasts",
			};
			push(&mut s, format!("n{}.{}", i, class), key);
		}
	}
	for (k, (_, e)) in sim.log.iter().enumerate() {
		let post = k >= mark.log_pos;
		match e {
			SEvent::Ldk { node, ev } => {
				let bump = matches!(ev, lightning::events::Event::BumpTransaction(_));
				let class = match (bump, post) {
					(true, true) => "bump-events",
					(true, false) => "bump-events-before",
					(false, true) => "events",
					(false, false) => "events-before",
				};
				push(&mut s, format!("n{}.{}", node, class), normalize_rendered(&format!("{:?}", ev)));
			},
			SEvent::Deliver { from, to, wire } if post => {
				let r = match wire {
					Wire::Add(m) => Some(format!("add chan={} id={} amt={} hash={} cltv={}", m.channel_id, m.htlc_id, m.amount_msat, m.payment_hash, m.cltv_expiry)),
					Wire::Fulfill(m) => Some(format!("fulfill chan={} id={} preimage={}", m.channel_id, m.htlc_id, m.payment_preimage)),
					Wire::Fail(m) => Some(format!("fail chan={} id={}", m.channel_id, m.htlc_id)),
					Wire::FailMalformed(m) => Some(format!("fail_malformed chan={} id={} code={}", m.channel_id, m.htlc_id, m.failure_code)),
					Wire::Shutdown(m) => Some(format!("shutdown chan={}", m.channel_id)),
					Wire::Error(m) => Some(format!("error chan={} {}", m.channel_id, m.data)),
					_ => None,
				};
				if let Some(r) = r {
					push(&mut s, format!("n{}->n{}.htlc-msgs", from, to), r);
				}
			},
			_ => {},
		}
	}
	for v in s.values_mut() {
		v.sort();
	}
	s
}

/// Identity of a mempool transaction across the twin worlds: its txid, or - for transactions with wallet
/// inputs (fee bumping), whose coin selection depends on handling order - what it spends apart from wallet outputs.
pub fn mempool_key(sim: &Sim, tx: &bitcoin::Transaction) -> String {
	let wallets: Vec<bitcoin::ScriptBuf> = sim.w.nodes.iter().filter_map(|nd| lightning::util::wallet_utils::WalletSourceSync::get_change_script(&*nd.wallet_source).ok()).collect();
	let mut ins: Vec<String> = vec![];
	for inp in tx.input.iter() {
		let prev_spk = sim.chain.seen.get(&inp.previous_output.txid).and_then(|t| t.output.get(inp.previous_output.vout as usize)).map(|o| o.script_pubkey.clone());
		if prev_spk.map(|s| wallets.contains(&s)).unwrap_or(false) {
			continue;
		}
		ins.push(format!("{}", inp.previous_output));
	}
	ins.sort();
	if ins.len() == tx.input.len() {
		// no wallet input: the txid does not depend on signatures or coin selection and identifies the transaction
		// (conflicting commitments of the two peers spend the same outpoint but are different candidates)
		format!("tx:{}", tx.compute_txid())
	} else {
		format!("bump:spends[{}]", ins.join(","))
	}
}

/// The miner of the twin worlds: candidates for the next block are the transactions present (by what they
/// spend) in both mempools, in the same order. Transactions only one world broadcast belong to the accepted
/// asymmetries (stale / regenerated fee-bumping; anything else was already reported as a broadcast difference
/// before a block is mined) and must not make the two chains diverge.
pub fn align_mempools(a: &mut Sim, b: &mut Sim) {
	let ka: Vec<String> = a.chain.mempool.iter().map(|t| mempool_key(a, t)).collect();
	let kb: Vec<String> = b.chain.mempool.iter().map(|t| mempool_key(b, t)).collect();
	for (sim, mine, other) in [(&mut *a, &ka, &kb), (&mut *b, &kb, &ka)] {
		let mut keyed: Vec<(String, bitcoin::Transaction)> = mine.iter().cloned().zip(sim.chain.mempool.drain(..)).filter(|(k, _)| other.contains(k)).collect();
		// one transaction per key (replacements of the same claim: keep the first broadcast)
		let mut seen = std::collections::BTreeSet::new();
		keyed.retain(|(k, _)| seen.insert(k.clone()));
		keyed.sort_by(|x, y| x.0.cmp(&y.0));
		sim.chain.mempool = keyed.into_iter().map(|(_, t)| t).collect();
	}
}

fn multiset_minus(a: &[String], b: &[String]) -> Vec<String> {
	let mut rest: Vec<String> = b.to_vec();
	let mut out = vec![];
	for x in a {
		if let Some(p) = rest.iter().position(|y| y == x) {
			rest.swap_remove(p);
		} else {
			out.push(x.clone());
		}
	}
	out
}

/// Remove from a rendered event what legitimately differs between two executions of the same history:
/// * witness data: LDK signs with auxiliary randomness drawn from the node's entropy source
///   (`sign_with_aux_rand`), and the reload consumes a different amount of entropy than the bounce, so
///   signatures differ while the signed transactions (txids) are the same;
/// * `hold_times`: wall-clock measurements (attribution data, 100 ms units);
/// * the blinded hops of a `BlindedTail` (random blinding, see below).
pub fn normalize_rendered(s: &str) -> String {
	// (pattern, opening bracket, closing bracket, replacement up to and including the bracketed part)
	const PATS: &[(&str, char, char, &str)] = &[
		("witness: Witness: {", '{', '}', "witness: <..>"),
		("hold_times: [", '[', ']', "hold_times: [..]"),
		// a blinded path is built from the recipient's entropy source, which a reload advances differently
		("blinded_tail: Some(BlindedTail {", '{', '}', "blinded_tail: Some(BlindedTail <..>"),
	];
	let mut out = String::with_capacity(s.len());
	let mut rest = s;
	loop {
		let first = PATS.iter().filter_map(|p| rest.find(p.0).map(|pos| (pos, p))).min_by_key(|(pos, _)| *pos);
		let Some((pos, (_, open, close, tag))) = first else { break };
		let (open, close) = (*open, *close);
		out.push_str(&rest[..pos]);
		out.push_str(tag);
		let after = &rest[pos..];
		let start = after.find(open).unwrap();
		let mut depth = 0i32;
		let mut end = after.len();
		for (i, ch) in after[start..].char_indices() {
			if ch == open {
				depth += 1;
			} else if ch == close {
				depth -= 1;
				if depth == 0 {
					end = start + i + 1;
					break;
				}
			}
		}
		rest = &after[end..];
	}
	out.push_str(rest);
	out
}

/// Event kinds LDK re-derives on start-up from the monitors of closed channels / pending claims.
pub const STARTUP_REPLAY_KINDS: &[&str] = &["PaymentPathSuccessful", "PaymentSent", "PaymentClaimed", "PaymentFailed", "PaymentPathFailed", "PaymentForwarded"];

/// First difference between the world that kept running (`a`) and the one that reloaded (`b`) under the
/// rules stated at [`surface`]: (class, unexplained in a only, unexplained in b only). `notes` receives labels
/// for accepted asymmetries.
pub fn surface_diff(a: &Surface, b: &Surface, notes: &mut Vec<String>) -> Option<(String, Vec<String>, Vec<String>)> {
	let keys: std::collections::BTreeSet<&String> = a.keys().chain(b.keys()).collect();
	let empty = vec![];
	for k in keys {
		if k.ends_with("-before") {
			continue;
		}
		let va = a.get(k).unwrap_or(&empty);
		let vb = b.get(k).unwrap_or(&empty);
		if va == vb {
			continue;
		}
		let before_a = a.get(&format!("{}-before", k)).unwrap_or(&empty);
		let before_b = b.get(&format!("{}-before", k)).unwrap_or(&empty);
		let (only_a, only_b) = if k.ends_with(".bump-events") || k.ends_with(".bump-broadcasts") {
			notes.push(format!("accepted:{}-differ", k.split('.').last().unwrap_or("")));
			(vec![], vec![])
		} else if k.ends_with(".broadcasts") {
			let oa: Vec<String> = va.iter().filter(|x| !vb.contains(x) && !before_a.contains(x)).cloned().collect();
			let ob: Vec<String> = vb.iter().filter(|x| !va.contains(x) && !before_b.contains(x)).cloned().collect();
			(oa, ob)
		} else if k.ends_with(".events") {
			let oa = multiset_minus(va, vb);
			let mut ob = vec![];
			for x in multiset_minus(vb, va) {
				let kind: String = x.chars().take_while(|c| c.is_alphanumeric()).collect();
				if before_b.contains(&x) || va.contains(&x) {
					notes.push(format!("accepted:event-replayed:{}", kind));
				} else if STARTUP_REPLAY_KINDS.contains(&kind.as_str()) {
					notes.push(format!("accepted:event-rederived-at-startup:{}", kind));
				} else {
					ob.push(x);
				}
			}
			(oa, ob)
		} else {
			(multiset_minus(va, vb), multiset_minus(vb, va))
		};
		if !only_a.is_empty() || !only_b.is_empty() {
			return Some((k.clone(), only_a, only_b));
		}
	}
	None
}

impl Sim {
	/// Reload `node` from its ChannelManager's encoding taken now and the encodings, taken now, of its live
	/// monitors (a pure write -> read of the node's persisted objects; no staleness). All its connections
	/// drop, as after any restart.
	pub fn c12_reload(&mut self, node: usize) -> Result<(), String> {
		let mgr_bytes = self.w.nodes[node].node.encode();
		let mut images = vec![];
		let mut ids = vec![];
		{
			let nd = &self.w.nodes[node];
			let mut chans = nd.chain_monitor.chain_monitor.list_monitors();
			chans.sort();
			for c in chans {
				if let Ok(m) = nd.chain_monitor.chain_monitor.get_monitor(c) {
					ids.push((c, m.get_latest_update_id()));
					images.push(m.encode());
				}
			}
		}
		let peers: Vec<usize> = (0..self.w.n).filter(|j| *j != node && self.is_connected(node, *j)).collect();
		for j in peers.iter().cloned() {
			self.connected.remove(&if node < j { (node, j) } else { (j, node) });
			for (f, t) in [(node, j), (j, node)] {
				let q: Vec<Wire> = self.links.get_mut(&(f, t)).unwrap().drain(..).collect();
				for wire in q {
					self.rec(SEvent::Dropped { from: f, to: t, wire });
				}
			}
			self.rec(SEvent::Disconnect { a: node, b: j });
		}
		let r = self.w.restart(node, &mgr_bytes, &images, &peers);
		self.rec(SEvent::Restart { node, snapshot_step: 0, monitor_ids: ids, ok: r.is_ok(), detail: r.clone().err().unwrap_or_default() });
		if r.is_err() {
			return r;
		}
		self.snapshots[node].clear();
		for j in 0..self.w.n {
			self.drain(j);
		}
		Ok(())
	}

	/// What a running node's background processor does on its timer (and right after start-up): have the
	/// monitors regenerate / rebroadcast their pending claims. `BumpTransaction` events are by design not
	/// persisted ("replayed upon restarting"), so both twins get this call before they are compared.
	pub fn c12_rebroadcast_all(&mut self) {
		for i in 0..self.w.n {
			self.w.nodes[i].chain_monitor.chain_monitor.rebroadcast_pending_claims();
			self.drain(i);
		}
	}

	/// The "equivalent of a reload" in the world whose node keeps running: everything the node's persister
	/// was asked to write is completed (a reload from the written images implies that), persistence is
	/// synchronous from now on (a fresh persister), and every connection of the node drops.
	pub fn c12_bounce(&mut self, node: usize, spec: &WorldSpec) {
		if spec.deferred {
			let nd = &self.w.nodes[node];
			let cnt = nd.chain_monitor.pending_operation_count();
			nd.chain_monitor.chain_monitor.flush(cnt, &nd.logger);
			self.drain(node);
		}
		self.complete_all_updates(node);
		self.w.set_async(node, None, false);
		let chans: Vec<ChannelId> = self.w.persisters[node].state.lock().unwrap().async_chans.iter().cloned().collect();
		for c in chans {
			self.w.set_async(node, Some(c), false);
		}
		for j in 0..self.w.n {
			if j != node && self.is_connected(node, j) {
				self.disconnect(node, j);
			}
		}
	}
}

// -------------------------------------------------------------------------------------------------
// (e) + (f): structural TLV-tail locator, unknown-TLV injection, truncations and byte mutations
// -------------------------------------------------------------------------------------------------

/// BigSize (BOLT-1) at `b[pos..]`: (value, encoded length); None if truncated or not minimally encoded.
pub fn read_bigsize(b: &[u8], pos: usize) -> Option<(u64, usize)> {
	let f = *b.get(pos)?;
	match f {
		0..=0xfc => Some((f as u64, 1)),
		0xfd => {
			let v = u16::from_be_bytes(b.get(pos + 1..pos + 3)?.try_into().ok()?) as u64;
			if v < 0xfd {
				None
			} else {
				Some((v, 3))
			}
		},
		0xfe => {
			let v = u32::from_be_bytes(b.get(pos + 1..pos + 5)?.try_into().ok()?) as u64;
			if v < 0x1_0000 {
				None
			} else {
				Some((v, 5))
			}
		},
		0xff => {
			let v = u64::from_be_bytes(b.get(pos + 1..pos + 9)?.try_into().ok()?);
			if v < 0x1_0000_0000 {
				None
			} else {
				Some((v, 9))
			}
		},
	}
}

pub fn write_bigsize(v: u64) -> Vec<u8> {
	if v < 0xfd {
		vec![v as u8]
	} else if v < 0x1_0000 {
		let mut o = vec![0xfd];
		o.extend_from_slice(&(v as u16).to_be_bytes());
		o
	} else if v < 0x1_0000_0000 {
		let mut o = vec![0xfe];
		o.extend_from_slice(&(v as u32).to_be_bytes());
		o
	} else {
		let mut o = vec![0xff];
		o.extend_from_slice(&v.to_be_bytes());
		o
	}
}

/// Parse `b` as a TLV stream with strictly ascending types: the record types, or None.
pub fn parse_tlv_stream(b: &[u8]) -> Option<Vec<u64>> {
	let mut pos = 0;
	let mut types = vec![];
	while pos < b.len() {
		let (t, n) = read_bigsize(b, pos)?;
		pos += n;
		let (l, n) = read_bigsize(b, pos)?;
		pos += n;
		if let Some(last) = types.last() {
			if t <= *last {
				return None;
			}
		}
		let end = pos.checked_add(usize::try_from(l).ok()?)?;
		if end > b.len() {
			return None;
		}
		pos = end;
		types.push(t);
	}
	Some(types)
}

/// What the harness knows about the top-level tail TLV stream of each object kind (from the `write_tlv_fields!`
/// list in the source): all types that may occur and types that are always written.
pub struct TailSpec {
	pub known: &'static [u64],
	pub always: &'static [u64],
}

pub const MONITOR_TAIL: TailSpec = TailSpec { known: &[1, 3, 5, 7, 9, 11, 13, 15, 17, 19, 21, 23, 25, 27, 29, 31, 32, 33, 34, 35, 37, 39, 41], always: &[3, 5, 7, 9, 19, 25, 31] };
pub const UPDATE_TAIL: TailSpec = TailSpec { known: &[1, 3], always: &[3] };
pub const MANAGER_TAIL: TailSpec = TailSpec { known: &[1, 2, 3, 4, 5, 6, 7, 8, 9, 10, 11, 13, 14, 15, 17, 19, 21, 23], always: &[1, 3, 5, 7, 9, 11, 15, 21, 23] };

thread_local! {
	/// (tails located, tails not located unambiguously) by [`tlv_injection_oracle`] since the last reset
	pub static TLV_STATS: std::cell::Cell<(u64, u64)> = std::cell::Cell::new((0, 0));
}

pub const GRAPH_TAIL: TailSpec = TailSpec { known: &[1], always: &[] };
pub const SCORER_TAIL: TailSpec = TailSpec { known: &[0], always: &[0] };
pub const SWEEPER_TAIL: TailSpec = TailSpec { known: &[0, 2], always: &[0, 2] };

/// Unknown-TLV oracle for objects read through a closure: `read(bytes)` returns a canonical rendering of the
/// object (or Err). Odd unknown records appended to the structurally located tail stream must leave the
/// rendering unchanged, even ones must make the read fail. Returns false if the tail could not be located
/// unambiguously.
pub fn tlv_injection_oracle(kind: &str, bytes: &[u8], spec: &TailSpec, read: &dyn Fn(&[u8]) -> Result<Vec<u8>, String>) -> Result<bool, Failure> {
	let Ok(tail) = locate_tail(bytes, spec) else {
		TLV_STATS.with(|c| c.set((c.get().0, c.get().1 + 1)));
		return Ok(false);
	};
	TLV_STATS.with(|c| c.set((c.get().0 + 1, c.get().1)));
	let base = read(bytes).map_err(|e| fail("corrupt-base-read", format!("{}-read/harvested", kind), e))?;
	for (typ, val) in [(1001u64, &[1u8, 2, 3][..]), (0xffff_ffff_ffffu64 | 1, &[][..]), (43, &[0u8; 40][..])] {
		match read(&inject_tail_record(bytes, tail, typ, val)) {
			Err(e) => return Err(fail("tlv-odd-unknown", format!("tlv-odd-unknown/{}", kind), format!("{} with unknown odd TLV type {} appended to its tail stream is rejected: {}", kind, typ, e))),
			Ok(r) => {
				if r != base {
					return Err(fail("tlv-odd-unknown", format!("tlv-odd-unknown-changed/{}", kind), format!("{} read with unknown odd TLV type {} differs from the one read without", kind, typ)));
				}
			},
		}
	}
	for typ in [1000u64, 42, 0xffff_fffe] {
		if read(&inject_tail_record(bytes, tail, typ, &[9u8, 9])).is_ok() {
			return Err(fail("tlv-even-unknown", format!("tlv-even-unknown/{}", kind), format!("{} with unknown even TLV type {} in its tail stream is accepted", kind, typ)));
		}
	}
	Ok(true)
}

/// Locate the tail TLV stream structurally: positions whose BigSize length equals the remaining length and
/// whose content parses as an ascending TLV stream with only known types, including the always-written
/// ones. Returns (position of the length prefix, position of the content) if exactly one position qualifies.
pub fn locate_tail(b: &[u8], spec: &TailSpec) -> Result<(usize, usize), usize> {
	let mut found = vec![];
	for pos in (0..b.len()).rev() {
		if let Some((l, n)) = read_bigsize(b, pos) {
			if ((pos + n) as u64).checked_add(l) == Some(b.len() as u64) {
				if let Some(types) = parse_tlv_stream(&b[pos + n..]) {
					if types.iter().all(|t| spec.known.contains(t)) && spec.always.iter().all(|t| types.contains(t)) {
						found.push((pos, pos + n));
					}
				}
			}
		}
	}
	if found.len() == 1 {
		Ok(found[0])
	} else {
		Err(found.len())
	}
}

/// Append one record (type, value) to the tail TLV stream located at `tail` and fix the length prefix.
pub fn inject_tail_record(b: &[u8], tail: (usize, usize), typ: u64, value: &[u8]) -> Vec<u8> {
	let (lp, cp) = tail;
	let mut content = b[cp..].to_vec();
	content.extend_from_slice(&write_bigsize(typ));
	content.extend_from_slice(&write_bigsize(value.len() as u64));
	content.extend_from_slice(value);
	let mut out = b[..lp].to_vec();
	out.extend_from_slice(&write_bigsize(content.len() as u64));
	out.extend_from_slice(&content);
	out
}

thread_local! {
	/// what the corruption oracle is doing right now ("read" while inside the library's read function)
	pub static STAGE: std::cell::Cell<&'static str> = std::cell::Cell::new("");
}
fn stage(s: &'static str) {
	STAGE.with(|c| c.set(s));
}

#[derive(Clone, Copy, Debug, PartialEq, Eq)]
pub enum Kind {
	Monitor,
	Update,
	Manager,
}

/// Outcome of reading possibly corrupted bytes as an object of `kind`.
pub enum ReadOutcome {
	Err(String),
	Monitor(Mon),
	Update(ChannelMonitorUpdate),
	/// static surface and re-encoding of the manager that was read
	Manager(Vec<String>, Vec<u8>),
}

pub struct Corruptor<'a> {
	pub sim: &'a Sim,
	pub node: usize,
	pub kind: Kind,
	/// monitors handed to `ChannelManager::read` (re-read from the node's live monitors)
	pub mons: Vec<Mon>,
}

impl<'a> Corruptor<'a> {
	pub fn new(sim: &'a Sim, node: usize, kind: Kind) -> Corruptor<'a> {
		let mons = if kind == Kind::Manager { reread_monitors(sim, node) } else { vec![] };
		Corruptor { sim, node, kind, mons }
	}

	pub fn tail_spec(&self) -> &'static TailSpec {
		match self.kind {
			Kind::Monitor => &MONITOR_TAIL,
			Kind::Update => &UPDATE_TAIL,
			Kind::Manager => &MANAGER_TAIL,
		}
	}

	pub fn read(&self, b: &[u8]) -> ReadOutcome {
		let keys = self.sim.w.nodes[self.node].keys_manager;
		stage("read");
		let r = self.read_inner(b, keys);
		stage("after-read");
		r
	}

	fn read_inner(&self, b: &[u8], keys: &TestKeysInterface) -> ReadOutcome {
		match self.kind {
			Kind::Monitor => match read_mon(b, keys) {
				Ok((m, _)) => ReadOutcome::Monitor(m),
				Err(e) => ReadOutcome::Err(format!("{:?}", e)),
			},
			Kind::Update => {
				let mut r = b;
				match ChannelMonitorUpdate::read(&mut r) {
					Ok(u) => ReadOutcome::Update(u),
					Err(e) => ReadOutcome::Err(format!("{:?}", e)),
				}
			},
			Kind::Manager => {
				let refs: Vec<&Mon> = self.mons.iter().collect();
				with_reloaded_manager(self.sim, self.node, b, &refs, |res| {
					stage("inspect");
					match res {
						Ok(m) => ReadOutcome::Manager(manager_static_surface(m), m.encode()),
						Err(e) => ReadOutcome::Err(format!("{:?}", e)),
					}
				})
			},
		}
	}

	/// `a` and `b` were read from two encodings that must denote the same object.
	pub fn same(&self, a: &ReadOutcome, b: &ReadOutcome) -> bool {
		match (a, b) {
			(ReadOutcome::Monitor(x), ReadOutcome::Monitor(y)) => x == y,
			(ReadOutcome::Update(x), ReadOutcome::Update(y)) => x == y,
			(ReadOutcome::Manager(x, bx), ReadOutcome::Manager(y, by)) => x == y && same_bytes_modulo_order(bx, by),
			_ => false,
		}
	}

	/// An object that was read from corrupted bytes must itself survive a round trip.
	pub fn roundtrips(&self, o: &ReadOutcome) -> Result<(), String> {
		match o {
			ReadOutcome::Err(_) => Ok(()),
			ReadOutcome::Monitor(m) => {
				let b = m.encode();
				match self.read(&b) {
					ReadOutcome::Monitor(m2) if m2 == *m => Ok(()),
					ReadOutcome::Monitor(_) => Err("re-read monitor differs".into()),
					ReadOutcome::Err(e) => Err(format!("monitor read from corrupted bytes does not read back from its own encoding: {}", e)),
					_ => Err("?".into()),
				}
			},
			ReadOutcome::Update(u) => {
				let b = u.encode();
				match self.read(&b) {
					ReadOutcome::Update(u2) if u2 == *u => Ok(()),
					ReadOutcome::Update(_) => Err("re-read update differs".into()),
					ReadOutcome::Err(e) => Err(format!("update read from corrupted bytes does not read back from its own encoding: {}", e)),
					_ => Err("?".into()),
				}
			},
			ReadOutcome::Manager(surf, b) => match self.read(b) {
				ReadOutcome::Manager(s2, _) if s2 == *surf => Ok(()),
				ReadOutcome::Manager(_, _) => Err("re-read manager shows different channels / payments".into()),
				ReadOutcome::Err(e) => Err(format!("manager read from corrupted bytes does not read back from its own encoding: {}", e)),
				_ => Err("?".into()),
			},
		}
	}
}

#[derive(Default, Clone, Debug)]
pub struct CorruptStats {
	pub tail_located: u64,
	pub tail_ambiguous: u64,
	pub odd_ok: u64,
	pub even_err: u64,
	pub prefixes: u64,
	pub mutations_err: u64,
	pub mutations_ok_same: u64,
	pub mutations_ok_other: u64,
	/// survey mode: record findings instead of failing
	pub survey: bool,
	pub findings: BTreeMap<String, u64>,
	pub examples: Vec<String>,
}

/// Run the corruption oracles (e) and (f) on one harvested encoding.
/// `cuts`: prefix lengths to try (taken modulo the length); `muts`: (position, xor mask) single-byte mutations.
pub fn corrupt_object(cx: &Corruptor, bytes: &[u8], odd_value: &[u8], cuts: &[u32], muts: &[(u32, u8)], all_cuts_below: usize, st: &mut CorruptStats) -> CaseResult {
	let kind = format!("{:?}", cx.kind).to_lowercase();
	let base = cx.read(bytes);
	if let ReadOutcome::Err(e) = &base {
		return Err(fail("corrupt-base-read", format!("{}-read/harvested", kind), format!("harvested {} does not read: {}", kind, e)));
	}
	// (e) unknown TLV records in the tail stream
	match locate_tail(bytes, cx.tail_spec()) {
		Ok(tail) => {
			st.tail_located += 1;
			// odd unknown types: skipped, object unchanged (also when the value is empty / long)
			for (typ, val) in [(1001u64, odd_value), (0xffff_ffff_ffffu64 | 1, &odd_value[..odd_value.len().min(1)]), (43, &[][..])] {
				let inj = inject_tail_record(bytes, tail, typ, val);
				let got = cx.read(&inj);
				match &got {
					ReadOutcome::Err(e) => return Err(fail("tlv-odd-unknown", format!("tlv-odd-unknown/{}", kind), format!("{} with unknown odd TLV type {} appended to its tail stream is rejected: {}", kind, typ, e))),
					_ => {
						if !cx.same(&base, &got) {
							return Err(fail("tlv-odd-unknown", format!("tlv-odd-unknown-changed/{}", kind), format!("{} read with unknown odd TLV type {} differs from the one read without", kind, typ)));
						}
					},
				}
				st.odd_ok += 1;
			}
			// even unknown types: rejected
			for typ in [1000u64, 42, 0xffff_fffe] {
				let inj = inject_tail_record(bytes, tail, typ, odd_value);
				if !matches!(cx.read(&inj), ReadOutcome::Err(_)) {
					return Err(fail("tlv-even-unknown", format!("tlv-even-unknown/{}", kind), format!("{} with unknown even TLV type {} in its tail stream is accepted", kind, typ)));
				}
				st.even_err += 1;
			}
		},
		Err(_) => st.tail_ambiguous += 1,
	}
	// (f) strict prefixes
	let mut cut_points: Vec<usize> = if bytes.len() <= all_cuts_below { (0..bytes.len()).collect() } else { cuts.iter().map(|c| *c as usize % bytes.len()).collect() };
	if bytes.len() > all_cuts_below {
		// always include the structurally interesting ones: just before / inside the tail stream
		for d in 1..=8usize {
			if bytes.len() > d {
				cut_points.push(bytes.len() - d);
			}
		}
	}
	cut_points.sort();
	cut_points.dedup();
	for cut in cut_points {
		st.prefixes += 1;
		if !matches!(cx.read(&bytes[..cut]), ReadOutcome::Err(_)) {
			return Err(fail("strict-prefix", format!("strict-prefix/{}", kind), format!("the first {} of {} bytes of a {} read successfully", cut, bytes.len(), kind)));
		}
	}
	// (f) single-byte mutations: Err, or an object that itself round-trips; a panic anywhere on the way is
	// classified by its location
	for (pos, xor) in muts {
		let p = *pos as usize % bytes.len();
		let mut m = bytes.to_vec();
		m[p] ^= (*xor).max(1);
		let saved = vcore::take_last_panic();
		let r = std::panic::catch_unwind(std::panic::AssertUnwindSafe(|| {
			let got = cx.read(&m);
			match &got {
				ReadOutcome::Err(_) => (0u8, Ok(())),
				_ => {
					stage("reencode");
					let re = match &got {
						ReadOutcome::Monitor(m) => m.encode(),
						ReadOutcome::Update(u) => u.encode(),
						ReadOutcome::Manager(_, b) => b.clone(),
						ReadOutcome::Err(_) => vec![],
					};
					// (no `==` against the original here: LDK's equality debug-asserts internal consistency of
					// cached transactions, which a value-level corruption may break without making the encoding
					// invalid)
					let same = same_bytes_modulo_order(&re, bytes);
					let rt = cx.roundtrips(&got);
					stage("done");
					(if same { 1 } else { 2 }, rt)
				},
			}
		}));
		let finding: Option<(String, String)> = match r {
			Ok((0, _)) => {
				st.mutations_err += 1;
				None
			},
			Ok((c, rt)) => {
				if c == 1 {
					st.mutations_ok_same += 1;
				} else {
					st.mutations_ok_other += 1;
				}
				rt.err().map(|e| (format!("mutation-roundtrip/{}/{}", kind, e.rsplit(": ").next().unwrap_or("")), format!("{} byte {} of {} ^ {:#x}: {}", kind, p, bytes.len(), xor, e)))
			},
			Err(_) => {
				let (msg, loc) = vcore::take_last_panic().unwrap_or_default();
				let loc_short = loc.rsplit("/lightning/src/").next().unwrap_or(&loc).to_string();
				let stg = STAGE.with(|c| c.get());
				Some((format!("mutation-panic/{}/{}@{}", kind, stg, loc_short), format!("[{}] {} byte {} of {} ^ {:#x}: panic at {}: {}", stg, kind, p, bytes.len(), xor, loc, msg.chars().take(200).collect::<String>())))
			},
		};
		vcore::set_last_panic(saved);
		if let Some((key, detail)) = finding {
			if st.survey {
				*st.findings.entry(key).or_insert(0) += 1;
				st.examples.push(detail);
			} else {
				let oracle = if key.starts_with("mutation-panic") { "mutation-panic" } else { "mutation-roundtrip" };
				return Err(fail(oracle, key, detail));
			}
		}
	}
	Ok(())
}

// -------------------------------------------------------------------------------------------------
// (d) NetworkGraph, ProbabilisticScorer, OutputSweeper
// -------------------------------------------------------------------------------------------------

pub mod aux {
	use super::*;
	use bitcoin::constants::ChainHash;
	use bitcoin::secp256k1::{PublicKey, Secp256k1, SecretKey};
	use bitcoin::Network;
	use lightning::ln::msgs::{SocketAddress, UnsignedChannelAnnouncement, UnsignedChannelUpdate, UnsignedNodeAnnouncement};
	use lightning::routing::gossip::{NetworkGraph, NodeAlias, NodeId};
	use lightning::routing::router::{CandidateRouteHop, Path, PublicHopCandidate, RouteHop};
	use lightning::routing::scoring::{ChannelUsage, ProbabilisticScorer, ProbabilisticScoringDecayParameters, ProbabilisticScoringFeeParameters, ScoreLookUp, ScoreUpdate};
	use lightning::routing::utxo::UtxoLookup;
	use lightning::types::features::{ChannelFeatures, NodeFeatures};
	use serde::{Deserialize, Serialize};
	use std::time::Duration;
	use vcore::pick;

	pub type Graph = NetworkGraph<&'static TestLogger>;

	#[derive(Clone, Debug, Serialize, Deserialize)]
	pub enum GossipOp {
		/// announce a channel between two of the known nodes; `full`: through an (unsigned) channel_announcement,
		/// otherwise through the partial-announcement path used by rapid gossip sync
		Announce { a: u8, b: u8, scid: u32, capacity_sat: Option<u64>, full: bool, excess: Vec<u8> },
		Update { chan: u16, dir: bool, ts: u32, disabled: bool, cltv: u16, min: u64, max: u64, base: u32, ppm: u32, excess: Vec<u8> },
		NodeAnn { node: u8, ts: u32, alias: Vec<u8>, rgb: [u8; 3], addrs: Vec<(u8, [u8; 16], u16)>, excess: Vec<u8> },
		FailChannel { chan: u16 },
		FailNode { node: u8 },
		Stale { now: u32 },
		RgsTimestamp(u32),
	}

	#[derive(Clone, Debug, Serialize, Deserialize)]
	pub struct PathSpec {
		pub start: u16,
		pub hops: Vec<u16>,
		pub amount_msat: u64,
	}

	#[derive(Clone, Debug, Serialize, Deserialize)]
	pub enum ScoreOp {
		Failed { path: PathSpec, at: u8, dt: u32 },
		Success { path: PathSpec, dt: u32 },
		ProbeFailed { path: PathSpec, at: u8, dt: u32 },
		ProbeSuccess { path: PathSpec, dt: u32 },
		TimePassed { dt: u32 },
	}

	#[derive(Clone, Debug, Serialize, Deserialize)]
	pub struct Query {
		pub chan: u16,
		pub dir: bool,
		pub amount_msat: u64,
		pub inflight_msat: u64,
	}

	#[derive(Clone, Debug, Serialize, Deserialize)]
	pub struct FeeParams {
		pub base: u64,
		pub base_amt_mult: u64,
		pub liq_mult: u64,
		pub liq_amt_mult: u64,
		pub hist_mult: u64,
		pub hist_amt_mult: u64,
		pub anti_probing: u64,
		pub impossible: u64,
		pub linear: bool,
		pub probing_diversity: u64,
	}

	impl FeeParams {
		pub fn build(&self, with_probing_diversity: bool) -> ProbabilisticScoringFeeParameters {
			let mut p = ProbabilisticScoringFeeParameters::default();
			p.base_penalty_msat = self.base;
			p.base_penalty_amount_multiplier_msat = self.base_amt_mult;
			p.liquidity_penalty_multiplier_msat = self.liq_mult;
			p.liquidity_penalty_amount_multiplier_msat = self.liq_amt_mult;
			p.historical_liquidity_penalty_multiplier_msat = self.hist_mult;
			p.historical_liquidity_penalty_amount_multiplier_msat = self.hist_amt_mult;
			p.anti_probing_penalty_msat = self.anti_probing;
			p.considered_impossible_penalty_msat = self.impossible;
			p.linear_success_probability = self.linear;
			p.probing_diversity_penalty_msat = if with_probing_diversity { self.probing_diversity } else { 0 };
			p
		}
	}

	pub fn node_key(seed: u8) -> PublicKey {
		let secp = Secp256k1::new();
		let mut sk = [0x42u8; 32];
		sk[31] = seed;
		sk[0] = 1;
		PublicKey::from_secret_key(&secp, &SecretKey::from_slice(&sk).unwrap())
	}

	struct FixedUtxo {
		value_sat: u64,
		spk: bitcoin::ScriptBuf,
	}
	impl UtxoLookup for FixedUtxo {
		fn get_utxo(&self, _: &ChainHash, _: u64, _: std::sync::Arc<lightning::util::wakers::Notifier>) -> lightning::routing::utxo::UtxoResult {
			lightning::routing::utxo::UtxoResult::Sync(Ok(bitcoin::TxOut { value: bitcoin::Amount::from_sat(self.value_sat), script_pubkey: self.spk.clone() }))
		}
	}

	/// The channels known to the harness: (scid, node a, node b)
	pub struct GraphModel {
		pub nodes: Vec<PublicKey>,
		pub chans: Vec<(u64, usize, usize)>,
		pub applied: u64,
		pub rejected: u64,
	}

	pub fn apply_gossip(g: &Graph, m: &mut GraphModel, op: &GossipOp) {
		let chain_hash = ChainHash::using_genesis_block(Network::Testnet);
		let ok = match op {
			GossipOp::Announce { a, b, scid, capacity_sat, full, excess } => {
				let ia = pick((*a as u16) << 8, m.nodes.len());
				let mut ib = pick((*b as u16) << 8, m.nodes.len());
				if ia == ib {
					ib = (ib + 1) % m.nodes.len();
				}
				let (n1, n2) = (NodeId::from_pubkey(&m.nodes[ia]), NodeId::from_pubkey(&m.nodes[ib]));
				let (i1, i2, n1, n2) = if n1 < n2 { (ia, ib, n1, n2) } else { (ib, ia, n2, n1) };
				// block 200+ so that it cannot collide with the world's own channels
				let scid = ((200 + (*scid as u64 >> 12)) << 40) | (((*scid as u64) & 0xfff) << 16);
				if m.chans.iter().any(|c| c.0 == scid) {
					false
				} else {
					let r = if *full {
						let k1 = node_key(200 + i1 as u8);
						let k2 = node_key(220 + i2 as u8);
						let msg = UnsignedChannelAnnouncement {
							features: ChannelFeatures::empty(),
							chain_hash,
							short_channel_id: scid,
							node_id_1: n1,
							node_id_2: n2,
							bitcoin_key_1: NodeId::from_pubkey(&k1),
							bitcoin_key_2: NodeId::from_pubkey(&k2),
							excess_data: excess.clone(),
						};
						match capacity_sat {
							Some(v) => {
								let spk = lightning::ln::chan_utils::make_funding_redeemscript(&k1, &k2).to_p2wsh();
								g.update_channel_from_unsigned_announcement(&msg, &Some(&FixedUtxo { value_sat: *v, spk })).is_ok()
							},
							None => g.update_channel_from_unsigned_announcement::<&FixedUtxo>(&msg, &None).is_ok(),
						}
					} else {
						g.add_channel_from_partial_announcement(scid, *capacity_sat, 1_700_000_000, ChannelFeatures::empty(), n1, n2).is_ok()
					};
					if r {
						m.chans.push((scid, i1, i2));
					}
					r
				}
			},
			GossipOp::Update { chan, dir, ts, disabled, cltv, min, max, base, ppm, excess } => {
				if m.chans.is_empty() {
					false
				} else {
					let c = m.chans[pick(*chan, m.chans.len())];
					let msg = UnsignedChannelUpdate {
						chain_hash,
						short_channel_id: c.0,
						timestamp: 1_700_000_000 + *ts,
						message_flags: 1,
						channel_flags: (*dir as u8) | ((*disabled as u8) << 1),
						cltv_expiry_delta: *cltv,
						htlc_minimum_msat: *min,
						htlc_maximum_msat: *max,
						fee_base_msat: *base,
						fee_proportional_millionths: *ppm,
						excess_data: excess.clone(),
					};
					g.update_channel_unsigned(&msg).is_ok()
				}
			},
			GossipOp::NodeAnn { node, ts, alias, rgb, addrs, excess } => {
				let i = pick((*node as u16) << 8, m.nodes.len());
				let mut al = [0u8; 32];
				for (k, b) in alias.iter().take(32).enumerate() {
					al[k] = *b;
				}
				let addresses = addrs
					.iter()
					.map(|(kind, data, port)| match kind % 5 {
						0 => SocketAddress::TcpIpV4 { addr: [data[0], data[1], data[2], data[3]], port: *port },
						1 => SocketAddress::TcpIpV6 { addr: *data, port: *port },
						2 => SocketAddress::OnionV2(data[..12].try_into().unwrap()),
						3 => {
							let mut k = [0u8; 32];
							k[..16].copy_from_slice(data);
							SocketAddress::OnionV3 { ed25519_pubkey: k, checksum: *port, version: data[0], port: *port }
						},
						_ => SocketAddress::Hostname { hostname: lightning::util::ser::Hostname::try_from(format!("h{}.example", data[0])).unwrap(), port: *port },
					})
					.collect();
				let msg = UnsignedNodeAnnouncement {
					features: NodeFeatures::empty(),
					timestamp: 1_700_000_000 + *ts,
					node_id: NodeId::from_pubkey(&m.nodes[i]),
					rgb: *rgb,
					alias: NodeAlias(al),
					addresses,
					excess_address_data: vec![],
					excess_data: excess.clone(),
				};
				g.update_node_from_unsigned_announcement(&msg).is_ok()
			},
			GossipOp::FailChannel { chan } => {
				if m.chans.is_empty() {
					false
				} else {
					let i = pick(*chan, m.chans.len());
					g.channel_failed_permanent(m.chans[i].0);
					m.chans.remove(i);
					true
				}
			},
			GossipOp::FailNode { node } => {
				let i = pick((*node as u16) << 8, m.nodes.len());
				g.node_failed_permanent(&m.nodes[i]);
				m.chans.retain(|c| c.1 != i && c.2 != i);
				true
			},
			GossipOp::Stale { now } => {
				g.remove_stale_channels_and_tracking_with_time(1_700_000_000 + *now as u64);
				let ro = g.read_only();
				m.chans.retain(|c| ro.channel(c.0).is_some());
				true
			},
			GossipOp::RgsTimestamp(t) => {
				g.set_last_rapid_gossip_sync_timestamp(*t);
				true
			},
		};
		if ok {
			m.applied += 1;
		} else {
			m.rejected += 1;
		}
	}

	/// Announce the world's channels (real node ids, funding keys, scids, capacities) and both directions'
	/// forwarding policies to `g`.
	pub fn world_channels_into_graph(sim: &Sim, g: &Graph, m: &mut GraphModel) {
		let chain_hash = ChainHash::using_genesis_block(Network::Testnet);
		for (ci, c) in sim.chans.iter().enumerate() {
			let (ka, kb) = (c.open.common_fields.funding_pubkey, c.accept.common_fields.funding_pubkey);
			let (na, nb) = (NodeId::from_pubkey(&sim.w.node_id(c.a)), NodeId::from_pubkey(&sim.w.node_id(c.b)));
			let a_first = na < nb;
			let msg = UnsignedChannelAnnouncement {
				features: ChannelFeatures::empty(),
				chain_hash,
				short_channel_id: c.scid,
				node_id_1: if a_first { na } else { nb },
				node_id_2: if a_first { nb } else { na },
				bitcoin_key_1: NodeId::from_pubkey(if a_first { &ka } else { &kb }),
				bitcoin_key_2: NodeId::from_pubkey(if a_first { &kb } else { &ka }),
				excess_data: vec![],
			};
			let spk = lightning::ln::chan_utils::make_funding_redeemscript(&ka, &kb).to_p2wsh();
			if g.update_channel_from_unsigned_announcement(&msg, &Some(&FixedUtxo { value_sat: c.value_sat, spk })).is_err() {
				continue;
			}
			m.chans.push((c.scid, if a_first { c.a } else { c.b }, if a_first { c.b } else { c.a }));
			for (me, from_one) in [(c.a, a_first), (c.b, !a_first)] {
				if let Some(d) = sim.chan_details(me, ci) {
					if let Some(cfg) = d.config {
						let upd = UnsignedChannelUpdate {
							chain_hash,
							short_channel_id: c.scid,
							timestamp: 1_700_000_000,
							message_flags: 1,
							channel_flags: if from_one { 0 } else { 1 },
							cltv_expiry_delta: cfg.cltv_expiry_delta,
							htlc_minimum_msat: d.inbound_htlc_minimum_msat.unwrap_or(1),
							htlc_maximum_msat: d.inbound_htlc_maximum_msat.unwrap_or(c.value_sat * 1000),
							fee_base_msat: cfg.forwarding_fee_base_msat,
							fee_proportional_millionths: cfg.forwarding_fee_proportional_millionths,
							excess_data: vec![],
						};
						let _ = g.update_channel_unsigned(&upd);
					}
				}
			}
		}
	}

	/// Build a connected path over the model's channels.
	pub fn build_path(m: &GraphModel, spec: &PathSpec) -> Option<Path> {
		if m.chans.is_empty() {
			return None;
		}
		let first = m.chans[pick(spec.start, m.chans.len())];
		let mut cur = if spec.start & 1 == 0 { first.1 } else { first.2 };
		let mut hops = vec![];
		let mut next_chan = Some(first);
		let mut k = 0;
		while let Some(c) = next_chan {
			let to = if c.1 == cur { c.2 } else { c.1 };
			hops.push(RouteHop {
				pubkey: m.nodes[to],
				node_features: NodeFeatures::empty(),
				short_channel_id: c.0,
				channel_features: ChannelFeatures::empty(),
				fee_msat: 1000,
				cltv_expiry_delta: 40,
				maybe_announced_channel: true,
			});
			cur = to;
			next_chan = None;
			if let Some(h) = spec.hops.get(k) {
				let adj: Vec<(u64, usize, usize)> = m.chans.iter().cloned().filter(|x| (x.1 == cur || x.2 == cur) && x.0 != c.0).collect();
				if !adj.is_empty() {
					next_chan = Some(adj[pick(*h, adj.len())]);
				}
			}
			k += 1;
		}
		hops.last_mut().unwrap().fee_msat = spec.amount_msat;
		Some(Path { hops, blinded_tail: None })
	}

	/// Canonical form of a serialized scorer: `HashMap<u64, ChannelLiquidity>` entries sorted by key (each value
	/// is a length-prefixed TLV stream). None if the bytes do not have that shape.
	pub fn canonical_scorer_bytes(b: &[u8]) -> Option<Vec<u8>> {
		// ChannelLiquidities: a TLV stream with the single record (0, HashMap<u64, ChannelLiquidity>); the map is
		// a u16 count followed by (u64 key, length-prefixed TLV stream) entries in hash-map order.
		let (total, n0) = read_bigsize(b, 0)?;
		if n0 as u64 + total != b.len() as u64 {
			return None;
		}
		let (typ, n1) = read_bigsize(b, n0)?;
		let (l, n2) = read_bigsize(b, n0 + n1)?;
		let start = n0 + n1 + n2;
		if typ != 0 || start as u64 + l != b.len() as u64 {
			return None;
		}
		let n = u16::from_be_bytes(b.get(start..start + 2)?.try_into().ok()?) as usize;
		let mut pos = start + 2;
		let mut entries: Vec<(u64, &[u8])> = vec![];
		for _ in 0..n {
			let key = u64::from_be_bytes(b.get(pos..pos + 8)?.try_into().ok()?);
			let (l, ln) = read_bigsize(b, pos + 8)?;
			let end = pos + 8 + ln + l as usize;
			entries.push((key, b.get(pos..end)?));
			pos = end;
		}
		if pos != b.len() {
			return None;
		}
		entries.sort_by_key(|e| e.0);
		let mut out = b[..start + 2].to_vec();
		for (_, e) in entries {
			out.extend_from_slice(e);
		}
		Some(out)
	}

	pub fn scorer_entry_count(b: &[u8]) -> u64 {
		(|| {
			let (_, n0) = read_bigsize(b, 0)?;
			let (_, n1) = read_bigsize(b, n0)?;
			let (_, n2) = read_bigsize(b, n0 + n1)?;
			let start = n0 + n1 + n2;
			Some(u16::from_be_bytes(b.get(start..start + 2)?.try_into().ok()?) as u64)
		})()
		.unwrap_or(0)
	}

	pub struct ScorerResult {
		pub entries: u64,
		pub nonempty_buckets: bool,
		pub queries: u64,
		pub nonzero_penalties: u64,
	}

	/// Scorer oracle: after the generated updates, write -> read -> write is byte-stable up to hash-map entry
	/// order, and the re-read scorer answers every query like the original, now and after further updates.
	pub fn scorer_oracle(g: &'static Graph, logger: &'static TestLogger, m: &GraphModel, decay: (u64, u64), ops: &[ScoreOp], queries: &[Query], fee: &FeeParams, tail: &[ScoreOp]) -> Result<ScorerResult, Failure> {
		let decay_params = ProbabilisticScoringDecayParameters { historical_no_updates_half_life: Duration::from_secs(decay.0), liquidity_offset_half_life: Duration::from_secs(decay.1) };
		let mut scorer = ProbabilisticScorer::new(decay_params, g, logger);
		let mut now = Duration::from_secs(1_700_000_000);
		let apply = |s: &mut ProbabilisticScorer<&'static Graph, &'static TestLogger>, op: &ScoreOp, now: &mut Duration| {
			let failed_scid = |p: &Path, at: u8| p.hops[pick((at as u16) << 8, p.hops.len())].short_channel_id;
			match op {
				ScoreOp::Failed { path, at, dt } => {
					*now += Duration::from_secs(*dt as u64);
					if let Some(p) = build_path(m, path) {
						s.payment_path_failed(&p, failed_scid(&p, *at), *now);
					}
				},
				ScoreOp::Success { path, dt } => {
					*now += Duration::from_secs(*dt as u64);
					if let Some(p) = build_path(m, path) {
						s.payment_path_successful(&p, *now);
					}
				},
				ScoreOp::ProbeFailed { path, at, dt } => {
					*now += Duration::from_secs(*dt as u64);
					if let Some(p) = build_path(m, path) {
						s.probe_failed(&p, failed_scid(&p, *at), *now);
					}
				},
				ScoreOp::ProbeSuccess { path, dt } => {
					*now += Duration::from_secs(*dt as u64);
					if let Some(p) = build_path(m, path) {
						s.probe_successful(&p, *now);
					}
				},
				ScoreOp::TimePassed { dt } => {
					*now += Duration::from_secs(*dt as u64);
					s.time_passed(*now);
				},
			}
		};
		for op in ops {
			apply(&mut scorer, op, &mut now);
		}
		let b1 = scorer.encode();
		let mut r = &b1[..];
		let mut reread = <ProbabilisticScorer<&'static Graph, &'static TestLogger>>::read(&mut r, (decay_params, g, logger)).map_err(|e| fail("scorer-read", "scorer-read".into(), format!("{:?}", e)))?;
		if !r.is_empty() {
			return Err(fail("scorer-read", "scorer-read/trailing".into(), format!("{} bytes unread", r.len())));
		}
		let b2 = reread.encode();
		let (c1, c2) = (canonical_scorer_bytes(&b1), canonical_scorer_bytes(&b2));
		if c1.is_none() || c1 != c2 {
			return Err(fail("scorer-reencode", "scorer-reencode".into(), format!("write(read(write(s))) differs from write(s) (entries sorted by channel): {} vs {} bytes", b2.len(), b1.len())));
		}
		let render = |b: &[u8]| -> Result<Vec<u8>, String> {
			let mut r = b;
			let s = <ProbabilisticScorer<&'static Graph, &'static TestLogger>>::read(&mut r, (decay_params, g, logger)).map_err(|e| format!("{:?}", e))?;
			canonical_scorer_bytes(&s.encode()).ok_or_else(|| "not canonicalisable".to_string())
		};
		tlv_injection_oracle("scorer", &b1, &SCORER_TAIL, &render)?;
		let entries = scorer_entry_count(&b1);
		let mut res = ScorerResult { entries, nonempty_buckets: false, queries: 0, nonzero_penalties: 0 };
		let ro = g.read_only();
		let battery = |a: &ProbabilisticScorer<&'static Graph, &'static TestLogger>, b: &ProbabilisticScorer<&'static Graph, &'static TestLogger>, params: &ProbabilisticScoringFeeParameters, what: &str, res: &mut ScorerResult| -> Result<(), Failure> {
			for q in queries {
				if m.chans.is_empty() {
					break;
				}
				let c = m.chans[pick(q.chan, m.chans.len())];
				let Some(info) = ro.channel(c.0) else { continue };
				let target = NodeId::from_pubkey(&m.nodes[if q.dir { c.1 } else { c.2 }]);
				// the public read-outs of the per-channel state
				let (ra, rb) = (a.estimated_channel_liquidity_range(c.0, &target), b.estimated_channel_liquidity_range(c.0, &target));
				if ra != rb {
					return Err(fail("scorer-answers", "scorer-answers/liquidity-range".into(), format!("{}: estimated_channel_liquidity_range({}) {:?} vs {:?}", what, c.0, ra, rb)));
				}
				let (ha, hb) = (a.historical_estimated_channel_liquidity_probabilities(c.0, &target), b.historical_estimated_channel_liquidity_probabilities(c.0, &target));
				if ha != hb {
					return Err(fail("scorer-answers", "scorer-answers/historical-buckets".into(), format!("{}: historical buckets of {} differ: {:?} vs {:?}", what, c.0, ha, hb)));
				}
				if let Some((min, max)) = ha {
					if min.iter().chain(max.iter()).any(|x| *x != 0) {
						res.nonempty_buckets = true;
					}
				}
				let Some((dir, _)) = info.as_directed_to(&target) else { continue };
				let usage = ChannelUsage { amount_msat: q.amount_msat, inflight_htlc_msat: q.inflight_msat, effective_capacity: dir.effective_capacity() };
				let cand = CandidateRouteHop::PublicHop(PublicHopCandidate { info: dir, short_channel_id: c.0 });
				let (pa, pb) = (a.channel_penalty_msat(&cand, usage, params), b.channel_penalty_msat(&cand, usage, params));
				res.queries += 1;
				if pa != 0 {
					res.nonzero_penalties += 1;
				}
				if pa != pb {
					return Err(fail("scorer-answers", "scorer-answers/penalty".into(), format!("{}: channel_penalty_msat(scid {}, amount {}, inflight {}) = {} (original) vs {} (re-read)", what, c.0, q.amount_msat, q.inflight_msat, pa, pb)));
				}
			}
			Ok(())
		};
		// The scorer keeps the time of its last update as a stand-in for the current time (only used by the
		// probing-diversity penalty) and does not persist it; the re-read scorer starts from the newest
		// per-channel update time. So the immediate comparison runs without that penalty, and the full
		// parameter set is compared after both received the same further updates (which re-establish the time).
		battery(&scorer, &reread, &fee.build(false), "right after the round trip", &mut res)?;
		for op in tail.iter().chain(std::iter::once(&ScoreOp::TimePassed { dt: 1 })) {
			apply(&mut scorer, op, &mut now.clone());
			apply(&mut reread, op, &mut now);
		}
		battery(&scorer, &reread, &fee.build(true), "after the same further updates", &mut res)?;
		let (e1, e2) = (canonical_scorer_bytes(&scorer.encode()), canonical_scorer_bytes(&reread.encode()));
		if e1 != e2 {
			return Err(fail("scorer-reencode", "scorer-diverged-after-updates".into(), "original and re-read scorer encode differently after the same further updates".to_string()));
		}
		Ok(res)
	}

	/// NetworkGraph oracle: write -> read gives an equal graph (library `==`, rapid-sync timestamp, same bytes up
	/// to map order, re-read again equal).
	pub fn graph_oracle(g: &Graph, logger: &'static TestLogger) -> CaseResult {
		let b1 = g.encode();
		let mut r = &b1[..];
		let g2 = Graph::read(&mut r, logger).map_err(|e| fail("graph-read", "graph-read".into(), format!("{:?}", e)))?;
		if !r.is_empty() {
			return Err(fail("graph-read", "graph-read/trailing".into(), format!("{} bytes unread", r.len())));
		}
		if g2 != *g {
			return Err(fail("graph-roundtrip-eq", "graph-roundtrip-eq".into(), "read(write(g)) != g".to_string()));
		}
		if g2.get_last_rapid_gossip_sync_timestamp() != g.get_last_rapid_gossip_sync_timestamp() {
			return Err(fail("graph-roundtrip-eq", "graph-roundtrip-eq/rgs-timestamp".into(), format!("{:?} vs {:?}", g2.get_last_rapid_gossip_sync_timestamp(), g.get_last_rapid_gossip_sync_timestamp())));
		}
		let b2 = g2.encode();
		if !same_bytes_modulo_order(&b1, &b2) {
			return Err(fail("graph-reencode", "graph-reencode".into(), format!("write(read(write(g))): {} vs {} bytes", b2.len(), b1.len())));
		}
		// unknown TLV records in the graph's tail stream (rendering: sorted channel / node listing + timestamp)
		let render = |b: &[u8]| -> Result<Vec<u8>, String> {
			let mut r = b;
			let g = Graph::read(&mut r, logger).map_err(|e| format!("{:?}", e))?;
			let ro = g.read_only();
			let mut lines: Vec<String> = ro.channels().unordered_iter().map(|(k, v)| format!("{} {:?}", k, v)).collect();
			lines.extend(ro.nodes().unordered_iter().map(|(k, v)| format!("{} {:?} {:?}", k, v.channels, v.announcement_info)));
			lines.sort();
			lines.push(format!("{:?}", g.get_last_rapid_gossip_sync_timestamp()));
			Ok(lines.join("\n").into_bytes())
		};
		tlv_injection_oracle("graph", &b1, &GRAPH_TAIL, &render)?;
		Ok(())
	}
}

// -------------------------------------------------------------------------------------------------
// (d) OutputSweeper: a sweeper following one node of a world, compared at every step with a copy that was
// re-read from the sweeper's persisted bytes one step earlier and then given the same inputs
// -------------------------------------------------------------------------------------------------

pub mod sweep {
	use super::*;
	use bitcoin::{ScriptBuf, Transaction};
	use lightning::chain::chaininterface::{BroadcasterInterface, TransactionType};
	use lightning::chain::Listen;
	use lightning::sign::{ChangeDestinationSourceSync, SpendableOutputDescriptor};
	use lightning::util::dyn_signer::DynKeysInterface;
	use lightning::util::persist::{KVStoreSync, OUTPUT_SWEEPER_PERSISTENCE_KEY};
	use lightning::util::sweep::{OutputSpendStatus, OutputSweeperSync, TrackedSpendableOutput};
	use lightning::util::test_utils::{TestChainSource, TestFeeEstimator};
	use std::sync::Mutex;

	#[derive(Default)]
	pub struct MemStore {
		pub data: Mutex<BTreeMap<String, Vec<u8>>>,
		pub writes: Mutex<u64>,
	}
	impl KVStoreSync for MemStore {
		fn read(&self, p: &str, s: &str, k: &str) -> Result<Vec<u8>, lightning::io::Error> {
			self.data.lock().unwrap().get(&format!("{}/{}/{}", p, s, k)).cloned().ok_or_else(|| lightning::io::Error::new(lightning::io::ErrorKind::NotFound, "not found"))
		}
		fn write(&self, p: &str, s: &str, k: &str, buf: Vec<u8>) -> Result<(), lightning::io::Error> {
			*self.writes.lock().unwrap() += 1;
			self.data.lock().unwrap().insert(format!("{}/{}/{}", p, s, k), buf);
			Ok(())
		}
		fn remove(&self, p: &str, s: &str, k: &str, _lazy: bool) -> Result<(), lightning::io::Error> {
			self.data.lock().unwrap().remove(&format!("{}/{}/{}", p, s, k));
			Ok(())
		}
		fn list(&self, _p: &str, _s: &str) -> Result<Vec<String>, lightning::io::Error> {
			Ok(vec![])
		}
	}
	impl MemStore {
		pub fn sweeper_bytes(&self) -> Option<Vec<u8>> {
			self.data.lock().unwrap().get(&format!("//{}", OUTPUT_SWEEPER_PERSISTENCE_KEY)).cloned()
		}
	}

	#[derive(Default)]
	pub struct VecBroadcaster {
		pub txs: Mutex<Vec<Transaction>>,
	}
	impl BroadcasterInterface for VecBroadcaster {
		fn broadcast_transactions(&self, txs: &[(&Transaction, TransactionType)]) {
			for (t, _) in txs {
				self.txs.lock().unwrap().push((*t).clone());
			}
		}
	}

	/// a fixed change script: the sweeper's output must not depend on anything but its state and inputs
	pub struct FixedChange(pub ScriptBuf);
	impl ChangeDestinationSourceSync for FixedChange {
		fn get_change_destination_script(&self) -> Result<ScriptBuf, ()> {
			Ok(self.0.clone())
		}
	}

	pub type Sweeper<'a> = OutputSweeperSync<&'a VecBroadcaster, &'a FixedChange, &'a TestFeeEstimator, &'a TestChainSource, &'a MemStore, &'a TestLogger, &'a DynKeysInterface>;

	/// Everything a sweeper instance needs, owned in one place.
	pub struct Rig {
		pub store: MemStore,
		pub bc: VecBroadcaster,
		pub change: FixedChange,
	}
	impl Rig {
		pub fn new(change: ScriptBuf) -> Rig {
			Rig { store: MemStore::default(), bc: VecBroadcaster::default(), change: FixedChange(change) }
		}
	}

	/// Rendering of the tracked outputs that does not depend on the order in which a sweep transaction lists
	/// its inputs (the sweeper collects them through a hash set) nor on its signatures.
	pub fn render_tracked(v: &[TrackedSpendableOutput]) -> Vec<String> {
		let tx_key = |t: &Transaction| {
			let mut ins: Vec<String> = t.input.iter().map(|i| i.previous_output.to_string()).collect();
			ins.sort();
			format!("tx(locktime {} inputs [{}] outputs {:?})", t.lock_time, ins.join(","), t.output)
		};
		let mut out: Vec<String> = v
			.iter()
			.map(|o| {
				let st = match &o.status {
					OutputSpendStatus::PendingInitialBroadcast { delayed_until_height } => format!("PendingInitialBroadcast({:?})", delayed_until_height),
					OutputSpendStatus::PendingFirstConfirmation { first_broadcast_hash, latest_broadcast_height, latest_spending_tx } => format!("PendingFirstConfirmation({}, {}, {})", first_broadcast_hash, latest_broadcast_height, tx_key(latest_spending_tx)),
					OutputSpendStatus::PendingThresholdConfirmations { first_broadcast_hash, latest_broadcast_height, latest_spending_tx, confirmation_height, confirmation_hash } => {
						format!("PendingThresholdConfirmations({}, {}, {}, {}, {})", first_broadcast_hash, latest_broadcast_height, tx_key(latest_spending_tx), confirmation_height, confirmation_hash)
					},
				};
				format!("{:?} chan {:?} peer {:?} {}", o.descriptor, o.channel_id, o.counterparty_node_id, st)
			})
			.collect();
		out.sort();
		out
	}

	#[derive(Default, Debug, Clone)]
	pub struct SweepStats {
		pub steps_compared: u64,
		pub reloads: u64,
		pub tracked_max: usize,
		pub pending_first_conf: bool,
		pub pending_threshold: bool,
		pub delayed: bool,
		pub broadcasts: u64,
		pub reorgs: u64,
		pub byte_equal_stores: u64,
		pub store_compared: u64,
	}

	/// Feed the blocks of `sim.chain` that the sweeper has not seen (disconnecting first if the chain was
	/// reorganised below its tip).
	pub fn sync_chain(sw: &Sweeper, sim: &Sim, fed: &mut Vec<bitcoin::BlockHash>, st: Option<&mut SweepStats>) {
		// common prefix
		let mut common = 0;
		while common < fed.len() && common < sim.chain.blocks.len() && fed[common] == sim.chain.blocks[common].block_hash() {
			common += 1;
		}
		if common < fed.len() {
			let mut loc = BlockLocator::new(fed[common - 1], (common - 1) as u32);
			for (k, slot) in loc.previous_blocks.iter_mut().enumerate() {
				if common >= 2 + k {
					*slot = Some(fed[common - 2 - k]);
				}
			}
			sw.blocks_disconnected(loc);
			fed.truncate(common);
			if let Some(st) = st {
				st.reorgs += 1;
			}
		}
		for h in fed.len()..sim.chain.blocks.len() {
			let b = &sim.chain.blocks[h];
			sw.block_connected(b, h as u32);
			fed.push(b.block_hash());
		}
	}

	pub fn new_sweeper<'a>(rig: &'a Rig, sim: &'a Sim, node: usize) -> Sweeper<'a> {
		let nd = &sim.w.nodes[node];
		let tip = sim.chain.blocks.len() - 1;
		let mut loc = BlockLocator::new(sim.chain.blocks[tip].block_hash(), tip as u32);
		for (k, slot) in loc.previous_blocks.iter_mut().enumerate() {
			if tip >= 1 + k {
				*slot = Some(sim.chain.blocks[tip - 1 - k].block_hash());
			}
		}
		OutputSweeperSync::new(loc, &rig.bc, nd.fee_estimator, None, &nd.keys_manager.backing, &rig.change, &rig.store, nd.logger)
	}

	pub fn reload_sweeper<'a>(rig: &'a Rig, sim: &'a Sim, node: usize, bytes: &[u8]) -> Result<Sweeper<'a>, DecodeError> {
		let nd = &sim.w.nodes[node];
		let mut r = bytes;
		let (_, sw) = <(BlockLocator, Sweeper<'a>)>::read(&mut r, (&rig.bc, nd.fee_estimator, None, &nd.keys_manager.backing, &rig.change, &rig.store, nd.logger))?;
		if !r.is_empty() {
			return Err(DecodeError::InvalidValue);
		}
		Ok(sw)
	}

	/// The spendable outputs node `node` was told about in `sim.log[from..]`.
	pub fn new_descriptors(sim: &Sim, node: usize, from: usize) -> Vec<(Vec<SpendableOutputDescriptor>, Option<ChannelId>)> {
		let mut out = vec![];
		for (_, e) in sim.log[from..].iter() {
			if let SEvent::Ldk { node: n, ev: lightning::events::Event::SpendableOutputs { outputs, channel_id, .. } } = e {
				if *n == node {
					out.push((outputs.clone(), *channel_id));
				}
			}
		}
		out
	}
}

/// `WorldSpec::build` with the signer's revocation policy check switched off for the `cheaters` (their
/// monitors would otherwise refuse, by panicking, to sign second-stage transactions of a state the node
/// itself published after revoking it).
pub fn build_world_with_cheaters(spec: &WorldSpec, keep_images: bool, cheaters: Vec<usize>) -> Sim {
	let n = spec.topo.nodes();
	let w = World::new(WorldCfg {
		n,
		configs: spec.node_configs(n),
		keep_images,
		deferred_monitor: spec.deferred,
		connect_style: connect_style_of(spec.connect_style),
		node_styles: spec.node_styles.iter().map(|s| connect_style_of(*s)).collect(),
		disable_revocation_policy: cheaters,
	});
	for nd in w.nodes.iter() {
		*nd.fee_estimator.sat_per_kw.lock().unwrap() = spec.feerate;
		let mut ov = nd.fee_estimator.target_override.lock().unwrap();
		ov.insert(lightning::chain::chaininterface::ConfirmationTarget::MinAllowedAnchorChannelRemoteFee, 253);
		ov.insert(lightning::chain::chaininterface::ConfirmationTarget::MinAllowedNonAnchorChannelRemoteFee, 253);
		ov.insert(lightning::chain::chaininterface::ConfirmationTarget::ChannelCloseMinimum, 253);
	}
	let mut sim = Sim::new(w);
	if spec.ctype != CType::Static {
		sim.fund_wallets(2);
	}
	for (i, (a, b)) in spec.topo.channels().iter().enumerate() {
		let v = spec.value_sat[i % spec.value_sat.len()];
		let want = v * spec.push_permille[i % spec.push_permille.len()] as u64;
		let keep_sat = (v / 5).max(10_000);
		let push = want.min((v - keep_sat) * 1000);
		if spec.chan_policies.is_empty() {
			sim.open_channel(*a, *b, v, push);
		} else {
			let k = spec.chan_policies.len();
			sim.open_channel_with(*a, *b, v, push, Some(spec.chan_policies[(2 * i) % k]), Some(spec.chan_policies[(2 * i + 1) % k]));
		}
	}
	sim
}
