//! Property-specific engine extensions for C12 (owned by the C12 check): harvesting of persisted objects
//! from simulator histories, serialization oracles for monitors / monitor updates / managers, throw-away
//! reloads of a `ChannelManager`, structural TLV-tail locator, and the twin-world comparison surface.

use crate::ops::*;
use crate::rec::*;
use crate::sim::*;
use crate::world::*;
use lightning::chain::channelmonitor::{ChannelMonitor, ChannelMonitorUpdate};
use lightning::chain::BlockLocator;
use lightning::ln::channelmanager::ChannelManagerReadArgs;
use lightning::ln::msgs::DecodeError;
use lightning::ln::types::ChannelId;
use lightning::util::ser::{Readable, ReadableArgs, Writeable};
use lightning::util::test_channel_signer::TestChannelSigner;
use lightning::util::test_utils::{TestBroadcaster, TestChainMonitor, TestKeysInterface, TestLogger, TestPersister};
use std::collections::BTreeMap;
use vcore::{CaseResult, Failure};

pub type Mon = ChannelMonitor<TestChannelSigner>;

/// Read a monitor image; returns the monitor and the number of bytes left unread.
pub fn read_mon(bytes: &[u8], keys: &TestKeysInterface) -> Result<(Mon, usize), DecodeError> {
	let t0 = std::time::Instant::now();
	let mut r = bytes;
	let (_, m) = <(BlockLocator, Mon)>::read(&mut r, (keys, keys))?;
	T_READ.with(|t| { let mut t = t.borrow_mut(); t.0 += 1; t.1 += t0.elapsed().as_micros() as u64; t.2 += bytes.len() as u64; });
	Ok((m, r.len()))
}
thread_local! { pub static T_READ: std::cell::RefCell<(u64,u64,u64)> = std::cell::RefCell::new((0,0,0)); }

/// Byte histogram: two encodings of equal objects may order hash-map entries differently (LDK's maps are
/// randomly keyed per instance) but must consist of the same bytes.
pub fn histogram(b: &[u8]) -> [u32; 256] {
	let mut h = [0u32; 256];
	for x in b {
		h[*x as usize] += 1;
	}
	h
}

pub fn same_bytes_modulo_order(a: &[u8], b: &[u8]) -> bool {
	a.len() == b.len() && histogram(a) == histogram(b)
}

/// Drain a (throw-away) monitor's pending monitor events and pending events.
pub fn drain_mon_events(m: &Mon, logger: &TestLogger) {
	let _ = m.get_and_clear_pending_monitor_events();
	let h = |_ev: lightning::events::Event| -> Result<(), lightning::events::ReplayEvent> { Ok(()) };
	let _ = m.process_pending_events(&&h, &logger);
}

fn fail(oracle: &str, key: String, detail: String) -> Failure {
	Failure::new(oracle, detail).with_key(key)
}

// -------------------------------------------------------------------------------------------------
// (a) + (b): monitors and monitor updates
// -------------------------------------------------------------------------------------------------

#[derive(Default, Clone, Debug)]
pub struct MonStats {
	pub images: u64,
	pub live_snapshots: u64,
	pub updates: u64,
	pub commute_strict: u64,
	pub commute_lenient_ok: u64,
	pub commute_unverifiable: u64,
	pub commute_modulo_events: u64,
	pub commute_no_prev: u64,
	pub eq_exempt_failed_back: u64,
	pub byte_stable_images: u64,
	pub byte_unstable_images: u64,
	pub closed_channel_updates: u64,
	pub nonquiescent_states: u64,
	pub states_with_pending_htlcs: u64,
	pub states_with_inflight_update: u64,
	pub states_awaiting_conf: u64,
	pub states_pending_claims: u64,
	pub step_kinds: BTreeMap<String, u64>,
}

/// A harvested object (serialized) for the corruption parts.
#[derive(Clone, Debug)]
pub struct Harvested {
	pub node: usize,
	pub bytes: Vec<u8>,
	pub nonquiescent: bool,
}

pub struct MonHarvest {
	hist_cur: usize,
	img_cur: Vec<usize>,
	upd_cur: Vec<BTreeMap<ChannelId, usize>>,
	/// latest exactly-known serialized state per (node, channel)
	states: BTreeMap<(usize, ChannelId), Vec<u8>>,
	pub stats: MonStats,
	/// any commitment / closing activity seen in this world (enables the documented in-memory-only-field exemption)
	pub closure_seen: bool,
	pub keep: bool,
	pub kept_monitors: Vec<Harvested>,
	pub kept_updates: Vec<Harvested>,
	logger: TestLogger,
}

impl MonHarvest {
	pub fn new(sim: &Sim, keep: bool) -> MonHarvest {
		let n = sim.w.n;
		let mut h = MonHarvest {
			hist_cur: hist_len(),
			img_cur: vec![0; n],
			upd_cur: vec![BTreeMap::new(); n],
			states: BTreeMap::new(),
			stats: MonStats::default(),
			closure_seen: false,
			keep,
			kept_monitors: vec![],
			kept_updates: vec![],
			logger: TestLogger::new(),
		};
		// channel establishment happened before: skip what was recorded so far, start from the live monitors
		for i in 0..n {
			h.img_cur[i] = sim.w.persisters[i].state.lock().unwrap().images.len();
			let mu = sim.w.nodes[i].chain_monitor.monitor_updates.lock().unwrap();
			for (c, v) in mu.iter() {
				h.upd_cur[i].insert(*c, v.len());
			}
		}
		h
	}

	/// Is the (live) monitor in a non-quiescent state? Classified through the public getters only.
	fn classify(&mut self, sim: &Sim, node: usize, m: &Mon) -> bool {
		use lightning::chain::channelmonitor::Balance;
		let chan = m.channel_id();
		let mut nq = false;
		let pend_htlc = sim.w.nodes[node].node.list_channels().iter().any(|c| c.channel_id == chan && (!c.pending_inbound_htlcs.is_empty() || !c.pending_outbound_htlcs.is_empty()));
		let bal = m.get_claimable_balances();
		let bal_htlc = bal.iter().any(|b| matches!(b, Balance::ContentiousClaimable { .. } | Balance::MaybeTimeoutClaimableHTLC { .. } | Balance::MaybePreimageClaimableHTLC { .. }));
		if pend_htlc || bal_htlc {
			self.stats.states_with_pending_htlcs += 1;
			nq = true;
		}
		if sim.w.pending_updates(node).iter().any(|(c, _)| *c == chan) {
			self.stats.states_with_inflight_update += 1;
			nq = true;
		}
		if bal.iter().any(|b| matches!(b, Balance::ClaimableAwaitingConfirmations { .. })) || !m.get_relevant_txids().is_empty() {
			self.stats.states_awaiting_conf += 1;
			nq = true;
		}
		if m.has_pending_claims() {
			self.stats.states_pending_claims += 1;
			nq = true;
		}
		if nq {
			self.stats.nonquiescent_states += 1;
		}
		nq
	}

	/// Harvest everything that happened since the last call. `chain_op`: the operation just applied delivered
	/// or disconnected blocks (monitors then also change outside `update_monitor`, so the state preceding an
	/// update inside such an operation is not exactly known).
	pub fn step(&mut self, sim: &Sim, chain_op: bool) -> CaseResult {
		if !self.closure_seen && sim.broadcasts.iter().any(|b| !b.is_empty()) {
			self.closure_seen = true;
		}
		// persist calls per node since the last step, in order
		let evs = hist_since(self.hist_cur);
		self.hist_cur = hist_len();
		let mut calls: Vec<Vec<(ChannelId, Option<u64>)>> = vec![vec![]; sim.w.n];
		for (_, e) in evs.iter() {
			match e {
				HEvent::PersistNew { node, chan, .. } => calls[*node].push((*chan, None)),
				HEvent::PersistUpdate { node, chan, update_id, .. } => calls[*node].push((*chan, *update_id)),
				_ => {},
			}
		}
		for i in 0..sim.w.n {
			let nd = &sim.w.nodes[i];
			let keys = nd.keys_manager;
			let images: Vec<(ChannelId, u64, Vec<u8>, bool)> = {
				let st = sim.w.persisters[i].state.lock().unwrap();
				st.images[self.img_cur[i]..].to_vec()
			};
			self.img_cur[i] += images.len();
			if images.len() != calls[i].len() {
				return Err(fail("harness", "harness/image-call-mismatch".into(), format!("node {}: {} images vs {} persist calls", i, images.len(), calls[i].len())));
			}
			// the updates handed to Watch since the last step
			let mut new_updates: BTreeMap<ChannelId, Vec<ChannelMonitorUpdate>> = BTreeMap::new();
			{
				let mu = nd.chain_monitor.monitor_updates.lock().unwrap();
				for (c, v) in mu.iter() {
					let cur = self.upd_cur[i].entry(*c).or_insert(0);
					if v.len() > *cur {
						new_updates.insert(*c, v[*cur..].to_vec());
						*cur = v.len();
					}
				}
			}
			for v in new_updates.values() {
				for u in v {
					self.check_update(i, u)?;
				}
			}
			for ((chan, latest, bytes, chain_sync), (cchan, upd_id)) in images.iter().zip(calls[i].iter()) {
				if chan != cchan {
					return Err(fail("harness", "harness/image-call-mismatch".into(), format!("node {}: image of {} vs call for {}", i, chan, cchan)));
				}
				self.stats.images += 1;
				// (a) on the image as persisted: reads, nothing left over, re-encoding is the same bytes up to
				// hash-map order, the re-read object equals the read one
				let (r1, left) = read_mon(bytes, keys).map_err(|e| fail("monitor-read", "monitor-read/image".into(), format!("node {} chan {} update {}: persisted monitor does not read back: {:?}", i, chan, latest, e)))?;
				if left != 0 {
					return Err(fail("monitor-read", "monitor-read/trailing".into(), format!("node {} chan {}: {} bytes unread", i, chan, left)));
				}
				let b2 = r1.encode();
				if !same_bytes_modulo_order(bytes, &b2) {
					return Err(fail("monitor-reencode", "monitor-reencode/image".into(), format!("node {} chan {} update {}: write(read(b)) differs from b beyond ordering: {} vs {} bytes", i, chan, latest, b2.len(), bytes.len())));
				}
				if b2 == *bytes {
					self.stats.byte_stable_images += 1;
				} else {
					self.stats.byte_unstable_images += 1;
				}
				let (r2, _) = read_mon(&b2, keys).map_err(|e| fail("monitor-read", "monitor-read/reencoded".into(), format!("node {} chan {}: re-encoded monitor does not read: {:?}", i, chan, e)))?;
				if r1 != r2 {
					return Err(fail("monitor-roundtrip-eq", "monitor-roundtrip-eq/image".into(), format!("node {} chan {} update {}: read(write(read(b))) != read(b)", i, chan, latest)));
				}
				// (b) update commutes with the round trip
				if let Some(k) = upd_id {
					debug_assert!(!chain_sync);
					let u = nd.chain_monitor.monitor_updates.lock().unwrap().get(chan).and_then(|v| v.iter().rev().find(|u| u.update_id == *k).cloned());
					let Some(u) = u else {
						return Err(fail("harness", "harness/update-not-recorded".into(), format!("node {} chan {} update {} persisted but never handed to Watch", i, chan, k)));
					};
					match self.states.get(&(i, *chan)) {
						None => self.stats.commute_no_prev += 1,
						Some(prev) => {
							let (shadow, _) = read_mon(prev, keys).map_err(|e| fail("monitor-read", "monitor-read/prev".into(), format!("{:?}", e)))?;
							if shadow.get_latest_update_id() + 1 != *k && *k != u64::MAX {
								// several updates were applied between two persist calls: cannot happen with a
								// ChainMonitor (one persist call per update)
								return Err(fail("harness", "harness/update-gap".into(), format!("node {} chan {}: prev image at {} but update {}", i, chan, shadow.get_latest_update_id(), k)));
							}
							let bc = TestBroadcaster::with_blocks(nd.blocks.clone());
							let _ = shadow.update_monitor(&u, &&bc, &nd.fee_estimator, &&self.logger);
							let mut ok = shadow == r1;
							let mut modulo = false;
							if !ok {
								// Between two persist calls the ChannelManager / user may have drained the monitor's
								// pending (monitor) events: compare again with both drained.
								let (r1b, _) = read_mon(bytes, keys).unwrap();
								drain_mon_events(&shadow, &self.logger);
								drain_mon_events(&r1b, &self.logger);
								ok = shadow == r1b;
								modulo = ok;
							}
							if ok {
								if modulo {
									self.stats.commute_modulo_events += 1;
								} else if chain_op {
									self.stats.commute_lenient_ok += 1;
								} else {
									self.stats.commute_strict += 1;
								}
							} else if chain_op {
								self.stats.commute_unverifiable += 1;
							} else {
								let kinds = update_step_kinds(&u);
								return Err(fail(
									"update-commutes",
									format!("update-commutes/{}", kinds.join("+")),
									format!("node {} chan {}: read(write(M_{})) + update {} ({:?}) != M_{} as persisted", i, chan, shadow.get_latest_update_id().wrapping_sub(1), k, kinds, k),
								));
							}
						},
					}
				}
				self.states.insert((i, *chan), bytes.clone());
			}
			// live monitors after the operation
			for chan in nd.chain_monitor.chain_monitor.list_monitors() {
				let Ok(m) = nd.chain_monitor.chain_monitor.get_monitor(chan) else { continue };
				let bytes = m.encode();
				self.stats.live_snapshots += 1;
				let nq = self.classify(sim, i, &m);
				let (m2, left) = read_mon(&bytes, keys).map_err(|e| fail("monitor-read", "monitor-read/live".into(), format!("node {} chan {}: live monitor does not read back: {:?}", i, chan, e)))?;
				if left != 0 {
					return Err(fail("monitor-read", "monitor-read/trailing".into(), format!("node {} chan {}: {} bytes unread", i, chan, left)));
				}
				if m2 != *m {
					// `failed_back_htlc_ids` is documented as in-memory only ("Not serialized") and is part of `==`;
					// it is filled only for forwarded HTLCs of a closed channel. Only in that situation fall back to
					// the weaker comparison.
					let forwarding_node = sim.chans.iter().filter(|c| c.a == i || c.b == i).count() > 1;
					let b2 = m2.encode();
					let (m3, _) = read_mon(&b2, keys).map_err(|e| fail("monitor-read", "monitor-read/reencoded".into(), format!("{:?}", e)))?;
					if self.closure_seen && forwarding_node && same_bytes_modulo_order(&bytes, &b2) && m3 == m2 {
						self.stats.eq_exempt_failed_back += 1;
					} else {
						return Err(fail("monitor-roundtrip-eq", "monitor-roundtrip-eq/live".into(), format!("node {} chan {} at update {}: read(write(m)) != m", i, chan, m.get_latest_update_id())));
					}
				}
				if self.keep {
					self.kept_monitors.push(Harvested { node: i, bytes: bytes.clone(), nonquiescent: nq });
				}
				self.states.insert((i, chan), bytes);
			}
		}
		Ok(())
	}

	fn check_update(&mut self, node: usize, u: &ChannelMonitorUpdate) -> CaseResult {
		self.stats.updates += 1;
		let kinds = update_step_kinds(u);
		for k in kinds.iter() {
			*self.stats.step_kinds.entry(k.clone()).or_insert(0) += 1;
		}
		let b = u.encode();
		let mut r = &b[..];
		let u2 = ChannelMonitorUpdate::read(&mut r).map_err(|e| fail("update-read", format!("update-read/{}", kinds.join("+")), format!("node {} update {}: {:?}", node, u.update_id, e)))?;
		if !r.is_empty() {
			return Err(fail("update-read", "update-read/trailing".into(), format!("{} bytes unread", r.len())));
		}
		if u2 != *u {
			return Err(fail("update-roundtrip-eq", format!("update-roundtrip-eq/{}", kinds.join("+")), format!("node {} update {} ({:?}): read(write(u)) != u", node, u.update_id, kinds)));
		}
		// updates contain no hash maps: the encoding of the re-read object is byte-identical
		let b2 = u2.encode();
		if b2 != b {
			return Err(fail("update-reencode", format!("update-reencode/{}", kinds.join("+")), format!("node {} update {}: write(read(write(u))) != write(u)", node, u.update_id)));
		}
		if self.keep {
			self.kept_updates.push(Harvested { node, bytes: b, nonquiescent: true });
		}
		Ok(())
	}
}

// -------------------------------------------------------------------------------------------------
// throw-away reload of a ChannelManager
// -------------------------------------------------------------------------------------------------

/// Read `manager_bytes` as node `node`'s ChannelManager against the given monitors, with throw-away chain
/// monitor / persister / broadcaster, hand it to `f` and drop everything again. The node itself is not
/// touched.
pub fn with_reloaded_manager<R>(sim: &Sim, node: usize, manager_bytes: &[u8], monitors: &[Mon], f: impl FnOnce(Result<&SManager, DecodeError>) -> R) -> R {
	let nd = &sim.w.nodes[node];
	let persister = Box::new(TestPersister::new());
	let bc = Box::new(TestBroadcaster::with_blocks(nd.blocks.clone()));
	// SAFETY: the references handed out below never escape this function; the objects referring to them are
	// dropped (in reverse order) before the boxes.
	let persister_ref: &'static TestPersister = unsafe { &*(&*persister as *const TestPersister) };
	let bc_ref: &'static TestBroadcaster = unsafe { &*(&*bc as *const TestBroadcaster) };
	let cm = Box::new(TestChainMonitor::new(Some(nd.chain_source), bc_ref, nd.logger, nd.fee_estimator, persister_ref, nd.keys_manager));
	let cm_ref: &'static TestChainMonitor<'static> = unsafe { &*(&*cm as *const TestChainMonitor<'static>) };
	let mut channel_monitors = lightning::util::hash_tables::new_hash_map();
	for m in monitors.iter() {
		channel_monitors.insert(m.channel_id(), m);
	}
	let mut r = manager_bytes;
	let res = <(BlockLocator, SManager)>::read(
		&mut r,
		ChannelManagerReadArgs {
			config: sim.w.configs[node].clone(),
			entropy_source: nd.keys_manager,
			node_signer: nd.keys_manager,
			signer_provider: nd.keys_manager,
			fee_estimator: nd.fee_estimator,
			router: nd.router,
			message_router: nd.message_router,
			chain_monitor: cm_ref,
			tx_broadcaster: bc_ref,
			logger: nd.logger,
			channel_monitors,
		},
	);
	let out = match res {
		Ok((_, mgr)) => {
			let o = f(Ok(&mgr));
			drop(mgr);
			o
		},
		Err(e) => f(Err(e)),
	};
	drop(cm);
	drop(bc);
	drop(persister);
	out
}

/// Current monitors of a node, each read back from its own encoding.
pub fn reread_monitors(sim: &Sim, node: usize) -> Vec<Mon> {
	let nd = &sim.w.nodes[node];
	let mut out = vec![];
	for chan in nd.chain_monitor.chain_monitor.list_monitors() {
		if let Ok(m) = nd.chain_monitor.chain_monitor.get_monitor(chan) {
			if let Ok((m2, _)) = read_mon(&m.encode(), nd.keys_manager) {
				out.push(m2);
			}
		}
	}
	out
}

pub fn is_chain_tag(tag: &str) -> bool {
	matches!(tag, "mine" | "reorg" | "restart" | "restart-failed")
}

#[allow(unused)]
fn _unused(_: &WorldSpec) {}

// -------------------------------------------------------------------------------------------------
// (c) twin worlds: the externally observable surface of a world
// -------------------------------------------------------------------------------------------------

/// Multisets of rendered facts keyed by a class name; compared key by key between the twins.
pub type Surface = BTreeMap<String, Vec<String>>;

fn push(s: &mut Surface, k: String, v: String) {
	s.entry(k).or_default().push(v);
}

/// Positions in `sim.log` / broadcast lists from which the "since the fork" facts are collected.
#[derive(Clone, Debug, Default)]
pub struct ForkMark {
	pub log_pos: usize,
	pub bc_pos: Vec<usize>,
}

pub fn fork_mark(sim: &Sim) -> ForkMark {
	ForkMark { log_pos: sim.log.len(), bc_pos: sim.broadcasts.iter().map(|b| b.len()).collect() }
}

/// The public surface of every node. Keys ending in
/// * `.channels`, `.payments`, `.balances`, `.htlc-msgs` are *state / strict* classes: equal multisets;
/// * `.events` (since the fork) are compared as multisets, except that the reloaded world may emit again an
///   event that was already emitted before the fork (`.events-before`): LDK documents that events may be
///   replayed after a restart and that handling must be idempotent;
/// * `.bump-events` and `.broadcasts` (since the fork) are compared as sets, and an element present in only
///   one world is accepted if it already occurred before the fork (`-before`): `BumpTransaction` events are
///   not persisted but regenerated as needed, and re-broadcasting a transaction is idempotent.
pub fn surface(sim: &Sim, mark: &ForkMark) -> Surface {
	let mut s = Surface::new();
	for i in 0..sim.w.n {
		let nd = &sim.w.nodes[i];
		for mut d in nd.node.list_channels() {
			// every field of ChannelDetails is compared as is (both worlds are quiescent and reconnected)
			d.pending_inbound_htlcs.sort_by_key(|h| h.htlc_id);
			d.pending_outbound_htlcs.sort_by_key(|h| (h.htlc_id, h.payment_hash.0));
			push(&mut s, format!("n{}.channels", i), format!("{:?}", d));
		}
		for p in nd.node.list_recent_payments() {
			push(&mut s, format!("n{}.payments", i), format!("{:?}", p));
		}
		for b in nd.chain_monitor.chain_monitor.get_claimable_balances(&[]) {
			push(&mut s, format!("n{}.balances", i), format!("{:?}", b));
		}
		let wallet_spk = lightning::util::wallet_utils::WalletSourceSync::get_change_script(&*nd.wallet_source).ok();
		for (k, tx) in sim.broadcasts[i].iter().enumerate() {
			// A transaction is identified by the non-wallet outputs it spends: which wallet UTXO a fee-bumping
			// child uses depends on the order in which the (unordered) bump events were handled.
			let mut ins: Vec<String> = vec![];
			for inp in tx.input.iter() {
				let prev_spk = sim.chain.seen.get(&inp.previous_output.txid).and_then(|t| t.output.get(inp.previous_output.vout as usize)).map(|o| o.script_pubkey.clone());
				if prev_spk.is_some() && prev_spk == wallet_spk {
					continue;
				}
				ins.push(format!("{}", inp.previous_output));
			}
			ins.sort();
			let key = format!("spends[{}]", ins.join(","));
			let class = if k < mark.bc_pos[i] { "broadcasts-before" } else { "broadcasts" };
			push(&mut s, format!("n{}.{}", i, class), key);
		}
	}
	for (k, (_, e)) in sim.log.iter().enumerate() {
		let post = k >= mark.log_pos;
		match e {
			SEvent::Ldk { node, ev } => {
				let bump = matches!(ev, lightning::events::Event::BumpTransaction(_));
				let class = match (bump, post) {
					(true, true) => "bump-events",
					(true, false) => "bump-events-before",
					(false, true) => "events",
					(false, false) => "events-before",
				};
				push(&mut s, format!("n{}.{}", node, class), normalize_rendered(&format!("{:?}", ev)));
			},
			SEvent::Deliver { from, to, wire } if post => {
				let r = match wire {
					Wire::Add(m) => Some(format!("add chan={} id={} amt={} hash={} cltv={}", m.channel_id, m.htlc_id, m.amount_msat, m.payment_hash, m.cltv_expiry)),
					Wire::Fulfill(m) => Some(format!("fulfill chan={} id={} preimage={}", m.channel_id, m.htlc_id, m.payment_preimage)),
					Wire::Fail(m) => Some(format!("fail chan={} id={}", m.channel_id, m.htlc_id)),
					Wire::FailMalformed(m) => Some(format!("fail_malformed chan={} id={} code={}", m.channel_id, m.htlc_id, m.failure_code)),
					Wire::Shutdown(m) => Some(format!("shutdown chan={}", m.channel_id)),
					Wire::Error(m) => Some(format!("error chan={} {}", m.channel_id, m.data)),
					_ => None,
				};
				if let Some(r) = r {
					push(&mut s, format!("n{}->n{}.htlc-msgs", from, to), r);
				}
			},
			_ => {},
		}
	}
	for v in s.values_mut() {
		v.sort();
	}
	s
}

fn multiset_minus(a: &[String], b: &[String]) -> Vec<String> {
	let mut rest: Vec<String> = b.to_vec();
	let mut out = vec![];
	for x in a {
		if let Some(p) = rest.iter().position(|y| y == x) {
			rest.swap_remove(p);
		} else {
			out.push(x.clone());
		}
	}
	out
}

/// First difference between the world that kept running (`a`) and the one that reloaded (`b`) under the
/// rules stated at [`surface`]: (class, unexplained in a only, unexplained in b only)
pub fn surface_diff(a: &Surface, b: &Surface) -> Option<(String, Vec<String>, Vec<String>)> {
	let keys: std::collections::BTreeSet<&String> = a.keys().chain(b.keys()).collect();
	let empty = vec![];
	for k in keys {
		if k.ends_with("-before") {
			continue;
		}
		let va = a.get(k).unwrap_or(&empty);
		let vb = b.get(k).unwrap_or(&empty);
		if va == vb {
			continue;
		}
		let before_a = a.get(&format!("{}-before", k)).unwrap_or(&empty);
		let before_b = b.get(&format!("{}-before", k)).unwrap_or(&empty);
		let (only_a, only_b) = if k.ends_with(".bump-events") || k.ends_with(".broadcasts") {
			let oa: Vec<String> = va.iter().filter(|x| !vb.contains(x) && !before_a.contains(x)).cloned().collect();
			let ob: Vec<String> = vb.iter().filter(|x| !va.contains(x) && !before_b.contains(x)).cloned().collect();
			(oa, ob)
		} else if k.ends_with(".events") {
			let oa = multiset_minus(va, vb);
			let ob: Vec<String> = multiset_minus(vb, va).into_iter().filter(|x| !before_b.contains(x)).collect();
			(oa, ob)
		} else {
			(multiset_minus(va, vb), multiset_minus(vb, va))
		};
		if !only_a.is_empty() || !only_b.is_empty() {
			return Some((k.clone(), only_a, only_b));
		}
	}
	None
}

/// Remove from a rendered event what legitimately differs between two executions of the same history:
/// * witness data: LDK signs with auxiliary randomness drawn from the node's entropy source
///   (`sign_with_aux_rand`), and the reload consumes a different amount of entropy than the bounce, so
///   signatures differ while the signed transactions (txids) are the same;
/// * `hold_times`: wall-clock measurements (attribution data, 100 ms units).
pub fn normalize_rendered(s: &str) -> String {
	let mut out = String::with_capacity(s.len());
	let mut rest = s;
	loop {
		let w = rest.find("witness: Witness: {");
		let h = rest.find("hold_times: [");
		let (pos, open, close, tag) = match (w, h) {
			(None, None) => break,
			(Some(w), Some(h)) if h < w => (h, '[', ']', "hold_times: [..]"),
			(Some(w), _) => (w, '{', '}', "witness: <..>"),
			(None, Some(h)) => (h, '[', ']', "hold_times: [..]"),
		};
		out.push_str(&rest[..pos]);
		out.push_str(tag);
		let after = &rest[pos..];
		let start = after.find(open).unwrap();
		let mut depth = 0i32;
		let mut end = after.len();
		for (i, ch) in after[start..].char_indices() {
			if ch == open {
				depth += 1;
			} else if ch == close {
				depth -= 1;
				if depth == 0 {
					end = start + i + 1;
					break;
				}
			}
		}
		rest = &after[end..];
	}
	out.push_str(rest);
	out
}

impl Sim {
	/// Reload `node` from its ChannelManager's encoding taken now and the encodings, taken now, of its live
	/// monitors (a pure write -> read of the node's persisted objects; no staleness). All its connections
	/// drop, as after any restart.
	pub fn c12_reload(&mut self, node: usize) -> Result<(), String> {
		let mgr_bytes = self.w.nodes[node].node.encode();
		let mut images = vec![];
		let mut ids = vec![];
		{
			let nd = &self.w.nodes[node];
			let mut chans = nd.chain_monitor.chain_monitor.list_monitors();
			chans.sort();
			for c in chans {
				if let Ok(m) = nd.chain_monitor.chain_monitor.get_monitor(c) {
					ids.push((c, m.get_latest_update_id()));
					images.push(m.encode());
				}
			}
		}
		let peers: Vec<usize> = (0..self.w.n).filter(|j| *j != node && self.is_connected(node, *j)).collect();
		for j in peers.iter().cloned() {
			self.connected.remove(&if node < j { (node, j) } else { (j, node) });
			for (f, t) in [(node, j), (j, node)] {
				let q: Vec<Wire> = self.links.get_mut(&(f, t)).unwrap().drain(..).collect();
				for wire in q {
					self.rec(SEvent::Dropped { from: f, to: t, wire });
				}
			}
			self.rec(SEvent::Disconnect { a: node, b: j });
		}
		let r = self.w.restart(node, &mgr_bytes, &images, &peers);
		self.rec(SEvent::Restart { node, snapshot_step: 0, monitor_ids: ids, ok: r.is_ok(), detail: r.clone().err().unwrap_or_default() });
		if r.is_err() {
			return r;
		}
		self.snapshots[node].clear();
		for j in 0..self.w.n {
			self.drain(j);
		}
		Ok(())
	}

	/// What a running node's background processor does on its timer (and right after start-up): have the
	/// monitors regenerate / rebroadcast their pending claims. `BumpTransaction` events are by design not
	/// persisted ("replayed upon restarting"), so both twins get this call before they are compared.
	pub fn c12_rebroadcast_all(&mut self) {
		for i in 0..self.w.n {
			self.w.nodes[i].chain_monitor.chain_monitor.rebroadcast_pending_claims();
			self.drain(i);
		}
	}

	/// The "equivalent of a reload" in the world whose node keeps running: everything the node's persister
	/// was asked to write is completed (a reload from the written images implies that), persistence is
	/// synchronous from now on (a fresh persister), and every connection of the node drops.
	pub fn c12_bounce(&mut self, node: usize, spec: &WorldSpec) {
		if spec.deferred {
			let nd = &self.w.nodes[node];
			let cnt = nd.chain_monitor.pending_operation_count();
			nd.chain_monitor.chain_monitor.flush(cnt, &nd.logger);
			self.drain(node);
		}
		self.complete_all_updates(node);
		self.w.set_async(node, None, false);
		let chans: Vec<ChannelId> = self.w.persisters[node].state.lock().unwrap().async_chans.iter().cloned().collect();
		for c in chans {
			self.w.set_async(node, Some(c), false);
		}
		for j in 0..self.w.n {
			if j != node && self.is_connected(node, j) {
				self.disconnect(node, j);
			}
		}
	}
}
