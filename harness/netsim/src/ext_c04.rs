//! Property-specific engine extensions for C04 (owned by the C04 check).
