//! Property-specific engine extensions for C04 (owned by the C04 check).
//!
//! * a small world: receiver R = node 0, senders = nodes 1.., every channel funded by a sender towards R;
//! * registrations at R (`create_inbound_payment`, `create_inbound_payment_for_hash`, keysend preimages);
//! * an adversarial *sender* that still only uses LDK's own send API, with explicit `RecipientOnionFields`;
//! * mining with a chosen header timestamp (R's clock is the highest block time it has seen);
//! * `RecvModel`, an independent reference model of the receive-side rules written from the documented
//!   contracts (see the comments at each rule), used in lock-step by `bin/c04.rs`.

use crate::sim::*;
use crate::world::*;
use bitcoin::hashes::{sha256, Hash};
use lightning::events::Event;
use lightning::ln::channelmanager::PaymentId;
use lightning::ln::functional_test_utils::ConnectStyle;
use lightning::ln::outbound_payment::{RecipientCustomTlvs, RecipientOnionFields, Retry};
use lightning::routing::router::{PaymentParameters, RouteParameters};
use lightning::types::payment::{PaymentHash, PaymentPreimage, PaymentSecret};
use lightning::util::config::MaxDustHTLCExposure;
use serde::{Deserialize, Serialize};
use std::collections::{BTreeMap, BTreeSet};

// -------------------------------------------------------------------------------------------------
// documented constants, restated
// -------------------------------------------------------------------------------------------------

/// `chain::channelmonitor::HTLC_FAIL_BACK_BUFFER` (pub): CLTV_CLAIM_BUFFER (2 * MAX_BLOCKS_FOR_CONF = 36) +
/// LATENCY_GRACE_PERIOD_BLOCKS (3). Documented: (1) an HTLC to us that expires within this many blocks
/// while we wait for more parts or for the user's preimage is failed; (2) an HTLC received within this
/// many blocks *plus one* of its expiry is failed without being shown to the user.
pub const HTLC_FAIL_BACK_BUFFER: u32 = 39;
/// Production value of the MPP timeout (`timer_tick_occurred` is documented as "roughly once per minute";
/// BOLT-4 asks for at least 60 s). Builds with `_test_utils` use 1, so an incomplete set MAY be failed from
/// the first tick on and MUST be failed after this many ticks.
pub const MPP_TIMEOUT_TICKS_MAX: u8 = 3;
/// Margin LDK adds to the registered expiry "to compensate for the inaccuracy of block header timestamps"
/// (two hours, the consensus tolerance on header times).
pub const EXPIRY_MARGIN_SECS: u64 = 7200;
/// R is always node 0.
pub const R: usize = 0;

pub fn sha(b: &[u8]) -> [u8; 32] {
	sha256::Hash::hash(b).to_byte_array()
}

// -------------------------------------------------------------------------------------------------
// world
// -------------------------------------------------------------------------------------------------

#[derive(Clone, Debug, Serialize, Deserialize)]
pub struct WSpec {
	/// per channel: (sender index 0/1, channel value in sat); all channels are sender -> R
	pub chans: Vec<(u8, u64)>,
	pub anchors: bool,
}

pub fn build_world(spec: &WSpec) -> Sim {
	let senders = spec.chans.iter().map(|(s, _)| *s as usize + 1).max().unwrap_or(1);
	let n = 1 + senders;
	let mut cfg = default_config();
	cfg.channel_handshake_config.negotiate_anchors_zero_fee_htlc_tx = spec.anchors;
	// dust exposure limits are a channel-level matter (C01/C02); keep them out of the way of small parts
	cfg.channel_config.max_dust_htlc_exposure = MaxDustHTLCExposure::FixedLimitMsat(200_000_000);
	let w = World::new(WorldCfg { n, configs: vec![cfg; n], keep_images: false, deferred_monitor: false, connect_style: ConnectStyle::BestBlockFirst, node_styles: vec![], disable_revocation_policy: vec![] });
	for nd in w.nodes.iter() {
		let mut ov = nd.fee_estimator.target_override.lock().unwrap();
		ov.insert(lightning::chain::chaininterface::ConfirmationTarget::MinAllowedAnchorChannelRemoteFee, 253);
		ov.insert(lightning::chain::chaininterface::ConfirmationTarget::MinAllowedNonAnchorChannelRemoteFee, 253);
		ov.insert(lightning::chain::chaininterface::ConfirmationTarget::ChannelCloseMinimum, 253);
	}
	let mut sim = Sim::new(w);
	if spec.anchors {
		sim.fund_wallets(2);
	}
	for (s, v) in spec.chans.iter() {
		// 25 % pushed to R so that R's balance is well above its reserve (1 %): R's outbound capacity then
		// moves msat-exactly with its balance
		sim.open_channel(1 + *s as usize, R, *v, *v * 250);
	}
	sim
}

/// R's clock before any block with a later header time: the manager is created with the genesis time.
pub fn initial_time() -> u64 {
	bitcoin::constants::genesis_block(bitcoin::Network::Testnet).header.time as u64
}

// -------------------------------------------------------------------------------------------------
// registrations
// -------------------------------------------------------------------------------------------------

#[derive(Clone, Copy, Debug, Serialize, Deserialize, PartialEq, Eq)]
pub enum RegKind {
	/// `create_inbound_payment`: LDK derives hash and preimage
	Ldk,
	/// `create_inbound_payment_for_hash`: the user owns the preimage
	ForHash,
	/// nothing registered: the sender makes a spontaneous payment with its own preimage
	Keysend,
}

#[derive(Clone, Debug, Serialize, Deserialize)]
pub struct RegSpec {
	pub kind: RegKind,
	pub amt: Option<u64>,
	pub expiry_secs: u32,
	pub min_cltv: Option<u16>,
	pub meta: Option<Vec<u8>>,
	/// ForHash only: register the hash of the previous ForHash registration again (other amount / expiry)
	pub reuse_prev_hash: bool,
}

#[derive(Clone, Debug)]
pub struct RegInfo {
	pub kind: RegKind,
	pub hash: [u8; 32],
	/// known to the harness-as-user (ForHash, Keysend) or read back through the API (Ldk)
	pub preimage: [u8; 32],
	pub secret: Option<[u8; 32]>,
	pub min_amt: Option<u64>,
	/// `registration time + expiry_secs + EXPIRY_MARGIN_SECS`: later header times make the secret invalid
	pub expiry_abs: u64,
	pub min_cltv: Option<u16>,
	pub meta_plain: Option<Vec<u8>>,
	/// what the API handed back for inclusion in the invoice (encrypted, for_hash: with IV appended)
	pub meta_enc: Option<Vec<u8>>,
}

pub fn register(sim: &Sim, idx: usize, spec: &RegSpec, now: u64, prev: &[RegInfo]) -> Result<RegInfo, String> {
	let node = sim.w.nodes[R].node;
	let own_pre = sha(&[b"c04-preimage".as_slice(), &[idx as u8]].concat());
	match spec.kind {
		RegKind::Ldk => {
			let (hash, secret, enc) = node.create_inbound_payment(spec.amt, spec.expiry_secs, spec.min_cltv, spec.meta.clone()).map_err(|_| "create_inbound_payment failed".to_string())?;
			let mut m = enc.clone();
			let pre = node.get_payment_preimage_decrypt_metadata(hash, secret, m.as_deref_mut()).map_err(|e| format!("get_payment_preimage on a fresh registration: {:?}", e))?;
			Ok(RegInfo { kind: spec.kind, hash: hash.0, preimage: pre.0, secret: Some(secret.0), min_amt: spec.amt, expiry_abs: now + spec.expiry_secs as u64 + EXPIRY_MARGIN_SECS, min_cltv: spec.min_cltv, meta_plain: spec.meta.clone(), meta_enc: enc })
		},
		RegKind::ForHash => {
			let pre = if spec.reuse_prev_hash { prev.iter().rev().find(|r| r.kind == RegKind::ForHash).map(|r| r.preimage).unwrap_or(own_pre) } else { own_pre };
			let hash = sha(&pre);
			let (secret, enc) = node.create_inbound_payment_for_hash(PaymentHash(hash), spec.amt, spec.expiry_secs, spec.min_cltv, spec.meta.clone()).map_err(|_| "create_inbound_payment_for_hash failed".to_string())?;
			Ok(RegInfo { kind: spec.kind, hash, preimage: pre, secret: Some(secret.0), min_amt: spec.amt, expiry_abs: now + spec.expiry_secs as u64 + EXPIRY_MARGIN_SECS, min_cltv: spec.min_cltv, meta_plain: spec.meta.clone(), meta_enc: enc })
		},
		// keysend: nothing is registered at R; `secret` is the payment secret the *sender* chooses to put into
		// its onions so that it can split the payment (R does not verify it, but all parts must carry the same)
		RegKind::Keysend => Ok(RegInfo { kind: spec.kind, hash: sha(&own_pre), preimage: own_pre, secret: Some(sha(&[b"c04-keysend-secret".as_slice(), &[idx as u8]].concat())), min_amt: None, expiry_abs: u64::MAX, min_cltv: None, meta_plain: None, meta_enc: None }),
	}
}

// -------------------------------------------------------------------------------------------------
// sender and chain helpers
// -------------------------------------------------------------------------------------------------

/// Everything the sender puts into one HTLC.
#[derive(Clone, Debug)]
pub struct SendReq {
	pub chan: usize,
	pub hash: [u8; 32],
	pub amt: u64,
	/// cltv delta of the final hop; the HTLC expires at sender height + 1 + delta
	pub final_delta: u32,
	pub secret: Option<[u8; 32]>,
	pub total: u64,
	pub metadata: Option<Vec<u8>>,
	pub tlvs: Vec<(u64, Vec<u8>)>,
	pub keysend_preimage: Option<[u8; 32]>,
}

/// One HTLC as it appeared on the wire towards R plus the onion fields the sender put in.
#[derive(Clone, Debug)]
pub struct Part {
	pub id: usize,
	pub chan: usize,
	pub htlc_id: u64,
	pub hash: [u8; 32],
	pub amt: u64,
	pub cltv: u32,
	pub secret: Option<[u8; 32]>,
	pub total: u64,
	pub metadata: Option<Vec<u8>>,
	pub tlvs: Vec<(u64, Vec<u8>)>,
	pub keysend: Option<[u8; 32]>,
}

impl Sim {
	/// Mine one block with header time `time` containing `txs`, deliver it to every node.
	/// (`ChainSim::mine` stamps blocks with their height; the header is rewritten before anybody sees it.)
	pub fn c04_mine_at(&mut self, txs: Vec<bitcoin::Transaction>, time: u32) {
		let _ = self.chain.mine(txs);
		let blk = self.chain.blocks.last_mut().unwrap();
		blk.header.time = time;
		let block = blk.clone();
		let height = self.chain.height();
		self.rec(SEvent::Mined { height, txids: block.txdata.iter().map(|t| t.compute_txid()).collect() });
		for i in 0..self.w.n {
			self.deliver_block(i, &block);
		}
	}

	/// Send one HTLC through the sender's own LDK (`send_payment_with_route` with a one-hop route, or
	/// `send_spontaneous_payment` for keysend), then run the commitment dance on that channel so that the
	/// HTLC is irrevocably committed at R. R does not process it yet. Returns the HTLC as seen on the wire.
	pub fn c04_send(&mut self, r: &SendReq, part_id: usize) -> Result<Part, String> {
		let from = self.chans[r.chan].a;
		match self.chan_details(from, r.chan) {
			Some(d) if d.is_usable => {},
			_ => return Err("channel not usable".into()),
		}
		let idn = self.next_payment_id;
		self.next_payment_id += 1;
		let mut idb = [0u8; 32];
		idb[..8].copy_from_slice(&idn.to_be_bytes());
		let id = PaymentId(idb);
		let mut onion = match r.secret {
			Some(s) => RecipientOnionFields::secret_only(PaymentSecret(s), r.total),
			None => RecipientOnionFields::spontaneous_empty(r.total),
		};
		onion.payment_metadata = r.metadata.clone();
		let onion = onion.with_custom_tlvs(RecipientCustomTlvs::new(r.tlvs.clone()).map_err(|_| "custom tlvs rejected by RecipientCustomTlvs::new".to_string())?);
		let mark = self.log.len();
		let res = if let Some(pre) = r.keysend_preimage {
			let payee = self.w.node_id(R);
			// The router wants max_total_cltv_expiry_delta > final delta and then adds a "shadow" offset of
			// min(>= 40, what is left) = 1 to the final hop: ask for one less, leave room for exactly one.
			let d = r.final_delta.max(2);
			let mut pp = PaymentParameters::for_keysend(payee, d - 1, false);
			pp.max_total_cltv_expiry_delta = d;
			let mut rp = RouteParameters::from_payment_params_and_value(pp, r.amt);
			rp.max_total_routing_fee_msat = None;
			self.w.nodes[from].node.send_spontaneous_payment(Some(PaymentPreimage(pre)), onion, id, rp, Retry::Attempts(0)).map(|_| ()).map_err(|e| format!("{:?}", e))
		} else {
			let (route, _) = self.build_route(from, &[r.chan], r.amt, r.final_delta).ok_or("no route".to_string())?;
			self.w.nodes[from].node.send_payment_with_route(route, PaymentHash(r.hash), onion, id).map_err(|e| format!("{:?}", e))
		};
		self.rec(SEvent::Api { node: from, what: format!("c04 send part#{} chan={} amt={} total={} delta={}", part_id, r.chan, r.amt, r.total, r.final_delta), ok: res.is_ok(), detail: format!("{:?}", res) });
		self.w.nodes[from].chain_monitor.added_monitors.lock().unwrap().clear();
		self.drain(from);
		res?;
		let mut found = None;
		for (_, e) in self.log[mark..].iter() {
			if let SEvent::Emit { from: f, to: R, wire: Wire::Add(m) } = e {
				if *f == from && m.payment_hash.0 == r.hash {
					found = Some(m.clone());
				}
			}
		}
		// the sender's API may have accepted the payment and failed the path right away (PaymentFailed event)
		let m = found.ok_or("sender did not emit update_add_htlc".to_string())?;
		let chan = self.chans.iter().position(|c| c.id == m.channel_id).ok_or("unknown channel")?;
		for _ in 0..12 {
			let a = self.queued(from, R);
			let b = self.queued(R, from);
			if a + b == 0 {
				break;
			}
			while self.deliver(from, R, 1) > 0 {}
			while self.deliver(R, from, 1) > 0 {}
		}
		self.w.trim();
		// documented (`RecipientOnionFields::spontaneous_empty`): without a payment secret the onion cannot
		// carry a total, so it is ignored and the HTLC stands for itself
		let total = if r.secret.is_none() { m.amount_msat } else { r.total };
		Ok(Part { id: part_id, chan, htlc_id: m.htlc_id, hash: r.hash, amt: m.amount_msat, cltv: m.cltv_expiry, secret: r.secret, total, metadata: r.metadata.clone(), tlvs: onion_tlvs_sorted(&r.tlvs), keysend: r.keysend_preimage })
	}

	/// Let R (and everybody else) process pending HTLCs, deliver everything, handle events, until quiet.
	/// Returns R's events in order.
	pub fn c04_flush(&mut self) -> Vec<Event> {
		let mut r_events = vec![];
		for _ in 0..40 {
			let mut progress = false;
			for i in 0..self.w.n {
				if self.w.nodes[i].node.needs_pending_htlc_processing() {
					self.process_forwards(i);
					progress = true;
				}
			}
			for _ in 0..200 {
				let live: Vec<(usize, usize)> = self.links.iter().filter(|(k, q)| !q.is_empty() && self.is_connected(k.0, k.1)).map(|(k, _)| *k).collect();
				if live.is_empty() {
					break;
				}
				for (f, t) in live {
					if self.deliver(f, t, 1) > 0 {
						progress = true;
					}
				}
			}
			for i in 0..self.w.n {
				let evs = self.process_events(i);
				if !evs.is_empty() {
					progress = true;
				}
				if i == R {
					r_events.extend(evs);
				}
			}
			if !progress {
				break;
			}
		}
		self.w.trim();
		r_events
	}
}

pub fn onion_tlvs_sorted(t: &[(u64, Vec<u8>)]) -> Vec<(u64, Vec<u8>)> {
	let mut v = t.to_vec();
	v.sort_by_key(|(k, _)| *k);
	v
}

// -------------------------------------------------------------------------------------------------
// reference model of the receive side
// -------------------------------------------------------------------------------------------------

#[derive(Clone, Debug, PartialEq, Eq)]
pub enum Purpose {
	Invoice { secret: [u8; 32] },
	Keysend { preimage: [u8; 32] },
}

#[derive(Clone, Debug, PartialEq, Eq)]
pub struct Shown {
	pub hash: [u8; 32],
	pub amount: u64,
	pub deadline: u32,
	pub parts: Vec<usize>,
	pub total: u64,
	pub secret: Option<[u8; 32]>,
	pub meta_plain: Option<Vec<u8>>,
	pub tlvs: Vec<(u64, Vec<u8>)>,
	pub keysend: bool,
}

#[derive(Clone, Debug)]
pub struct PaySet {
	pub purpose: Purpose,
	pub secret: Option<[u8; 32]>,
	pub meta_plain: Option<Vec<u8>>,
	pub total: u64,
	pub tlvs: Vec<(u64, Vec<u8>)>,
	/// (part id, timer ticks seen)
	pub parts: Vec<(usize, u8)>,
	/// set when the completion condition was last met: amount announced to the user
	pub shown: Option<Shown>,
}

#[derive(Clone, Debug, PartialEq, Eq)]
pub enum Verdict {
	/// failed back without being shown; the reason names the rule
	Fail(&'static str),
	Held,
	Claimable(Shown),
}

#[derive(Clone, Debug)]
pub struct RecvModel {
	pub regs: Vec<RegInfo>,
	pub parts: Vec<Part>,
	pub sets: BTreeMap<[u8; 32], PaySet>,
	/// parts that were held when a claim attempt released nothing (see `on_claim`); they stay in their set
	pub orphaned: BTreeSet<usize>,
}

#[derive(Clone, Debug, Default)]
pub struct ClaimOutcome {
	pub fulfilled: Vec<usize>,
	pub failed: Vec<usize>,
	pub orphaned: Vec<usize>,
	pub shown: Option<Shown>,
	pub what: &'static str,
}

impl RecvModel {
	pub fn new() -> RecvModel {
		RecvModel { regs: vec![], parts: vec![], sets: BTreeMap::new(), orphaned: BTreeSet::new() }
	}

	fn sum(&self, set: &PaySet) -> u64 {
		set.parts.iter().map(|(p, _)| self.parts[*p].amt).sum()
	}

	/// R processes one committed HTLC at block height `height` with clock `now`.
	pub fn on_part(&mut self, pid: usize, height: u32, now: u64) -> Verdict {
		let p = self.parts[pid].clone();
		// HTLC_FAIL_BACK_BUFFER rule (2): received within buffer + 1 blocks of its expiry => failed, not shown
		if p.cltv <= height + HTLC_FAIL_BACK_BUFFER + 1 {
			return Verdict::Fail("expiry-too-soon");
		}
		let (purpose, meta_plain) = if let Some(pre) = p.keysend {
			// spontaneous payment: valid iff the preimage in the onion hashes to the payment hash; a payment secret
			// in the onion is the sender's own and is not checked
			if sha(&pre) != p.hash {
				return Verdict::Fail("keysend-preimage-mismatch");
			}
			(Purpose::Keysend { preimage: pre }, p.metadata.clone())
		} else {
			let Some(secret) = p.secret else { return Verdict::Fail("no-payment-secret") };
			// "A PaymentClaimable event will only be generated if the PaymentSecret matches a payment secret
			// fetched via [create_inbound_payment(_for_hash)]": bit-exact, and for *this* hash
			let Some(reg) = self.regs.iter().find(|r| r.kind != RegKind::Keysend && r.secret == Some(secret) && r.hash == p.hash) else { return Verdict::Fail("secret-not-issued-for-hash") };
			// "The returned secret commits to the payment_metadata"
			if p.metadata != reg.meta_enc {
				return Verdict::Fail("metadata-mismatch");
			}
			// "...and which is at least the min_value_msat provided" (judged on the announced total)
			if let Some(min) = reg.min_amt {
				if p.total < min {
					return Verdict::Fail("total-below-registered-minimum");
				}
			}
			// "After this many seconds [plus margin] ... any attempts to pay the invoice [fail]"
			if now > reg.expiry_abs {
				return Verdict::Fail("registration-expired");
			}
			if let Some(d) = reg.min_cltv {
				if (p.cltv as u64) < height as u64 + d as u64 {
					return Verdict::Fail("below-min-final-cltv");
				}
			}
			(Purpose::Invoice { secret }, reg.meta_plain.clone())
		};
		let evens = |t: &Vec<(u64, Vec<u8>)>| -> Vec<(u64, Vec<u8>)> { t.iter().filter(|(k, _)| k % 2 == 0).cloned().collect() };
		if let Some(set) = self.sets.get_mut(&p.hash) {
			if set.purpose != purpose {
				return Verdict::Fail("purpose-differs-from-pending-set");
			}
			// all parts must agree on secret, metadata, total and the even custom TLVs
			if set.secret != p.secret || set.meta_plain != meta_plain || set.total != p.total || evens(&set.tlvs) != evens(&p.tlvs) {
				return Verdict::Fail("onion-fields-disagree");
			}
			// odd TLVs that are not in every part are dropped from what the user is shown
			set.tlvs.retain(|t| p.tlvs.contains(t));
		} else {
			if p.total == 0 {
				// a set whose announced total is zero is "complete" before its first part: refused like any part
				// beyond the total (the generator keeps this shape out unless asked, see bin/c04.rs)
				return Verdict::Fail("zero-total");
			}
			self.sets.insert(p.hash, PaySet { purpose, secret: p.secret, meta_plain, total: p.total, tlvs: p.tlvs.clone(), parts: vec![], shown: None });
		}
		let before = self.sum(&self.sets[&p.hash]);
		let set = self.sets.get_mut(&p.hash).unwrap();
		if before >= set.total {
			// the set already reached its total (the user has been told an amount): a further part is refused
			return Verdict::Fail("set-already-complete");
		}
		set.parts.push((pid, 0));
		if before + p.amt >= set.total {
			let ids: Vec<usize> = set.parts.iter().map(|(i, _)| *i).collect();
			let amount = before + p.amt;
			let min_cltv = ids.iter().map(|i| self.parts[*i].cltv).min().unwrap();
			let set = self.sets.get_mut(&p.hash).unwrap();
			let shown = Shown { hash: p.hash, amount, deadline: min_cltv - HTLC_FAIL_BACK_BUFFER, parts: ids, total: set.total, secret: set.secret, meta_plain: set.meta_plain.clone(), tlvs: set.tlvs.clone(), keysend: matches!(set.purpose, Purpose::Keysend { .. }) };
			set.shown = Some(shown.clone());
			Verdict::Claimable(shown)
		} else {
			Verdict::Held
		}
	}

	/// `timer_tick_occurred`. Returns per incomplete set (hash, part ids, must): `must` = the production
	/// timeout has been reached, otherwise the library may (test builds do) already time it out.
	pub fn on_tick(&mut self) -> Vec<([u8; 32], Vec<usize>, bool)> {
		let mut out = vec![];
		let hashes: Vec<[u8; 32]> = self.sets.keys().cloned().collect();
		for h in hashes {
			let sum = self.sum(&self.sets[&h]);
			let set = self.sets.get_mut(&h).unwrap();
			let mut maxt = 0;
			for (_, t) in set.parts.iter_mut() {
				*t = t.saturating_add(1);
				maxt = maxt.max(*t);
			}
			if sum < set.total && !set.parts.is_empty() {
				out.push((h, set.parts.iter().map(|(i, _)| *i).collect(), maxt >= MPP_TIMEOUT_TICKS_MAX));
			}
		}
		out
	}

	pub fn drop_set(&mut self, h: &[u8; 32]) {
		self.sets.remove(h);
	}

	/// A block at `height` was connected: rule (1) of HTLC_FAIL_BACK_BUFFER, per HTLC.
	pub fn on_block(&mut self, height: u32) -> Vec<usize> {
		let mut failed = vec![];
		let hashes: Vec<[u8; 32]> = self.sets.keys().cloned().collect();
		for h in hashes {
			let parts = self.parts.clone();
			let set = self.sets.get_mut(&h).unwrap();
			set.parts.retain(|(i, _)| {
				let out = height >= parts[*i].cltv - HTLC_FAIL_BACK_BUFFER;
				if out {
					failed.push(*i);
				}
				!out
			});
			if set.parts.is_empty() {
				self.sets.remove(&h);
			}
		}
		failed
	}

	/// `claim_funds(preimage)` / `claim_funds_with_known_custom_tlvs`.
	pub fn on_claim(&mut self, hash: &[u8; 32], known_tlvs: bool) -> ClaimOutcome {
		let Some(set) = self.sets.get(hash).cloned() else { return ClaimOutcome { what: "nothing-claimable", ..Default::default() } };
		let ids: Vec<usize> = set.parts.iter().map(|(i, _)| *i).collect();
		// documented: claim_funds "will fail the payment if it has custom TLVs with even type numbers"
		if !known_tlvs && set.tlvs.iter().any(|(k, _)| k % 2 == 0) {
			self.sets.remove(hash);
			return ClaimOutcome { failed: ids, what: "even-tlvs-unknown", ..Default::default() };
		}
		let sum: u64 = ids.iter().map(|i| self.parts[*i].amt).sum();
		match &set.shown {
			Some(sh) if sh.amount == sum && sh.parts == ids => {
				self.sets.remove(hash);
				ClaimOutcome { fulfilled: ids, shown: set.shown.clone(), what: "claimed", ..Default::default() }
			},
			_ => {
				// a part of what was shown is gone (or this set was never shown): nothing is released, and the
				// HTLCs that are there stay what they were - held, subject to the MPP timeout and to the
				// fail-back before their expiry. (They are remembered so that a library that forgets them at
				// this point is reported under its own key.)
				for i in ids.iter() {
					self.orphaned.insert(*i);
				}
				ClaimOutcome { orphaned: ids, what: "incomplete-nothing-released", ..Default::default() }
			},
		}
	}

	pub fn on_fail_back(&mut self, hash: &[u8; 32]) -> Vec<usize> {
		match self.sets.remove(hash) {
			Some(set) => set.parts.iter().map(|(i, _)| *i).collect(),
			None => vec![],
		}
	}

	/// A part was failed by R for a reason outside this model (channel-level refusal): forget it.
	pub fn forget_part(&mut self, pid: usize) {
		let h = self.parts[pid].hash;
		if let Some(set) = self.sets.get_mut(&h) {
			set.parts.retain(|(i, _)| *i != pid);
			if set.parts.is_empty() {
				self.sets.remove(&h);
			}
		}
	}

	pub fn live_parts(&self) -> Vec<usize> {
		let mut v: Vec<usize> = self.sets.values().flat_map(|s| s.parts.iter().map(|(i, _)| *i)).collect();
		v.sort();
		v
	}
}

/// All orders in which `groups` (parts of one batch grouped by channel) can be processed: LDK keeps the
/// HTLCs awaiting decoding in a hash map keyed by channel, so the order across channels is arbitrary while
/// the order inside a channel is the commitment order.
pub fn group_orders(groups: &[Vec<usize>]) -> Vec<Vec<usize>> {
	fn rec(rest: &mut Vec<usize>, cur: &mut Vec<usize>, out: &mut Vec<Vec<usize>>) {
		if rest.is_empty() {
			out.push(cur.clone());
			return;
		}
		for k in 0..rest.len() {
			let g = rest.remove(k);
			cur.push(g);
			rec(rest, cur, out);
			cur.pop();
			rest.insert(k, g);
		}
	}
	let mut idx: Vec<usize> = (0..groups.len()).collect();
	let mut out = vec![];
	rec(&mut idx, &mut vec![], &mut out);
	out.into_iter().map(|order| order.into_iter().flat_map(|g| groups[g].iter().cloned()).collect()).collect()
}
