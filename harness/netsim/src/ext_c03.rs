//! Property-specific engine extensions for C03 (owned by the C03 check): extra ways to pay (multi-path via an
//! explicit route, the real router with retries, keysend, duplicate ids, abandon), the operations of the C03
//! profile, the end game that drives a world to full resolution, and the oracle over the sender's event stream.
//!
//! Sender S is always node 0; it funds every channel it has. Only S sends.

use crate::model::Upd;
use crate::ops::*;
use crate::oracle_commit::CommitOracle;
use crate::sim::*;
use bitcoin::hashes::{sha256, Hash};
use lightning::chain::channelmonitor::Balance;
use lightning::events::{Event, PathFailure};
use lightning::ln::channel_state::OutboundHTLCSource;
use lightning::ln::channelmanager::{PaymentId, RecentPaymentDetails};
use lightning::ln::functional_test_utils::*;
use lightning::ln::msgs;
use lightning::ln::outbound_payment::{RecipientOnionFields, Retry};
use lightning::ln::types::ChannelId;
use lightning::routing::gossip::NodeId;
use lightning::routing::router::{PaymentParameters, Route, RouteParameters};
use lightning::types::features::ChannelFeatures;
use lightning::types::payment::{PaymentHash, PaymentPreimage, PaymentSecret};
use proptest::prelude::*;
use serde::{Deserialize, Serialize};
use std::collections::{BTreeMap, BTreeSet};
use vcore::{pick, CaseResult, Failure};

pub const S: usize = 0;

fn fail(oracle: &str, detail: String) -> Failure {
	Failure::new(oracle, detail)
}

// -------------------------------------------------------------------------------------------------
// engine additions
// -------------------------------------------------------------------------------------------------

#[derive(Clone, Copy, Debug, PartialEq, Eq)]
pub enum Kind {
	Route,
	Underpay,
	Mpp,
	Router,
	Keysend,
}

/// Routes S can use explicitly, as channel index lists.
fn rec_hist_any<F: Fn(u64, &crate::rec::HEvent) -> bool>(f: F) -> bool {
	crate::rec::hist_since(0).iter().any(|(s, e)| f(*s, e))
}

pub fn s_routes(t: Topology) -> Vec<Vec<usize>> {
	match t {
		Topology::Pair => vec![vec![0]],
		Topology::Line3 => vec![vec![0, 1], vec![0]],
		Topology::Line4 => vec![vec![0, 1, 2], vec![0, 1], vec![0]],
		Topology::Diamond => vec![vec![0, 1], vec![2, 3], vec![0], vec![2]],
		Topology::Line3Parallel => vec![vec![0, 1], vec![0, 2], vec![0]],
	}
}

/// Multi-path shapes from S to the recipient (last node).
pub fn mpp_shapes(t: Topology) -> Vec<Vec<Vec<usize>>> {
	match t {
		Topology::Pair => vec![vec![vec![0], vec![0]], vec![vec![0], vec![0], vec![0]]],
		Topology::Line3 => vec![vec![vec![0, 1], vec![0, 1]]],
		Topology::Line4 => vec![vec![vec![0, 1, 2], vec![0, 1, 2]]],
		Topology::Diamond => vec![vec![vec![0, 1], vec![2, 3]], vec![vec![0, 1], vec![2, 3], vec![0, 1]], vec![vec![2, 3], vec![0, 1], vec![2, 3], vec![0, 1]]],
		Topology::Line3Parallel => vec![vec![vec![0, 1], vec![0, 2]]],
	}
}

impl Sim {
	/// Teach every node's network graph the channels of the world (the simulator drops LDK's broadcast copies):
	/// the announcement is rebuilt from the negotiated keys, each direction's policy is what the forwarding end
	/// reports for the channel through `list_channels` (fees, cltv delta, the peer's HTLC minimum / maximum).
	pub fn c03_seed_graphs(&mut self) -> Result<(), String> {
		let chain_hash = bitcoin::constants::ChainHash::using_genesis_block(bitcoin::Network::Testnet);
		for (ci, c) in self.chans.iter().enumerate() {
			let (ida, idb) = (self.w.node_id(c.a), self.w.node_id(c.b));
			let (ka, kb) = (c.open.common_fields.funding_pubkey, c.accept.common_fields.funding_pubkey);
			let a_first = ida.serialize() < idb.serialize();
			let (n1, n2, k1, k2) = if a_first { (ida, idb, ka, kb) } else { (idb, ida, kb, ka) };
			let ann = msgs::UnsignedChannelAnnouncement {
				features: ChannelFeatures::empty(),
				chain_hash,
				short_channel_id: c.scid,
				node_id_1: NodeId::from_pubkey(&n1),
				node_id_2: NodeId::from_pubkey(&n2),
				bitcoin_key_1: NodeId::from_pubkey(&k1),
				bitcoin_key_2: NodeId::from_pubkey(&k2),
				excess_data: vec![],
			};
			let mut ups = vec![];
			for (end, is_first) in [(c.a, a_first), (c.b, !a_first)] {
				let det = self.chan_details(end, ci).ok_or("channel missing")?;
				let cfg = det.config.ok_or("no channel config")?;
				ups.push(msgs::UnsignedChannelUpdate {
					chain_hash,
					short_channel_id: c.scid,
					timestamp: 1000,
					message_flags: 1,
					channel_flags: if is_first { 0 } else { 1 },
					cltv_expiry_delta: cfg.cltv_expiry_delta,
					htlc_minimum_msat: det.counterparty.outbound_htlc_minimum_msat.unwrap_or(1),
					htlc_maximum_msat: det.counterparty.outbound_htlc_maximum_msat.unwrap_or(c.value_sat * 1000),
					fee_base_msat: cfg.forwarding_fee_base_msat,
					fee_proportional_millionths: cfg.forwarding_fee_proportional_millionths,
					excess_data: vec![],
				});
			}
			for nd in self.w.nodes.iter() {
				nd.network_graph
					.update_channel_from_unsigned_announcement::<&lightning::util::test_utils::TestChainSource>(&ann, &None)
					.map_err(|e| format!("announcement rejected: {:?}", e.err))?;
				for u in ups.iter() {
					nd.network_graph.update_channel_unsigned(u).map_err(|e| format!("channel_update rejected: {:?}", e.err))?;
				}
			}
		}
		Ok(())
	}

	fn c03_next_id(&mut self) -> PaymentId {
		let idn = self.next_payment_id;
		self.next_payment_id += 1;
		let mut idb = [0u8; 32];
		idb[..8].copy_from_slice(&idn.to_be_bytes());
		PaymentId(idb)
	}

	fn c03_push(&mut self, to: usize, nodes: Vec<usize>, chans: Vec<usize>, amt: u64, hash: PaymentHash, preimage: PaymentPreimage, secret: PaymentSecret, id: PaymentId, ok: bool) -> usize {
		self.pays.push(PayInfo {
			idx: self.pays.len(),
			from: S,
			to,
			path_nodes: nodes,
			path_chans: chans,
			amt_msat: amt,
			hash,
			preimage,
			secret,
			id,
			state: if ok { PayState::Sent } else { PayState::Refused },
			claimable_seen: false,
			claimed_event: false,
			sent_event: false,
			failed_event: false,
			cltv_expiry: self.chain.height() + 1 + TEST_FINAL_CLTV,
		});
		self.w.nodes[S].chain_monitor.added_monitors.lock().unwrap().clear();
		self.drain(S);
		self.pays.len() - 1
	}

	fn c03_route_params(&self, to: usize, amt: u64, mpp: bool, keysend: bool) -> RouteParameters {
		let payee = self.w.node_id(to);
		let mut pp = if keysend {
			PaymentParameters::for_keysend(payee, TEST_FINAL_CLTV, false)
		} else {
			PaymentParameters::from_node_id(payee, TEST_FINAL_CLTV).with_bolt11_features(self.w.nodes[to].node.bolt11_invoice_features()).unwrap()
		};
		if !mpp {
			pp.max_path_count = 1;
		}
		let mut rp = RouteParameters::from_payment_params_and_value(pp, amt);
		rp.max_total_routing_fee_msat = None;
		rp
	}

	/// One `Route` with one `Path` per part (each built with the forwarders' advertised policy).
	pub fn c03_build_multi(&self, parts: &[(Vec<usize>, u64)]) -> Option<(Route, usize, Vec<usize>)> {
		let mut paths = vec![];
		let mut to = 0;
		let mut nodes0 = vec![];
		for (chans, amt) in parts {
			let (r, nodes) = self.build_route(S, chans, *amt, TEST_FINAL_CLTV)?;
			if paths.is_empty() {
				to = *nodes.last().unwrap();
				nodes0 = nodes.clone();
			} else if *nodes.last().unwrap() != to {
				return None;
			}
			paths.push(r.paths[0].clone());
		}
		let total: u64 = parts.iter().map(|p| p.1).sum();
		let route_params = self.c03_route_params(to, total, true, false);
		Some((Route { paths, route_params }, to, nodes0))
	}

	/// Explicit (multi-)path payment. `tweak`: 0 none, 1/3 the first/second forwarder is paid too little,
	/// 2/4 it is granted one block less than its cltv_expiry_delta.
	pub fn c03_send_explicit(&mut self, parts: &[(Vec<usize>, u64)], tweak: u8) -> Option<(usize, PaymentId, String, bool)> {
		let (mut route, to, nodes) = self.c03_build_multi(parts)?;
		if tweak != 0 {
			// hop k carries the fee / cltv budget of the forwarder that follows it; tweaks 3 and 4 hit the second
			// forwarder of a three-hop path
			let h = &mut route.paths[0].hops;
			let k = if tweak >= 3 { 1 } else { 0 };
			if h.len() < k + 2 {
				return None;
			}
			if tweak % 2 == 1 {
				if h[k].fee_msat == 0 {
					return None;
				}
				h[k].fee_msat -= 1 + (h[k].fee_msat - 1) / 2;
			} else {
				h[k].cltv_expiry_delta -= 1;
			}
		}
		let (preimage, hash, secret) = get_payment_preimage_hash(&self.w.nodes[to], None, None);
		let id = self.c03_next_id();
		let total: u64 = parts.iter().map(|p| p.1).sum();
		let res = self.w.nodes[S].node.send_payment_with_route(route, hash, RecipientOnionFields::secret_only(secret, total), id);
		let ok = res.is_ok();
		let detail = format!("{:?}", res);
		self.rec(SEvent::Api { node: S, what: format!("send-explicit pay#{} parts={:?} tweak={}", self.pays.len(), parts, tweak), ok, detail: detail.clone() });
		let idx = self.c03_push(to, nodes, parts[0].0.clone(), total, hash, preimage, secret, id, ok);
		Some((idx, id, detail, ok))
	}

	/// Payment through the node's real router with automatic retries.
	pub fn c03_send_router(&mut self, to: usize, amt: u64, retries: u8, mpp: bool) -> (usize, PaymentId, String, bool) {
		let (preimage, hash, secret) = get_payment_preimage_hash(&self.w.nodes[to], None, None);
		let id = self.c03_next_id();
		let rp = self.c03_route_params(to, amt, mpp, false);
		let res = self.w.nodes[S].node.send_payment(hash, RecipientOnionFields::secret_only(secret, amt), id, rp, Retry::Attempts(retries as u32));
		let ok = res.is_ok();
		let detail = format!("{:?}", res);
		self.rec(SEvent::Api { node: S, what: format!("send-router pay#{} to={} amt={} retries={} mpp={}", self.pays.len(), to, amt, retries, mpp), ok, detail: detail.clone() });
		let idx = self.c03_push(to, vec![S, to], vec![], amt, hash, preimage, secret, id, ok);
		(idx, id, detail, ok)
	}

	/// Spontaneous payment (the sender picks the preimage) through the router.
	pub fn c03_keysend(&mut self, to: usize, amt: u64, retries: u8) -> (usize, PaymentId, String, bool) {
		let id = self.c03_next_id();
		let mut seed = b"c03-keysend-preimage".to_vec();
		seed.extend_from_slice(&id.0);
		let preimage = PaymentPreimage(sha256::Hash::hash(&seed).to_byte_array());
		let hash = PaymentHash(sha256::Hash::hash(&preimage.0).to_byte_array());
		let rp = self.c03_route_params(to, amt, false, true);
		let res = self.w.nodes[S].node.send_spontaneous_payment(Some(preimage), RecipientOnionFields::spontaneous_empty(amt), id, rp, Retry::Attempts(retries as u32));
		let ok = res.is_ok();
		let detail = format!("{:?}", res);
		self.rec(SEvent::Api { node: S, what: format!("keysend pay#{} to={} amt={} retries={}", self.pays.len(), to, amt, retries), ok, detail: detail.clone() });
		let idx = self.c03_push(to, vec![S, to], vec![], amt, hash, preimage, PaymentSecret([0; 32]), id, ok);
		(idx, id, detail, ok)
	}

	/// A second send with the id of payment `pay`. Returns (refused, refused as DuplicatePayment, detail).
	pub fn c03_dup_send(&mut self, pay: usize, kind: u8) -> (bool, bool, String) {
		let p = self.pays[pay].clone();
		let chans: Vec<usize> = if p.path_chans.is_empty() { vec![0] } else { p.path_chans.clone() };
		let detail = match kind % 4 {
			0 | 3 => {
				// explicit route; kind 3 uses a freshly registered hash
				let (hash, secret) = if kind % 4 == 0 {
					(p.hash, p.secret)
				} else {
					let (_, h, s) = get_payment_preimage_hash(&self.w.nodes[p.to], None, None);
					(h, s)
				};
				match self.build_route(S, &chans, p.amt_msat.max(1), TEST_FINAL_CLTV) {
					Some((route, _)) => format!("{:?}", self.w.nodes[S].node.send_payment_with_route(route, hash, RecipientOnionFields::secret_only(secret, p.amt_msat.max(1)), p.id)),
					None => "skipped".to_string(),
				}
			},
			1 => {
				let rp = self.c03_route_params(p.to, p.amt_msat.max(1), true, false);
				format!("{:?}", self.w.nodes[S].node.send_payment(p.hash, RecipientOnionFields::secret_only(p.secret, p.amt_msat.max(1)), p.id, rp, Retry::Attempts(1)))
			},
			_ => {
				let rp = self.c03_route_params(p.to, p.amt_msat.max(1), false, true);
				format!("{:?}", self.w.nodes[S].node.send_spontaneous_payment(None, RecipientOnionFields::spontaneous_empty(p.amt_msat.max(1)), p.id, rp, Retry::Attempts(0)))
			},
		};
		let refused = detail.starts_with("Err(");
		let dup = detail.contains("DuplicatePayment");
		self.rec(SEvent::Api { node: S, what: format!("dup-send pay#{} kind={}", pay, kind % 4), ok: !refused, detail: detail.clone() });
		self.w.nodes[S].chain_monitor.added_monitors.lock().unwrap().clear();
		self.drain(S);
		(refused, dup, detail)
	}

	pub fn c03_abandon(&mut self, pay: usize) {
		let id = self.pays[pay].id;
		self.w.nodes[S].node.abandon_payment(id);
		self.rec(SEvent::Api { node: S, what: format!("abandon pay#{}", pay), ok: true, detail: String::new() });
		self.drain(S);
	}

	/// ids S lists among its recent payments: id -> (variant name, hash if given)
	pub fn c03_recent(&self) -> BTreeMap<[u8; 32], &'static str> {
		let mut m = BTreeMap::new();
		for d in self.w.nodes[S].node.list_recent_payments() {
			match d {
				RecentPaymentDetails::AwaitingInvoice { payment_id } => m.insert(payment_id.0, "awaiting"),
				RecentPaymentDetails::Pending { payment_id, .. } => m.insert(payment_id.0, "pending"),
				RecentPaymentDetails::Fulfilled { payment_id, .. } => m.insert(payment_id.0, "fulfilled"),
				RecentPaymentDetails::Abandoned { payment_id, .. } => m.insert(payment_id.0, "abandoned"),
			};
		}
		m
	}

	/// sum of `outbound_capacity_msat` over S's channels; None if a channel is gone or a value is saturated at 0
	pub fn c03_s_capacity(&self) -> Option<u64> {
		let mut sum = 0;
		for (i, c) in self.chans.iter().enumerate() {
			if c.a == S || c.b == S {
				let d = self.chan_details(S, i)?;
				if d.outbound_capacity_msat == 0 {
					return None;
				}
				sum += d.outbound_capacity_msat;
			}
		}
		Some(sum)
	}

	/// (payment ids, payment hashes) of HTLCs S still has in flight: on live channels by `source`, on closed
	/// channels by the hash of a timeout-claimable balance of an outbound payment.
	pub fn c03_inflight(&self) -> (BTreeSet<[u8; 32]>, BTreeSet<PaymentHash>) {
		let mut ids = BTreeSet::new();
		let mut hashes = BTreeSet::new();
		for d in self.w.nodes[S].node.list_channels() {
			for h in d.pending_outbound_htlcs.iter() {
				hashes.insert(h.payment_hash);
				if let Some(OutboundHTLCSource::Local { payment_id }) = &h.source {
					ids.insert(payment_id.0);
				}
			}
		}
		for b in self.w.nodes[S].chain_monitor.chain_monitor.get_claimable_balances(&[]) {
			if let Balance::MaybeTimeoutClaimableHTLC { payment_hash, outbound_payment: true, .. } = b {
				hashes.insert(payment_hash);
			}
		}
		(ids, hashes)
	}

	/// true while transactions wait to be mined or S still has an HTLC output to resolve on chain (balances that
	/// only wait for a CSV / confirmation delay do not influence payment outcomes and are not waited for)
	pub fn c03_chain_unresolved(&self) -> bool {
		if !self.chain.mempool.is_empty() {
			return true;
		}
		for b in self.w.nodes[S].chain_monitor.chain_monitor.get_claimable_balances(&[]) {
			if matches!(b, Balance::MaybeTimeoutClaimableHTLC { .. } | Balance::MaybePreimageClaimableHTLC { .. } | Balance::ContentiousClaimable { .. }) {
				return true;
			}
		}
		false
	}

	/// `settle`, tolerating one artifact of the simulator's transport: error messages are handed over at once
	/// while a `channel_reestablish` emitted just before them waits in the FIFO, so two nodes that both closed a
	/// channel can answer each other's "unknown channel" reestablish for ever. Cutting the connection ends it.
	pub fn c03_settle(&mut self, max_rounds: usize) -> bool {
		if self.settle(max_rounds) {
			return true;
		}
		let bogus: Vec<(usize, usize)> = self
			.links
			.iter()
			.filter(|(_, q)| q.iter().any(|w| matches!(w, Wire::Reestablish(m) if m.next_local_commitment_number == 0 && m.next_remote_commitment_number == 0)))
			.map(|(k, _)| *k)
			.collect();
		if bogus.is_empty() {
			return false;
		}
		for (a, b) in bogus {
			self.disconnect(a, b);
		}
		self.settle(max_rounds)
	}

	/// Mine `n` empty blocks. Nodes synced through the `Confirm` interface are told only the new tip (the
	/// contract allows skipping intermediate `best_block_updated` calls); `Listen` nodes get every block.
	pub fn c03_fast_forward(&mut self, n: u32) {
		if n == 0 {
			return;
		}
		let mut blocks = vec![];
		for _ in 0..n {
			let (b, _) = self.chain.mine(vec![]);
			let h = self.chain.height();
			self.rec(SEvent::Mined { height: h, txids: vec![] });
			blocks.push((b, h));
		}
		for i in 0..self.w.n {
			let style = self.w.nodes[i].connect_style.borrow().clone();
			let listen = matches!(style, ConnectStyle::FullBlockViaListen | ConnectStyle::FullBlockDisconnectionsSkippingViaListen | ConnectStyle::ReplayedFullBlockViaListen);
			if listen {
				for (b, _) in blocks.iter() {
					self.deliver_block(i, b);
				}
			} else {
				use lightning::chain::Confirm;
				let nd = &self.w.nodes[i];
				{
					let mut nb = nd.blocks.lock().unwrap();
					for (b, h) in blocks.iter() {
						nb.push((b.clone(), *h));
					}
				}
				let (b, h) = blocks.last().unwrap();
				nd.chain_monitor.chain_monitor.best_block_updated(&b.header, *h);
				nd.node.best_block_updated(&b.header, *h);
				nd.node.test_process_background_events();
				nd.chain_monitor.added_monitors.lock().unwrap().clear();
				let height = *h;
				self.rec(SEvent::BlockDelivered { node: i, height });
				self.drain(i);
			}
		}
	}
}

// -------------------------------------------------------------------------------------------------
// operations of the C03 profile
// -------------------------------------------------------------------------------------------------

#[derive(Clone, Debug, Serialize, Deserialize)]
pub enum XOp {
	Base(Op),
	/// explicit single path; tweak 0 none / 1 forwarding fee too small / 2 cltv delta too small (a middle node fails it)
	SendRoute { route: u16, amt: Amt, tweak: u8 },
	/// explicit multi-path payment to the last node
	SendMpp { shape: u16, amt: Amt, split: u16 },
	SendRouter { far: bool, amt: Amt, retries: u8, mpp: bool },
	Keysend { far: bool, amt: Amt, retries: u8 },
	DupSend { pay: u16, kind: u8 },
	Abandon { pay: u16 },
	AsyncS { chan: u16, on: bool },
	/// deliver `k` single messages between S and one peer (alternating directions, peer first), then cut the link
	Interrupt { peer: u16, k: u8, reconnect: bool },
	SnapshotS,
	/// `fresh`: the manager is written right before the crash (otherwise the snap-th newest snapshot is used)
	RestartS { snap: u16, landed: bool, #[serde(default)] fresh: bool },
	/// R claims (or fails back) a claimable payment; messages are delivered until a removal (fulfil / fail) is
	/// queued towards S, then `cut_at` more messages of the removal dance between S and that peer, then the
	/// connection is cut (and re-established if `reconnect`): the removal is redelivered after reconnection
	ResolveCut { pay: u16, claim: bool, cut_at: u8, reconnect: bool },
	/// mine empty blocks (HTLC timeouts)
	MineMany { blocks: u8 },
	/// `ticks` timer ticks at S (retry / abandon bookkeeping, removal of completed payments after a few ticks)
	TimerS { ticks: u8 },
}

#[derive(Clone, Debug)]
pub struct XWeights {
	pub base: OpWeights,
	pub send_route: u32,
	pub underpay: u32,
	pub mpp: u32,
	pub router: u32,
	pub keysend: u32,
	pub dup: u32,
	pub abandon: u32,
	pub async_s: u32,
	pub interrupt: u32,
	pub snapshot: u32,
	pub restart: u32,
	pub resolve_cut: u32,
	pub mine_many: u32,
	pub timer_s: u32,
}

pub fn xop_strategy(w: XWeights) -> BoxedStrategy<XOp> {
	let base_total = {
		let b = &w.base;
		b.send + b.claim + b.fail + b.deliver + b.flush + b.events + b.forwards + b.disconnect + b.reconnect + b.setfee + b.timer + b.async_toggle + b.complete + b.pump + b.force_close + b.tamper_revoke + b.mine + b.reorg + b.set_style + b.snapshot + b.restart
	};
	let mut v: Vec<(u32, BoxedStrategy<XOp>)> = vec![
		(base_total, if base_total > 0 { op_strategy(w.base.clone()).prop_map(XOp::Base).boxed() } else { Just(XOp::SnapshotS).boxed() }),
		(w.send_route, (any::<u16>(), amt_strategy()).prop_map(|(route, amt)| XOp::SendRoute { route, amt, tweak: 0 }).boxed()),
		(w.underpay, (any::<u16>(), amt_strategy(), 1u8..=4).prop_map(|(route, amt, tweak)| XOp::SendRoute { route, amt, tweak }).boxed()),
		(w.mpp, (any::<u16>(), amt_strategy(), any::<u16>()).prop_map(|(shape, amt, split)| XOp::SendMpp { shape, amt, split }).boxed()),
		(w.router, (proptest::bool::weighted(0.8), amt_strategy(), 0u8..4, any::<bool>()).prop_map(|(far, amt, retries, mpp)| XOp::SendRouter { far, amt, retries, mpp }).boxed()),
		(w.keysend, (proptest::bool::weighted(0.8), amt_strategy(), 0u8..3).prop_map(|(far, amt, retries)| XOp::Keysend { far, amt, retries }).boxed()),
		(w.dup, (any::<u16>(), 0u8..4).prop_map(|(pay, kind)| XOp::DupSend { pay, kind }).boxed()),
		(w.abandon, any::<u16>().prop_map(|pay| XOp::Abandon { pay }).boxed()),
		(w.async_s, (any::<u16>(), proptest::bool::weighted(0.7)).prop_map(|(chan, on)| XOp::AsyncS { chan, on }).boxed()),
		(w.interrupt, (any::<u16>(), 0u8..9, any::<bool>()).prop_map(|(peer, k, reconnect)| XOp::Interrupt { peer, k, reconnect }).boxed()),
		(w.snapshot, Just(XOp::SnapshotS).boxed()),
		(w.restart, (prop_oneof![Just(0u16), 0u16..4, any::<u16>()], any::<bool>(), any::<bool>()).prop_map(|(snap, landed, fresh)| XOp::RestartS { snap, landed, fresh }).boxed()),
		(w.resolve_cut, (any::<u16>(), proptest::bool::weighted(0.65), 0u8..8, proptest::bool::weighted(0.8)).prop_map(|(pay, claim, cut_at, reconnect)| XOp::ResolveCut { pay, claim, cut_at, reconnect }).boxed()),
		(w.mine_many, prop_oneof![1u8..12, 10u8..90].prop_map(|blocks| XOp::MineMany { blocks }).boxed()),
		(w.timer_s, prop_oneof![Just(1u8), 1u8..10].prop_map(|ticks| XOp::TimerS { ticks }).boxed()),
	];
	v.retain(|(w, _)| *w > 0);
	proptest::strategy::Union::new_weighted(v).boxed()
}

// -------------------------------------------------------------------------------------------------
// oracle state
// -------------------------------------------------------------------------------------------------

#[derive(Clone, Debug)]
pub struct PayMeta {
	pub kind: Kind,
	pub id: PaymentId,
	pub hash: PaymentHash,
	pub preimage: PaymentPreimage,
	pub amt: u64,
	pub to: usize,
	pub api_ok: bool,
	pub api: String,
	pub send_step: u64,
	/// step at which the harness called claim_funds at the recipient
	pub claim_step: Option<u64>,
	pub claimed_event: bool,
	pub sent_obs: Vec<u64>,
	pub failed_obs: Vec<u64>,
	/// (amount_msat, fee_paid_msat) of the first PaymentSent
	pub first_sent: Option<(Option<u64>, Option<u64>)>,
	pub absent_since: Option<u64>,
	pub abandoned: bool,
	/// a restart of S used a manager snapshot taken before this payment was sent
	pub predated: bool,
	/// step at which a part's on-chain claim with the preimage was confirmed (on a channel of S)
	pub onchain_claim_step: Option<u64>,
}

#[derive(Clone, Debug)]
struct Htlc {
	hash: PaymentHash,
	amt: u64,
	/// node that generated the failure travelling back over this HTLC
	fail_origin: Option<usize>,
	malformed: bool,
	fail_delivered: bool,
	fail_consumed: bool,
	fulfill_delivered: Option<u64>,
	fulfill_emitted: bool,
}

#[derive(Default, Clone, Debug)]
pub struct C03Stats {
	pub sends_ok: u64,
	pub sends_refused: u64,
	pub sent: u64,
	pub failed: u64,
	pub path_failed: u64,
	pub path_failed_attributed: u64,
	pub repeats_after_restart: u64,
	pub dup_refused: u64,
	pub restarts: u64,
	pub stale_restarts: u64,
	pub absent_after_restart: u64,
	pub lost_payments: u64,
	pub redelivered_removals: u64,
	pub onchain_claims: u64,
	pub onchain_failures: u64,
	pub mixed_mpp: u64,
	pub accounting_exact: u64,
	pub accounting_overstated: u64,
	pub balance_checked: bool,
	pub s_chan_closed: bool,
	pub labels: BTreeSet<String>,
}

pub struct C03 {
	/// per node: the forwarding policies (fee base, ppm) of all its channels as of the start of the case (a channel closed
	/// later is no longer listed by its node, its policy still applied to HTLCs forwarded over it)
	start_pols: Vec<Vec<(u64, u64)>>,
	pub meta: Vec<PayMeta>,
	pub co: CommitOracle,
	pub co_dead: Option<String>,
	cur_s: usize,
	htlcs: BTreeMap<(ChannelId, usize, u64), Htlc>,
	/// terminal events (id, is_sent) handled in the lineage of the running manager
	handled: BTreeSet<([u8; 32], bool)>,
	/// per manager snapshot: (handled, handled while no monitor update of S was in flight, updates in flight)
	snap_handled: BTreeMap<u64, (BTreeSet<([u8; 32], bool)>, BTreeSet<([u8; 32], bool)>, Vec<(ChannelId, u64)>)>,
	handled_durable: BTreeSet<([u8; 32], bool)>,
	handled_batch: BTreeMap<([u8; 32], bool), u64>,
	batch: u64,
	await_first_batch: bool,
	first_batch_after_restart: Option<u64>,
	/// (step, snapshot step) of S's restarts
	pub restarts: Vec<(u64, u64)>,
	/// stretches of history (from, to] the running manager knows nothing of: it descends from a snapshot written at
	/// `from` that was loaded at `to`
	blind: Vec<(u64, u64)>,
	snap_blind: BTreeMap<u64, Vec<(u64, u64)>>,
	closed_s_chans: BTreeSet<ChannelId>,
	any_chan_closed: bool,
	next_restart_loses_writes: bool,
	/// restarts of S at which monitor updates that were written but not completed were lost
	lossy_restarts: Vec<u64>,
	start_cap: Option<u64>,
	pub stats: C03Stats,
	/// step of the log entry being evaluated (for diagnostics)
	pub failure_step: u64,
}

impl C03 {
	/// Create right after the world was built (and the graphs seeded).
	pub fn new(sim: &mut Sim) -> C03 {
		let mut co = CommitOracle::new(sim);
		co.allow_force_close = true;
		let start_pols: Vec<Vec<(u64, u64)>> = (0..sim.w.n).map(|i| sim.w.nodes[i].node.list_channels().iter().filter_map(|c| c.config).map(|c| (c.forwarding_fee_base_msat as u64, c.forwarding_fee_proportional_millionths as u64)).collect()).collect();
		let mut c = C03 {
			start_pols,
			meta: vec![],
			co,
			co_dead: None,
			cur_s: sim.log.len(),
			htlcs: BTreeMap::new(),
			handled: BTreeSet::new(),
			snap_handled: BTreeMap::new(),
			handled_durable: BTreeSet::new(),
			handled_batch: BTreeMap::new(),
			batch: 0,
			await_first_batch: false,
			first_batch_after_restart: None,
			restarts: vec![],
			blind: vec![],
			snap_blind: BTreeMap::new(),
			closed_s_chans: BTreeSet::new(),
			any_chan_closed: false,
			next_restart_loses_writes: false,
			lossy_restarts: vec![],
			start_cap: sim.c03_s_capacity(),
			stats: C03Stats::default(),
			failure_step: 0,
		};
		c.snapshot(sim);
		c
	}

	fn snapshot(&mut self, sim: &mut Sim) {
		sim.snapshot_manager(S);
		let step = sim.snapshots[S].last().unwrap().0;
		if sim.w.pending_updates(S).is_empty() {
			self.handled_durable = self.handled.clone();
		}
		self.snap_handled.insert(step, (self.handled.clone(), self.handled_durable.clone(), sim.w.pending_updates(S)));
		self.snap_blind.insert(step, self.blind.clone());
	}

	fn label(&mut self, l: &str) {
		self.stats.labels.insert(l.to_string());
	}

	fn register(&mut self, sim: &Sim, kind: Kind, idx: usize, id: PaymentId, api: String, ok: bool) {
		assert_eq!(idx, self.meta.len());
		let p = &sim.pays[idx];
		let send_step = sim.log.iter().rev().find(|(_, e)| matches!(e, SEvent::Api { node: S, .. })).map(|(s, _)| *s).unwrap_or(0);
		self.meta.push(PayMeta {
			kind,
			id,
			hash: p.hash,
			preimage: p.preimage,
			amt: p.amt_msat,
			to: p.to,
			api_ok: ok,
			api,
			send_step,
			claim_step: None,
			claimed_event: false,
			sent_obs: vec![],
			failed_obs: vec![],
			first_sent: None,
			absent_since: None,
			abandoned: false,
			predated: false,
			onchain_claim_step: None,
		});
		if ok {
			self.stats.sends_ok += 1;
		} else {
			self.stats.sends_refused += 1;
		}
	}

	/// Apply one operation of the profile. Returns a tag for labels.
	pub fn apply(&mut self, sim: &mut Sim, spec: &WorldSpec, op: &XOp) -> Result<&'static str, Failure> {
		let n = sim.w.n;
		let last = n - 1;
		if self.meta.len() >= 40 && matches!(op, XOp::SendRoute { .. } | XOp::SendMpp { .. } | XOp::SendRouter { .. } | XOp::Keysend { .. } | XOp::DupSend { .. }) {
			return Ok("send-skipped");
		}
		Ok(match op {
			XOp::Base(op) => apply(sim, spec, op),
			XOp::SendRoute { route, amt, tweak } => {
				let routes = s_routes(spec.topo);
				let chans = routes[pick(*route, routes.len())].clone();
				let Some(a) = resolve_amount(sim, S, chans[0], amt) else { return Ok("send-skipped") };
				let a = if chans.len() > 1 { (a / 2).max(1) } else { a };
				let Some((idx, id, api, ok)) = sim.c03_send_explicit(&[(chans, a)], *tweak) else { return Ok("send-skipped") };
				self.register(sim, if *tweak == 0 { Kind::Route } else { Kind::Underpay }, idx, id, api, ok);
				if *tweak == 0 {
					"send-route"
				} else {
					"send-underpaid"
				}
			},
			XOp::SendMpp { shape, amt, split } => {
				let shapes = mpp_shapes(spec.topo);
				let paths = shapes[pick(*shape, shapes.len())].clone();
				let Some(total) = resolve_amount(sim, S, paths[0][0], amt) else { return Ok("send-skipped") };
				let total = (total / 2).max(paths.len() as u64);
				// first part gets split/65536 of the total, the others share the rest equally
				let k = paths.len() as u64;
				let first = (((total - k) as u128 * *split as u128) >> 16) as u64 + 1;
				let rest = total - first;
				let mut parts: Vec<(Vec<usize>, u64)> = vec![];
				for (i, p) in paths.iter().enumerate() {
					let a = if i == 0 {
						first
					} else {
						let share = rest / (k - 1);
						if i as u64 == k - 1 {
							rest - share * (k - 2)
						} else {
							share
						}
					};
					parts.push((p.clone(), a.max(1)));
				}
				let Some((idx, id, api, ok)) = sim.c03_send_explicit(&parts, 0) else { return Ok("send-skipped") };
				self.register(sim, Kind::Mpp, idx, id, api, ok);
				"send-mpp"
			},
			XOp::SendRouter { far, amt, retries, mpp } => {
				let to = if *far { last } else { 1 };
				let Some(a) = resolve_amount(sim, S, 0, amt) else { return Ok("send-skipped") };
				let a = if to != 1 || *mpp { (a / 2).max(1) } else { a };
				let (idx, id, api, ok) = sim.c03_send_router(to, a, *retries, *mpp);
				self.register(sim, Kind::Router, idx, id, api, ok);
				"send-router"
			},
			XOp::Keysend { far, amt, retries } => {
				let to = if *far { last } else { 1 };
				let Some(a) = resolve_amount(sim, S, 0, amt) else { return Ok("send-skipped") };
				let a = if to != 1 { (a / 2).max(1) } else { a };
				let (idx, id, api, ok) = sim.c03_keysend(to, a, *retries);
				self.register(sim, Kind::Keysend, idx, id, api, ok);
				"send-keysend"
			},
			XOp::DupSend { pay, kind } => {
				// (f) only ids S itself lists as pending (or abandoned with parts in flight) are probed
				let recent = sim.c03_recent();
				let cands: Vec<usize> = (0..self.meta.len()).filter(|i| matches!(recent.get(&self.meta[*i].id.0), Some(&"pending") | Some(&"abandoned"))).collect();
				if cands.is_empty() {
					return Ok("dup-skipped");
				}
				let i = cands[pick(*pay, cands.len())];
				let mark = sim.log.len();
				let (refused, dup, detail) = sim.c03_dup_send(i, *kind);
				if detail == "skipped" {
					return Ok("dup-skipped");
				}
				let added = sim.log[mark..].iter().any(|(_, e)| matches!(e, SEvent::Emit { from: S, wire: Wire::Add(_), .. }));
				if !refused || added {
					return Err(fail("duplicate-id-accepted", format!("a second send (variant {}) with the id of pay#{} (listed as {:?}) was not refused: {} (new HTLC emitted: {})", kind % 4, i, recent.get(&self.meta[i].id.0), detail, added))
						.with_key(format!("duplicate-id-accepted/variant-{}", kind % 4)));
				}
				self.stats.dup_refused += 1;
				if dup {
					"dup-refused"
				} else {
					self.label("dup-refused-with-other-error");
					"dup-refused-other"
				}
			},
			XOp::Abandon { pay } => {
				let recent = sim.c03_recent();
				let cands: Vec<usize> = (0..self.meta.len()).filter(|i| recent.contains_key(&self.meta[*i].id.0)).collect();
				if cands.is_empty() {
					return Ok("abandon-skipped");
				}
				let i = cands[pick(*pay, cands.len())];
				sim.c03_abandon(i);
				self.meta[i].abandoned = true;
				"abandon"
			},
			XOp::AsyncS { chan, on } => {
				let mine: Vec<usize> = (0..sim.chans.len()).filter(|c| sim.chans[*c].a == S || sim.chans[*c].b == S).collect();
				let c = sim.chans[mine[pick(*chan, mine.len())]].id;
				if !*on && sim.w.pending_updates(S).iter().any(|(pc, _)| *pc == c) {
					return Ok("async-skipped");
				}
				sim.w.set_async(S, Some(c), *on);
				if *on {
					"async-on"
				} else {
					"async-off"
				}
			},
			XOp::Interrupt { peer, k, reconnect } => {
				let mut peers: Vec<usize> = sim.chans.iter().filter(|c| c.a == S || c.b == S).map(|c| if c.a == S { c.b } else { c.a }).collect();
				peers.sort();
				peers.dedup();
				let p = peers[pick(*peer, peers.len())];
				if !sim.is_connected(S, p) {
					return Ok("interrupt-skipped");
				}
				let mut done = 0;
				let mut dir = true;
				for _ in 0..(2 * *k as usize + 2) {
					if done >= *k as usize {
						break;
					}
					let (f, t) = if dir { (p, S) } else { (S, p) };
					done += sim.deliver(f, t, 1);
					dir = !dir;
				}
				sim.disconnect(S, p);
				if *reconnect {
					sim.reconnect(S, p);
				}
				"interrupt"
			},
			XOp::SnapshotS => {
				self.snapshot(sim);
				"snapshot"
			},
			XOp::ResolveCut { pay, claim, cut_at, reconnect } => {
				let mut cands: Vec<usize> = sim.pays.iter().filter(|p| p.state == PayState::Claimable).map(|p| p.idx).collect();
				if cands.is_empty() {
					apply(sim, spec, &Op::Pump);
					cands = sim.pays.iter().filter(|p| p.state == PayState::Claimable).map(|p| p.idx).collect();
				}
				if cands.is_empty() {
					return Ok("resolve-cut-skipped");
				}
				let p = cands[pick(*pay, cands.len())];
				if *claim {
					sim.claim(p);
				} else {
					sim.fail_back(p);
				}
				let removal_queued = |sim: &Sim| -> Option<usize> { sim.links.iter().find(|(k, q)| k.1 == S && q.iter().any(|w| matches!(w, Wire::Fulfill(_) | Wire::Fail(_) | Wire::FailMalformed(_)))).map(|(k, _)| k.0) };
				let mut peer = removal_queued(sim);
				for _ in 0..80 {
					if peer.is_some() {
						break;
					}
					let live: Vec<(usize, usize)> = sim.links.iter().filter(|(k, q)| !q.is_empty() && sim.is_connected(k.0, k.1)).map(|(k, _)| *k).collect();
					let mut progress = false;
					for (f, t) in live {
						if sim.deliver(f, t, 1) > 0 {
							progress = true;
						}
						peer = removal_queued(sim);
						if peer.is_some() {
							break;
						}
					}
					if peer.is_some() {
						break;
					}
					for i in 1..n {
						if sim.w.nodes[i].node.needs_pending_htlc_processing() {
							sim.process_forwards(i);
							progress = true;
						}
						if !sim.process_events(i).is_empty() {
							progress = true;
						}
					}
					peer = removal_queued(sim);
					if !progress {
						break;
					}
				}
				let Some(p) = peer else { return Ok("resolve-no-removal") };
				for _ in 0..*cut_at {
					if sim.deliver(p, S, 1) == 0 && sim.deliver(S, p, 1) == 0 {
						break;
					}
				}
				sim.disconnect(S, p);
				if *reconnect {
					sim.reconnect(S, p);
				}
				"resolve-cut"
			},
			XOp::RestartS { snap, landed, fresh } => {
				if sim.snapshots[S].is_empty() || *fresh {
					self.snapshot(sim);
				}
				let snap = if *fresh { &0 } else { snap };
				if !*landed {
					let st = sim.w.persisters[S].state.lock().unwrap();
					self.next_restart_loses_writes = st.latest.iter().any(|(c, (id, _))| st.durable.get(c).map(|d| d.0 < *id).unwrap_or(false));
				}
				match sim.restart(S, *snap, *landed) {
					Ok(()) => {
						self.after_restart(sim);
						"restart"
					},
					Err(_) => "restart-failed",
				}
			},
			XOp::TimerS { ticks } => {
				for _ in 0..*ticks {
					sim.timer_tick(S);
				}
				"timer-s"
			},
			XOp::MineMany { blocks } => {
				sim.c03_fast_forward(*blocks as u32);
				"mine-many"
			},
		})
	}

	/// (e) bookkeeping: payments the restarted node no longer lists
	fn after_restart(&mut self, sim: &Sim) {
		let recent = sim.c03_recent();
		let step = sim.log.last().map(|(s, _)| *s).unwrap_or(0);
		for m in self.meta.iter_mut() {
			if m.api_ok && !recent.contains_key(&m.id.0) && m.absent_since.is_none() {
				m.absent_since = Some(step);
				self.stats.absent_after_restart += 1;
			}
		}
	}

	/// true if the removal of S's HTLC `id` on channel `chan` by a fulfil is irrevocable for S: S has revoked
	/// every commitment of its own that still carried the HTLC (model view, from wire messages only)
	fn settled_irrevocably(&self, sim: &Sim, chan: ChannelId, id: u64) -> bool {
		if self.co_dead.is_some() {
			return false;
		}
		let Some(ci) = sim.chans.iter().position(|c| c.id == chan) else { return false };
		let side = if sim.chans[ci].a == S { 0 } else { 1 };
		let m = &self.co.models[ci];
		let j = m.sides[side].raa_secrets.len();
		if j == 0 {
			return false;
		}
		let Some(cs) = m.sides[1 - side].cs.get(j - 1) else { return false };
		m.sides[1 - side].updates[..cs.covers].iter().any(|u| *u == Upd::Fulfill { id })
	}

	/// parts (S's own HTLCs) of a payment
	fn parts_of(&self, hash: &PaymentHash) -> Vec<(&(ChannelId, usize, u64), &Htlc)> {
		self.htlcs.iter().filter(|(k, h)| k.1 == S && h.hash == *hash).collect()
	}

	fn last_restart_snapshot(&self) -> Option<u64> {
		self.restarts.last().map(|r| r.1)
	}

	/// Exact shape of a listed finding: S handed a commitment transaction of the channel of one of these parts to
	/// the broadcaster while monitor updates of that channel were still in flight (Persist had answered
	/// InProgress), a later restart of S lost written-but-incomplete monitor updates (so the restored monitor has
	/// no data for that transaction), and that transaction is the one that confirmed.
	fn broadcast_before_durable(&self, sim: &Sim, parts: &[((ChannelId, usize, u64), Htlc)]) -> bool {
		let hist = crate::rec::hist_since(0);
		for (k, _) in parts.iter() {
			let Some(c) = sim.chans.iter().find(|c| c.id == k.0) else { continue };
			let funding = c.funding_tx.compute_txid();
			let Some(spend) = sim.chain.confirmed.values().find(|(tx, _)| tx.input.iter().any(|i| i.previous_output.txid == funding)).map(|(tx, _)| tx.compute_txid()) else { continue };
			let Some(b) = sim.log.iter().find(|(_, e)| matches!(e, SEvent::Broadcast { node: S, tx, .. } if tx.compute_txid() == spend)).map(|(st, _)| *st) else { continue };
			if !self.lossy_restarts.iter().any(|r| *r > b) {
				continue;
			}
			// updates of this channel handed to S's persister as InProgress before the broadcast and not completed by then
			let mut inflight: BTreeSet<u64> = BTreeSet::new();
			for (st, e) in hist.iter() {
				if *st >= b {
					break;
				}
				match e {
					crate::rec::HEvent::PersistUpdate { node: S, chan, update_id: Some(id), in_progress: true, .. } if *chan == k.0 => {
						inflight.insert(*id);
					},
					crate::rec::HEvent::PersistCompleted { node: S, chan, update_id } if *chan == k.0 => {
						inflight.remove(update_id);
					},
					_ => {},
				}
			}
			if !inflight.is_empty() {
				return true;
			}
		}
		false
	}

	/// Exact shape of a suspected defect: the peer's update_fail_htlc for one of these parts reached S, and S closed
	/// the channel (ChannelForceClosed monitor update) while an earlier monitor update of that channel was still in
	/// flight -- a failure that is only parked until that update completes is dropped together with the channel.
	fn failure_parked_at_close(&self, sim: &Sim, parts: &[((ChannelId, usize, u64), Htlc)]) -> bool {
		let _ = sim;
		let hist = crate::rec::hist_since(0);
		for (k, h) in parts.iter() {
			if !h.fail_delivered {
				continue;
			}
			let mut inflight: BTreeSet<u64> = BTreeSet::new();
			for (_, e) in hist.iter() {
				match e {
					crate::rec::HEvent::PersistUpdate { node: S, chan, update_id: Some(id), in_progress, steps, .. } if *chan == k.0 => {
						if steps.iter().any(|s| s == "ChannelForceClosed") && !inflight.is_empty() {
							return true;
						}
						if *in_progress {
							inflight.insert(*id);
						}
					},
					crate::rec::HEvent::PersistCompleted { node: S, chan, update_id } if *chan == k.0 => {
						inflight.remove(update_id);
					},
					_ => {},
				}
			}
		}
		false
	}

	/// the running manager descends from a snapshot that was written before `step` and loaded after it
	fn is_blind(&self, step: u64) -> bool {
		self.blind.iter().any(|(a, b)| *a < step && step <= *b)
	}

	/// Consume the new part of the simulator log and evaluate every event-level oracle.
	pub fn step(&mut self, sim: &Sim) -> CaseResult {
		if self.co_dead.is_none() {
			if let Err(f) = self.co.step(sim) {
				self.co_dead = Some(f.oracle.clone());
			}
		}
		let evs: Vec<(u64, SEvent)> = sim.log[self.cur_s..].to_vec();
		self.cur_s = sim.log.len();
		for (at, ev) in evs {
			self.failure_step = at;
			// a batch = the events one process_events call of S handed out
			if !matches!(ev, SEvent::Ldk { node: S, .. }) {
				self.batch += 1;
			} else if self.await_first_batch {
				self.await_first_batch = false;
				self.first_batch_after_restart = Some(self.batch);
			}
			match ev {
				SEvent::Emit { from, to, wire } => match &wire {
					Wire::Add(m) => {
						self.htlcs.entry((m.channel_id, from, m.htlc_id)).or_insert(Htlc {
							hash: m.payment_hash,
							amt: m.amount_msat,
							fail_origin: None,
							malformed: false,
							fail_delivered: false,
							fail_consumed: false,
							fulfill_delivered: None,
							fulfill_emitted: false,
						});
					},
					Wire::Fail(_) | Wire::FailMalformed(_) => {
						let (chan, id, malformed) = match &wire {
							Wire::Fail(m) => (m.channel_id, m.htlc_id, false),
							Wire::FailMalformed(m) => (m.channel_id, m.htlc_id, true),
							_ => unreachable!(),
						};
						let Some(h) = self.htlcs.get(&(chan, to, id)).cloned() else { continue };
						if h.fail_origin.is_some() {
							if to == S {
								self.stats.redelivered_removals += 1;
							}
							continue;
						}
						// relayed if a failure for the same payment already came back to `from` from downstream
						// (parts of one payment share the hash: the downstream HTLC belonging to this upstream HTLC is the
						// one whose amount is the upstream amount less exactly the forwarder's advertised fee; without
						// such a candidate a single unconsumed downstream failure of the payment is taken)
						// the forwarder's fee is the policy of the outgoing channel named in the onion; the library may send the
						// HTLC over another channel to the same peer, and channels of one node may carry different policies, so
						// any of the forwarder's channel policies (or its default, for a channel it no longer lists) is accepted
						let dflt = &sim.w.configs[from].channel_config;
						let mut pols: Vec<(u64, u64)> = sim.w.nodes[from].node.list_channels().iter().filter_map(|c| c.config).map(|c| (c.forwarding_fee_base_msat as u64, c.forwarding_fee_proportional_millionths as u64)).collect();
						pols.push((dflt.forwarding_fee_base_msat as u64, dflt.forwarding_fee_proportional_millionths as u64));
						pols.extend(self.start_pols.get(from).cloned().unwrap_or_default());
						let fee_matches = |down_amt: u64, up_amt: u64| pols.iter().any(|(fb, fp)| down_amt + fb + down_amt * fp / 1_000_000 == up_amt);
						let exact_key = self.htlcs.iter().find(|(k, d)| k.1 == from && d.hash == h.hash && d.fail_delivered && !d.fail_consumed && fee_matches(d.amt, h.amt)).map(|(k, _)| *k);
						let siblings = self.htlcs.iter().filter(|(k, u)| k.0 == chan && k.1 == to && u.hash == h.hash).count();
						let cands: Vec<_> = self.htlcs.iter().filter(|(k, d)| k.1 == from && d.hash == h.hash && d.fail_delivered && !d.fail_consumed).map(|(k, _)| *k).collect();
						let pick_key = exact_key.or(if siblings == 1 && cands.len() == 1 { Some(cands[0]) } else { None });
						let down = pick_key.and_then(|k| self.htlcs.get_mut(&k).map(|d| (k, d)));
						let (origin, mal) = match down {
							Some((_, d)) => {
								d.fail_consumed = true;
								(d.fail_origin.unwrap_or(from), d.malformed || malformed)
							},
							None => (from, malformed),
						};
						let h = self.htlcs.get_mut(&(chan, to, id)).unwrap();
						h.fail_origin = Some(origin);
						h.malformed = mal;
					},
					Wire::Fulfill(m) => {
						if let Some(h) = self.htlcs.get_mut(&(m.channel_id, to, m.htlc_id)) {
							if h.fulfill_emitted && to == S {
								self.stats.redelivered_removals += 1;
							}
							h.fulfill_emitted = true;
						}
					},
					_ => {},
				},
				SEvent::Deliver { to, wire, .. } => match &wire {
					Wire::Fail(m) => {
						if let Some(h) = self.htlcs.get_mut(&(m.channel_id, to, m.htlc_id)) {
							h.fail_delivered = true;
						}
					},
					Wire::FailMalformed(m) => {
						if let Some(h) = self.htlcs.get_mut(&(m.channel_id, to, m.htlc_id)) {
							h.fail_delivered = true;
						}
					},
					Wire::Fulfill(m) => {
						if let Some(h) = self.htlcs.get_mut(&(m.channel_id, to, m.htlc_id)) {
							if h.fulfill_delivered.is_none() {
								h.fulfill_delivered = Some(at);
							}
						}
					},
					_ => {},
				},
				SEvent::Api { what, .. } => {
					if let Some(rest) = what.strip_prefix("claim pay#") {
						if let Ok(i) = rest.parse::<usize>() {
							if let Some(m) = self.meta.get_mut(i) {
								m.claim_step.get_or_insert(at);
							}
						}
					}
				},
				SEvent::Restart { node: S, snapshot_step, ok, monitor_ids, .. } => {
					if !ok {
						continue;
					}
					self.stats.restarts += 1;
					self.restarts.push((at, snapshot_step));
					if std::mem::take(&mut self.next_restart_loses_writes) {
						self.lossy_restarts.push(at);
						self.stats.labels.insert("restart-lost-written-but-incomplete-monitor-updates".to_string());
					}
					// "handled and persisted": the manager snapshot was written after the event was handled and the
					// monitor images used contain every update that was in flight when it was written (handling a
					// terminal event issues a monitor update of its own; with asynchronous persistence it can be lost)
					if let Some((h, hd, inflight)) = self.snap_handled.get(&snapshot_step) {
						let covered = inflight.iter().all(|(c, id)| monitor_ids.iter().any(|(mc, mid)| mc == c && mid >= id));
						self.handled = if covered { h.clone() } else { hd.clone() };
						if !covered {
							self.stats.labels.insert("restart-lost-inflight-monitor-update".to_string());
						}
					}
					self.handled_durable = self.handled.clone();
					if let Some(b) = self.snap_blind.get(&snapshot_step) {
						self.blind = b.clone();
					}
					self.blind.push((snapshot_step, at));
					self.await_first_batch = true;
					self.first_batch_after_restart = None;
					let mut stale = false;
					let blind = self.blind.clone();
					for m in self.meta.iter_mut() {
						if m.api_ok && blind.iter().any(|(a, b)| *a < m.send_step && m.send_step <= *b) {
							m.predated = true;
							stale = true;
						}
					}
					if stale {
						self.stats.stale_restarts += 1;
					}
				},
				SEvent::Mined { txids, .. } => {
					// a confirmed input whose witness carries the preimage of one of S's payments and that spends a
					// commitment transaction of one of S's channels = the peer claimed S's HTLC on chain
					for txid in txids {
						let Some((tx, _)) = sim.chain.confirmed.get(&txid) else { continue };
						for inp in tx.input.iter() {
							let Some(parent) = sim.chain.seen.get(&inp.previous_output.txid) else { continue };
							let spends_s_commitment = sim.chans.iter().any(|c| (c.a == S || c.b == S) && parent.input.iter().any(|pi| pi.previous_output.txid == c.funding_tx.compute_txid()));
							if !spends_s_commitment {
								continue;
							}
							for el in inp.witness.iter() {
								if el.len() == 32 {
									if let Some(m) = self.meta.iter_mut().find(|m| m.preimage.0[..] == *el) {
										if m.onchain_claim_step.is_none() {
											m.onchain_claim_step = Some(at);
											self.stats.onchain_claims += 1;
										}
									}
								}
							}
						}
					}
				},
				SEvent::Ldk { node, ev } => {
					if node != S {
						if let Event::ChannelClosed { .. } = &ev {
							self.any_chan_closed = true;
						}
						if let Event::PaymentClaimed { payment_hash, .. } = &ev {
							if let Some(m) = self.meta.iter_mut().find(|m| m.hash == *payment_hash && m.to == node) {
								m.claimed_event = true;
							}
						}
						continue;
					}
					self.on_sender_event(sim, at, &ev)?;
				},
				_ => {},
			}
		}
		if sim.w.pending_updates(S).is_empty() {
			self.handled_durable = self.handled.clone();
		}
		// (e) a payment the restarted node no longer lists has no HTLC in flight, now or later
		let absent: Vec<usize> = (0..self.meta.len()).filter(|i| self.meta[*i].absent_since.is_some()).collect();
		if !absent.is_empty() {
			let (ids, hashes) = sim.c03_inflight();
			for i in absent {
				let m = &self.meta[i];
				// (a payment whose PaymentSent the user already handled is rightly forgotten while the peer's on-chain
				// preimage claim of its HTLC is not yet buried; the statement is about payments of unknown outcome)
				if !m.sent_obs.is_empty() {
					continue;
				}
				if ids.contains(&m.id.0) || hashes.contains(&m.hash) {
					return Err(fail(
						"unlisted-payment-in-flight",
						format!("pay#{} ({:?}) is absent from list_recent_payments since the restart at step {:?} but S still has an HTLC of it in flight (by id: {}, by hash: {})", i, m.kind, m.absent_since, ids.contains(&m.id.0), hashes.contains(&m.hash)),
					));
				}
			}
		}
		Ok(())
	}

	fn on_sender_event(&mut self, sim: &Sim, at: u64, ev: &Event) -> CaseResult {
		match ev {
			Event::PaymentSent { payment_id, payment_preimage, payment_hash, amount_msat, fee_paid_msat, .. } => {
				self.stats.sent += 1;
				// (a) the preimage is the preimage of the hash
				let h = sha256::Hash::hash(&payment_preimage.0).to_byte_array();
				if h != payment_hash.0 {
					return Err(fail("payment-sent-untruthful", format!("PaymentSent carries a preimage that does not hash to its payment hash {}", payment_hash)).with_key("payment-sent-untruthful/preimage-mismatch"));
				}
				let Some(i) = payment_id.and_then(|id| self.meta.iter().position(|m| m.id == id)) else {
					return Err(fail("event-for-unknown-payment", format!("PaymentSent for an id the harness never used: {:?}", payment_id)));
				};
				let last_snap = self.last_restart_snapshot();
				let m = &mut self.meta[i];
				if m.hash != *payment_hash {
					return Err(fail("payment-sent-untruthful", format!("PaymentSent for pay#{} names hash {} but the payment was sent for {}", i, payment_hash, m.hash)).with_key("payment-sent-untruthful/hash-mismatch"));
				}
				// (a) the recipient released the preimage earlier (claim_funds was called at the recipient)
				if m.claim_step.map(|c| c > at).unwrap_or(true) {
					return Err(fail("payment-sent-untruthful", format!("PaymentSent for pay#{} ({:?}) at step {} although the recipient never released the preimage", i, m.kind, at)).with_key("payment-sent-untruthful/not-released"));
				}
				if !m.failed_obs.is_empty() {
					return Err(fail("contradictory-terminal-events", format!("PaymentSent for pay#{} at step {} after PaymentFailed at step {:?}", i, at, m.failed_obs)).with_key("contradictory-terminal-events/sent-after-failed"));
				}
				// (d) one terminal event unless the running manager comes from a snapshot that had not handled it
				// (what a reloaded manager regenerates from its monitors can come on top of a copy that was still
				// queued in the snapshot: both then arrive in the first batch after the restart, neither handled before)
				let first_batch_dup = self.first_batch_after_restart == Some(self.batch) && self.handled_batch.get(&(m.id.0, true)) == Some(&self.batch);
				if first_batch_dup {
					self.stats.labels.insert("terminal-event-twice-in-first-batch-after-restart".to_string());
				}
				if self.handled.contains(&(m.id.0, true)) && !first_batch_dup {
					let restarted = self.restarts.iter().any(|r| r.0 > *m.sent_obs.last().unwrap_or(&0));
					return Err(fail(
						"duplicate-terminal-event",
						format!("PaymentSent for pay#{} ({:?}) repeated at step {} (earlier at {:?}); the running manager (restart snapshot {:?}) had already handled it", i, m.kind, at, m.sent_obs, last_snap),
					)
					.with_key(if restarted { "duplicate-terminal-event/sent/after-handled-and-persisted" } else { "duplicate-terminal-event/sent/no-restart" }));
				}
				if !m.sent_obs.is_empty() {
					self.stats.repeats_after_restart += 1;
				}
				if m.absent_since.is_some() && m.sent_obs.is_empty() {
					return Err(fail("unlisted-payment-completed", format!("pay#{} was absent from list_recent_payments after the restart at step {:?} and nevertheless completed with PaymentSent at step {}", i, m.absent_since, at)));
				}
				if m.first_sent.is_none() {
					m.first_sent = Some((*amount_msat, *fee_paid_msat));
					// explicit routes deliver exactly the requested amount; the router may overpay to meet a channel's
					// htlc_minimum_msat, which the event then reports (the accounting check ties it to the HTLCs sent)
					let explicit = matches!(m.kind, Kind::Route | Kind::Underpay | Kind::Mpp);
					if !m.predated && !(if explicit { *amount_msat == Some(m.amt) } else { amount_msat.map(|a| a >= m.amt).unwrap_or(false) }) {
						return Err(fail("payment-sent-untruthful", format!("PaymentSent for pay#{} reports amount {:?}, the payment was for {}", i, amount_msat, m.amt)).with_key("payment-sent-untruthful/amount"));
					}
				}
				m.sent_obs.push(at);
				self.handled.insert((m.id.0, true));
				self.handled_batch.insert((m.id.0, true), self.batch);
			},
			Event::PaymentFailed { payment_id, payment_hash, reason } => {
				self.stats.failed += 1;
				let Some(i) = self.meta.iter().position(|m| m.id == *payment_id) else {
					return Err(fail("event-for-unknown-payment", format!("PaymentFailed for an id the harness never used: {:?}", payment_id)));
				};
				let last_snap = self.last_restart_snapshot();
				let m = self.meta[i].clone();
				if let Some(h) = payment_hash {
					if *h != m.hash {
						return Err(fail("payment-failed-untruthful", format!("PaymentFailed for pay#{} names hash {} but the payment was sent for {}", i, h, m.hash)).with_key("payment-failed-untruthful/hash-mismatch"));
					}
				}
				if let Some(sent) = m.sent_obs.first() {
					// documented limitation (listed finding): the manager snapshot used by the last restart predates PaymentSent
					let stale = self.is_blind(*sent);
					// the listed finding is the case in which the monitors S restarted from had already forgotten
					// the resolved HTLC; a monitor that still tracks it must still know its preimage. An HTLC too
					// small for a commitment output whose fulfil was never committed is forfeited when the stale
					// reload closes the channel on chain: the restarted lineage then reports the failure truthfully.
					let at_restart = sim.monitor_htlcs_at_restart.get(&S).cloned().unwrap_or_default();
					let tracked = at_restart.iter().any(|(h, _)| *h == m.hash.0);
					let tracked_without_preimage = at_restart.iter().any(|(h, pre)| *h == m.hash.0 && !*pre);
					if stale && tracked_without_preimage && m.amt < sim.dust_floor_msat() {
						self.stats.labels.insert("dust-htlc-forfeited-after-stale-restart".to_string());
						return Ok(());
					}
					// the fulfil the old lineage saw was never committed, so no monitor ever held the preimage; the
					// HTLC was then resolved on chain and the restarted lineage reports what the chain says
					let crash = self.restarts.last().map(|r| r.0).unwrap_or(u64::MAX);
					if stale && tracked_without_preimage && !sim.fulfil_committed_before(S, &m.hash.0, crash) {
						self.stats.labels.insert("uncommitted-fulfil-resolved-on-chain-after-stale-restart".to_string());
						return Ok(());
					}
					let released_before_crash = rec_hist_any(|s, e| s < crash && matches!(e, crate::rec::HEvent::PersistUpdate { node, steps, .. } if *node == S && steps.iter().any(|k| k == "ReleasePaymentComplete")));
					let mpp_sibling_after_release = m.kind == Kind::Mpp && tracked_without_preimage && released_before_crash;
					return Err(fail(
						"contradictory-terminal-events",
						format!("PaymentFailed ({:?}) for pay#{} at step {} after PaymentSent at step {} (restarts of S (step, snapshot step): {:?}; the running manager descends from a snapshot older than the PaymentSent: {})", reason, i, at, sent, self.restarts, stale),
					)
					.with_key(if stale && !tracked {
						"contradictory-terminal-events/failed-after-sent/manager-snapshot-predates-sent"
					} else if stale && mpp_sibling_after_release {
						// listed finding: a multi-part payment whose claimed part was already reported (PaymentSent handled,
						// ReleasePaymentComplete written to the monitor) while a sibling part is still tracked without
						// preimage; a further restart from the old manager re-creates the payment from that sibling only
						"contradictory-terminal-events/failed-after-sent/mpp-sibling-tracked-after-release-payment-complete"
					} else if stale {
						"contradictory-terminal-events/failed-after-sent/monitor-still-tracked-the-htlc"
					} else {
						"contradictory-terminal-events/failed-after-sent"
					}));
				}
				let first_batch_dup = self.first_batch_after_restart == Some(self.batch) && self.handled_batch.get(&(m.id.0, false)) == Some(&self.batch);
				if first_batch_dup {
					self.stats.labels.insert("terminal-event-twice-in-first-batch-after-restart".to_string());
				}
				if self.handled.contains(&(m.id.0, false)) && !first_batch_dup {
					let restarted = self.restarts.iter().any(|r| r.0 > *m.failed_obs.last().unwrap_or(&0));
					return Err(fail(
						"duplicate-terminal-event",
						format!("PaymentFailed for pay#{} ({:?}) repeated at step {} (earlier at {:?}); the running manager (restart snapshot {:?}) had already handled it", i, m.kind, at, m.failed_obs, last_snap),
					)
					.with_key(if restarted { "duplicate-terminal-event/failed/after-handled-and-persisted" } else { "duplicate-terminal-event/failed/no-restart" }));
				}
				if !m.failed_obs.is_empty() {
					self.stats.repeats_after_restart += 1;
				}
				// truthful: no part was settled ...
				let mut settled: Option<String> = None;
				let mut fulfil_step = None;
				for (k, h) in self.parts_of(&m.hash) {
					if self.settled_irrevocably(sim, k.0, k.2) {
						settled = Some(format!("HTLC {} on its channel was removed by update_fulfill_htlc and S revoked the commitments carrying it", k.2));
						fulfil_step = h.fulfill_delivered;
					}
				}
				if settled.is_none() && m.onchain_claim_step.is_some() {
					settled = Some(format!("the peer claimed its HTLC on chain with the preimage (confirmed at step {:?})", m.onchain_claim_step));
					fulfil_step = m.onchain_claim_step;
				}
				if let Some(how) = settled {
					let stale = fulfil_step.map(|f| self.is_blind(f)).unwrap_or(false);
					return Err(fail(
						"payment-failed-untruthful",
						format!("PaymentFailed ({:?}) for pay#{} ({:?}) at step {} although a part was settled: {} (last restart used the manager snapshot of step {:?}, the fulfil reached S at step {:?})", reason, i, m.kind, at, how, last_snap, fulfil_step),
					)
					.with_key(if stale { "payment-failed-untruthful/settled/manager-snapshot-predates-fulfil" } else { "payment-failed-untruthful/settled" }));
				}
				// ... and none is pending
				let (ids, hashes) = sim.c03_inflight();
				if ids.contains(&m.id.0) || hashes.contains(&m.hash) {
					return Err(fail(
						"payment-failed-untruthful",
						format!("PaymentFailed ({:?}) for pay#{} ({:?}) at step {} while S still has an HTLC of it in flight (by id: {}, by hash: {}; restarts {:?}, payment sent at {})", reason, i, m.kind, at, ids.contains(&m.id.0), hashes.contains(&m.hash), self.restarts, m.send_step),
					)
					.with_key("payment-failed-untruthful/part-pending"));
				}
				let m = &mut self.meta[i];
				m.failed_obs.push(at);
				self.handled.insert((m.id.0, false));
				self.handled_batch.insert((m.id.0, false), self.batch);
			},
			Event::PaymentPathFailed { payment_hash, path, short_channel_id, failure, error_code, payment_failed_permanently, .. } => {
				self.stats.path_failed += 1;
				// (g) the named channel lies at or next to the node that generated the failure
				let first = path.hops[0].short_channel_id;
				if let PathFailure::InitialSend { .. } = failure {
					if let Some(x) = short_channel_id {
						if *x != first {
							return Err(fail("path-failure-misattributed", format!("initial send failure names channel {} but the path starts with {}", x, first)).with_key("path-failure-misattributed/initial-send"));
						}
					}
					return Ok(());
				}
				let total: u64 = path.hops.iter().map(|h| h.fee_msat).sum();
				let Some(first_chan) = sim.chans.iter().find(|c| c.scid == first) else { return Ok(()) };
				let mut origins: BTreeSet<usize> = BTreeSet::new();
				let mut malformed = false;
				let mut matched = 0;
				for (k, h) in self.htlcs.iter() {
					if k.1 == S && k.0 == first_chan.id && h.hash == *payment_hash && h.amt == total && h.fulfill_delivered.is_none() {
						matched += 1;
						malformed |= h.malformed;
						match (h.fail_delivered, h.fail_origin) {
							(true, Some(o)) => {
								origins.insert(o);
								if self.closed_s_chans.contains(&k.0) {
									origins.insert(S);
								}
							},
							_ => {
								origins.insert(S);
							},
						}
					}
				}
				if matched == 0 {
					// the HTLC never left S (failed out of the holding cell): S itself generated the failure
					self.label("path-failed-before-htlc-left");
					origins.insert(S);
				}
				let mut nodes = vec![S];
				for h in path.hops.iter() {
					nodes.push(sim.w.index_of(&h.pubkey).unwrap_or(usize::MAX));
				}
				let mut ok = false;
				for o in origins.iter() {
					let Some(k) = nodes.iter().position(|x| x == o) else { continue };
					let mut adj = vec![];
					if k >= 1 {
						adj.push(path.hops[k - 1].short_channel_id);
					}
					if k < path.hops.len() {
						adj.push(path.hops[k].short_channel_id);
					}
					match short_channel_id {
						Some(x) => ok |= adj.contains(x),
						// a failure of the recipient itself names no channel; neither does a BADONION report (the
						// library then only fills `network_update`)
						None => ok |= k == path.hops.len() || malformed || error_code.map(|c| c & 0x8000 != 0).unwrap_or(false),
					}
				}
				if !ok {
					return Err(fail(
						"path-failure-misattributed",
						format!("PaymentPathFailed at step {} names channel {:?} (onion error code {:?}, permanent {}, {:?}); path nodes {:?} over channels {:?}; the failure was generated by node(s) {:?}", at, short_channel_id, error_code, payment_failed_permanently, failure, nodes, path.hops.iter().map(|h| h.short_channel_id).collect::<Vec<_>>(), origins),
					));
				}
				self.stats.path_failed_attributed += 1;
			},
			Event::ChannelClosed { channel_id, .. } => {
				self.any_chan_closed = true;
				self.closed_s_chans.insert(*channel_id);
				self.stats.s_chan_closed = true;
			},
			_ => {},
		}
		Ok(())
	}

	/// End-of-case oracles. `quiet`: the world reached quiescence with all on-chain resolution complete.
	pub fn finish(&mut self, sim: &Sim, quiet: bool) -> CaseResult {
		let recent = sim.c03_recent();
		let (ids, hashes) = sim.c03_inflight();
		let mut total_fulfilled: u64 = 0;
		let mut all_resolved = true;
		for i in 0..self.meta.len() {
			let m = self.meta[i].clone();
			let parts: Vec<((ChannelId, usize, u64), Htlc)> = self.parts_of(&m.hash).into_iter().map(|(k, h)| (*k, h.clone())).collect();
			let fulfilled_offchain: u64 = parts.iter().filter(|(_, h)| h.fulfill_delivered.is_some()).map(|(_, h)| h.amt).sum();
			total_fulfilled += fulfilled_offchain;
			let any_settled = parts.iter().any(|(k, _)| self.settled_irrevocably(sim, k.0, k.2)) || m.onchain_claim_step.is_some();
			let in_flight = ids.contains(&m.id.0) || hashes.contains(&m.hash);
			let terminal = !m.sent_obs.is_empty() || !m.failed_obs.is_empty();
			if in_flight || (m.api_ok && !terminal) {
				all_resolved = false;
			}
			let path_closed = parts.iter().any(|(k, _)| self.closed_s_chans.contains(&k.0));
			if !m.sent_obs.is_empty() && !parts.is_empty() {
				let failed_part = parts.iter().any(|(_, h)| h.fulfill_delivered.is_none());
				if failed_part && parts.len() > 1 {
					self.stats.mixed_mpp += 1;
				}
			}
			if !quiet {
				continue;
			}
			// (b) a settled part => PaymentSent by now
			if any_settled && m.sent_obs.is_empty() {
				let fulfil_step = parts.iter().filter_map(|(_, h)| h.fulfill_delivered).min().or(m.onchain_claim_step);
				let stale = fulfil_step.map(|f| self.is_blind(f)).unwrap_or(false);
				return Err(fail(
					"settled-but-never-sent",
					format!("a part of pay#{} ({:?}) was settled (fulfil reached S at step {:?}, on-chain claim {:?}) but S never reported PaymentSent (PaymentFailed at {:?}, listed: {:?}, last restart snapshot {:?})", i, m.kind, fulfil_step, m.onchain_claim_step, m.failed_obs, recent.get(&m.id.0), self.last_restart_snapshot()),
				)
				.with_key(if stale { "settled-but-never-sent/manager-snapshot-predates-fulfil" } else { "settled-but-never-sent" }));
			}
			// (b) the recipient's claim went through and nothing on the way was closed => PaymentSent
			// (with a channel closed somewhere on the way a forwarder can end up unable to claim upstream -- e.g. a
			// dust HTLC on the closed channel -- and then takes the loss itself; that is C02's subject)
			if m.claimed_event && m.sent_obs.is_empty() && !self.any_chan_closed && self.co_dead.is_none() {
				return Err(fail("claimed-but-never-sent", format!("pay#{} ({:?}) was claimed by the recipient (PaymentClaimed) and no channel was closed, but S never reported PaymentSent (failed at {:?}, listed {:?})", i, m.kind, m.failed_obs, recent.get(&m.id.0))));
			}
			// (c) nothing settled, nothing pending => PaymentFailed, exactly
			if m.api_ok && !terminal && !in_flight {
				if m.predated && !recent.contains_key(&m.id.0) {
					// the restarted manager never knew the payment and no monitor carried an HTLC of it: it is lost,
					// cannot complete (checked by (e)) and may be retried
					self.stats.lost_payments += 1;
				} else {
					return Err(fail(
						"no-terminal-event",
						format!("pay#{} ({:?}, api {}) has no HTLC in flight and none settled, yet S reported neither PaymentSent nor PaymentFailed at quiescence (listed: {:?}, abandoned by user: {}, restarts {:?}, sent at step {})", i, m.kind, m.api, recent.get(&m.id.0), m.abandoned, self.restarts, m.send_step),
					)
					// exact signature of a suspected defect: a crash lost monitor updates that were still in flight after
					// the payment was sent (e.g. S had already broadcast the commitment transaction they describe)
					.with_key(if self.broadcast_before_durable(sim, &parts) {
						"no-terminal-event/pending/restart-lost-inflight-monitor-updates".to_string()
					} else if self.failure_parked_at_close(sim, &parts) {
						"no-terminal-event/failure-parked-behind-inflight-monitor-update-lost-on-close".to_string()
					} else {
						format!("no-terminal-event/{}", recent.get(&m.id.0).unwrap_or(&"unlisted"))
					}));
				}
			}
			if !m.api_ok && terminal && !m.api.contains("Ok(") {
				return Err(fail("event-for-refused-payment", format!("pay#{} was refused by the send API ({}) but produced a terminal event", i, m.api)));
			}
			// (a) accounting: amount + fee reported = what the fulfilled HTLCs of the payment carried
			if let (Some((Some(a), Some(f))), false) = (m.first_sent, m.predated) {
				let reported = a + f;
				// with a channel closed anywhere a part can be lost after the recipient claimed (a dust HTLC on the
				// closed channel): the forwarder fails it back and the event, documented to overstate in that case,
				// still reports the whole payment
				let onchain_possible = path_closed || m.onchain_claim_step.is_some() || self.any_chan_closed;
				if !onchain_possible {
					if reported != fulfilled_offchain {
						return Err(fail(
							"payment-sent-untruthful",
							format!("pay#{} ({:?}): PaymentSent reported amount {} + fee {} = {} msat but the HTLCs of the payment that were fulfilled carried {} msat ({} parts)", i, m.kind, a, f, reported, fulfilled_offchain, parts.len()),
						)
						.with_key("payment-sent-untruthful/amount-plus-fee"));
					}
					self.stats.accounting_exact += 1;
				} else if reported < fulfilled_offchain {
					return Err(fail("payment-sent-untruthful", format!("pay#{}: PaymentSent reported {} msat in total, less than the {} msat of its HTLCs fulfilled off chain", i, reported, fulfilled_offchain)).with_key("payment-sent-untruthful/understated"));
				} else if reported > fulfilled_offchain {
					self.stats.accounting_overstated += 1;
				}
			}
		}
		// S's balances fell by exactly what its fulfilled HTLCs carried (channels all alive, nothing in flight)
		if quiet && all_resolved && !self.stats.s_chan_closed && ids.is_empty() && hashes.is_empty() {
			if let (Some(before), Some(after)) = (self.start_cap, sim.c03_s_capacity()) {
				let pending: usize = sim.w.nodes[S].node.list_channels().iter().map(|d| d.pending_outbound_htlcs.len() + d.pending_inbound_htlcs.len()).sum();
				if pending == 0 {
					if before < after || before - after != total_fulfilled {
						return Err(fail(
							"balance-mismatch",
							format!("S's outbound capacity went from {} to {} msat (decrease {}), but its fulfilled HTLCs carried {} msat in total; every PaymentSent reported amount+fee equal to its fulfilled HTLCs", before, after, before as i128 - after as i128, total_fulfilled),
						));
					}
					self.stats.balance_checked = true;
				}
			}
		}
		Ok(())
	}

	/// Drive the world to full resolution: settle, resolve what is claimable by the generated choices
	/// (0 claim, 1 fail back, 2 ignore until it times out), mine until nothing is left on chain or in flight
	/// (bounded). Returns true if quiescent with chain resolution complete.
	pub fn end_game(&mut self, sim: &mut Sim, choices: &[u8], max_blocks: u32) -> Result<bool, Failure> {
		let mut quiet = sim.c03_settle(40);
		self.step(sim)?;
		for _ in 0..3 {
			let cands: Vec<usize> = sim.pays.iter().filter(|p| p.state == PayState::Claimable).map(|p| p.idx).collect();
			let mut acted = false;
			for p in cands {
				match choices[p % choices.len()] {
					0..=2 => {
						sim.claim(p);
						acted = true;
					},
					3..=4 => {
						sim.fail_back(p);
						acted = true;
					},
					_ => {},
				}
			}
			if !acted {
				break;
			}
			quiet = sim.c03_settle(40);
			self.step(sim)?;
		}
		let mut mined = 0;
		let mut idle = 0;
		while mined < max_blocks {
			for i in 0..sim.w.n {
				sim.w.nodes[i].chain_monitor.chain_monitor.rebroadcast_pending_claims();
				sim.drain(i);
			}
			// orphans (their parent lost against a competing transaction) and double spends can never be mined
			let h = sim.chain.height() + 1;
			let keep: Vec<bool> = sim.chain.mempool.iter().map(|tx| !matches!(sim.chain.check_tx(tx, h, &std::collections::HashMap::new(), true), Err(crate::chain::Reject::MissingInput(_)) | Err(crate::chain::Reject::AlreadySpent(_, _)))).collect();
			let mut it = keep.iter();
			sim.chain.mempool.retain(|_| *it.next().unwrap());
			let (ids, hashes) = sim.c03_inflight();
			if !sim.c03_chain_unresolved() && ids.is_empty() && hashes.is_empty() {
				break;
			}
			let txs = sim.chain.mempool.clone();
			if !txs.is_empty() {
				sim.mine_block(txs);
				mined += 1;
			} else {
				// nothing to confirm: jump ahead to let timelocks mature
				let burst = [6, 6, 12, 24][idle.min(3)].min(max_blocks - mined);
				sim.c03_fast_forward(burst);
				mined += burst;
				idle += 1;
			}
			quiet = sim.c03_settle(20);
			self.step(sim)?;
		}
		// bury whatever was resolved last (events of on-chain resolutions wait for ANTI_REORG_DELAY confirmations)
		sim.c03_fast_forward(7);
		for i in 0..sim.w.n {
			sim.timer_tick(i);
		}
		let _ = quiet;
		quiet = sim.c03_settle(30);
		self.step(sim)?;
		let (ids, hashes) = sim.c03_inflight();
		if !quiet {
			self.label("end:settle-not-quiescent");
		}
		if !sim.chain.mempool.is_empty() {
			self.label("end:mempool-not-empty");
		}
		if !ids.is_empty() || !hashes.is_empty() {
			self.label("end:sender-htlc-in-flight");
		}
		for (i, nd) in sim.w.nodes.iter().enumerate() {
			for b in nd.chain_monitor.chain_monitor.get_claimable_balances(&[]) {
				if !matches!(b, Balance::ClaimableOnChannelClose { .. }) {
					let kind = format!("{:?}", b);
					let l = format!("end:balance-open:{}:{}", if i == S { "S" } else { "other" }, kind.split(|c: char| !c.is_alphanumeric()).next().unwrap_or(""));
					self.label(&l);
				}
			}
		}
		self.label(&format!("end:blocks-mined:{}", if mined == 0 { "0" } else if mined < 50 { "<50" } else if mined < 200 { "<200" } else if mined < max_blocks { "<max" } else { "max" }));
		Ok(quiet && !sim.c03_chain_unresolved())
	}
}
