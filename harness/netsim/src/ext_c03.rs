//! Property-specific engine extensions for C03 (owned by the C03 check).
