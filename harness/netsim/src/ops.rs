//! Generated operations, world specifications and their interpreter.

use crate::model::ChanType;
use crate::sim::*;
use crate::world::*;
use lightning::ln::functional_test_utils::ConnectStyle;
use lightning::util::config::{MaxDustHTLCExposure, UserConfig};
use proptest::prelude::*;
use serde::{Deserialize, Serialize};
use vcore::pick;

#[derive(Clone, Copy, Debug, Serialize, Deserialize, PartialEq, Eq)]
pub enum CType {
	Static,
	Anchors,
	ZeroFee,
}

impl CType {
	pub fn model(&self) -> ChanType {
		match self {
			CType::Static => ChanType::StaticRemoteKey,
			CType::Anchors => ChanType::AnchorsZeroFeeHtlc,
			CType::ZeroFee => ChanType::ZeroFeeCommitments,
		}
	}
}

#[derive(Clone, Copy, Debug, Serialize, Deserialize, PartialEq, Eq)]
pub enum Topology {
	/// 0 - 1
	Pair,
	/// 0 - 1 - 2
	Line3,
	/// 0 - 1 - 2 - 3
	Line4,
	/// 0 - 1 - 3 and 0 - 2 - 3
	Diamond,
	/// 0 - 1 = 2 (two parallel channels between 1 and 2)
	Line3Parallel,
}

impl Topology {
	pub fn nodes(&self) -> usize {
		match self {
			Topology::Pair => 2,
			Topology::Line3 | Topology::Line3Parallel => 3,
			Topology::Line4 | Topology::Diamond => 4,
		}
	}
	/// (funder, acceptor) per channel, in channel-index order
	pub fn channels(&self) -> Vec<(usize, usize)> {
		match self {
			Topology::Pair => vec![(0, 1)],
			Topology::Line3 => vec![(0, 1), (1, 2)],
			Topology::Line4 => vec![(0, 1), (1, 2), (2, 3)],
			Topology::Diamond => vec![(0, 1), (1, 3), (0, 2), (2, 3)],
			Topology::Line3Parallel => vec![(0, 1), (1, 2), (1, 2)],
		}
	}
	/// candidate payment routes: (sender, channel indices)
	pub fn routes(&self) -> Vec<(usize, Vec<usize>)> {
		match self {
			Topology::Pair => vec![(0, vec![0]), (1, vec![0])],
			Topology::Line3 => vec![(0, vec![0, 1]), (2, vec![1, 0]), (0, vec![0]), (1, vec![1]), (1, vec![0]), (2, vec![1])],
			Topology::Line4 => vec![(0, vec![0, 1, 2]), (3, vec![2, 1, 0]), (0, vec![0, 1]), (1, vec![1, 2]), (0, vec![0]), (3, vec![2])],
			Topology::Diamond => vec![(0, vec![0, 1]), (0, vec![2, 3]), (3, vec![1, 0]), (3, vec![3, 2]), (0, vec![0]), (0, vec![2])],
			Topology::Line3Parallel => vec![(0, vec![0, 1]), (0, vec![0, 2]), (2, vec![1, 0]), (2, vec![2, 0]), (1, vec![1]), (1, vec![2])],
		}
	}
}

#[derive(Clone, Debug, Serialize, Deserialize)]
pub struct WorldSpec {
	pub topo: Topology,
	pub ctype: CType,
	/// channel value in sat, per channel (index modulo length)
	pub value_sat: Vec<u64>,
	/// pushed to the acceptor, as a fraction (per mille) of the channel value
	pub push_permille: Vec<u16>,
	pub reserve_ppm: u32,
	pub htlc_min_msat: u64,
	pub inflight_pct: u8,
	pub max_accepted: u16,
	/// None = fee-rate multiplier default; Some(x) = fixed limit in msat
	pub dust_exposure_fixed_msat: Option<u64>,
	pub dust_exposure_multiplier: u64,
	pub fee_base_msat: u32,
	pub fee_ppm: u32,
	pub cltv_delta: u16,
	pub feerate: u32,
	pub deferred: bool,
	pub connect_style: u8,
	/// per-node block delivery styles (empty = all use `connect_style`)
	#[serde(default)]
	pub node_styles: Vec<u8>,
	/// per-node `our_to_self_delay` (the CSV a node imposes on its peer's own outputs), index modulo length;
	/// empty = the library default for every node. Unequal values make the two sides of a channel carry
	/// different contest delays.
	#[serde(default)]
	pub node_delays: Vec<u16>,
	/// per-node deviations from the shared handshake limits (index modulo length; empty = every node uses the
	/// spec's values), so that the two sides of a channel impose different reserves, minimums and HTLC limits
	#[serde(default)]
	pub node_tweaks: Vec<NodeTweak>,
	/// forwarding policy (fee base msat, fee ppm, cltv_expiry_delta) per channel end, index (2 * channel + side,
	/// side 0 = opener) modulo length; empty = every channel end carries the spec's policy. Set when the channel
	/// is created, so a node's channels advertise different policies.
	#[serde(default)]
	pub chan_policies: Vec<(u32, u32, u16)>,
	/// per node (index modulo length; empty = library default for all): the node does not commit to a shutdown
	/// script when a channel is opened (`commit_upfront_shutdown_pubkey = false`), so the script is only fixed,
	/// through a monitor update, when the channel is shut down
	#[serde(default)]
	pub late_shutdown_script: Vec<bool>,
}

/// selectors, 0 = the spec's value
#[derive(Clone, Debug, Default, Serialize, Deserialize)]
pub struct NodeTweak {
	/// 1 half, 2 double (at most 10 %), 3 one per cent
	pub reserve: u8,
	/// 1 one msat, 2 one more, 3 double
	pub htlc_min: u8,
	/// 1 one fewer, 2 five more, 3 the protocol maximum
	pub max_accepted: u8,
	/// 1 half, 2 everything
	pub inflight: u8,
}

pub fn connect_style_of(i: u8) -> ConnectStyle {
	match i % 11 {
		0 => ConnectStyle::BestBlockFirst,
		1 => ConnectStyle::BestBlockFirstSkippingBlocks,
		2 => ConnectStyle::BestBlockFirstReorgsOnlyTip,
		3 => ConnectStyle::TransactionsFirst,
		4 => ConnectStyle::TransactionsFirstSkippingBlocks,
		5 => ConnectStyle::TransactionsDuplicativelyFirstSkippingBlocks,
		6 => ConnectStyle::HighlyRedundantTransactionsFirstSkippingBlocks,
		7 => ConnectStyle::TransactionsFirstReorgsOnlyTip,
		8 => ConnectStyle::FullBlockViaListen,
		9 => ConnectStyle::ReplayedFullBlockViaListen,
		_ => ConnectStyle::FullBlockDisconnectionsSkippingViaListen,
	}
}

impl WorldSpec {
	pub fn user_config(&self) -> UserConfig {
		let mut c = default_config();
		c.channel_handshake_config.negotiate_anchors_zero_fee_htlc_tx = self.ctype != CType::Static;
		c.channel_handshake_config.negotiate_anchor_zero_fee_commitments = self.ctype == CType::ZeroFee;
		c.channel_handshake_config.their_channel_reserve_proportional_millionths = self.reserve_ppm;
		c.channel_handshake_config.our_htlc_minimum_msat = self.htlc_min_msat;
		c.channel_handshake_config.announced_channel_max_inbound_htlc_value_in_flight_percentage = self.inflight_pct;
		c.channel_handshake_config.unannounced_channel_max_inbound_htlc_value_in_flight_percentage = self.inflight_pct;
		c.channel_handshake_config.our_max_accepted_htlcs = self.max_accepted;
		c.channel_config.max_dust_htlc_exposure = match self.dust_exposure_fixed_msat {
			Some(x) => MaxDustHTLCExposure::FixedLimitMsat(x),
			None => MaxDustHTLCExposure::FeeRateMultiplier(self.dust_exposure_multiplier),
		};
		c.channel_config.forwarding_fee_base_msat = self.fee_base_msat;
		c.channel_config.forwarding_fee_proportional_millionths = self.fee_ppm;
		c.channel_config.cltv_expiry_delta = self.cltv_delta;
		c
	}

	/// one configuration per node: `user_config` with the per-node settings applied
	pub fn node_configs(&self, n: usize) -> Vec<UserConfig> {
		let cfg = self.user_config();
		(0..n)
			.map(|i| {
				let mut c = cfg.clone();
				if !self.node_delays.is_empty() {
					c.channel_handshake_config.our_to_self_delay = self.node_delays[i % self.node_delays.len()];
				}
				if !self.late_shutdown_script.is_empty() && self.late_shutdown_script[i % self.late_shutdown_script.len()] {
					c.channel_handshake_config.commit_upfront_shutdown_pubkey = false;
				}
				if !self.node_tweaks.is_empty() {
					let t = &self.node_tweaks[i % self.node_tweaks.len()];
					let h = &mut c.channel_handshake_config;
					h.their_channel_reserve_proportional_millionths = match t.reserve {
						1 => self.reserve_ppm / 2,
						2 => (self.reserve_ppm * 2).min(100_000),
						3 => 10_000,
						_ => self.reserve_ppm,
					};
					h.our_htlc_minimum_msat = match t.htlc_min {
						1 => 1,
						2 => self.htlc_min_msat + 1,
						3 => self.htlc_min_msat * 2,
						_ => self.htlc_min_msat,
					};
					h.our_max_accepted_htlcs = match t.max_accepted {
						1 => self.max_accepted.saturating_sub(1).max(1),
						2 => (self.max_accepted + 5).min(483),
						3 => 483,
						_ => self.max_accepted,
					};
					let pct = match t.inflight {
						1 => (self.inflight_pct / 2).max(1),
						2 => 100,
						_ => self.inflight_pct,
					};
					h.announced_channel_max_inbound_htlc_value_in_flight_percentage = pct;
					h.unannounced_channel_max_inbound_htlc_value_in_flight_percentage = pct;
				}
				c
			})
			.collect()
	}

	/// Build the world and open the topology's channels.
	pub fn build(&self, keep_images: bool) -> Sim {
		let n = self.topo.nodes();
		let w = World::new(WorldCfg {
			n,
			configs: self.node_configs(n),
			keep_images,
			deferred_monitor: self.deferred,
			connect_style: connect_style_of(self.connect_style),
			node_styles: self.node_styles.iter().map(|s| connect_style_of(*s)).collect(),
			disable_revocation_policy: vec![],
		});
		for nd in w.nodes.iter() {
			*nd.fee_estimator.sat_per_kw.lock().unwrap() = self.feerate;
			// what a node tolerates from its peer stays at the floor, so honest fee updates are always acceptable
			let mut ov = nd.fee_estimator.target_override.lock().unwrap();
			ov.insert(lightning::chain::chaininterface::ConfirmationTarget::MinAllowedAnchorChannelRemoteFee, 253);
			ov.insert(lightning::chain::chaininterface::ConfirmationTarget::MinAllowedNonAnchorChannelRemoteFee, 253);
			ov.insert(lightning::chain::chaininterface::ConfirmationTarget::ChannelCloseMinimum, 253);
		}
		let mut sim = Sim::new(w);
		if self.ctype != CType::Static {
			// anchor channels need on-chain reserves at every node
			sim.fund_wallets(2);
		}
		for (i, (a, b)) in self.topo.channels().iter().enumerate() {
			let v = self.value_sat[i % self.value_sat.len()];
			// msat pushed to the acceptor; the funder keeps enough for reserve + fees + anchors at the opening feerate
			let want = v * self.push_permille[i % self.push_permille.len()] as u64;
			let keep_sat = (v / 5).max(10_000);
			let push = want.min((v - keep_sat) * 1000);
			if self.chan_policies.is_empty() {
				sim.open_channel(*a, *b, v, push);
			} else {
				let k = self.chan_policies.len();
				sim.open_channel_with(*a, *b, v, push, Some(self.chan_policies[(2 * i) % k]), Some(self.chan_policies[(2 * i + 1) % k]));
			}
		}
		sim
	}
}

pub fn world_spec(topos: Vec<Topology>) -> impl Strategy<Value = WorldSpec> + Clone {
	(
		(
			proptest::sample::select(topos),
			prop_oneof![Just(CType::Static), Just(CType::Anchors), Just(CType::ZeroFee)],
			proptest::collection::vec(prop_oneof![Just(100_000u64), 30_000u64..2_000_000, 1_000_000u64..16_000_000], 1..4),
			proptest::collection::vec(prop_oneof![Just(0u16), Just(500u16), 0u16..900], 1..4),
			prop_oneof![Just(10_000u32), Just(0u32), 1_000u32..100_000],
			prop_oneof![Just(1u64), Just(1000u64), 1u64..400_000],
			prop_oneof![Just(100u8), 1u8..=100],
			prop_oneof![Just(50u16), 1u16..=60, Just(483u16)],
		),
		(
			prop_oneof![Just(None), (0u64..60_000_000).prop_map(Some)],
			prop_oneof![Just(10_000u64), 1u64..200_000],
			prop_oneof![Just(1000u32), 0u32..5_000],
			prop_oneof![Just(0u32), 0u32..20_000],
			prop_oneof![Just(72u16), 72u16..200],
			prop_oneof![Just(253u32), 253u32..2_500],
			proptest::bool::weighted(0.15),
			0u8..11,
			prop_oneof![2 => Just(vec![]), 3 => proptest::collection::vec(prop_oneof![Just(144u16), Just(145u16), 146u16..=210], 2..=4)],
			prop_oneof![
				1 => Just(vec![]),
				1 => proptest::collection::vec((0u8..4, 0u8..4, 0u8..4, 0u8..3).prop_map(|(reserve, htlc_min, max_accepted, inflight)| NodeTweak { reserve, htlc_min, max_accepted, inflight }), 2..=4)
			],
			prop_oneof![
				1 => Just(vec![]),
				1 => proptest::collection::vec((prop_oneof![Just(0u32), Just(1000u32), 0u32..5_000], prop_oneof![Just(0u32), 0u32..20_000], prop_oneof![Just(72u16), 72u16..200]), 3..=8)
			],
			prop_oneof![2 => Just(vec![]), 1 => proptest::collection::vec(any::<bool>(), 2..=4)],
		),
	)
		.prop_map(|((topo, ctype, value_sat, push_permille, reserve_ppm, htlc_min_msat, inflight_pct, max_accepted), (dfix, dmul, fb, fp, cltv, feerate, deferred, cs, node_delays, node_tweaks, chan_policies, late_shutdown_script))| WorldSpec {
			topo,
			ctype,
			value_sat,
			push_permille,
			reserve_ppm,
			htlc_min_msat,
			inflight_pct,
			max_accepted,
			dust_exposure_fixed_msat: dfix,
			dust_exposure_multiplier: dmul,
			fee_base_msat: fb,
			fee_ppm: fp,
			cltv_delta: cltv,
			feerate,
			deferred,
			connect_style: cs,
			node_styles: vec![],
			node_delays,
			node_tweaks,
			chan_policies,
			late_shutdown_script,
		})
}

#[derive(Clone, Debug, Serialize, Deserialize)]
pub enum Amt {
	/// fraction (per 65536) of the sender's current next_outbound_htlc_limit on the first hop
	Frac(u16),
	/// absolute msat (clamped into [min, limit])
	Abs(u64),
	/// at the dust threshold of a commitment (+ delta msat); `offered_side`: threshold for the HTLC being
	/// offered (timeout path) or received (success path)
	DustEdge { received: bool, delta: i16 },
	/// at the reported minimum + delta msat (delta >= 0)
	MinPlus(u8),
	/// at the reported limit - delta msat
	LimitMinus(u8),
}

#[derive(Clone, Debug, Serialize, Deserialize)]
pub enum Op {
	Send { route: u16, amt: Amt },
	/// like `Send`, the recipient behind a blinded path (introduction node = the first forwarder, or the recipient itself on a direct payment)
	SendBlinded { route: u16, amt: Amt },
	Claim { pay: u16 },
	FailBack { pay: u16 },
	/// deliver k messages on the link-th non-empty directed link
	Deliver { link: u16, k: u8 },
	/// deliver everything queued (bounded), processing nothing else
	Flush,
	Events { node: u16 },
	Forwards { node: u16 },
	/// only the first half of `process_pending_htlc_forwards`: the onions of newly committed inbound HTLCs are decoded
	/// and the HTLCs queued for forwarding (a manager written right afterwards by another thread contains that queue)
	DecodeAdds { node: u16 },
	Disconnect { pair: u16 },
	Reconnect { pair: u16 },
	/// one payment from node 0 in two parts over the same path: two HTLCs with one payment hash on every channel of it
	SendTwoParts { route: u16, amt: Amt, split: u16 },
	SetFee { node: u16, rate: u32 },
	/// like `SetFee` without the clamp to the library's buffers (any jump up or down)
	SetFeeJump { node: u16, rate: u32 },
	Timer { node: u16 },
	Async { node: u16, chan: u16, on: bool },
	Complete { node: u16, which: u16 },
	CompleteAll { node: u16 },
	FlushDeferred { node: u16 },
	/// deliver + forward + process events to quiescence, keeping disconnections / async state as is
	Pump,
	/// user-requested force close of the chan-th channel by one of its ends
	ForceClose { chan: u16, by_funder: bool },
	/// corrupt one byte of the secret of the first revoke_and_ack queued on the link-th non-empty link
	TamperRevoke { link: u16, byte: u8, xor: u8 },
	/// mine `blocks` blocks; the first contains mempool transactions chosen by `include`:
	/// 0 none, 1 all (arrival order; first of conflicting ones wins), 2 all in reverse order (last wins),
	/// 3 only the `pick`-th one
	Mine { blocks: u8, include: u8, pick: u16 },
	/// disconnect `depth` blocks and mine `depth + extra` new ones; `remine`: put the disconnected
	/// transactions back into the first new block
	Reorg { depth: u8, extra: u8, remine: bool },
	/// change how blocks are delivered to one node from now on
	SetStyle { node: u16, style: u8 },
	/// serialize the node's ChannelManager as a restart candidate
	Snapshot { node: u16 },
	/// restart a node from the snap-th newest manager snapshot (0 = newest) and, per channel, the durable or
	/// (if `landed`) the latest written monitor image
	Restart { node: u16, snap: u16, landed: bool },
}

#[derive(Clone, Debug)]
pub struct OpWeights {
	pub send: u32,
	pub claim: u32,
	pub fail: u32,
	pub deliver: u32,
	pub flush: u32,
	pub events: u32,
	pub forwards: u32,
	pub disconnect: u32,
	pub reconnect: u32,
	pub setfee: u32,
	pub timer: u32,
	pub async_toggle: u32,
	pub complete: u32,
	pub pump: u32,
	pub force_close: u32,
	pub tamper_revoke: u32,
	pub mine: u32,
	pub reorg: u32,
	pub set_style: u32,
	pub snapshot: u32,
	pub restart: u32,
	/// payments to a recipient behind a blinded path it built itself (0 in most profiles)
	pub send_blinded: u32,
	pub setfee_jump: u32,
	pub decode_adds: u32,
	pub send_two_parts: u32,
}

impl OpWeights {
	pub fn zero() -> OpWeights {
		OpWeights { send: 0, claim: 0, fail: 0, deliver: 0, flush: 0, events: 0, forwards: 0, disconnect: 0, reconnect: 0, setfee: 0, timer: 0, async_toggle: 0, complete: 0, pump: 0, force_close: 0, tamper_revoke: 0, mine: 0, reorg: 0, set_style: 0, snapshot: 0, restart: 0, send_blinded: 0, setfee_jump: 0, decode_adds: 0, send_two_parts: 0 }
	}
}

pub fn amt_strategy() -> impl Strategy<Value = Amt> + Clone {
	prop_oneof![
		4 => any::<u16>().prop_map(Amt::Frac),
		2 => prop_oneof![1u64..5_000, 1_000u64..3_000_000, 1_000_000u64..2_000_000_000].prop_map(Amt::Abs),
		3 => (any::<bool>(), prop_oneof![Just(0i16), Just(-1), Just(1), Just(-1000), Just(999), Just(1000), -1500i16..1500]).prop_map(|(received, delta)| Amt::DustEdge { received, delta }),
		1 => (0u8..3).prop_map(Amt::MinPlus),
		2 => (0u8..3).prop_map(Amt::LimitMinus),
	]
}

pub fn op_strategy(w: OpWeights) -> impl Strategy<Value = Op> + Clone {
	let mut v: Vec<(u32, BoxedStrategy<Op>)> = vec![
		(w.send, (any::<u16>(), amt_strategy()).prop_map(|(route, amt)| Op::Send { route, amt }).boxed()),
		(w.send_blinded, (any::<u16>(), amt_strategy()).prop_map(|(route, amt)| Op::SendBlinded { route, amt }).boxed()),
		(w.send_two_parts, (any::<u16>(), amt_strategy(), any::<u16>()).prop_map(|(route, amt, split)| Op::SendTwoParts { route, amt, split }).boxed()),
		(w.claim, any::<u16>().prop_map(|pay| Op::Claim { pay }).boxed()),
		(w.fail, any::<u16>().prop_map(|pay| Op::FailBack { pay }).boxed()),
		(w.deliver, (any::<u16>(), 1u8..6).prop_map(|(link, k)| Op::Deliver { link, k }).boxed()),
		(w.flush, Just(Op::Flush).boxed()),
		(w.events, any::<u16>().prop_map(|node| Op::Events { node }).boxed()),
		(w.forwards, any::<u16>().prop_map(|node| Op::Forwards { node }).boxed()),
		(w.decode_adds, any::<u16>().prop_map(|node| Op::DecodeAdds { node }).boxed()),
		(w.disconnect, any::<u16>().prop_map(|pair| Op::Disconnect { pair }).boxed()),
		(w.reconnect, any::<u16>().prop_map(|pair| Op::Reconnect { pair }).boxed()),
		(w.setfee, (any::<u16>(), prop_oneof![253u32..2_000, 253u32..20_000]).prop_map(|(node, rate)| Op::SetFee { node, rate }).boxed()),
		(w.setfee_jump, (any::<u16>(), prop_oneof![253u32..1_000, 253u32..8_000, 1_000u32..40_000]).prop_map(|(node, rate)| Op::SetFeeJump { node, rate }).boxed()),
		(w.timer, any::<u16>().prop_map(|node| Op::Timer { node }).boxed()),
		(w.async_toggle, (any::<u16>(), any::<u16>(), proptest::bool::weighted(0.7)).prop_map(|(node, chan, on)| Op::Async { node, chan, on }).boxed()),
		(
			w.complete,
			prop_oneof![
				(any::<u16>(), any::<u16>()).prop_map(|(node, which)| Op::Complete { node, which }),
				any::<u16>().prop_map(|node| Op::CompleteAll { node }),
				any::<u16>().prop_map(|node| Op::FlushDeferred { node }),
			]
			.boxed(),
		),
		(w.pump, Just(Op::Pump).boxed()),
		(w.force_close, (any::<u16>(), any::<bool>()).prop_map(|(chan, by_funder)| Op::ForceClose { chan, by_funder }).boxed()),
		(w.tamper_revoke, (any::<u16>(), 0u8..32, 1u8..=255).prop_map(|(link, byte, xor)| Op::TamperRevoke { link, byte, xor }).boxed()),
		(w.mine, (prop_oneof![Just(1u8), 1u8..8, 1u8..30], 0u8..4, any::<u16>()).prop_map(|(blocks, include, pick)| Op::Mine { blocks, include, pick }).boxed()),
		(w.reorg, (1u8..=6, 0u8..3, any::<bool>()).prop_map(|(depth, extra, remine)| Op::Reorg { depth, extra, remine }).boxed()),
		(w.set_style, (any::<u16>(), 0u8..11).prop_map(|(node, style)| Op::SetStyle { node, style }).boxed()),
		(w.snapshot, any::<u16>().prop_map(|node| Op::Snapshot { node }).boxed()),
		(w.restart, (any::<u16>(), prop_oneof![Just(0u16), 0u16..4, any::<u16>()], any::<bool>()).prop_map(|(node, snap, landed)| Op::Restart { node, snap, landed }).boxed()),
	];
	v.retain(|(w, _)| *w > 0);
	proptest::strategy::Union::new_weighted(v)
}

/// Resolve an amount class against the live channel state. Returns None if nothing can be sent.
pub fn resolve_amount(sim: &Sim, from: usize, first_chan: usize, amt: &Amt) -> Option<u64> {
	let det = sim.chan_details(from, first_chan)?;
	if !det.is_usable {
		return None;
	}
	let min = det.next_outbound_htlc_minimum_msat;
	let lim = det.next_outbound_htlc_limit_msat;
	if lim == 0 || min > lim {
		return None;
	}
	let clamp = |v: u64| v.max(min).min(lim);
	Some(match amt {
		Amt::Frac(f) => clamp(min + ((lim - min) as u128 * (*f as u128) / 65536) as u64),
		Amt::Abs(v) => clamp(*v),
		Amt::MinPlus(d) => clamp(min + *d as u64),
		Amt::LimitMinus(d) => clamp(lim.saturating_sub(*d as u64)),
		Amt::DustEdge { received, delta } => {
			// threshold of an LDK commitment: (354 sat + second-stage fee) for non-anchor channels
			let c = &sim.chans[first_chan];
			let anchors = c.open.common_fields.channel_type.as_ref().map(|t| t.supports_anchors_zero_fee_htlc_tx() || t.supports_anchor_zero_fee_commitments()).unwrap_or(false);
			let feerate = sim.w.nodes[c.a].fee_estimator.sat_per_kw.lock().unwrap().clone() as u64;
			let w = if *received { 703 } else { 663 };
			let fee = if anchors { 0 } else { feerate * w / 1000 };
			let thr = ((354 + fee) * 1000) as i64 + *delta as i64;
			clamp(thr.max(1) as u64)
		},
	})
}

/// Apply one operation. Returns a short tag of what actually happened (for labels).
pub fn apply(sim: &mut Sim, spec: &WorldSpec, op: &Op) -> &'static str {
	let n = sim.w.n;
	match op {
		Op::Send { route, amt } => {
			let routes = spec.topo.routes();
			let (from, chans) = &routes[pick(*route, routes.len())];
			// every hop's channel must be usable from the sender's side for the first hop at least
			let Some(a) = resolve_amount(sim, *from, chans[0], amt) else { return "send-skipped" };
			if sim.pays.len() >= 60 {
				return "send-skipped";
			}
			// amount is what the recipient gets only on direct payments; for multi-hop scale down so fees fit
			let a = if chans.len() > 1 { (a / 2).max(1) } else { a };
			let Some(idx) = sim.try_send(*from, chans, a) else { return "send-skipped" };
			if sim.pays[idx].state == PayState::Refused {
				"send-refused"
			} else {
				"send"
			}
		},
		Op::SendBlinded { route, amt } => {
			let routes = spec.topo.routes();
			let (from, chans) = &routes[pick(*route, routes.len())];
			let Some(a) = resolve_amount(sim, *from, chans[0], amt) else { return "send-skipped" };
			if sim.pays.len() >= 60 {
				return "send-skipped";
			}
			let a = if chans.len() > 1 { (a / 2).max(1) } else { a };
			let Some(idx) = sim.try_send_blinded(*from, chans, a) else { return "send-skipped" };
			if sim.pays[idx].state == PayState::Refused {
				"send-blinded-refused"
			} else {
				"send-blinded"
			}
		},
		#[cfg(feature = "ext_c03")]
		Op::SendTwoParts { route, amt, split } => {
			let routes: Vec<Vec<usize>> = spec.topo.routes().into_iter().filter(|(from, _)| *from == 0).map(|(_, c)| c).collect();
			if routes.is_empty() || sim.pays.len() >= 60 {
				return "send-skipped";
			}
			let chans = routes[pick(*route, routes.len())].clone();
			let Some(a) = resolve_amount(sim, 0, chans[0], amt) else { return "send-skipped" };
			let a = (if chans.len() > 1 { a / 2 } else { a }).max(2);
			let first = 1 + ((a - 2) as u128 * *split as u128 >> 16) as u64;
			match sim.c03_send_explicit(&[(chans.clone(), first), (chans, a - first)], 0) {
				None => "send-skipped",
				Some((_, _, _, true)) => "send-two-parts",
				Some(_) => "send-refused",
			}
		},
		#[cfg(not(feature = "ext_c03"))]
		Op::SendTwoParts { .. } => "send-skipped",
		Op::Claim { pay } => {
			let cands: Vec<usize> = sim.pays.iter().filter(|p| p.state == PayState::Claimable).map(|p| p.idx).collect();
			if cands.is_empty() {
				return "claim-skipped";
			}
			sim.claim(cands[pick(*pay, cands.len())]);
			"claim"
		},
		Op::FailBack { pay } => {
			let cands: Vec<usize> = sim.pays.iter().filter(|p| p.state == PayState::Claimable).map(|p| p.idx).collect();
			if cands.is_empty() {
				return "fail-skipped";
			}
			sim.fail_back(cands[pick(*pay, cands.len())]);
			"failback"
		},
		Op::Deliver { link, k } => {
			let live: Vec<(usize, usize)> = sim.links.iter().filter(|(k2, q)| !q.is_empty() && sim.is_connected(k2.0, k2.1)).map(|(k2, _)| *k2).collect();
			if live.is_empty() {
				return "deliver-skipped";
			}
			let (f, t) = live[pick(*link, live.len())];
			sim.deliver(f, t, *k as usize);
			"deliver"
		},
		Op::Flush => {
			for _ in 0..200 {
				let live: Vec<(usize, usize)> = sim.links.iter().filter(|(k2, q)| !q.is_empty() && sim.is_connected(k2.0, k2.1)).map(|(k2, _)| *k2).collect();
				if live.is_empty() {
					break;
				}
				for (f, t) in live {
					sim.deliver(f, t, 1);
				}
			}
			"flush"
		},
		Op::Events { node } => {
			sim.process_events(pick(*node, n));
			"events"
		},
		Op::Forwards { node } => {
			sim.process_forwards(pick(*node, n));
			"forwards"
		},
		Op::DecodeAdds { node } => {
			let i = pick(*node, n);
			if sim.w.nodes[i].node.test_process_pending_update_add_htlcs() {
				sim.drain(i);
				"decode-adds"
			} else {
				"decode-adds-nothing"
			}
		},
		Op::Disconnect { pair } => {
			let live: Vec<(usize, usize)> = sim.connected.iter().cloned().filter(|(a, b)| sim.chans.iter().any(|c| (c.a == *a && c.b == *b) || (c.a == *b && c.b == *a))).collect();
			if live.is_empty() {
				return "disconnect-skipped";
			}
			let (a, b) = live[pick(*pair, live.len())];
			sim.disconnect(a, b);
			"disconnect"
		},
		Op::Reconnect { pair } => {
			let mut down = vec![];
			for a in 0..n {
				for b in (a + 1)..n {
					if !sim.is_connected(a, b) {
						down.push((a, b));
					}
				}
			}
			if down.is_empty() {
				return "reconnect-skipped";
			}
			let (a, b) = down[pick(*pair, down.len())];
			sim.reconnect(a, b);
			"reconnect"
		},
		Op::SetFee { node, rate } => {
			let i = pick(*node, n);
			// Stay inside the library's documented buffers against the update_fee race: a single step raises the
			// funder's feerate by at most 2x (FEE_SPIKE_BUFFER_FEE_INCREASE_MULTIPLE) and by at most 2530 sat/kw
			// (the dust-exposure buffer feerate); larger moves happen through successive operations.
			let cur = {
				let fe = sim.w.nodes[i].fee_estimator;
				let ov = fe.target_override.lock().unwrap();
				ov.get(&lightning::chain::chaininterface::ConfirmationTarget::NonAnchorChannelFee).cloned().unwrap_or(*fe.sat_per_kw.lock().unwrap())
			};
			let rate = (*rate).min(cur.saturating_mul(2)).min(cur + 2530);
			sim.set_feerate(i, rate);
			sim.timer_tick(i);
			"setfee"
		},
		Op::SetFeeJump { node, rate } => {
			let i = pick(*node, n);
			sim.set_feerate(i, *rate);
			sim.timer_tick(i);
			"setfee-jump"
		},
		Op::Timer { node } => {
			sim.timer_tick(pick(*node, n));
			"timer"
		},
		Op::Async { node, chan, on } => {
			let i = pick(*node, n);
			let mine: Vec<usize> = (0..sim.chans.len()).filter(|c| sim.chans[*c].a == i || sim.chans[*c].b == i).collect();
			if mine.is_empty() {
				return "async-skipped";
			}
			let c = sim.chans[mine[pick(*chan, mine.len())]].id;
			if !*on {
				// documented rule: back to synchronous persistence only after a restart; the harness emulates
				// the allowed subset "only when nothing is in flight for that channel"
				if sim.w.pending_updates(i).iter().any(|(pc, _)| *pc == c) {
					return "async-skipped";
				}
			}
			sim.w.set_async(i, Some(c), *on);
			if *on {
				"async-on"
			} else {
				"async-off"
			}
		},
		Op::Complete { node, which } => {
			let i = pick(*node, n);
			let pend = sim.w.pending_updates(i);
			if pend.is_empty() {
				return "complete-skipped";
			}
			let (c, id) = pend[pick(*which, pend.len())];
			sim.w.complete_update(i, c, id);
			sim.drain(i);
			"complete"
		},
		Op::CompleteAll { node } => {
			let i = pick(*node, n);
			if sim.w.pending_updates(i).is_empty() {
				return "complete-skipped";
			}
			sim.complete_all_updates(i);
			"complete-all"
		},
		Op::FlushDeferred { node } => {
			let i = pick(*node, n);
			if !spec.deferred {
				return "flushdef-skipped";
			}
			let nd = &sim.w.nodes[i];
			let cnt = nd.chain_monitor.pending_operation_count();
			nd.chain_monitor.chain_monitor.flush(cnt, &nd.logger);
			sim.drain(i);
			"flush-deferred"
		},
		Op::ForceClose { chan, by_funder } => {
			let ci = pick(*chan, sim.chans.len());
			let c = sim.chans[ci].clone();
			let (me, peer) = if *by_funder { (c.a, c.b) } else { (c.b, c.a) };
			if sim.chan_details(me, ci).is_none() {
				return "forceclose-skipped";
			}
			let peer_id = sim.w.node_id(peer);
			let r = sim.w.nodes[me].node.force_close_broadcasting_latest_txn(&c.id, &peer_id, "harness force close".to_string());
			sim.rec(SEvent::Api { node: me, what: format!("force_close chan {}", ci), ok: r.is_ok(), detail: format!("{:?}", r) });
			sim.drain(me);
			"force-close"
		},
		Op::TamperRevoke { link, byte, xor } => {
			let live: Vec<(usize, usize)> = sim
				.links
				.iter()
				.filter(|(k2, q)| sim.is_connected(k2.0, k2.1) && q.iter().any(|w| matches!(w, Wire::Revoke(_))))
				.map(|(k2, _)| *k2)
				.collect();
			if live.is_empty() {
				return "tamper-skipped";
			}
			let (f, t) = live[pick(*link, live.len())];
			// a message is altered at most once: altering the same byte twice with the same value would restore the
			// authentic secret, which the receiver rightly accepts
			let already: Vec<[u8; 32]> = sim.log.iter().filter_map(|(_, e)| if let SEvent::Tamper { secret, .. } = e { Some(*secret) } else { None }).collect();
			let q = sim.links.get_mut(&(f, t)).unwrap();
			let mut secret = [0u8; 32];
			for w in q.iter_mut() {
				if let Wire::Revoke(m) = w {
					if already.contains(&m.per_commitment_secret) {
						return "tamper-skipped";
					}
					m.per_commitment_secret[*byte as usize % 32] ^= *xor;
					secret = m.per_commitment_secret;
					break;
				}
			}
			sim.rec(SEvent::Tamper { from: f, to: t, secret });
			"tamper-revoke"
		},
		Op::Mine { blocks, include, pick: p } => {
			let mut txs: Vec<bitcoin::Transaction> = sim.chain.mempool.clone();
			match include {
				0 => txs.clear(),
				1 => {},
				2 => txs.reverse(),
				_ => {
					if !txs.is_empty() {
						let i = pick(*p, txs.len());
						txs = vec![txs[i].clone()];
					}
				},
			}
			sim.mine_block(txs);
			for _ in 1..*blocks {
				sim.mine_block(vec![]);
			}
			"mine"
		},
		Op::Reorg { depth, extra, remine } => {
			let d = (*depth as u32).min(sim.chain.height().saturating_sub(sim.min_reorg_floor));
			if d == 0 {
				return "reorg-skipped";
			}
			let before = sim.chain.disconnected_txs.len();
			sim.reorg_disconnect(d);
			let txs: Vec<bitcoin::Transaction> = if *remine { sim.chain.disconnected_txs[before..].iter().rev().cloned().collect() } else { vec![] };
			sim.mine_block(txs);
			for _ in 1..(d + *extra as u32) {
				sim.mine_block(vec![]);
			}
			"reorg"
		},
		Op::SetStyle { node, style } => {
			let i = pick(*node, n);
			*sim.w.nodes[i].connect_style.borrow_mut() = connect_style_of(*style);
			"set-style"
		},
		Op::Snapshot { node } => {
			sim.snapshot_manager(pick(*node, n));
			"snapshot"
		},
		Op::Restart { node, snap, landed } => {
			let i = pick(*node, n);
			match sim.restart(i, *snap, *landed) {
				Ok(()) => "restart",
				Err(_) => "restart-failed",
			}
		},
		Op::Pump => {
			for _ in 0..50 {
				let mut progress = false;
				let live: Vec<(usize, usize)> = sim.links.iter().filter(|(k2, q)| !q.is_empty() && sim.is_connected(k2.0, k2.1)).map(|(k2, _)| *k2).collect();
				for (f, t) in live {
					if sim.deliver(f, t, 1) > 0 {
						progress = true;
					}
				}
				for i in 0..n {
					if sim.w.nodes[i].node.needs_pending_htlc_processing() {
						sim.process_forwards(i);
						progress = true;
					}
					if !sim.process_events(i).is_empty() {
						progress = true;
					}
				}
				if !progress {
					break;
				}
			}
			"pump"
		},
	}
}
