//! Oracle for monitor-update durability (C09): update ids are gap-free and increasing per channel; nothing
//! that depends on an update is released while that update (or an earlier one of the channel) is still
//! in flight; after completions the channel is not stuck.

use crate::oracle_commit::{merged_since, M};
use crate::rec::*;
use crate::sim::*;
use lightning::events::Event;
use lightning::ln::types::ChannelId;
use std::collections::{BTreeMap, BTreeSet};
use vcore::{CaseResult, Failure};

#[derive(Clone, Debug)]
struct UpdRec {
	id: u64,
	steps: Vec<String>,
	debug: String,
	/// step stamp at which it was handed to persistence
	at: u64,
	complete: bool,
}

#[derive(Default, Clone, Debug)]
pub struct PersistStats {
	pub updates: u64,
	pub in_progress: u64,
	pub completions: u64,
	pub out_of_order_completions: u64,
	pub messages_while_other_channel_pending: u64,
	pub gated_messages: u64,
	pub released_after_completion: u64,
	pub msgs_arrived_while_frozen: u64,
	pub preimage_rules: u64,
	pub forward_rules: u64,
}

pub struct PersistOracle {
	cur_h: usize,
	cur_s: usize,
	/// (node, channel) -> updates handed to persistence, in order
	ups: BTreeMap<(usize, ChannelId), Vec<UpdRec>>,
	fresh_cs: BTreeMap<(usize, ChannelId), u64>,
	fresh_raa: BTreeMap<(usize, ChannelId), u64>,
	seen_secrets: BTreeSet<[u8; 32]>,
	seen_cs_sigs: BTreeSet<Vec<u8>>,
	/// (node, payment hash) -> (inbound channel, step at which the add was delivered)
	inbound_adds: BTreeMap<(usize, [u8; 32]), (ChannelId, u64)>,
	forwarded_seen: BTreeMap<(usize, ChannelId), u64>,
	pub stats: PersistStats,
}

fn fail(oracle: &str, detail: String) -> Failure {
	Failure::new(oracle, detail)
}

impl PersistOracle {
	pub fn new(sim: &Sim) -> PersistOracle {
		PersistOracle {
			cur_h: hist_len(),
			cur_s: sim.log.len(),
			ups: BTreeMap::new(),
			fresh_cs: BTreeMap::new(),
			fresh_raa: BTreeMap::new(),
			seen_secrets: BTreeSet::new(),
			seen_cs_sigs: BTreeSet::new(),
			inbound_adds: BTreeMap::new(),
			forwarded_seen: BTreeMap::new(),
			stats: PersistStats::default(),
		}
	}

	fn pending(&self, node: usize, chan: &ChannelId) -> Vec<u64> {
		self.ups.get(&(node, *chan)).map(|v| v.iter().filter(|u| !u.complete).map(|u| u.id).collect()).unwrap_or_default()
	}

	/// (b)+(c): the k-th fresh message of a kind depends on the k-th update carrying `step`; that update and
	/// every earlier update of the channel must have been reported complete when the message leaves.
	fn dep_check(&self, node: usize, chan: &ChannelId, step: &str, k: usize, what: &str) -> CaseResult {
		let v = self.ups.get(&(node, *chan));
		let dep = v.and_then(|v| v.iter().filter(|u| u.steps.iter().any(|s| s.starts_with(step))).nth(k - 1));
		let Some(dep) = dep else {
			return Err(fail(
				"released-before-persist",
				format!("node {} sent its {}th new {} on chan {} but fewer than {} updates carrying {} were handed to persistence", node, k, what, chan, k, step),
			)
			.with_key(format!("released-before-persist/{}", what)));
		};
		let v = v.unwrap();
		let blocking: Vec<u64> = v.iter().filter(|u| u.id <= dep.id && !u.complete).map(|u| u.id).collect();
		if !blocking.is_empty() {
			return Err(fail(
				"released-while-update-in-flight",
				format!("node {} sent {} on chan {} which depends on monitor update {} while updates {:?} were still in flight", node, what, chan, dep.id, blocking),
			)
			.with_key(format!("released-while-update-in-flight/{}", what)));
		}
		Ok(())
	}

	pub fn any_pending(&self) -> bool {
		self.ups.values().any(|v| v.iter().any(|u| !u.complete))
	}

	pub fn step(&mut self, sim: &Sim) -> CaseResult {
		let evs = merged_since(sim, &mut self.cur_h, &mut self.cur_s);
		for (at, ev) in evs {
			match ev {
				M::H(HEvent::PersistUpdate { node, chan, update_id: Some(id), steps, in_progress, debug, .. }) => {
					self.stats.updates += 1;
					if in_progress {
						self.stats.in_progress += 1;
					}
					if steps.iter().any(|s| s.starts_with('?')) {
						// a renamed step kind: the mapping below would be unreliable
						return Err(fail("cannot-classify-update-step", format!("unknown ChannelMonitorUpdateStep rendering {:?}", steps)).with_key("harness-abort"));
					}
					let v = self.ups.entry((node, chan)).or_default();
					if let Some(last) = v.last() {
						// (a) strictly increasing by one
						if id != last.id + 1 && id != u64::MAX {
							return Err(fail(
								"update-id-order",
								format!("node {} chan {}: update id {} handed to persistence after id {}", node, chan, id, last.id),
							));
						}
					}
					v.push(UpdRec { id, steps, debug, at, complete: !in_progress });
				},
				M::H(HEvent::PersistCompleted { node, chan, update_id }) => {
					self.stats.completions += 1;
					if let Some(v) = self.ups.get_mut(&(node, chan)) {
						if v.iter().any(|u| !u.complete && u.id < update_id) {
							self.stats.out_of_order_completions += 1;
						}
						for u in v.iter_mut() {
							if u.id == update_id {
								u.complete = true;
							}
						}
					}
				},
				M::S(SEvent::Deliver { to, wire, .. }) => {
					if let Wire::Add(m) = &wire {
						self.inbound_adds.entry((to, m.payment_hash.0)).or_insert((m.channel_id, at));
					}
					if let Some(cid) = wire.channel_id() {
						if !self.pending(to, &cid).is_empty() {
							self.stats.msgs_arrived_while_frozen += 1;
						}
					}
				},
				M::S(SEvent::Emit { from, wire, .. }) => {
					let Some(cid) = wire.channel_id() else { continue };
					let pend = self.pending(from, &cid);
					let gated = matches!(wire, Wire::Commit(_) | Wire::Revoke(_) | Wire::ChannelReady(_) | Wire::Add(_) | Wire::Fulfill(_) | Wire::Fail(_) | Wire::FailMalformed(_) | Wire::Fee(_));
					if gated {
						self.stats.gated_messages += 1;
						if !pend.is_empty() {
							self.stats.released_after_completion += 1;
						}
						if self.ups.iter().any(|((n, c), v)| *n == from && *c != cid && v.iter().any(|u| !u.complete)) {
							self.stats.messages_while_other_channel_pending += 1;
						}
					}
					match &wire {
						Wire::Commit(m) => {
							// (b) a fresh commitment_signed needs a persisted update carrying the counterparty commitment
							let sig = m.signature.serialize_compact().to_vec();
							if self.seen_cs_sigs.insert(sig) {
								let n = self.fresh_cs.entry((from, cid)).or_insert(0);
								*n += 1;
								let k = *n as usize;
								self.dep_check(from, &cid, "LatestCounterpartyCommitment", k, "commitment_signed")?;
							}
						},
						Wire::Revoke(m) => {
							if self.seen_secrets.insert(m.per_commitment_secret) {
								let n = self.fresh_raa.entry((from, cid)).or_insert(0);
								*n += 1;
								let k = *n as usize;
								self.dep_check(from, &cid, "LatestHolderCommitment", k, "revoke_and_ack")?;
							}
						},
						Wire::Fulfill(m) => {
							// an upstream fulfil for a *forwarded* HTLC needs the completed update that stores the preimage
							if let Some((inb, _)) = self.inbound_adds.get(&(from, lightning::types::payment::PaymentHash::from(m.payment_preimage).0)) {
								if *inb == cid {
									self.stats.preimage_rules += 1;
									let needle = format!("{:?}", m.payment_preimage);
									let ok = self.ups.get(&(from, cid)).map(|v| v.iter().any(|u| u.complete && u.steps.iter().any(|s| s == "PaymentPreimage") && u.debug.contains(&needle))).unwrap_or(false);
									if !ok {
										return Err(fail("fulfill-before-preimage-durable", format!("node {} sent update_fulfill_htlc on chan {} before a completed monitor update stored the preimage", from, cid)));
									}
								}
							}
						},
						Wire::Add(m) => {
							// a forwarded add needs the inbound HTLC irrevocably committed: at least the first secret-bearing
							// update on the inbound channel after the inbound add arrived must be complete
							if let Some((inb, t_in)) = self.inbound_adds.get(&(from, m.payment_hash.0)) {
								if *inb != cid {
									self.stats.forward_rules += 1;
									let first = self.ups.get(&(from, *inb)).and_then(|v| v.iter().find(|u| u.at > *t_in && u.steps.iter().any(|s| s == "CommitmentSecret")));
									match first {
										Some(u) if u.complete => {},
										_ => {
											return Err(fail(
												"forward-before-inbound-durable",
												format!("node {} forwarded an HTLC onto chan {} before the update that irrevocably committed it on chan {} was durable", from, cid, inb),
											))
										},
									}
								}
							}
						},
						_ => {},
					}
				},
				M::S(SEvent::Ldk { node, ev }) => match &ev {
					Event::PaymentClaimed { payment_hash, .. } => {
						// the preimage must be durable in every channel monitor update of this node that carries it
						if let Some(p) = sim.pays.iter().find(|p| p.hash == *payment_hash && p.to == node) {
							let needle = format!("{:?}", p.preimage);
							self.stats.preimage_rules += 1;
							for ((n, c), v) in self.ups.iter() {
								if *n != node {
									continue;
								}
								// per channel that stores this preimage at all: the first such update must be durable
								let with: Vec<&UpdRec> = v.iter().filter(|u| u.steps.iter().any(|s| s == "PaymentPreimage") && u.debug.contains(&needle)).collect();
								if !with.is_empty() && !with.iter().any(|u| u.complete) {
									return Err(fail("claimed-before-preimage-durable", format!("node {} emitted PaymentClaimed while no update of chan {} storing the preimage was durable yet (in flight: {:?})", node, c, with.iter().map(|u| u.id).collect::<Vec<_>>())));
								}
							}
						}
					},
					Event::PaymentForwarded { prev_htlcs, .. } => {
						for prev in prev_htlcs.iter().map(|h| h.channel_id) {
						let prev = &prev;
						if let Some(v) = self.ups.get(&(node, *prev)) {
							// the forwarded claim's preimage update on the upstream channel must not be in flight; identify it
							// as the newest PaymentPreimage-bearing update of that channel
							let with: Vec<&UpdRec> = v.iter().filter(|u| u.steps.iter().any(|s| s == "PaymentPreimage")).collect();
							if !with.is_empty() {
								self.stats.preimage_rules += 1;
								// count rule: the k-th PaymentForwarded naming this upstream channel needs at least k durable
								// preimage-bearing updates there (each forwarded claim stores its preimage upstream first)
								let k = self.forwarded_seen.entry((node, *prev)).or_insert(0);
								*k += 1;
								let durable = with.iter().filter(|u| u.complete).count() as u64;
								let distinct = with.len() as u64;
								if durable == 0 || (*k > durable && distinct >= *k) {
									return Err(fail("forwarded-event-before-preimage-durable", format!("node {} emitted its {}th PaymentForwarded for upstream chan {} with only {} durable preimage updates there", node, k, prev, durable)));
								}
							}
						}
						}
					},
					_ => {},
				},
				_ => {},
			}
		}
		Ok(())
	}

	/// (b) for broadcasts: a node hands its own commitment transaction to the broadcaster only once the update
	/// that stored that commitment and every earlier update are durable. `holder_number` is the commitment number of the broadcast transaction
	/// (None if it is the commitment signed during channel establishment).
	pub fn check_commitment_broadcast(&mut self, node: usize, chan: &ChannelId, holder_number: Option<u64>, user_requested: bool) -> CaseResult {
		let Some(v) = self.ups.get(&(node, *chan)) else { return Ok(()) };
		let mut dep: Option<u64> = None;
		if let Some(n) = holder_number {
			let k = (((1u64 << 48) - 1) - n) as usize;
			if k >= 1 {
				if let Some(u) = v.iter().filter(|u| u.steps.iter().any(|s| s.starts_with("LatestHolderCommitment"))).nth(k - 1) {
					dep = Some(u.id);
				}
			}
		}
		// The ChannelForceClosed update that triggers the broadcast is deliberately not a dependency: a
		// commitment that is already durable may be broadcast at any time without invalidating anything.
		self.stats.gated_messages += 1;
		if let Some(dep) = dep {
			let blocking: Vec<u64> = v.iter().filter(|u| u.id <= dep && !u.complete).map(|u| u.id).collect();
			if !blocking.is_empty() {
				let _ = user_requested;
				let key = "broadcast-before-durable/holder-commitment";
				return Err(fail(
					"broadcast-before-durable",
					format!("node {} broadcast its commitment transaction of chan {} (depends on monitor update {}) while updates {:?} were still in flight", node, chan, dep, blocking),
				)
				.with_key(key));
			}
		}
		Ok(())
	}

	/// After a settle: nothing may be left half-way (a withheld message that was never released shows as a
	/// pending HTLC that is not in the committed state).
	pub fn check_not_stuck(&self, sim: &Sim) -> CaseResult {
		use lightning::ln::channel_state::{InboundHTLCStateDetails, OutboundHTLCStateDetails};
		for (ci, c) in sim.chans.iter().enumerate() {
			for node in [c.a, c.b] {
				let Some(d) = sim.chan_details(node, ci) else { continue };
				for h in d.pending_inbound_htlcs.iter() {
					if let Some(st) = &h.state {
						if !matches!(st, InboundHTLCStateDetails::Committed) {
							return Err(fail("stuck-after-completion", format!("node {} chan {}: inbound HTLC {} still in state {:?} after all updates completed and all messages were delivered", node, ci, h.htlc_id, st)));
						}
					}
				}
				for h in d.pending_outbound_htlcs.iter() {
					if let Some(st) = &h.state {
						if !matches!(st, OutboundHTLCStateDetails::Committed) {
							return Err(fail("stuck-after-completion", format!("node {} chan {}: outbound HTLC {:?} still in state {:?} after all updates completed and all messages were delivered", node, ci, h.htlc_id, st)));
						}
					}
				}
			}
		}
		Ok(())
	}
}
