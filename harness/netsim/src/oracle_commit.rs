//! Oracle for commitment content (C01 a-e): every counterparty commitment a node signs must equal what
//! the independent BOLT-2/3 model derives from the wire messages exchanged so far; the peer stores exactly
//! that transaction; honest operation produces no error, closure or broadcast.

use crate::model::*;
use crate::rec::*;
use crate::sim::*;
use bitcoin::hashes::Hash;
use bitcoin::Txid;
use lightning::events::{ClosureReason, Event};
use lightning::ln::chan_utils::CommitmentTransaction;
use std::collections::{BTreeMap, BTreeSet, VecDeque};
use lightning::ln::types::ChannelId;
use vcore::{CaseResult, Failure};

pub enum M {
	H(HEvent),
	S(SEvent),
}

/// Merge the signer/persister history and the simulator log (both stamped by one counter).
pub fn merged_since(sim: &Sim, cur_h: &mut usize, cur_s: &mut usize) -> Vec<(u64, M)> {
	let hs = hist_since(*cur_h);
	*cur_h += hs.len();
	let ss: Vec<(u64, SEvent)> = sim.log[*cur_s..].to_vec();
	*cur_s += ss.len();
	let mut out: Vec<(u64, M)> = hs.into_iter().map(|(s, e)| (s, M::H(e))).collect();
	out.extend(ss.into_iter().map(|(s, e)| (s, M::S(e))));
	out.sort_by_key(|(s, _)| *s);
	out
}

#[derive(Default, Clone, Debug)]
pub struct CommitStats {
	pub signed: u64,
	pub signed_with_pending: u64,
	pub signed_with_dust: u64,
	pub retransmitted_commits: u64,
	pub retransmitted_revokes: u64,
	pub both_unacked_seen: bool,
	pub dropped_inflight: u64,
	pub fee_updates: u64,
	pub fee_concurrent_with_add: bool,
	pub agreement_checks: u64,
	pub max_pending: usize,
}

pub struct CommitOracle {
	pub models: Vec<ChanModel>,
	cur_h: usize,
	cur_s: usize,
	/// (chan, side) -> signature observed but commitment_signed not yet emitted
	pending_sign: BTreeMap<(usize, usize), (u64, CommitmentTransaction)>,
	/// (chan, side) -> number of a re-signed (already known) commitment awaiting its emission
	pending_resign: BTreeMap<(usize, usize), u64>,
	signed: BTreeMap<(usize, usize, u64), Txid>,
	/// numbers of the commitment_signed messages sitting in each directed FIFO
	queued: BTreeMap<(usize, usize), VecDeque<u64>>,
	delivered_commits: BTreeMap<(usize, usize), u64>,
	/// holder commitment txids that existed when the oracle was attached (signed during channel establishment)
	initial_holder_txids: Vec<Txid>,
	pub stats: CommitStats,
	/// expected benign closures (cooperative close requested by the harness) per channel
	pub coop_close_requested: Vec<bool>,
	pub allow_force_close: bool,
	pub check_agreement: bool,
	/// (chan, side) -> the update batch covered by that side's latest commitment_signed contained (a fulfil, an add)
	last_batch_fulfil_add: BTreeMap<(usize, usize), (bool, bool)>,
	/// Fee changes beyond the library's buffers are generated: a refusal that is the protocol's own update_fee
	/// race (the refused message crossed on the wire with an update of the refusing side) ends the case with the
	/// pseudo-failure `excused-update-race` instead of a verdict; a refusal of a message whose sender had already
	/// been told every update of the refusing side is still a failure.
	pub allow_update_race: bool,
	/// (from, to, update) -> step of its first emission / of its latest delivery
	upd_emit: BTreeMap<(usize, usize, String), u64>,
	upd_deliv: BTreeMap<(usize, usize, String), u64>,
	/// (from, to) -> first-emission step of the latest add / fee update
	last_upd_emit: BTreeMap<(usize, usize), u64>,
	/// node -> (sender, rendering, emission step of the sender's latest update at that time) of the message it handled last
	last_handled: BTreeMap<usize, (usize, String, u64)>,
	link_cut_at: Vec<(usize, usize, u64)>,
	/// nodes that have put a `shutdown` for a channel on the wire, and those that put a *new* update_add_htlc on the
	/// wire after that (BOLT 2 forbids it)
	shutdown_emitted: BTreeSet<(usize, ChannelId)>,
	add_after_own_shutdown: BTreeSet<(usize, ChannelId)>,
	/// per directed link, for every message in flight: emission step of the sender's latest update when it was emitted
	in_flight_ctx: BTreeMap<(usize, usize), std::collections::VecDeque<u64>>,
}

fn upd_key(w: &Wire) -> Option<String> {
	match w {
		Wire::Add(m) => Some(format!("add {} {}", m.channel_id, m.htlc_id)),
		Wire::Fee(m) => Some(format!("fee {} {}", m.channel_id, m.feerate_per_kw)),
		_ => None,
	}
}

fn fail(oracle: &str, detail: String) -> Failure {
	Failure::new(oracle, detail)
}

impl CommitOracle {
	/// Must be created right after the channels were opened (the history cursor starts here).
	pub fn new(sim: &Sim) -> CommitOracle {
		let mut models = vec![];
		for c in sim.chans.iter() {
			let ct = c.accept.common_fields.channel_type.clone().or(c.open.common_fields.channel_type.clone());
			let chan_type = match ct {
				Some(t) if t.supports_anchor_zero_fee_commitments() => ChanType::ZeroFeeCommitments,
				Some(t) if t.supports_anchors_zero_fee_htlc_tx() => ChanType::AnchorsZeroFeeHtlc,
				_ => ChanType::StaticRemoteKey,
			};
			models.push(ChanModel::new(Params {
				value_sat: c.value_sat,
				funder: 0,
				init_balance_msat: [c.value_sat * 1000 - c.push_msat, c.push_msat],
				dust_limit_sat: [c.open.common_fields.dust_limit_satoshis, c.accept.common_fields.dust_limit_satoshis],
				chan_type,
				init_feerate: c.open.common_fields.commitment_feerate_sat_per_1000_weight,
			}));
		}
		let n = sim.chans.len();
		let mut initial_holder_txids = vec![];
		for c in sim.chans.iter() {
			for node in [c.a, c.b] {
				if let Ok(mon) = sim.w.nodes[node].chain_monitor.chain_monitor.get_monitor(c.id) {
					if let Some(tx) = mon.unsafe_get_latest_holder_commitment_txn(&sim.w.nodes[node].logger).first() {
						initial_holder_txids.push(tx.compute_txid());
					}
				}
			}
		}
		CommitOracle {
			models,
			cur_h: hist_len(),
			cur_s: sim.log.len(),
			pending_sign: BTreeMap::new(),
			pending_resign: BTreeMap::new(),
			signed: BTreeMap::new(),
			queued: BTreeMap::new(),
			delivered_commits: BTreeMap::new(),
			initial_holder_txids,
			stats: CommitStats::default(),
			coop_close_requested: vec![false; n],
			allow_force_close: false,
			check_agreement: true,
			last_batch_fulfil_add: BTreeMap::new(),
			allow_update_race: false,
			upd_emit: BTreeMap::new(),
			upd_deliv: BTreeMap::new(),
			last_upd_emit: BTreeMap::new(),
			last_handled: BTreeMap::new(),
			link_cut_at: vec![],
			shutdown_emitted: BTreeSet::new(),
			add_after_own_shutdown: BTreeSet::new(),
			in_flight_ctx: BTreeMap::new(),
		}
	}

	/// Is the error `raiser` sent to `sender` the protocol's own update race? The refused message is the one
	/// `raiser` handled last. Yes iff some add / fee update of `raiser` had not reached `sender` when `sender`
	/// emitted its latest update before that message (it was emitted later, was still in flight, or the link was
	/// cut in between so that an undelivered or uncommitted update was forgotten).
	fn is_update_race(&self, raiser: usize, sender: usize) -> (bool, String) {
		let Some((from, what, t)) = self.last_handled.get(&raiser).cloned() else { return (true, "no handled message recorded".into()) };
		if from != sender {
			return (true, "last handled message came from another node".into());
		}
		for ((f, to, k), emit) in self.upd_emit.iter() {
			if *f != raiser || *to != sender {
				continue;
			}
			let deliv = self.upd_deliv.get(&(*f, *to, k.clone())).cloned();
			let unknown_to_sender = match deliv {
				None => true,
				Some(d) => d > t || self.link_cut_at.iter().any(|(a, b, c)| ((*a == raiser && *b == sender) || (*a == sender && *b == raiser)) && *c > *emit && *c < t),
			};
			if unknown_to_sender {
				return (true, format!("{} of node {} (emitted at {}, delivered {:?}) was not known to node {} when it emitted its latest update at {} (refused message: {})", k, raiser, emit, deliv, sender, t, what));
			}
		}
		(false, format!("refused message: {} (latest update of node {} emitted at {}); every update node {} had emitted had been delivered before", what, sender, t, raiser))
	}

	/// (channel index, side of the signer, commitment number) of a commitment transaction some node signed for
	/// its peer, by txid
	pub fn signed_commitment_number(&self, txid: &Txid) -> Option<(usize, usize, u64)> {
		self.signed.iter().find(|(_, t)| *t == txid).map(|((c, s, n), _)| (*c, *s, *n))
	}

	fn chan_by_funding(&self, sim: &Sim, txid: Txid) -> Option<usize> {
		sim.chans.iter().position(|c| c.funding_tx.compute_txid() == txid)
	}

	fn side_of(sim: &Sim, chan: usize, node: usize) -> usize {
		if sim.chans[chan].a == node {
			0
		} else {
			1
		}
	}

	pub fn step(&mut self, sim: &Sim) -> CaseResult {
		let evs = merged_since(sim, &mut self.cur_h, &mut self.cur_s);
		for (at, ev) in evs {
			match ev {
				M::S(SEvent::Disconnect { a, b }) => self.link_cut_at.push((a, b, at)),
				M::H(HEvent::SignCounterparty { node, tx, params, .. }) => {
					let Some(fo) = params.funding_outpoint else { continue };
					let Some(chan) = self.chan_by_funding(sim, fo.txid) else { continue };
					let side = Self::side_of(sim, chan, node);
					let number = tx.commitment_number();
					let txid = tx.trust().txid();
					if let Some(prev) = self.signed.get(&(chan, side, number)) {
						if *prev != txid {
							return Err(fail("resign-differs", format!("node {} re-signed counterparty commitment {} of chan {} with different content: {} vs {}", node, number, chan, prev, txid)));
						}
						self.pending_resign.insert((chan, side), number);
					} else if let Some((pn, ptx)) = self.pending_sign.get(&(chan, side)) {
						if *pn == number {
							if ptx.trust().txid() != txid {
								return Err(fail("resign-differs", format!("node {} signed commitment {} of chan {} twice with different content before sending it", node, number, chan)));
							}
						} else {
							return Err(fail("sign-without-send", format!("node {} signed commitment {} of chan {} while its signature for {} was never sent", node, number, chan, pn)));
						}
					} else {
						self.pending_sign.insert((chan, side), (number, tx));
					}
				},
				M::S(SEvent::Emit { from, to, wire }) => {
					if let Wire::Shutdown(m) = &wire {
						self.shutdown_emitted.insert((from, m.channel_id));
					}
					if let Some(k) = upd_key(&wire) {
						if !self.upd_emit.contains_key(&(from, to, k.clone())) {
							if let Wire::Add(m) = &wire {
								if self.shutdown_emitted.contains(&(from, m.channel_id)) {
									self.add_after_own_shutdown.insert((from, m.channel_id));
								}
							}
							self.upd_emit.insert((from, to, k), at);
							self.last_upd_emit.insert((from, to), at);
						}
					}
					let ctx_t = self.last_upd_emit.get(&(from, to)).cloned().unwrap_or(0);
					self.in_flight_ctx.entry((from, to)).or_default().push_back(ctx_t);
					let Some(cid) = wire.channel_id() else { continue };
					let Some(chan) = sim.chans.iter().position(|c| c.id == cid) else { continue };
					let side = Self::side_of(sim, chan, from);
					match &wire {
						Wire::Add(m) => {
							self.models[chan].on_update(side, Upd::Add { id: m.htlc_id, amt_msat: m.amount_msat, hash: m.payment_hash.0, cltv: m.cltv_expiry })
						},
						Wire::Fulfill(m) => self.models[chan].on_update(side, Upd::Fulfill { id: m.htlc_id }),
						Wire::Fail(m) => self.models[chan].on_update(side, Upd::Fail { id: m.htlc_id }),
						Wire::FailMalformed(m) => self.models[chan].on_update(side, Upd::Fail { id: m.htlc_id }),
						Wire::Fee(m) => {
							self.stats.fee_updates += 1;
							if self.models[chan].sides[side].batch.iter().any(|u| matches!(u, Upd::Add { .. })) || !self.models[chan].sides[1 - side].batch.is_empty() {
								self.stats.fee_concurrent_with_add = true;
							}
							self.models[chan].on_update(side, Upd::Fee { rate: m.feerate_per_kw })
						},
						Wire::Commit(_) => {
							let b = &self.models[chan].sides[side].batch;
							self.last_batch_fulfil_add.insert((chan, side), (b.iter().any(|u| matches!(u, Upd::Fulfill { .. })), b.iter().any(|u| matches!(u, Upd::Add { .. }))));
							let (number, tx) = if let Some((n, tx)) = self.pending_sign.remove(&(chan, side)) {
								(n, Some(tx))
							} else if let Some(n) = self.pending_resign.remove(&(chan, side)) {
								(n, None)
							} else if let Some(last) = self.models[chan].sides[side].cs.last() {
								(last.number, None)
							} else {
								return Err(fail("commit-without-signature", format!("node {} sent commitment_signed on chan {} but no signing was observed", from, chan)));
							};
							self.pending_resign.remove(&(chan, side));
							let fresh = self.models[chan].on_commit(side, number).map_err(|e| fail("bolt2-model", format!("chan {} node {}: {}", chan, from, e)))?;
							self.queued.entry((from, to)).or_default().push_back(number);
							if fresh {
								let Some(tx) = tx else {
									return Err(fail("commit-without-signature", format!("node {} sent a new commitment_signed ({}) on chan {} without a fresh signature", from, number, chan)));
								};
								self.validate(sim, chan, side, from, number, &tx)?;
								self.signed.insert((chan, side, number), tx.trust().txid());
								if self.models[chan].both_have_unacked() {
									self.stats.both_unacked_seen = true;
								}
							} else {
								self.stats.retransmitted_commits += 1;
							}
						},
						Wire::Revoke(m) => {
							let fresh = self.models[chan].on_revoke(side, m.per_commitment_secret).map_err(|e| fail("bolt2-model", format!("chan {} node {}: {}", chan, from, e)))?;
							if !fresh {
								self.stats.retransmitted_revokes += 1;
							}
						},
						_ => {},
					}
				},
				M::S(SEvent::Dropped { from, to, wire }) => {
					self.in_flight_ctx.entry((from, to)).or_default().pop_front();
					match wire {
						Wire::Commit(_) => {
							self.queued.entry((from, to)).or_default().pop_front();
							self.stats.dropped_inflight += 1;
						},
						Wire::Add(_) | Wire::Fulfill(_) | Wire::Fail(_) | Wire::Fee(_) | Wire::Revoke(_) => self.stats.dropped_inflight += 1,
						_ => {},
					}
				},
				M::S(SEvent::Deliver { from, to, wire }) => {
					if let Some(k) = upd_key(&wire) {
						self.upd_deliv.insert((from, to, k), at);
					}
					let ctx_t = self.in_flight_ctx.entry((from, to)).or_default().pop_front().unwrap_or(0);
					self.last_handled.insert(to, (from, wire.kind().to_string(), ctx_t));
					if let Wire::Commit(m) = &wire {
						let _ = self.queued.entry((from, to)).or_default().pop_front();
						if let Some(chan) = sim.chans.iter().position(|c| c.id == m.channel_id) {
							let side = Self::side_of(sim, chan, from);
							*self.delivered_commits.entry((chan, side)).or_insert(0) += 1;
						}
					}
				},
				M::S(SEvent::ErrorAction { from, to, action, is_error_msg, .. }) => {
					if is_error_msg && !self.allow_force_close {
						let mut race_note = String::new();
						if self.allow_update_race {
							let (race, why) = self.is_update_race(from, to);
							if race {
								return Err(fail("excused-update-race", format!("node {} refused a message of node {} ({}): {}", from, to, action, why)));
							}
							race_note = format!("; not an update race: {}", why);
						}
						let mut f = fail("protocol-error", format!("node {} raised an error towards node {} during honest operation: {}{}", from, to, action, race_note));
						// listed finding, matched on its exact mechanism: the refused add travelled in the same
						// commitment batch as the sender's own fulfil of an inbound HTLC (the sender's limit already
						// counted the fulfilled value, the receiver does not until the removal is acknowledged)
						// (with a zero reserve the same refusal reads "would overdraw remaining funds")
						// listed finding, matched on its exact mechanism: the refused node released an update_add_htlc (held
						// back behind a blocked / in-flight monitor update) only after it had already sent its `shutdown`
						if action.contains("Got add HTLC message when channel was not in an operational state") {
							if let Some(c) = sim.chans.iter().find(|c| (c.a == from && c.b == to) || (c.a == to && c.b == from)) {
								if self.add_after_own_shutdown.contains(&(to, c.id)) {
									return Err(f.with_key("protocol-error/add-released-after-own-shutdown"));
								}
							}
						}
						let which = if action.contains("Remote HTLC add would put them under remote reserve value") {
							Some("protocol-error/remote-reserve/add-batched-with-own-uncommitted-fulfil")
						} else if action.contains("Remote HTLC add would overdraw remaining funds") {
							Some("protocol-error/overdraw/add-batched-with-own-uncommitted-fulfil")
						} else {
							None
						};
						if let Some(key) = which {
							if let Some(chan) = sim.chans.iter().position(|c| (c.a == from && c.b == to) || (c.a == to && c.b == from)) {
								let sender_side = Self::side_of(sim, chan, to);
								if self.last_batch_fulfil_add.get(&(chan, sender_side)) == Some(&(true, true)) {
									f = f.with_key(key);
								}
							}
						}
						return Err(f);
					}
				},
				M::S(SEvent::Ldk { node, ev }) => {
					if let Event::ChannelClosed { reason, channel_id, .. } = &ev {
						let coop = matches!(
							reason,
							ClosureReason::LegacyCooperativeClosure | ClosureReason::CounterpartyInitiatedCooperativeClosure | ClosureReason::LocallyInitiatedCooperativeClosure
						);
						let chan = sim.chans.iter().position(|c| c.id == *channel_id);
						let requested = chan.map(|c| self.coop_close_requested[c]).unwrap_or(false);
						if !(coop && requested) && !self.allow_force_close {
							return Err(fail("unexpected-closure", format!("node {} closed channel {:?}: {:?}", node, chan, reason)));
						}
					}
				},
				M::S(SEvent::Broadcast { node, tx, .. }) => {
					// only a cooperative close transaction may be broadcast in honest operation
					let spends_funding = sim.chans.iter().position(|c| tx.input.iter().any(|i| i.previous_output.txid == c.funding_tx.compute_txid()));
					if let Some(chan) = spends_funding {
						let is_commitment = tx.input.len() == 1 && (tx.input[0].sequence.0 >> 24) == 0x80;
						if is_commitment && !self.allow_force_close {
							return Err(fail("commitment-broadcast", format!("node {} broadcast a commitment transaction of chan {} during honest operation", node, chan)));
						}
					}
				},
				_ => {},
			}
		}
		// (d) agreement, evaluated on the state after all events of this step: the holder commitment a node
		// stores is a transaction its peer signed (never something else for any number).
		if self.check_agreement && !sim.w.deferred {
			for (chan, c) in sim.chans.iter().enumerate() {
				for side in 0..2 {
					if self.delivered_commits.get(&(chan, side)).cloned().unwrap_or(0) == 0 {
						continue;
					}
					let receiver = if side == 0 { c.b } else { c.a };
					if let Ok(mon) = sim.w.nodes[receiver].chain_monitor.chain_monitor.get_monitor(c.id) {
						let txs = mon.unsafe_get_latest_holder_commitment_txn(&sim.w.nodes[receiver].logger);
						if let Some(first) = txs.first() {
							self.stats.agreement_checks += 1;
							let got = first.compute_txid();
							let known = self.initial_holder_txids.contains(&got) || self.signed.iter().any(|((c2, s2, _), t)| *c2 == chan && *s2 == side && *t == got);
							if !known {
								return Err(fail(
									"peer-disagreement",
									format!("node {} stores holder commitment {} (obscured #{:x}) on chan {} which its peer never signed", receiver, got, obscured_number(first), chan),
								));
							}
						}
					}
				}
			}
		}
		Ok(())
	}

	fn validate(&mut self, sim: &Sim, chan: usize, side: usize, node: usize, number: u64, tx: &CommitmentTransaction) -> CaseResult {
		let broadcaster = 1 - side;
		let exp = self.models[chan].expected_for(broadcaster).map_err(|e| fail("bolt2-model", format!("chan {} signer node {} number {}: {}", chan, node, number, e)))?;
		let ctx = format!("chan {} ({:?}) signer node {} commitment {}", chan, self.models[chan].p.chan_type, node, number);
		self.stats.signed += 1;
		let pending = exp.nondust.len() + exp.dust.len();
		if pending > 0 {
			self.stats.signed_with_pending += 1;
		}
		if !exp.dust.is_empty() {
			self.stats.signed_with_dust += 1;
		}
		self.stats.max_pending = self.stats.max_pending.max(pending);
		if tx.negotiated_feerate_per_kw() != exp.feerate {
			return Err(fail("commitment-feerate", format!("{}: feerate {} but model says {}", ctx, tx.negotiated_feerate_per_kw(), exp.feerate)));
		}
		let mut got: Vec<ExpHtlc> = tx.nondust_htlcs().iter().map(|h| ExpHtlc { offered: h.offered, amt_msat: h.amount_msat, hash: h.payment_hash.0, cltv: h.cltv_expiry }).collect();
		got.sort();
		if got != exp.nondust {
			return Err(fail(
				"commitment-htlcs",
				format!("{}: non-dust HTLC set differs.\n  signed: {:?}\n  model : {:?}\n  model dust: {:?}", ctx, brief(&got), brief(&exp.nondust), brief(&exp.dust)),
			));
		}
		if tx.to_broadcaster_value_sat() != exp.to_broadcaster_sat || tx.to_countersignatory_value_sat() != exp.to_countersignatory_sat {
			return Err(fail(
				"commitment-balances",
				format!(
					"{}: to_broadcaster {} / to_countersignatory {} but model says {} / {} (balances msat {:?}, fee {}, anchors {}, feerate {}, {} nondust, {} dust)",
					ctx,
					tx.to_broadcaster_value_sat(),
					tx.to_countersignatory_value_sat(),
					exp.to_broadcaster_sat,
					exp.to_countersignatory_sat,
					exp.balance_msat,
					exp.commit_fee_sat,
					exp.anchors_sat,
					exp.feerate,
					exp.nondust.len(),
					exp.dust.len()
				),
			));
		}
		let built = &tx.trust().built_transaction().transaction;
		let out_sum: u64 = built.output.iter().map(|o| o.value.to_sat()).sum();
		let value = self.models[chan].p.value_sat;
		if out_sum + exp.implied_fee_sat != value {
			return Err(fail(
				"commitment-conservation",
				format!("{}: outputs sum to {} sat, channel value {}, so {} sat go to fees; the model expects {} (commit fee {} + dust/rounding)", ctx, out_sum, value, value.saturating_sub(out_sum), exp.implied_fee_sat, exp.commit_fee_sat),
			));
		}
		if built.output.len() != exp.n_outputs {
			return Err(fail("commitment-outputs", format!("{}: {} outputs but model expects {}", ctx, built.output.len(), exp.n_outputs)));
		}
		if built.input.len() != 1 || built.input[0].previous_output.txid != sim.chans[chan].funding_tx.compute_txid() {
			return Err(fail("commitment-input", format!("{}: does not spend exactly the funding output", ctx)));
		}
		// every non-dust HTLC appears as an output of its sat value
		let mut vals: Vec<u64> = built.output.iter().map(|o| o.value.to_sat()).collect();
		for h in exp.nondust.iter() {
			if let Some(pos) = vals.iter().position(|v| *v == h.amt_msat / 1000) {
				vals.remove(pos);
			} else {
				return Err(fail("commitment-outputs", format!("{}: no output worth {} sat for a pending HTLC", ctx, h.amt_msat / 1000)));
			}
		}
		Ok(())
	}
}

fn brief(v: &Vec<ExpHtlc>) -> Vec<(bool, u64, u32, String)> {
	v.iter().map(|h| (h.offered, h.amt_msat, h.cltv, vcore::hex(&h.hash[..4]))).collect()
}

/// lower 48 bits hidden in locktime / sequence (still obscured; only used for diagnostics)
pub fn obscured_number(tx: &bitcoin::Transaction) -> u64 {
	let lt = tx.lock_time.to_consensus_u32() as u64;
	let seq = tx.input.first().map(|i| i.sequence.0 as u64).unwrap_or(0);
	((seq & 0xffffff) << 24) | (lt & 0xffffff)
}

#[allow(dead_code)]
fn _t(_: Txid) {
	let _ = Txid::all_zeros();
}

/// Compact rendering of the whole recorded history (for replay logs).
pub fn dump_history(sim: &Sim) -> String {
	let mut h = 0;
	let mut s = 0;
	let evs = merged_since(sim, &mut h, &mut s);
	let mut out = String::new();
	for (at, ev) in evs {
		let line = match ev {
			M::H(HEvent::SignCounterparty { node, tx, .. }) => format!("n{} SIGN counterparty #{} htlcs={} to_b={} to_c={}", node, INITIAL_MINUS(tx.commitment_number()), tx.nondust_htlcs().len(), tx.to_broadcaster_value_sat(), tx.to_countersignatory_value_sat()),
			M::H(HEvent::ReleaseSecret { node, idx, .. }) => format!("n{} RELEASE secret #{}", node, INITIAL_MINUS(idx)),
			M::H(HEvent::SignHolderCommitment { node, number, .. }) => format!("n{} SIGN holder #{}", node, INITIAL_MINUS(number)),
			M::H(HEvent::SignHolderHtlc { node, per_commitment_number, .. }) => format!("n{} SIGN holder htlc on #{}", node, INITIAL_MINUS(per_commitment_number)),
			M::H(HEvent::SignClosing { node, to_holder_sat, to_counterparty_sat, .. }) => format!("n{} SIGN closing {} / {}", node, to_holder_sat, to_counterparty_sat),
			M::H(HEvent::SignJustice { node, .. }) => format!("n{} SIGN justice", node),
			M::H(HEvent::PersistNew { node, chan, update_id, in_progress }) => format!("n{} PERSIST new {} id={} in_progress={}", node, short(&chan), update_id, in_progress),
			M::H(HEvent::PersistUpdate { node, chan, update_id, steps, in_progress, .. }) => format!("n{} PERSIST update {} id={:?} steps={:?} in_progress={}", node, short(&chan), update_id, steps, in_progress),
			M::H(HEvent::PersistCompleted { node, chan, update_id }) => format!("n{} COMPLETED {} id={}", node, short(&chan), update_id),
			M::H(HEvent::Archive { node, .. }) => format!("n{} ARCHIVE", node),
			M::S(SEvent::Emit { from, to, wire }) => format!("n{}->n{} EMIT {} {}", from, to, wire.kind(), wire_brief(&wire)),
			M::S(SEvent::Deliver { from, to, wire }) => format!("n{}->n{} DELIVER {} {}", from, to, wire.kind(), wire_brief(&wire)),
			M::S(SEvent::Dropped { from, to, wire }) => format!("n{}->n{} DROPPED {}", from, to, wire.kind()),
			M::S(SEvent::ErrorAction { from, to, action, .. }) => format!("n{}->n{} ERRORACTION {}", from, to, action.chars().take(200).collect::<String>()),
			M::S(SEvent::Ldk { node, ev }) => format!("n{} EVENT {}", node, format!("{:?}", ev).chars().take(160).collect::<String>()),
			M::S(SEvent::Broadcast { node, tx, verdict, .. }) => format!("n{} BROADCAST {} ({} in, {} out) verdict {:?}", node, tx.compute_txid(), tx.input.len(), tx.output.len(), verdict),
			M::S(SEvent::Disconnect { a, b }) => format!("DISCONNECT n{} n{}", a, b),
			M::S(SEvent::Reconnect { a, b }) => format!("RECONNECT n{} n{}", a, b),
			M::S(SEvent::Api { node, what, ok, detail }) => format!("n{} API {} ok={} {}", node, what, ok, detail.chars().take(120).collect::<String>()),
			M::S(SEvent::Tamper { from, to, .. }) => format!("TAMPER revoke n{}->n{}", from, to),
			M::S(SEvent::Restart { node, snapshot_step, monitor_ids, ok, detail }) => format!("n{} RESTART from manager@{} monitors {:?} ok={} {}", node, snapshot_step, monitor_ids.iter().map(|(_, i)| *i).collect::<Vec<_>>(), ok, detail),
			M::S(SEvent::Mined { height, txids }) => format!("MINED height {} txs {:?}", height, txids),
			M::S(SEvent::Reorged { to_height }) => format!("REORG down to height {}", to_height),
			M::S(SEvent::BlockDelivered { node, height }) => format!("n{} BLOCK delivered, now at {}", node, height),
		};
		out.push_str(&format!("{:>6} {}\n", at, line));
	}
	out
}

#[allow(non_snake_case)]
fn INITIAL_MINUS(n: u64) -> String {
	format!("N0-{}", ((1u64 << 48) - 1).saturating_sub(n))
}

fn short(c: &lightning::ln::types::ChannelId) -> String {
	vcore::hex(&c.0[..3])
}

fn wire_brief(w: &Wire) -> String {
	match w {
		Wire::Add(m) => format!("id={} amt={} chan={}", m.htlc_id, m.amount_msat, short(&m.channel_id)),
		Wire::Fulfill(m) => format!("id={} chan={}", m.htlc_id, short(&m.channel_id)),
		Wire::Fail(m) => format!("id={} chan={}", m.htlc_id, short(&m.channel_id)),
		Wire::Fee(m) => format!("rate={}", m.feerate_per_kw),
		Wire::Commit(m) => format!("chan={} htlc_sigs={}", short(&m.channel_id), m.htlc_signatures.len()),
		Wire::Revoke(m) => format!("chan={}", short(&m.channel_id)),
		Wire::Reestablish(m) => format!("chan={} next_local={} next_remote={}", short(&m.channel_id), m.next_local_commitment_number, m.next_remote_commitment_number),
		_ => String::new(),
	}
}
