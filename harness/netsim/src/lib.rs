//! Multi-node Lightning simulator over lightning::ln::functional_test_utils (engine E1).
#[macro_use]
extern crate lightning;

pub mod rec;
pub mod world;
pub mod sim;
pub mod model;
pub mod ops;
pub mod oracle_commit;
pub mod oracle_revoke;
pub mod oracle_persist;
pub mod chain;
#[cfg(feature = "ext_c02")]
pub mod ext_c02;
#[cfg(feature = "ext_c03")]
pub mod ext_c03;
#[cfg(feature = "ext_c04")]
pub mod ext_c04;
#[cfg(feature = "ext_c06")]
pub mod ext_c06;
#[cfg(feature = "ext_c07")]
pub mod ext_c07;
#[cfg(feature = "ext_c08")]
pub mod ext_c08;
#[cfg(feature = "ext_c10")]
pub mod ext_c10;
#[cfg(feature = "ext_c11")]
pub mod ext_c11;
#[cfg(feature = "ext_c12")]
pub mod ext_c12;
