//! Multi-node Lightning simulator over lightning::ln::functional_test_utils (engine E1).
#[macro_use]
extern crate lightning;

pub mod rec;
pub mod world;
pub mod sim;
pub mod model;
pub mod ops;
pub mod oracle_commit;
pub mod oracle_revoke;
pub mod oracle_persist;
