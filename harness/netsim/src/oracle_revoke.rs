//! Oracle for the revocation discipline (C05): secrets are released only after a newer fully signed
//! commitment is held, never before; a revoked commitment is never signed or broadcast again; at most one
//! unrevoked counterparty commitment precedes a newly signed one; received secrets match announced points.
//!
//! Everything is decided from recorded signer calls, wire messages and broadcasts -- not from the
//! `TestChannelSigner` enforcement state (whose own panics are additionally treated as C05 failures).

use crate::oracle_commit::{merged_since, M};
use crate::rec::*;
use crate::sim::*;
use bitcoin::secp256k1::{PublicKey, Secp256k1, SecretKey};
use bitcoin::Txid;
use std::collections::{BTreeMap, BTreeSet};
use vcore::{CaseResult, Failure};

pub const INITIAL_COMMITMENT_NUMBER: u64 = (1 << 48) - 1;

/// (node, channel_keys_id) -> channel index, learned from the signatures made during channel establishment.
pub fn initial_keys_map(sim: &Sim) -> BTreeMap<(usize, [u8; 32]), usize> {
	let mut m = BTreeMap::new();
	for (_, e) in hist_since(0) {
		if let HEvent::SignCounterparty { node, keys_id, params, .. } = e {
			if let Some(fo) = params.funding_outpoint {
				if let Some(c) = sim.chans.iter().position(|c| c.funding_tx.compute_txid() == fo.txid) {
					m.insert((node, keys_id), c);
				}
			}
		}
	}
	m
}

#[derive(Default)]
struct SideState {
	/// numbers whose secret this node released, in order of first release
	released: Vec<u64>,
	/// numbers of holder commitments delivered to this node (signed by its peer)
	holder_numbers: BTreeSet<u64>,
	/// distinct revocation secrets delivered to this node
	peer_secrets: Vec<[u8; 32]>,
	/// counterparty commitment numbers this node signed
	signed_counterparty: BTreeSet<u64>,
	/// per-commitment points this node announced, by commitment number
	announced_points: BTreeMap<u64, PublicKey>,
	/// txids of this node's own commitment transactions by number (as signed by the peer)
	holder_txids: BTreeMap<u64, Txid>,
	/// how many distinct RAAs this node emitted
	raas_emitted: u64,
}

#[derive(Default, Clone, Debug)]
pub struct RevokeStats {
	pub releases: u64,
	pub re_releases: u64,
	pub counterparty_signatures: u64,
	pub holder_signatures: u64,
	pub secrets_checked: u64,
	pub commitment_broadcasts: u64,
	pub tampered_delivered: u64,
	pub tampered_rejected: u64,
	pub updates_each_dir: [u64; 2],
}

pub struct RevokeOracle {
	cur_h: usize,
	cur_s: usize,
	/// (chan, side)
	st: BTreeMap<(usize, usize), SideState>,
	/// numbers of commitment_signed messages in flight per directed link (parallel to the FIFO)
	pending_sign_number: BTreeMap<(usize, usize), u64>,
	queued_commit_numbers: BTreeMap<(usize, usize), Vec<(u64, Txid)>>,
	/// secrets that the harness corrupted in flight: (chan, receiver side) -> corrupted secret
	pub tampered: Vec<(usize, usize, [u8; 32])>,
	awaiting_reject: Option<(usize, usize, u64)>,
	pub stats: RevokeStats,
	secp: Secp256k1<bitcoin::secp256k1::All>,
}

fn fail(oracle: &str, detail: String) -> Failure {
	Failure::new(oracle, detail)
}

impl RevokeOracle {
	pub fn new(sim: &Sim) -> RevokeOracle {
		let mut st: BTreeMap<(usize, usize), SideState> = BTreeMap::new();
		for (ci, c) in sim.chans.iter().enumerate() {
			for side in 0..2 {
				let mut s = SideState::default();
				let first = if side == 0 { c.open.common_fields.first_per_commitment_point } else { c.accept.common_fields.first_per_commitment_point };
				s.announced_points.insert(INITIAL_COMMITMENT_NUMBER, first);
				s.holder_numbers.insert(INITIAL_COMMITMENT_NUMBER);
				st.insert((ci, side), s);
			}
		}
		RevokeOracle {
			cur_h: hist_len(),
			cur_s: sim.log.len(),
			st,
			pending_sign_number: BTreeMap::new(),
			queued_commit_numbers: BTreeMap::new(),
			tampered: vec![],
			awaiting_reject: None,
			stats: RevokeStats::default(),
			secp: Secp256k1::new(),
		}
	}

	fn chan_by_funding(sim: &Sim, txid: Txid) -> Option<usize> {
		sim.chans.iter().position(|c| c.funding_tx.compute_txid() == txid)
	}
	fn side_of(sim: &Sim, chan: usize, node: usize) -> usize {
		if sim.chans[chan].a == node {
			0
		} else {
			1
		}
	}
	fn chan_of_keys(&self, sim: &Sim, node: usize, _keys_id: &[u8; 32]) -> Option<usize> {
		// pair / line profiles: a node may have several channels; keys ids are mapped through the signer
		// events that carry channel parameters; for secret releases we fall back to "the only channel"
		let mine: Vec<usize> = (0..sim.chans.len()).filter(|c| sim.chans[*c].a == node || sim.chans[*c].b == node).collect();
		if mine.len() == 1 {
			Some(mine[0])
		} else {
			None
		}
	}

	pub fn step(&mut self, sim: &Sim, keys_to_chan: &mut BTreeMap<(usize, [u8; 32]), usize>) -> CaseResult {
		let evs = merged_since(sim, &mut self.cur_h, &mut self.cur_s);
		for (_, ev) in evs {
			match ev {
				M::H(HEvent::SignCounterparty { node, keys_id, tx, params, .. }) => {
					let Some(fo) = params.funding_outpoint else { continue };
					let Some(chan) = Self::chan_by_funding(sim, fo.txid) else { continue };
					keys_to_chan.insert((node, keys_id), chan);
					let side = Self::side_of(sim, chan, node);
					let m = tx.commitment_number();
					self.pending_sign_number.insert((chan, side), m);
					let s = self.st.get_mut(&(chan, side)).unwrap();
					let fresh = s.signed_counterparty.insert(m);
					self.stats.counterparty_signatures += 1;
					// record the txid as the peer's holder commitment for number m
					let txid = tx.trust().txid();
					self.st.get_mut(&(chan, 1 - side)).unwrap().holder_txids.insert(m, txid);
					if fresh {
						// (c) at most one unrevoked predecessor: signing N0-k needs k-1 revocations received
						let k = INITIAL_COMMITMENT_NUMBER - m;
						let have = self.st[&(chan, side)].peer_secrets.len() as u64;
						if k >= 1 && have + 1 < k {
							return Err(fail(
								"sign-ahead-of-revocation",
								format!("node {} signed counterparty commitment #{} (N0-{}) of chan {} having received only {} revocations", node, m, k, chan, have),
							));
						}
					}
				},
				M::H(HEvent::ReleaseSecret { node, keys_id, idx }) => {
					let chan = keys_to_chan.get(&(node, keys_id)).cloned().or_else(|| self.chan_of_keys(sim, node, &keys_id));
					let Some(chan) = chan else { continue };
					let side = Self::side_of(sim, chan, node);
					let s = self.st.get_mut(&(chan, side)).unwrap();
					if s.released.contains(&idx) {
						self.stats.re_releases += 1;
						// retransmission: only the most recently released secret may be released again
						if *s.released.last().unwrap() != idx {
							return Err(fail("release-order", format!("node {} re-released the secret of commitment #{} after having released #{}", node, idx, s.released.last().unwrap())));
						}
						continue;
					}
					self.stats.releases += 1;
					// (a) in order, one at a time
					let expect = s.released.last().map(|l| l - 1).unwrap_or(INITIAL_COMMITMENT_NUMBER);
					if idx != expect {
						return Err(fail("release-order", format!("node {} released the secret of commitment #{} but the next to revoke is #{}", node, idx, expect)));
					}
					// (a) only after a fully signed newer commitment (idx-1) was received from the peer
					if !s.holder_numbers.contains(&(idx - 1)) {
						return Err(fail(
							"early-revocation",
							format!("node {} released the secret of its commitment #{} of chan {} before receiving a signed commitment #{}", node, idx, chan, idx - 1),
						));
					}
					s.released.push(idx);
				},
				M::H(HEvent::SignHolderCommitment { node, keys_id, number, txid }) => {
					let chan = keys_to_chan.get(&(node, keys_id)).cloned().or_else(|| self.chan_of_keys(sim, node, &keys_id));
					let Some(chan) = chan else { continue };
					let side = Self::side_of(sim, chan, node);
					self.stats.holder_signatures += 1;
					let s = &self.st[&(chan, side)];
					if s.released.contains(&number) {
						return Err(fail("revoked-commitment-signed", format!("node {} signed its own commitment #{} ({}) of chan {} after revoking it", node, number, txid, chan)));
					}
				},
				M::H(HEvent::SignHolderHtlc { node, keys_id, per_commitment_number, commitment_txid }) => {
					let chan = keys_to_chan.get(&(node, keys_id)).cloned().or_else(|| self.chan_of_keys(sim, node, &keys_id));
					let Some(chan) = chan else { continue };
					let side = Self::side_of(sim, chan, node);
					let s = &self.st[&(chan, side)];
					if s.released.contains(&per_commitment_number) {
						return Err(fail(
							"revoked-htlc-signed",
							format!("node {} signed an HTLC transaction on its revoked commitment #{} ({}) of chan {}", node, per_commitment_number, commitment_txid, chan),
						));
					}
				},
				M::S(SEvent::Emit { from, to, wire }) => {
					let Some(cid) = wire.channel_id() else { continue };
					let Some(chan) = sim.chans.iter().position(|c| c.id == cid) else { continue };
					let side = Self::side_of(sim, chan, from);
					match &wire {
						Wire::Commit(_) => {
							if let Some(n) = self.pending_sign_number.get(&(chan, side)).cloned() {
								let txid = self.st[&(chan, 1 - side)].holder_txids.get(&n).cloned();
								if let Some(txid) = txid {
									self.queued_commit_numbers.entry((from, to)).or_default().push((n, txid));
								}
							}
						},
						Wire::Revoke(m) => {
							let s = self.st.get_mut(&(chan, side)).unwrap();
							// the secret on the wire must be the one for the latest released number and must match
							// the point this node announced for that number
							if let Some(n) = s.released.last().cloned() {
								if let Ok(sk) = SecretKey::from_slice(&m.per_commitment_secret) {
									let pk = PublicKey::from_secret_key(&self.secp, &sk);
									if let Some(ann) = s.announced_points.get(&n) {
										self.stats.secrets_checked += 1;
										if *ann != pk {
											return Err(fail("secret-point-mismatch", format!("node {} sent a revocation secret for #{} that does not match the point it announced", from, n)));
										}
									}
								}
								// next_per_commitment_point announces the point for n-2
								s.announced_points.insert(n - 2, m.next_per_commitment_point);
								s.raas_emitted += 1;
								self.stats.updates_each_dir[side] = s.released.len() as u64;
							} else {
								return Err(fail("release-order", format!("node {} sent revoke_and_ack without the signer having released any secret", from)));
							}
						},
						Wire::ChannelReady(m) => {
							self.st.get_mut(&(chan, side)).unwrap().announced_points.insert(INITIAL_COMMITMENT_NUMBER - 1, m.next_per_commitment_point);
						},
						_ => {},
					}
				},
				M::S(SEvent::Tamper { to, secret, .. }) => {
					for (chan, c) in sim.chans.iter().enumerate() {
						if c.a == to || c.b == to {
							self.tampered.push((chan, Self::side_of(sim, chan, to), secret));
						}
					}
				},
				M::S(SEvent::Dropped { from, to, wire }) => {
					if let Wire::Commit(_) = wire {
						let q = self.queued_commit_numbers.entry((from, to)).or_default();
						if !q.is_empty() {
							q.remove(0);
						}
					}
				},
				M::S(SEvent::Deliver { from, to, wire }) => {
					let Some(cid) = wire.channel_id() else { continue };
					let Some(chan) = sim.chans.iter().position(|c| c.id == cid) else { continue };
					let rside = Self::side_of(sim, chan, to);
					match &wire {
						Wire::Commit(_) => {
							let q = self.queued_commit_numbers.entry((from, to)).or_default();
							if !q.is_empty() {
								let (n, _txid) = q.remove(0);
								self.st.get_mut(&(chan, rside)).unwrap().holder_numbers.insert(n);
							}
						},
						Wire::Revoke(m) => {
							let tampered = self.tampered.iter().any(|(c, s, sec)| *c == chan && *s == rside && *sec == m.per_commitment_secret);
							if tampered {
								self.stats.tampered_delivered += 1;
								self.awaiting_reject = Some((chan, rside, 0));
							} else {
								let s = self.st.get_mut(&(chan, rside)).unwrap();
								if !s.peer_secrets.contains(&m.per_commitment_secret) {
									s.peer_secrets.push(m.per_commitment_secret);
								}
							}
						},
						_ => {},
					}
				},
				M::S(SEvent::ErrorAction { from, is_error_msg, .. }) => {
					if let Some((chan, rside, _)) = self.awaiting_reject {
						let rnode = if rside == 0 { sim.chans[chan].a } else { sim.chans[chan].b };
						if from == rnode && is_error_msg {
							self.stats.tampered_rejected += 1;
							self.awaiting_reject = None;
						}
					}
				},
				M::H(HEvent::PersistUpdate { node, chan: cid, steps, .. }) => {
					if let Some((chan, rside, _)) = self.awaiting_reject {
						let rnode = if rside == 0 { sim.chans[chan].a } else { sim.chans[chan].b };
						if node == rnode && cid == sim.chans[chan].id && steps.iter().any(|s| s == "CommitmentSecret") {
							return Err(fail("bad-secret-stored", format!("node {} stored a revocation secret that does not match the announced commitment point (chan {})", node, chan)));
						}
					}
				},
				M::S(SEvent::Broadcast { node, tx, .. }) => {
					// (b) a broadcast commitment transaction of this node must not be one it has revoked
					for (chan, c) in sim.chans.iter().enumerate() {
						if !(c.a == node || c.b == node) {
							continue;
						}
						let side = Self::side_of(sim, chan, node);
						let funding = c.funding_tx.compute_txid();
						let s = &self.st[&(chan, side)];
						let txid = tx.compute_txid();
						if tx.input.iter().any(|i| i.previous_output.txid == funding) {
							self.stats.commitment_broadcasts += 1;
							if let Some((n, _)) = s.holder_txids.iter().find(|(_, t)| **t == txid) {
								if s.released.contains(n) {
									return Err(fail("revoked-commitment-broadcast", format!("node {} broadcast its revoked commitment #{} ({}) of chan {}", node, n, txid, chan)));
								}
							}
						}
						// second-stage transactions spending a revoked holder commitment of this node
						for i in tx.input.iter() {
							if let Some((n, _)) = s.holder_txids.iter().find(|(_, t)| **t == i.previous_output.txid) {
								if s.released.contains(n) && i.previous_output.txid != funding {
									// spending one's *own* revoked commitment's outputs (HTLC-success/timeout) is forbidden
									let is_htlc_tx = tx.input.len() >= 1 && tx.output.len() >= 1 && tx.lock_time.to_consensus_u32() < 500_000_000 && i.witness.len() == 5;
									if is_htlc_tx {
										return Err(fail("revoked-htlc-broadcast", format!("node {} broadcast an HTLC transaction spending its revoked commitment #{} of chan {}", node, n, chan)));
									}
								}
							}
						}
					}
				},
				_ => {},
			}
		}
		Ok(())
	}

	/// At the end of a case: every delivered tampered revocation must have been rejected.
	pub fn finish(&self) -> CaseResult {
		if let Some((chan, rside, _)) = self.awaiting_reject {
			return Err(fail("bad-secret-accepted", format!("a revoke_and_ack whose secret does not match the announced point was accepted without error (chan {}, receiving side {})", chan, rside)));
		}
		Ok(())
	}
}
