//! Property-specific engine extensions for C11 (owned by the C11 check).
