//! Engine of the C11 check ("on-chain conclusions depend only on the chain, not on how it was delivered").
//!
//! One *scenario* (world, traffic prefix leaving pending HTLCs, optional force close, chain script with
//! forks) is executed several times ("replicas"; deterministic re-executions of the whole scenario).
//! Replica 0 builds the block tree: it sees every block of the script through the plainest `Listen`
//! delivery, its nodes' broadcasts feed the consensus simulator and the script picks what is mined. The
//! resulting *trace* (connect block / disconnect n / off-chain claim) is then replayed in the other
//! replicas with the identical blocks; only the node under observation ("O") is told about the chain
//! differently, by a small chain client written from the `chain::Listen` / `chain::Confirm` doc comments:
//!
//! * `Listen`: every block connected in chain order with one `block_connected` /
//!   `filtered_block_connected` call; a second `filtered_block_connected` for the same block right away when
//!   the `Filter` registrations made while processing it match further transactions of the block; a reorg is
//!   announced by `blocks_disconnected(fork point)`, once or several times walking backwards.
//! * `Confirm`: `transactions_confirmed` in chain order (block by block, topological inside a block,
//!   possibly split over several calls, possibly repeated), before or after the `best_block_updated` of the
//!   block; `best_block_updated` may be skipped for intermediary blocks; on a reorg every transaction of
//!   `get_relevant_txids()` whose block left the chain is given to `transaction_unconfirmed` en bloc before
//!   any re-confirmation, and no transaction is confirmed under a header that is not in the chain of the
//!   last `best_block_updated` (so after a reorg the client announces a best block of the new chain first).
//! * the eleven `ConnectStyle`s go through the repo's own `connect_block` / `disconnect_blocks` helpers,
//!   switchable per step.
//! A client may also simply lag (not be told for a while) and may never be told about a losing fork at all.

use crate::ops::*;
use crate::sim::*;
use bitcoin::hashes::{ripemd160, sha256, Hash};
use bitcoin::{Block, BlockHash, OutPoint, Transaction, Txid};
use lightning::chain::channelmonitor::{Balance, ANTI_REORG_DELAY};
use lightning::chain::{BlockLocator, Confirm, Listen};
use lightning::events::bump_transaction::BumpTransactionEvent;
use lightning::events::{ClosureReason, Event, HTLCHandlingFailureType};
use lightning::ln::channel_state::OutboundHTLCStateDetails;
use lightning::ln::functional_test_utils::{connect_block, disconnect_blocks};
use lightning::ln::types::ChannelId;
use serde::{Deserialize, Serialize};
use std::collections::{BTreeMap, BTreeSet, HashMap, HashSet};
use vcore::{pick, Failure};

thread_local! {
	static OBSERVED_ACTIVE: std::cell::Cell<bool> = std::cell::Cell::new(false);
}

/// true while the engine is inside a chain call / event pump of the observed node (used to attribute panics)
pub fn observed_node_active() -> bool {
	OBSERVED_ACTIVE.with(|c| c.get())
}

fn set_active(v: bool) {
	OBSERVED_ACTIVE.with(|c| c.set(v));
}

/// `channelmonitor::LATENCY_GRACE_PERIOD_BLOCKS` (crate-private there): a closed channel's monitor fails an
/// HTLC back once the *inbound* HTLC expires within this many blocks, whatever happened on chain.
const LATENCY_GRACE_PERIOD_BLOCKS: u32 = 3;

// -------------------------------------------------------------------------------------------------
// the generated case
// -------------------------------------------------------------------------------------------------

#[derive(Clone, Debug, Serialize, Deserialize)]
pub enum Closure {
	None,
	/// one of O's channels is force closed by O or by its peer; `tell_peer`: the error message reaches the
	/// other side (otherwise the link is cut first and the other side learns about it from the chain)
	Force { chan: u16, by_observed: bool, tell_peer: bool },
}

/// which candidate transactions go into a mined block
#[derive(Clone, Debug, Serialize, Deserialize)]
pub enum Sel {
	None,
	/// maximal conflict-free valid set, conflicts decided in txid order
	All,
	/// same, conflicts decided in reverse order
	Rev,
	One(u16),
	Two(u16, u16),
}

/// what the competing branch contains for a transaction of the replaced blocks
#[derive(Clone, Debug, Serialize, Deserialize)]
pub enum Fate {
	Same,
	/// same transaction one block later (relative to the fork point)
	Later,
	/// a transaction spending one of the same outputs instead, if one is known and valid
	Conflict,
	Drop,
}

#[derive(Clone, Debug, Serialize, Deserialize)]
pub enum Step {
	Mine { sel: Sel, empty: u8 },
	/// empty blocks up to (expiry of the which-th pending HTLC) + delta
	ToExpiry { which: u16, delta: i8 },
	/// replace the last `depth` blocks (1..=ANTI_REORG_DELAY) by depth+extra new ones
	Fork { depth: u8, fates: Vec<Fate>, extra: u8 },
	/// like `Fork`, with the depth chosen relative to the last block that contains a channel transaction:
	/// adj 0 = just deep enough to remove that block, +1 one deeper, -1 the fork starts right above it
	ForkTx { adj: i8, fates: Vec<Fate>, extra: u8 },
	/// the recipient of a still unclaimed payment claims it
	Claim { pay: u16 },
}

#[derive(Clone, Debug, Serialize, Deserialize)]
pub struct Scenario {
	pub spec: WorldSpec,
	pub prefix: Vec<Op>,
	pub observed: u16,
	pub closure: Closure,
	pub script: Vec<Step>,
}

#[derive(Clone, Debug, Serialize, Deserialize)]
pub enum Conn {
	/// `connect_block` of functional_test_utils in this style
	Helper(u8),
	Confirm { best_first: bool, dup: bool, skip_best: bool, filtered: bool, split: bool, mgr_first: bool },
	Listen { filtered: bool, mgr_first: bool },
}

#[derive(Clone, Debug, Serialize, Deserialize)]
pub enum Disc {
	/// `disconnect_blocks` of functional_test_utils in this style
	Helper(u8),
	/// `transaction_unconfirmed` for every relevant txid whose block left the chain
	Unconfirm { then_best: bool, mgr_first: bool },
	/// `blocks_disconnected` with the fork point, in `chunks` calls walking backwards
	ForkPoint { chunks: u8, full_locator: bool, mgr_first: bool },
}

#[derive(Clone, Debug, Serialize, Deserialize)]
pub struct PStep {
	pub lag: bool,
	pub conn: Conn,
	pub disc: Disc,
	/// after the trace event served by this step the observed node is stopped, its manager and monitors are
	/// written, read back and installed as they are (nothing is re-told about the chain), and its peers reconnect:
	/// the chain client carries on with whatever style the next step names ("mixes across restarts")
	#[serde(default)]
	pub reload: bool,
}

#[derive(Clone, Debug, Serialize, Deserialize)]
pub struct Plan {
	/// O is only ever told blocks that are part of the final chain (never sees a losing fork)
	pub final_only: bool,
	/// cycled over the trace events
	pub steps: Vec<PStep>,
}

pub fn plain_plan() -> Plan {
	Plan { final_only: false, steps: vec![PStep { lag: false, conn: Conn::Listen { filtered: false, mgr_first: false }, disc: Disc::ForkPoint { chunks: 1, full_locator: false, mgr_first: false }, reload: false }] }
}

// -------------------------------------------------------------------------------------------------
// trace
// -------------------------------------------------------------------------------------------------

#[derive(Clone, Debug)]
pub enum TEv {
	Connect(Block),
	Disconnect(u32),
	Claim(usize),
}

#[derive(Clone, Debug, Default)]
pub struct Trace {
	pub evs: Vec<TEv>,
	pub checkpoint: Vec<bool>,
	pub final_hashes: HashSet<BlockHash>,
	/// index of the first Disconnect that removed a channel-relevant transaction
	pub first_relevant_reorg: Option<usize>,
	pub relevant_removed: usize,
	pub reorgs: usize,
	pub max_depth: u32,
	pub blocks: usize,
	pub txs_mined: usize,
	pub conflicts_mined: usize,
	pub dropped: usize,
}

impl Trace {
	/// fill `checkpoint` and `final_hashes`
	fn finish(&mut self) {
		let mut chain: Vec<BlockHash> = vec![];
		for e in self.evs.iter() {
			match e {
				TEv::Connect(b) => chain.push(b.block_hash()),
				TEv::Disconnect(d) => {
					let l = chain.len() - *d as usize;
					chain.truncate(l);
				},
				TEv::Claim(_) => {},
			}
		}
		self.final_hashes = chain.into_iter().collect();
		// inside long runs of empty blocks only the first and the last few are compared
		let n = self.evs.len();
		self.checkpoint = vec![true; n];
		let empty = |e: &TEv| matches!(e, TEv::Connect(b) if b.txdata.is_empty());
		for i in 0..n {
			if empty(&self.evs[i]) && i > 0 && empty(&self.evs[i - 1]) {
				let run_ahead = (i + 1..n.min(i + 9)).take_while(|j| empty(&self.evs[*j])).count();
				if run_ahead >= 8 {
					self.checkpoint[i] = false;
				}
			}
		}
		if n > 0 {
			self.checkpoint[n - 1] = true;
		}
	}
}

// -------------------------------------------------------------------------------------------------
// conclusions compared between replicas
// -------------------------------------------------------------------------------------------------

#[derive(Clone, Debug, Default)]
pub struct Snap {
	pub tip: String,
	pub best: Vec<String>,
	pub channels: Vec<String>,
	pub closed: Vec<String>,
	/// not compared (diagnostics)
	pub closed_reasons: Vec<String>,
	pub htlc: Vec<String>,
	pub balances: Vec<String>,
	pub rel_mgr: Vec<String>,
	pub rel_mon: Vec<String>,
	pub spendable: Vec<String>,
	pub pursued: Vec<String>,
	/// the subset of `pursued` whose output is already spent by a transaction on the chain O was told
	pub pursued_spent: Vec<String>,
	/// the last thing O was told was a disconnection (no block connected since)
	pub after_disconnect: bool,
	pub peers: Vec<String>,
	/// payment hashes whose preimage this replica was shown in some delivered transaction, and channels for
	/// which it was shown a funding spend: knowledge that does not come from the current best chain alone
	pub know: Vec<String>,
	/// payment hashes whose preimage this replica was shown in a delivered transaction
	pub know_preimages: Vec<String>,
	pub pair_world: bool,
	/// a channel transaction with >= ANTI_REORG_DELAY confirmations was later reorganised out in this replica
	pub burial_reorg: bool,
	/// the observed node was reloaded from its own images at least once in this replica
	pub reloaded: bool,
}

/// Compare the conclusions of two replicas at a common tip. Returns the name of the first differing view.
pub fn compare(a: &Snap, b: &Snap) -> Result<&'static str, (String, String)> {
	if a.reloaded || b.reloaded {
		// A restarted node may report an event again (a claim replayed from a monitor, a closure noticed twice): the
		// resolutions are compared as sets when one of the replicas was reloaded
		let norm = |s: &Snap| {
			let mut s = s.clone();
			s.reloaded = false;
			for v in [&mut s.htlc, &mut s.closed, &mut s.spendable] {
				v.sort();
				v.dedup();
			}
			// Untriaged (DESIGN 9.3): a node reloaded in the middle of a closed channel's resolution can keep listing
			// a MaybeTimeoutClaimableHTLC balance for an HTLC that a never-reloaded node has dropped after the claim
			// was buried. Until it is settled whether that is the library or the reload procedure, the balance lists
			// of reloaded replicas are not compared (everything else, and the burial rules, still are).
			s.balances = vec![];
			s
		};
		return compare(&norm(a), &norm(b));
	}
	macro_rules! cmp {
		($f:ident, $name:expr) => {
			if a.$f != b.$f {
				return Err(($name.to_string(), format!("{}: {:?}\n   vs {:?}", $name, a.$f, b.$f)));
			}
		};
	}
	if a.tip != b.tip {
		return Err(("harness-tip".into(), format!("tips differ {} {}", a.tip, b.tip)));
	}
	if a.peers != b.peers {
		// the peers behaved differently (e.g. closed a channel because O lagged): inputs beyond the chain differ
		return Ok("peer-divergence");
	}
	cmp!(best, "best-block");
	if a.burial_reorg || b.burial_reorg {
		return Ok("reduced:reorg-at-burial-depth");
	}
	if a.know != b.know {
		return Ok("reduced:extra-knowledge-from-losing-fork");
	}
	cmp!(rel_mon, "relevant-txids-monitor");
	cmp!(spendable, "spendable-outputs");
	if a.know_preimages != b.know_preimages {
		// One replica was shown a preimage in a fork that lost: it legitimately resolves that payment differently
		// (PaymentSent / claims the inbound HTLC upstream). What the monitor of the channel the preimage appeared on
		// watches and claims is still expected to be the same; with an upstream channel (forwarding node) the
		// upstream claim may differ, so the claim sets are only compared for two-node worlds.
		if a.pair_world {
			cmp_pursued(a, b)?;
		}
		return Ok("partial:preimage-shown-in-losing-fork");
	}
	cmp!(rel_mgr, "relevant-txids-manager");
	cmp!(channels, "channels");
	cmp!(closed, "closed");
	cmp!(htlc, "htlc-resolutions");
	cmp!(balances, "balances");
	cmp_pursued(a, b)?;
	Ok("full")
}

fn cmp_pursued(a: &Snap, b: &Snap) -> Result<(), (String, String)> {
	// The library re-derives time-driven claims (e.g. the broadcast of its commitment for an expired HTLC) when a
	// block is connected; right after a bare disconnection the claim set is in flux (a claim registered at a now
	// disconnected height is dropped and re-created with the next block), so it is compared after the next block.
	if a.after_disconnect || b.after_disconnect {
		return Ok(());
	}
	if a.pursued != b.pursued {
		let sa: BTreeSet<&String> = a.pursued.iter().collect();
		let sb: BTreeSet<&String> = b.pursued.iter().collect();
		let spent: BTreeSet<&String> = a.pursued_spent.iter().chain(b.pursued_spent.iter()).collect();
		let name = if sa.symmetric_difference(&sb).all(|d| spent.contains(d)) {
			// one replica keeps claiming an output that a confirmed transaction already spent
			"pursued-claims/claim-against-spent-output"
		} else if sa.is_subset(&sb) {
			"pursued-claims/dropped-by-first"
		} else if sb.is_subset(&sa) {
			"pursued-claims/dropped-by-second"
		} else {
			"pursued-claims"
		};
		return Err((name.to_string(), format!("outputs being claimed: {:?}\n   vs {:?}", a.pursued, b.pursued)));
	}
	Ok(())
}

// -------------------------------------------------------------------------------------------------
// the chain O has been told, as an index
// -------------------------------------------------------------------------------------------------

struct Told {
	tip: u32,
	height_of: HashMap<Txid, u32>,
	spender: HashMap<OutPoint, Txid>,
	tx: HashMap<Txid, Transaction>,
}

impl Told {
	fn new(blocks: &[(Block, u32)]) -> Told {
		let mut t = Told { tip: blocks.last().map(|b| b.1).unwrap_or(0), height_of: HashMap::new(), spender: HashMap::new(), tx: HashMap::new() };
		for (b, h) in blocks.iter() {
			for tx in b.txdata.iter() {
				let id = tx.compute_txid();
				t.height_of.insert(id, *h);
				for i in tx.input.iter() {
					t.spender.insert(i.previous_output, id);
				}
				t.tx.insert(id, tx.clone());
			}
		}
		t
	}
	fn confs(&self, id: &Txid) -> u32 {
		self.height_of.get(id).map(|h| self.tip - h + 1).unwrap_or(0)
	}
}

fn hash160_of_payment_hash(h: &[u8; 32]) -> [u8; 20] {
	ripemd160::Hash::hash(h).to_byte_array()
}

fn contains(hay: &[u8], needle: &[u8]) -> bool {
	hay.windows(needle.len()).any(|w| w == needle)
}

/// does `tx` spend `op` with a witness script that commits to payment hash `h` (BOLT-3 HTLC scripts contain
/// RIPEMD160(payment_hash))
fn spends_htlc_of(tx: &Transaction, op_txid: &Txid, h: &[u8; 32]) -> Option<u32> {
	let needle = hash160_of_payment_hash(h);
	for i in tx.input.iter() {
		if i.previous_output.txid == *op_txid {
			if let Some(ws) = i.witness.last() {
				if contains(ws, &needle) {
					return Some(i.previous_output.vout);
				}
			}
		}
	}
	None
}

// -------------------------------------------------------------------------------------------------
// observer: everything O concluded, stamped against the chain it had been told at that moment
// -------------------------------------------------------------------------------------------------

#[derive(Default)]
pub struct ObsStats {
	pub failbacks_checked: u64,
	pub failbacks_near_expiry: u64,
	pub failbacks_by_peer: u64,
	pub spendable_checked: u64,
	pub balance_forgets_checked: u64,
	pub balance_samples: u64,
}

pub struct Observer {
	o: usize,
	cur: usize,
	funding: BTreeMap<ChannelId, OutPoint>,
	funding_rev: HashMap<OutPoint, ChannelId>,
	inbound_adds: HashMap<(ChannelId, u64), ([u8; 32], u32)>,
	outbound_adds: HashMap<(ChannelId, u64), [u8; 32]>,
	out_chan_of: HashMap<[u8; 32], ChannelId>,
	inbound_expiry: HashMap<[u8; 32], u32>,
	failed_by_peer: HashSet<[u8; 32]>,
	/// outbound HTLCs fully committed when the script starts
	pub tracked: HashSet<[u8; 32]>,
	pub res: Vec<String>,
	pub closed: Vec<String>,
	pub spendable: Vec<String>,
	pub peers_closed: Vec<String>,
	bump_outpoints: Vec<OutPoint>,
	prev_bal: BTreeMap<ChannelId, (Option<Txid>, Vec<Balance>)>,
	pub disconnected_since_sample: bool,
	pub stats: ObsStats,
	pub labels: BTreeSet<String>,
}

fn reason_class(r: &ClosureReason) -> &'static str {
	match r {
		ClosureReason::CounterpartyForceClosed { .. } => "counterparty-force-closed",
		ClosureReason::HolderForceClosed { .. } => "holder-force-closed",
		ClosureReason::CommitmentTxConfirmed => "commitment-tx-confirmed",
		ClosureReason::HTLCsTimedOut { .. } => "htlcs-timed-out",
		ClosureReason::ProcessingError { .. } => "processing-error",
		ClosureReason::DisconnectedPeer => "disconnected-peer",
		ClosureReason::OutdatedChannelManager => "outdated-manager",
		ClosureReason::FundingTimedOut => "funding-timed-out",
		_ => "other",
	}
}

impl Observer {
	fn new(sim: &Sim, o: usize) -> Observer {
		let mut funding = BTreeMap::new();
		let mut funding_rev = HashMap::new();
		for c in sim.chans.iter() {
			if c.a == o || c.b == o {
				let op = OutPoint { txid: c.funding_tx.compute_txid(), vout: 0 };
				funding.insert(c.id, op);
				funding_rev.insert(op, c.id);
			}
		}
		Observer {
			o,
			cur: 0,
			funding,
			funding_rev,
			inbound_adds: HashMap::new(),
			outbound_adds: HashMap::new(),
			out_chan_of: HashMap::new(),
			inbound_expiry: HashMap::new(),
			failed_by_peer: HashSet::new(),
			tracked: HashSet::new(),
			res: vec![],
			closed: vec![],
			spendable: vec![],
			peers_closed: vec![],
			bump_outpoints: vec![],
			prev_bal: BTreeMap::new(),
			disconnected_since_sample: false,
			stats: ObsStats::default(),
			labels: BTreeSet::new(),
		}
	}

	/// (b1) an HTLC O offered is failed backwards (or reported failed to the payer) only when the transaction
	/// that settles it on chain is buried.
	fn check_failback(&mut self, sim: &Sim, h: &[u8; 32], what: &str) -> Result<(), Failure> {
		if !self.tracked.contains(h) {
			return Ok(());
		}
		if self.failed_by_peer.contains(h) {
			self.stats.failbacks_by_peer += 1;
			return Ok(());
		}
		let Some(chan) = self.out_chan_of.get(h).cloned() else { return Ok(()) };
		let blocks = sim.w.nodes[self.o].blocks.lock().unwrap().clone();
		let told = Told::new(&blocks);
		if let Some(exp) = self.inbound_expiry.get(h) {
			if told.tip + LATENCY_GRACE_PERIOD_BLOCKS >= *exp {
				// documented behaviour of a closed channel's monitor: give up on the forward HTLC shortly before the
				// inbound one expires
				self.stats.failbacks_near_expiry += 1;
				self.labels.insert("failback-near-inbound-expiry".into());
				return Ok(());
			}
		}
		self.stats.failbacks_checked += 1;
		let hx = vcore::hex(&h[..4]);
		let f = self.funding[&chan];
		let Some(c) = told.spender.get(&f).cloned() else {
			return Err(Failure::new("irreversible-before-burial", format!("{} for HTLC {} although no transaction spending the channel's funding output is in the chain O was told (tip {})", what, hx, told.tip)).with_key("irreversible-before-burial/failback-no-commitment"));
		};
		if told.confs(&c) < ANTI_REORG_DELAY {
			return Err(Failure::new("irreversible-before-burial", format!("{} for HTLC {} while the commitment transaction {} has only {} confirmations on the chain O was told (tip {})", what, hx, c, told.confs(&c), told.tip)).with_key("irreversible-before-burial/failback-commitment"));
		}
		// is there an output for this HTLC in the confirmed commitment? known from any transaction seen anywhere
		// that spends an output of it with the HTLC's script
		let mut vout: Option<u32> = None;
		for tx in sim.broadcasts.iter().flatten().chain(told.tx.values()) {
			if let Some(v) = spends_htlc_of(tx, &c, h) {
				vout = Some(v);
				break;
			}
		}
		if let Some(v) = vout {
			match told.spender.get(&OutPoint { txid: c, vout: v }) {
				None => {
					return Err(Failure::new("irreversible-before-burial", format!("{} for HTLC {} while its output {}:{} is unspent on the chain O was told (tip {})", what, hx, c, v, told.tip)).with_key("irreversible-before-burial/failback-unspent"));
				},
				Some(s) => {
					if told.confs(s) < ANTI_REORG_DELAY {
						return Err(Failure::new("irreversible-before-burial", format!("{} for HTLC {} while the transaction {} spending its output has only {} confirmations on the chain O was told (tip {})", what, hx, s, told.confs(s), told.tip)).with_key("irreversible-before-burial/failback-htlc-spend"));
					}
				},
			}
			self.labels.insert("failback-after-buried-htlc-spend".into());
		} else {
			self.labels.insert("failback-after-buried-commitment".into());
		}
		Ok(())
	}

	/// Read everything recorded since the last call. Must be called right after O's events were processed.
	fn scan(&mut self, sim: &Sim) -> Result<(), Failure> {
		let o = self.o;
		while self.cur < sim.log.len() {
			let ev = sim.log[self.cur].1.clone();
			self.cur += 1;
			match ev {
				SEvent::Deliver { to, wire: Wire::Add(m), .. } if to == o => {
					self.inbound_adds.insert((m.channel_id, m.htlc_id), (m.payment_hash.0, m.cltv_expiry));
					self.inbound_expiry.insert(m.payment_hash.0, m.cltv_expiry);
				},
				SEvent::Emit { from, wire: Wire::Add(m), .. } if from == o => {
					self.outbound_adds.insert((m.channel_id, m.htlc_id), m.payment_hash.0);
					self.out_chan_of.insert(m.payment_hash.0, m.channel_id);
				},
				SEvent::Deliver { to, wire: Wire::Fail(m), .. } if to == o => {
					if let Some(h) = self.outbound_adds.get(&(m.channel_id, m.htlc_id)) {
						self.failed_by_peer.insert(*h);
					}
				},
				SEvent::Deliver { to, wire: Wire::FailMalformed(m), .. } if to == o => {
					if let Some(h) = self.outbound_adds.get(&(m.channel_id, m.htlc_id)) {
						self.failed_by_peer.insert(*h);
					}
				},
				SEvent::Emit { from, wire: Wire::Fail(m), .. } if from == o => {
					if let Some((h, _)) = self.inbound_adds.get(&(m.channel_id, m.htlc_id)).cloned() {
						self.res.push(format!("fail-upstream {}", vcore::hex(&h)));
						self.check_failback(sim, &h, "update_fail_htlc sent upstream")?;
					}
				},
				SEvent::Emit { from, wire: Wire::Fulfill(m), .. } if from == o => {
					if let Some((h, _)) = self.inbound_adds.get(&(m.channel_id, m.htlc_id)).cloned() {
						self.res.push(format!("fulfill-upstream {}", vcore::hex(&h)));
					}
				},
				SEvent::Ldk { node, ev } if node == o => match ev {
					Event::PaymentSent { payment_hash, .. } => self.res.push(format!("sent {}", vcore::hex(&payment_hash.0))),
					Event::PaymentFailed { payment_hash: Some(h), .. } => {
						self.res.push(format!("failed {}", vcore::hex(&h.0)));
						self.check_failback(sim, &h.0, "PaymentFailed")?;
					},
					Event::PaymentClaimed { payment_hash, .. } => self.res.push(format!("claimed {}", vcore::hex(&payment_hash.0))),
					Event::PaymentForwarded { .. } => self.res.push("forwarded".into()),
					Event::HTLCHandlingFailed { failure_type, .. } => {
						let k = match failure_type {
							HTLCHandlingFailureType::Forward { .. } => "forward",
							HTLCHandlingFailureType::Receive { .. } => "receive",
							_ => "other",
						};
						// informational event: the library may emit it again for the same HTLC when chain data is
						// delivered redundantly (the upstream failure itself, compared above, is sent once), so only
						// its presence per class is compared, not its multiplicity
						let tag = format!("handling-failed {}", k);
						if !self.res.contains(&tag) {
							self.res.push(tag);
						}
					},
					Event::ChannelClosed { channel_id, reason, .. } => self.closed.push(format!("{} {}", vcore::hex(&channel_id.0[..4]), reason_class(&reason))),
					Event::SpendableOutputs { outputs, .. } => {
						// (b2) spendable outputs are announced only once the creating transaction is buried
						let blocks = sim.w.nodes[o].blocks.lock().unwrap().clone();
						let told = Told::new(&blocks);
						for d in outputs.iter() {
							let op = d.spendable_outpoint();
							self.stats.spendable_checked += 1;
							self.spendable.push(format!("{}:{}", op.txid, op.index));
							let c = told.confs(&op.txid);
							if c < ANTI_REORG_DELAY {
								return Err(Failure::new("irreversible-before-burial", format!("SpendableOutputs for {}:{} while its transaction has {} confirmations on the chain O was told (tip {})", op.txid, op.index, c, told.tip)).with_key("irreversible-before-burial/spendable"));
							}
						}
					},
					Event::BumpTransaction(BumpTransactionEvent::HTLCResolution { htlc_descriptors, .. }) => {
						for d in htlc_descriptors.iter() {
							self.bump_outpoints.push(d.outpoint());
						}
					},
					Event::BumpTransaction(BumpTransactionEvent::ChannelClose { commitment_tx, .. }) => {
						if let Some(i) = commitment_tx.input.first() {
							self.bump_outpoints.push(i.previous_output);
						}
					},
					_ => {},
				},
				SEvent::Ldk { node, ev: Event::ChannelClosed { channel_id, .. } } if node != o => {
					self.peers_closed.push(format!("n{} {}", node, vcore::hex(&channel_id.0[..4])));
				},
				_ => {},
			}
		}
		self.sample_balances(sim)
	}

	/// (b3) a per-HTLC balance of a channel closed on chain is dropped ("forgotten") only when the transaction
	/// that spent the HTLC output is buried. Compared between two consecutive samples that saw the same confirmed
	/// commitment transaction with nothing disconnected in between; a change of representation (the HTLC shows up
	/// as an amount awaiting confirmations) is not a disappearance.
	fn sample_balances(&mut self, sim: &Sim) -> Result<(), Failure> {
		let o = self.o;
		let cm = &sim.w.nodes[o].chain_monitor.chain_monitor;
		let mut now: BTreeMap<ChannelId, Vec<Balance>> = BTreeMap::new();
		for id in cm.list_monitors() {
			if let Ok(m) = cm.get_monitor(id) {
				now.insert(id, m.get_claimable_balances());
			}
		}
		self.stats.balance_samples += 1;
		let hashed = |b: &Balance| -> Option<([u8; 32], u64)> {
			match b {
				Balance::ContentiousClaimable { payment_hash, amount_satoshis, .. } => Some((payment_hash.0, *amount_satoshis)),
				Balance::MaybeTimeoutClaimableHTLC { payment_hash, amount_satoshis, .. } => Some((payment_hash.0, *amount_satoshis)),
				Balance::MaybePreimageClaimableHTLC { payment_hash, amount_satoshis, .. } => Some((payment_hash.0, *amount_satoshis)),
				_ => None,
			}
		};
		let awaiting = |v: &Vec<Balance>, amt: u64| v.iter().filter(|b| matches!(b, Balance::ClaimableAwaitingConfirmations { amount_satoshis, .. } if *amount_satoshis == amt)).count();
		let mut told: Option<Told> = None;
		let mut new_prev = BTreeMap::new();
		for (id, bals) in now.iter() {
			let closed_on_chain = !bals.iter().any(|b| matches!(b, Balance::ClaimableOnChannelClose { .. }));
			let mut commitment = None;
			if closed_on_chain {
				if told.is_none() {
					let blocks = sim.w.nodes[o].blocks.lock().unwrap().clone();
					told = Some(Told::new(&blocks));
				}
				if let Some(f) = self.funding.get(id) {
					commitment = told.as_ref().unwrap().spender.get(f).cloned();
				}
			}
			if let (Some(c), Some((Some(pc), pb))) = (commitment, self.prev_bal.get(id)) {
				if *pc == c && !self.disconnected_since_sample {
					let t = told.as_ref().unwrap();
					for (h, amt) in pb.iter().filter_map(hashed) {
						if bals.iter().filter_map(hashed).any(|(h2, _)| h2 == h) {
							continue;
						}
						if awaiting(bals, amt) > awaiting(pb, amt) {
							continue;
						}
						self.stats.balance_forgets_checked += 1;
						// the HTLC is gone from the balances: its output's spender must be buried
						let mut ok = false;
						let mut seen = String::new();
						for (op, s) in t.spender.iter().filter(|(op, _)| op.txid == c) {
							if spends_htlc_of(&t.tx[s], &c, &h) == Some(op.vout) {
								seen = format!("{} with {} confirmations", s, t.confs(s));
								if t.confs(s) >= ANTI_REORG_DELAY {
									ok = true;
								}
							}
						}
						if !ok {
							return Err(Failure::new("irreversible-before-burial", format!("the balance entry of HTLC {} ({} sat) on commitment {} was dropped; spender of its output on the chain O was told (tip {}): {}", vcore::hex(&h[..4]), amt, c, t.tip, if seen.is_empty() { "none".to_string() } else { seen })).with_key("irreversible-before-burial/balance-forgotten"));
						}
					}
				}
			}
			new_prev.insert(*id, (commitment, bals.clone()));
		}
		self.prev_bal = new_prev;
		self.disconnected_since_sample = false;
		Ok(())
	}
}

// -------------------------------------------------------------------------------------------------
// one replica
// -------------------------------------------------------------------------------------------------

#[derive(Default)]
pub struct RunOut {
	pub fingerprint: String,
	pub snaps: BTreeMap<usize, Snap>,
	pub labels: BTreeSet<String>,
	pub modes: BTreeSet<String>,
	pub calls: Vec<String>,
	pub stats: ObsStats,
	pub pending_at_script_start: usize,
	pub tracked: usize,
	pub closure: &'static str,
	pub final_snap: Option<Snap>,
	/// commitment transactions O itself broadcast
	pub own_commitments: Vec<String>,
}

pub struct Runner {
	pub sim: Sim,
	pub spec: WorldSpec,
	pub o: usize,
	base_len: usize,
	gchain: Vec<Block>,
	obs: Observer,
	debug: bool,
	out: RunOut,
	/// O's told chain as (hash, height, relevant txids)
	mirror: Vec<(BlockHash, u32, Vec<Txid>)>,
	relevant: HashSet<Txid>,
	rel_txs: HashMap<Txid, Transaction>,
	max_height_told: u32,
	know: BTreeSet<String>,
	know_preimages: BTreeSet<String>,
	was_buried: HashSet<Txid>,
	buried_removed: bool,
	last_was_disconnect: bool,
	bcast_cur: usize,
	all_hashes: HashSet<[u8; 32]>,
	expiries: Vec<u32>,
	salt: u32,
	reloads: u32,
	/// channels O knew to be closed before the chain script started
	closed_offchain: HashSet<ChannelId>,
	pub prof: BTreeMap<&'static str, std::time::Duration>,
}

fn quiet_pump_rounds() -> usize {
	40
}

impl Runner {
	/// Build the world, run the traffic prefix and the closure. Identical in every replica.
	pub fn setup(sc: &Scenario, debug: bool) -> Runner {
		set_active(false);
		let mut spec = sc.spec.clone();
		spec.deferred = false;
		let mut sim = spec.build(false);
		let n = sim.w.n;
		let o = pick(sc.observed, n);
		for op in sc.prefix.iter() {
			apply(&mut sim, &spec, op);
		}
		apply(&mut sim, &spec, &Op::Pump);
		apply(&mut sim, &spec, &Op::Pump);
		let mut obs = Observer::new(&sim, o);
		let mut expiries = vec![];
		let mut tracked_desc = vec![];
		for (ci, c) in sim.chans.iter().enumerate() {
			if c.a != o && c.b != o {
				continue;
			}
			if let Some(d) = sim.chan_details(o, ci) {
				for h in d.pending_outbound_htlcs.iter() {
					expiries.push(h.cltv_expiry);
					if h.state == Some(OutboundHTLCStateDetails::Committed) {
						obs.tracked.insert(h.payment_hash.0);
						tracked_desc.push(format!("out {} {} {} {}", ci, vcore::hex(&h.payment_hash.0[..6]), h.amount_msat, h.cltv_expiry));
					}
				}
				for h in d.pending_inbound_htlcs.iter() {
					expiries.push(h.cltv_expiry);
					tracked_desc.push(format!("in {} {} {} {}", ci, vcore::hex(&h.payment_hash.0[..6]), h.amount_msat, h.cltv_expiry));
				}
			}
		}
		expiries.sort();
		expiries.dedup();
		tracked_desc.sort();
		let all_hashes: HashSet<[u8; 32]> = sim.pays.iter().map(|p| p.hash.0).collect();
		let base_len = sim.w.nodes[o].blocks.lock().unwrap().len();
		let mut r = Runner {
			sim,
			spec,
			o,
			base_len,
			gchain: vec![],
			obs,
			debug,
			out: RunOut::default(),
			mirror: vec![],
			relevant: HashSet::new(),
			rel_txs: HashMap::new(),
			max_height_told: 0,
			know: BTreeSet::new(),
			know_preimages: BTreeSet::new(),
			was_buried: HashSet::new(),
			buried_removed: false,
			last_was_disconnect: false,
			bcast_cur: 0,
			all_hashes,
			expiries,
			salt: 1000,
			reloads: 0,
			closed_offchain: HashSet::new(),
			prof: BTreeMap::new(),
		};
		r.out.tracked = r.obs.tracked.len();
		r.out.pending_at_script_start = r.sim.pays.iter().filter(|p| p.state == PayState::Claimable).count();
		// closure
		r.out.closure = "none";
		if let Closure::Force { chan, by_observed, tell_peer } = &sc.closure {
			let mine: Vec<usize> = (0..r.sim.chans.len()).filter(|c| r.sim.chans[*c].a == o || r.sim.chans[*c].b == o).collect();
			let ci = mine[pick(*chan, mine.len())];
			let peer = r.sim.peer_of(ci, o);
			let (closer, other) = if *by_observed { (o, peer) } else { (peer, o) };
			if r.sim.chan_details(closer, ci).is_some() {
				if !*tell_peer {
					r.sim.disconnect(closer, other);
				}
				let id = r.sim.chans[ci].id;
				let other_id = r.sim.w.node_id(other);
				let res = r.sim.w.nodes[closer].node.force_close_broadcasting_latest_txn(&id, &other_id, "harness force close".to_string());
				r.sim.rec(SEvent::Api { node: closer, what: format!("force_close chan {}", ci), ok: res.is_ok(), detail: format!("{:?}", res) });
				r.sim.drain(closer);
				r.out.closure = match (*by_observed, *tell_peer) {
					(true, true) => "by-observed-told",
					(true, false) => "by-observed-silent",
					(false, true) => "by-peer-told",
					(false, false) => "by-peer-silent",
				};
			}
		}
		let _ = r.quiesce();
		for id in r.obs.funding.keys() {
			if !r.sim.w.nodes[o].node.list_channels().iter().any(|c| c.channel_id == *id) {
				r.closed_offchain.insert(*id);
			}
		}
		let mut txids: Vec<String> = r.sim.broadcasts.iter().flatten().map(|t| t.compute_txid().to_string()).collect();
		txids.sort();
		txids.dedup();
		let fund: Vec<String> = r.sim.chans.iter().map(|c| c.funding_tx.compute_txid().to_string()).collect();
		let pays: Vec<String> = r.sim.pays.iter().map(|p| format!("{:?}", p.state)).collect();
		r.out.fingerprint = format!("{:?}|{:?}|{:?}|{:?}", fund, tracked_desc, txids, pays);
		r
	}

	fn say(&mut self, s: String) {
		if self.debug {
			self.out.calls.push(s);
		}
	}

	// ---- O's event pump ----------------------------------------------------------------------------

	/// Process O's events and forwards right now and check what it concluded against the chain it was told.
	fn pump_o(&mut self) -> Result<bool, Failure> {
		let was = observed_node_active();
		set_active(true);
		let t = std::time::Instant::now();
		let r = self.pump_o_inner();
		*self.prof.entry("x-pump-o").or_default() += t.elapsed();
		set_active(was);
		r
	}

	fn pump_o_inner(&mut self) -> Result<bool, Failure> {
		let o = self.o;
		let mut progress = false;
		if !self.sim.process_events(o).is_empty() {
			progress = true;
		}
		if self.sim.w.nodes[o].node.needs_pending_htlc_processing() {
			self.sim.process_forwards(o);
			progress = true;
		}
		self.sim.w.nodes[o].chain_monitor.added_monitors.lock().unwrap().clear();
		self.note_own_broadcasts();
		let t = std::time::Instant::now();
		self.obs.scan(&self.sim)?;
		*self.prof.entry("y-scan").or_default() += t.elapsed();
		Ok(progress)
	}

	/// transactions O itself broadcast that descend from a funding output are channel transactions in every
	/// replica, whether or not this replica was ever shown them in a block
	fn note_own_broadcasts(&mut self) {
		let o = self.o;
		while self.bcast_cur < self.sim.broadcasts[o].len() {
			let tx = self.sim.broadcasts[o][self.bcast_cur].clone();
			self.bcast_cur += 1;
			if self.is_relevant(&tx) {
				self.relevant.insert(tx.compute_txid());
				if tx.input.iter().any(|i| self.obs.funding_rev.contains_key(&i.previous_output)) {
					self.out.own_commitments.push(tx.compute_txid().to_string());
				}
				self.rel_txs.insert(tx.compute_txid(), tx);
			}
		}
	}

	/// deliver / forward / process events until nothing moves (no reconnects, no chain activity)
	fn quiesce(&mut self) -> Result<bool, Failure> {
		let n = self.sim.w.n;
		for _ in 0..quiet_pump_rounds() {
			let mut progress = false;
			self.sim.drain_all();
			let live: Vec<(usize, usize)> = self.sim.links.iter().filter(|(k, q)| !q.is_empty() && self.sim.is_connected(k.0, k.1)).map(|(k, _)| *k).collect();
			for (f, t) in live {
				if self.sim.deliver(f, t, 1) > 0 {
					progress = true;
				}
			}
			for i in 0..n {
				if i == self.o {
					if self.pump_o()? {
						progress = true;
					}
				} else {
					if self.sim.w.nodes[i].node.needs_pending_htlc_processing() {
						self.sim.process_forwards(i);
						progress = true;
					}
					if !self.sim.process_events(i).is_empty() {
						progress = true;
					}
				}
			}
			if !progress {
				self.sim.trim();
				return Ok(true);
			}
		}
		self.sim.trim();
		self.out.labels.insert("not-quiescent".into());
		Ok(false)
	}

	// ---- O's chain client ---------------------------------------------------------------------------

	fn o_tip(&self) -> (BlockHash, u32) {
		self.sim.w.nodes[self.o].best_block_info()
	}

	fn o_chain_hashes(&self) -> Vec<BlockHash> {
		self.sim.w.nodes[self.o].blocks.lock().unwrap()[self.base_len..].iter().map(|b| b.0.block_hash()).collect()
	}

	fn is_relevant(&self, tx: &Transaction) -> bool {
		tx.input.iter().any(|i| self.obs.funding_rev.contains_key(&i.previous_output) || self.relevant.contains(&i.previous_output.txid))
	}

	/// bring the bookkeeping about the chain O was told in line with `node.blocks` (which the helpers mutate)
	fn resync_told(&mut self) {
		let hashes = self.o_chain_hashes();
		let mut common = 0;
		while common < hashes.len() && common < self.mirror.len() && self.mirror[common].0 == hashes[common] {
			common += 1;
		}
		if self.mirror.len() > common {
			for (_, _, rel) in self.mirror[common..].iter() {
				// a preimage that was shown in a block which is now leaving the chain: O may have acted on it (it
				// fulfils upstream at once) while a replica that only sees it later, or never, fails the HTLC back;
				// the two were not given the same information in time, so they get the partial comparison of a
				// preimage known to one replica only
				for t in rel.iter() {
					if let Some(tx) = self.rel_txs.get(t) {
						for i in tx.input.iter() {
							for w in i.witness.iter() {
								if w.len() == 32 {
									let h = sha256::Hash::hash(w).to_byte_array();
									if self.all_hashes.contains(&h) {
										self.know_preimages.insert(format!("shown-in-removed-block:{}", vcore::hex(&h)));
									}
								}
							}
						}
					}
				}
				if rel.iter().any(|t| self.was_buried.contains(t)) {
					// removed after it had reached the anti-reorg depth: the library treats it as final for good (a
					// re-confirmation is skipped as "already confirmed"), the states need not converge again
					self.buried_removed = true;
					self.out.labels.insert("reorg-removes-buried-tx".into());
				}
			}
			self.mirror.truncate(common);
			self.obs.disconnected_since_sample = true;
		}
		if hashes.len() > common {
			let blocks: Vec<(Block, u32)> = self.sim.w.nodes[self.o].blocks.lock().unwrap()[self.base_len + common..].to_vec();
			for (b, h) in blocks {
				let mut rel = vec![];
				for tx in b.txdata.iter() {
					if self.is_relevant(tx) {
						let id = tx.compute_txid();
						self.relevant.insert(id);
						self.rel_txs.insert(id, tx.clone());
						rel.push(id);
						for i in tx.input.iter() {
							if let Some(c) = self.obs.funding_rev.get(&i.previous_output) {
								if !self.closed_offchain.contains(c) {
									self.know.insert(format!("funding-spend-shown {}", vcore::hex(&c.0[..4])));
								}
							}
							for w in i.witness.iter() {
								if w.len() == 32 {
									let h = sha256::Hash::hash(w).to_byte_array();
									if self.all_hashes.contains(&h) {
										self.know_preimages.insert(vcore::hex(&h));
									}
								}
							}
						}
					}
				}
				self.mirror.push((b.block_hash(), h, rel));
				// channel transactions that now have ANTI_REORG_DELAY confirmations on the chain O was told
				if h + 1 >= ANTI_REORG_DELAY {
					let deep = h + 1 - ANTI_REORG_DELAY;
					for (_, bh, rel) in self.mirror.iter() {
						if *bh == deep {
							for t in rel.iter() {
								self.was_buried.insert(*t);
							}
						}
					}
				}
			}
		}
	}

	/// Some channel transaction had reached the anti-reorg depth on a chain O was told and has fewer
	/// confirmations (or none) now: whatever O concluded irreversibly from it was legitimate, so equivalence with
	/// a replica that never saw it buried is not claimed while this lasts.
	fn unburied_now(&self) -> bool {
		let tip = self.mirror.last().map(|m| m.1).unwrap_or(0);
		let mut confs: HashMap<Txid, u32> = HashMap::new();
		for (_, h, rel) in self.mirror.iter() {
			for t in rel.iter() {
				confs.insert(*t, tip - h + 1);
			}
		}
		self.buried_removed || self.was_buried.iter().any(|t| confs.get(t).cloned().unwrap_or(0) < ANTI_REORG_DELAY)
	}

	fn after_o_call(&mut self) -> Result<(), Failure> {
		self.resync_told();
		{
			// the highest block the library objects themselves have been told about (skipped best blocks do not count)
			let nd = &self.sim.w.nodes[self.o];
			let mut h = nd.node.current_best_block().height;
			let cm = &nd.chain_monitor.chain_monitor;
			for id in cm.list_monitors() {
				if let Ok(m) = cm.get_monitor(id) {
					h = h.max(m.current_best_block().height);
				}
			}
			self.max_height_told = self.max_height_told.max(h);
		}
		self.pump_o()?;
		Ok(())
	}

	/// the client learns a block: `node.blocks` (which the test broadcaster uses for its locktime sanity check)
	/// and the test wallet are updated exactly like `connect_block` does
	fn o_push(&mut self, b: &Block) -> u32 {
		let nd = &self.sim.w.nodes[self.o];
		let h = {
			let mut blocks = nd.blocks.lock().unwrap();
			let h = blocks.last().unwrap().1 + 1;
			blocks.push((b.clone(), h));
			h
		};
		let wallet_script = lightning::util::wallet_utils::WalletSourceSync::get_change_script(&*nd.wallet_source).unwrap();
		for tx in b.txdata.iter() {
			for i in tx.input.iter() {
				nd.wallet_source.remove_utxo(i.previous_output);
			}
			for (idx, out) in tx.output.iter().enumerate() {
				if out.script_pubkey == wallet_script {
					nd.wallet_source.add_utxo(tx.clone(), idx as u32);
				}
			}
		}
		h
	}

	/// indices of the block's transactions matching O's `Filter` registrations that were not handed over yet
	fn matching(&self, b: &Block, given: &HashSet<usize>) -> Vec<usize> {
		let cs = self.sim.w.nodes[self.o].chain_source;
		let wt = cs.watched_txn.lock().unwrap();
		let wo = cs.watched_outputs.lock().unwrap();
		let mut out = vec![];
		for (i, tx) in b.txdata.iter().enumerate() {
			if given.contains(&i) {
				continue;
			}
			let id = tx.compute_txid();
			if wt.iter().any(|(t, _)| *t == id) || tx.input.iter().any(|inp| wo.iter().any(|(op, _)| op.into_bitcoin_outpoint() == inp.previous_output)) {
				out.push(i);
			}
		}
		out
	}

	fn with_confirm<F: Fn(&dyn Confirm)>(&self, mgr_first: bool, f: F) {
		let nd = &self.sim.w.nodes[self.o];
		let mon: &dyn Confirm = &nd.chain_monitor.chain_monitor;
		let mgr: &dyn Confirm = nd.node;
		if mgr_first {
			f(mgr);
			f(mon);
		} else {
			f(mon);
			f(mgr);
		}
	}

	fn with_listen<F: Fn(&dyn Listen)>(&self, mgr_first: bool, f: F) {
		let nd = &self.sim.w.nodes[self.o];
		let mon: &dyn Listen = &nd.chain_monitor.chain_monitor;
		let mgr: &dyn Listen = nd.node;
		if mgr_first {
			f(mgr);
			f(mon);
		} else {
			f(mon);
			f(mgr);
		}
	}

	/// the best blocks the library objects themselves report (manager first, then every monitor)
	fn ldk_bests(&self) -> Vec<BlockHash> {
		let nd = &self.sim.w.nodes[self.o];
		let mut v = vec![nd.node.current_best_block().block_hash];
		let cm = &nd.chain_monitor.chain_monitor;
		for id in cm.list_monitors() {
			if let Ok(m) = cm.get_monitor(id) {
				v.push(m.current_best_block().block_hash);
			}
		}
		v
	}

	/// manager and monitors all consider the client's tip their best block
	fn aligned(&self) -> bool {
		let tip = self.o_tip().0;
		self.ldk_bests().iter().all(|h| *h == tip)
	}

	/// tell both objects the client's tip as best block (Confirm)
	fn align_o(&mut self) -> Result<(), Failure> {
		if self.aligned() {
			return Ok(());
		}
		let (tip_block, h) = self.sim.w.nodes[self.o].blocks.lock().unwrap().last().unwrap().clone();
		self.say(format!("  align: best_block_updated({}, {})", short_hash(&tip_block.block_hash()), h));
		self.with_confirm(false, |x| x.best_block_updated(&tip_block.header, h));
		self.after_o_call()
	}

	fn set_style(&mut self, s: u8) {
		*self.sim.w.nodes[self.o].connect_style.borrow_mut() = connect_style_of(s);
	}

	fn o_connect(&mut self, blocks: Vec<Block>, conn: &Conn) -> Result<(), Failure> {
		match conn {
			Conn::Helper(s) => {
				self.align_o()?;
				self.set_style(*s);
				self.out.modes.insert(format!("helper-connect:{:?}", connect_style_of(*s)));
				for b in blocks.iter() {
					self.say(format!("  connect_block[{:?}]({}) txs={}", connect_style_of(*s), short_hash(&b.block_hash()), b.txdata.len()));
					connect_block(&self.sim.w.nodes[self.o], b);
					self.after_o_call()?;
				}
			},
			Conn::Listen { filtered, mgr_first } => {
				self.align_o()?;
				self.out.modes.insert(format!("listen{}{}", if *filtered { "-filtered" } else { "-full" }, if *mgr_first { "-mgr-first" } else { "" }));
				for b in blocks.iter() {
					let h = self.o_push(b);
					if *filtered {
						let mut given: HashSet<usize> = HashSet::new();
						let mut first = true;
						loop {
							let m = self.matching(b, &given);
							if m.is_empty() && !first {
								break;
							}
							self.say(format!("  filtered_block_connected({}, {}) txs {:?}{}", short_hash(&b.block_hash()), h, m, if first { "" } else { " (second call, new filter matches)" }));
							let txdata: Vec<(usize, &Transaction)> = m.iter().map(|i| (*i, &b.txdata[*i])).collect();
							self.with_listen(*mgr_first, |x| x.filtered_block_connected(&b.header, &txdata, h));
							given.extend(m);
							first = false;
							self.resync_told();
						}
					} else {
						self.say(format!("  block_connected({}, {}) txs={}", short_hash(&b.block_hash()), h, b.txdata.len()));
						self.with_listen(*mgr_first, |x| x.block_connected(b, h));
					}
					self.after_o_call()?;
				}
			},
			Conn::Confirm { best_first, dup, skip_best, filtered, split, mgr_first } => {
				self.out.modes.insert(format!(
					"confirm{}{}{}{}{}{}",
					if *best_first { "-best-first" } else { "-txs-first" },
					if *dup { "-dup" } else { "" },
					if *skip_best { "-skip-best" } else { "" },
					if *filtered { "-filtered" } else { "" },
					if *split { "-split" } else { "" },
					if *mgr_first { "-mgr-first" } else { "" }
				));
				// after a reorg announced only through transaction_unconfirmed the objects' best block is on the old
				// branch: no transaction may be confirmed under a header outside the chain of the last
				// best_block_updated, so a best block of the new chain comes first
				let stale = {
					let known: HashSet<BlockHash> = self.sim.w.nodes[self.o].blocks.lock().unwrap().iter().map(|b| b.0.block_hash()).collect();
					self.ldk_bests().iter().any(|h| !known.contains(h))
				};
				let batch_tip_first = *best_first && *skip_best;
				let mut heights = vec![];
				if batch_tip_first || stale {
					// the client learns all the blocks, announces the new tip, then confirms in chain order
					for b in blocks.iter() {
						heights.push(self.o_push(b));
					}
					let (tb, th) = (blocks.last().unwrap().clone(), *heights.last().unwrap());
					self.say(format!("  best_block_updated({}, {}) [tip first]", short_hash(&tb.block_hash()), th));
					self.with_confirm(*mgr_first, |x| x.best_block_updated(&tb.header, th));
					self.after_o_call()?;
				}
				for (bi, b) in blocks.iter().enumerate() {
					let h = if batch_tip_first || stale { heights[bi] } else { self.o_push(b) };
					let per_block_best = !(batch_tip_first || stale) && !*skip_best;
					if per_block_best && *best_first {
						self.say(format!("  best_block_updated({}, {})", short_hash(&b.block_hash()), h));
						self.with_confirm(*mgr_first, |x| x.best_block_updated(&b.header, h));
						self.after_o_call()?;
					}
					let mut given: HashSet<usize> = HashSet::new();
					let mut first = true;
					loop {
						let m: Vec<usize> = if *filtered { self.matching(b, &given) } else if first { (0..b.txdata.len()).collect() } else { vec![] };
						if m.is_empty() {
							break;
						}
						let parts: Vec<Vec<usize>> = if *split && m.len() > 1 { vec![m[..m.len() / 2].to_vec(), m[m.len() / 2..].to_vec()] } else { vec![m.clone()] };
						for p in parts {
							let txdata: Vec<(usize, &Transaction)> = p.iter().map(|i| (*i, &b.txdata[*i])).collect();
							for rep in 0..(if *dup { 2 } else { 1 }) {
								self.say(format!("  transactions_confirmed({}, {}) txs {:?}{}", short_hash(&b.block_hash()), h, p, if rep > 0 { " (repeated)" } else { "" }));
								self.with_confirm(*mgr_first, |x| x.transactions_confirmed(&b.header, &txdata, h));
							}
						}
						given.extend(m);
						first = false;
						self.resync_told();
					}
					self.after_o_call()?;
					if per_block_best && !*best_first {
						self.say(format!("  best_block_updated({}, {})", short_hash(&b.block_hash()), h));
						self.with_confirm(*mgr_first, |x| x.best_block_updated(&b.header, h));
						self.after_o_call()?;
					}
				}
			},
		}
		Ok(())
	}

	fn locator(&self, height: u32, full: bool) -> BlockLocator {
		let blocks = self.sim.w.nodes[self.o].blocks.lock().unwrap();
		let mut l = BlockLocator::new(blocks[height as usize].0.block_hash(), height);
		if full {
			for i in 0..l.previous_blocks.len() {
				let hh = height as i64 - 1 - i as i64;
				if hh >= 0 {
					l.previous_blocks[i] = Some(blocks[hh as usize].0.block_hash());
				}
			}
		}
		l
	}

	fn o_disconnect(&mut self, d: u32, disc: &Disc) -> Result<(), Failure> {
		self.obs.disconnected_since_sample = true;
		match disc {
			Disc::Helper(s) => {
				self.align_o()?;
				self.set_style(*s);
				self.out.modes.insert(format!("helper-disconnect:{:?}", connect_style_of(*s)));
				self.say(format!("  disconnect_blocks[{:?}]({})", connect_style_of(*s), d));
				disconnect_blocks(&self.sim.w.nodes[self.o], d);
				self.after_o_call()?;
			},
			Disc::Unconfirm { then_best, mgr_first } => {
				self.out.modes.insert(format!("unconfirm-per-tx{}", if *then_best { "-then-best" } else { "" }));
				let dead: HashSet<BlockHash> = {
					let blocks = self.sim.w.nodes[self.o].blocks.lock().unwrap();
					blocks[blocks.len() - d as usize..].iter().map(|b| b.0.block_hash()).collect()
				};
				let log = std::cell::RefCell::new(vec![]);
				self.with_confirm(*mgr_first, |x| {
					let mut rel = x.get_relevant_txids();
					rel.sort();
					for (txid, _h, hash) in rel {
						if hash.map(|hh| dead.contains(&hh)).unwrap_or(false) {
							log.borrow_mut().push(format!("  transaction_unconfirmed({})", txid));
							x.transaction_unconfirmed(&txid);
						}
					}
				});
				for l in log.into_inner() {
					self.say(l);
				}
				{
					let mut blocks = self.sim.w.nodes[self.o].blocks.lock().unwrap();
					let l = blocks.len() - d as usize;
					blocks.truncate(l);
				}
				self.after_o_call()?;
				if *then_best {
					self.align_o()?;
				}
			},
			Disc::ForkPoint { chunks, full_locator, mgr_first } => {
				self.align_o()?;
				let chunks = (*chunks as u32).clamp(1, d);
				self.out.modes.insert(format!("fork-point-{}{}", if chunks == 1 { "once" } else { "walking-back" }, if *full_locator { "-full-locator" } else { "" }));
				let tip_h = self.o_tip().1;
				let target = tip_h - d;
				let mut cur = tip_h;
				for k in 0..chunks {
					let step = (d / chunks).max(1);
					let next = if k == chunks - 1 { target } else { cur.saturating_sub(step).max(target) };
					if next >= cur {
						continue;
					}
					let loc = self.locator(next, *full_locator);
					self.say(format!("  blocks_disconnected(fork point {} at {})", short_hash(&loc.block_hash), next));
					self.with_listen(*mgr_first, |x| x.blocks_disconnected(loc));
					{
						let mut blocks = self.sim.w.nodes[self.o].blocks.lock().unwrap();
						blocks.truncate(next as usize + 1);
					}
					cur = next;
					self.after_o_call()?;
				}
			},
		}
		Ok(())
	}

	/// Move O's client towards the global chain as the plan step says.
	fn sync_o(&mut self, plan: &Plan, ps: &PStep, force: bool, trace: Option<&Trace>) -> Result<(), Failure> {
		set_active(true);
		let r = self.sync_o_inner(plan, ps, force, trace);
		set_active(false);
		r
	}

	fn sync_o_inner(&mut self, plan: &Plan, ps: &PStep, force: bool, trace: Option<&Trace>) -> Result<(), Failure> {
		let have = self.o_chain_hashes();
		let want: Vec<Block> = if plan.final_only {
			let fin = &trace.expect("final-only plans need the finished trace").final_hashes;
			self.gchain.iter().take_while(|b| fin.contains(&b.block_hash())).cloned().collect()
		} else {
			self.gchain.clone()
		};
		let mut common = 0;
		while common < have.len() && common < want.len() && have[common] == want[common].block_hash() {
			common += 1;
		}
		let stale = have.len() > common;
		if ps.lag && !force && !stale && !plan.final_only {
			// not told anything now; a client sitting on a replaced branch is not allowed to lag further, so that
			// what it eventually sees is never a reorg deeper than the script's forks
			self.out.modes.insert("lag".into());
			return Ok(());
		}
		if stale {
			let d = (have.len() - common) as u32;
			self.say(format!(" O: reorg of depth {} ({:?})", d, ps.disc));
			self.o_disconnect(d, &ps.disc)?;
		}
		if want.len() > common {
			let todo: Vec<Block> = want[common..].to_vec();
			self.say(format!(" O: {} block(s) to connect ({:?})", todo.len(), ps.conn));
			self.o_connect(todo, &ps.conn)?;
		}
		if force {
			self.align_o()?;
		}
		Ok(())
	}

	// ---- driving one trace event ---------------------------------------------------------------------

	fn apply_event(&mut self, idx: usize, ev: &TEv, plan: &Plan, last: bool, trace: Option<&Trace>, checkpoint: bool) -> Result<(), Failure> {
		let n = self.sim.w.n;
		let t0 = std::time::Instant::now();
		match ev {
			TEv::Connect(b) => {
				self.say(format!("#{} CONNECT {} height {} txs {:?}", idx, short_hash(&b.block_hash()), self.base_len + self.gchain.len(), b.txdata.iter().map(|t| t.compute_txid().to_string()[..8].to_string()).collect::<Vec<_>>()));
				self.gchain.push(b.clone());
				self.last_was_disconnect = false;
				for i in 0..n {
					if i != self.o {
						self.sim.deliver_block(i, b);
					}
				}
			},
			TEv::Disconnect(d) => {
				self.last_was_disconnect = true;
				self.say(format!("#{} DISCONNECT {}", idx, d));
				let l = self.gchain.len() - *d as usize;
				self.gchain.truncate(l);
				for i in 0..n {
					if i != self.o {
						disconnect_blocks(&self.sim.w.nodes[i], *d);
						self.sim.drain(i);
					}
				}
			},
			TEv::Claim(p) => {
				self.say(format!("#{} CLAIM pay#{}", idx, p));
				let synced = self.o_chain_hashes() == self.gchain.iter().map(|b| b.block_hash()).collect::<Vec<_>>() && self.aligned();
				let global_height = (self.base_len + self.gchain.len()) as u32 - 1;
				let near_expiry = *p < self.sim.pays.len() && self.sim.pays[*p].cltv_expiry <= global_height.max(self.max_height_told) + lightning::chain::channelmonitor::HTLC_FAIL_BACK_BUFFER + 2;
				if !synced && near_expiry && (self.sim.pays[*p].to == self.o || self.sim.pays[*p].path_nodes.contains(&self.o)) {
					// an off-chain input (claim_funds / a fulfil arriving) reaches O close to the HTLC's expiry while the
					// library's view of the chain lags: whether the HTLC was already failed back for being too close to
					// its expiry depends on more than the chain it is told about eventually
					self.know.insert(format!("claim-while-not-synced pay#{}", p));
					self.out.labels.insert("claim-arrives-while-not-synced".into());
				}
				if *p < self.sim.pays.len() && self.sim.pays[*p].state == PayState::Claimable {
					self.sim.claim(*p);
				} else {
					self.out.labels.insert("replica-divergence:claim".into());
				}
			},
		}
		let ps = plan.steps[idx % plan.steps.len()].clone();
		*self.prof.entry("1-others").or_default() += t0.elapsed();
		let t1 = std::time::Instant::now();
		self.sync_o(plan, &ps, last, trace)?;
		*self.prof.entry("2-sync-o").or_default() += t1.elapsed();
		let t2 = std::time::Instant::now();
		self.quiesce()?;
		if ps.reload && !last {
			self.reload_o()?;
			self.quiesce()?;
		}
		*self.prof.entry("3-quiesce").or_default() += t2.elapsed();
		let _t3 = std::time::Instant::now();
		if checkpoint || last {
			let synced = self.o_chain_hashes() == self.gchain.iter().map(|b| b.block_hash()).collect::<Vec<_>>() && self.aligned();
			if synced {
				let s = self.snapshot()?;
				if last {
					self.out.final_snap = Some(s.clone());
				}
				self.out.snaps.insert(idx, s);
			}
		}
		*self.prof.entry("4-snapshot").or_default() += _t3.elapsed();
		Ok(())
	}

	/// Stop O, write its manager and monitors, read them back and install them without telling them anything about
	/// the chain; the peers it was connected to reconnect.
	fn reload_o(&mut self) -> Result<(), Failure> {
		let o = self.o;
		set_active(true);
		let r = self.sim.reload_live(o);
		set_active(false);
		let peers = match r {
			Ok(p) => p,
			Err(e) => return Err(Failure::new("reload", format!("the observed node could not be reloaded from the images it had just written: {}", e)).with_key("reload/read-failed")),
		};
		self.reloads += 1;
		self.out.modes.insert("reload".into());
		self.say(format!("  RELOAD of the observed node (manager + {} monitors written and read back), reconnecting {:?}", self.sim.w.nodes[o].chain_monitor.chain_monitor.list_monitors().len(), peers));
		for j in peers {
			self.sim.reconnect(o, j);
		}
		set_active(true);
		let r = self.after_o_call();
		set_active(false);
		r
	}

	/// the set of outputs O is currently trying to claim: ask the chain monitor to rebroadcast its pending claims
	/// and read the inputs (or, for anchor channels, the bump events)
	fn probe_pursued(&mut self) -> Result<(Vec<String>, Vec<String>), Failure> {
		set_active(true);
		let r = self.probe_pursued_inner();
		set_active(false);
		r
	}

	fn probe_pursued_inner(&mut self) -> Result<(Vec<String>, Vec<String>), Failure> {
		let o = self.o;
		self.pump_o()?;
		let before = self.sim.broadcasts[o].len();
		self.obs.bump_outpoints.clear();
		self.sim.w.nodes[o].chain_monitor.chain_monitor.rebroadcast_pending_claims();
		self.sim.drain(o);
		self.pump_o()?;
		let mut set: BTreeSet<String> = BTreeSet::new();
		let wallet_script = lightning::util::wallet_utils::WalletSourceSync::get_change_script(&*self.sim.w.nodes[o].wallet_source).unwrap();
		// only claims against outputs that exist on the chain O was told are compared: right after a force close the
		// monitor also holds claims against the outputs of its still unconfirmed commitment, which it drops when the
		// commitment is reorganised out and re-creates when it confirms again (a transient difference)
		let confirmed: HashSet<Txid> = self.mirror.iter().flat_map(|m| m.2.iter().cloned()).collect();
		let exists = |op: &OutPoint, funding: &HashMap<OutPoint, ChannelId>| funding.contains_key(op) || confirmed.contains(&op.txid);
		for tx in self.sim.broadcasts[o][before..].iter() {
			for i in tx.input.iter() {
				let op = i.previous_output;
				// fee inputs taken from the node's own wallet (change of an earlier bump) are not claims
				let wallet_input = self.rel_txs.get(&op.txid).and_then(|t| t.output.get(op.vout as usize)).map(|o| o.script_pubkey == wallet_script).unwrap_or(false);
				if wallet_input {
					continue;
				}
				if exists(&op, &self.obs.funding_rev) {
					set.insert(format!("{}:{}", op.txid, op.vout));
				}
			}
		}
		// claims against outputs of a transaction that was reorganised out and whose input is now spent by another
		// confirmed transaction can never become valid
		let mut stale: Vec<String> = vec![];
		{
			let told_spender: HashMap<OutPoint, Txid> = self.mirror.iter().flat_map(|m| m.2.iter()).filter_map(|t| self.rel_txs.get(t)).flat_map(|t| t.input.iter().map(move |i| (i.previous_output, t.compute_txid()))).collect();
			for tx in self.sim.broadcasts[o][before..].iter() {
				for i in tx.input.iter() {
					let op = i.previous_output;
					if confirmed.contains(&op.txid) {
						continue;
					}
					if let Some(parent) = self.rel_txs.get(&op.txid) {
						// the test wallet never forgets the change output of a bump transaction that was reorganised out
						if parent.output.get(op.vout as usize).map(|o| o.script_pubkey == wallet_script).unwrap_or(false) {
							continue;
						}
						if parent.input.iter().any(|pi| told_spender.get(&pi.previous_output).map(|s| *s != op.txid).unwrap_or(false)) {
							stale.push(format!("{}:{}", op.txid, op.vout));
						}
					}
				}
			}
		}
		if !stale.is_empty() {
			// (c) retraction: every effect of a transaction removed by a shallow reorg must be gone
			self.out.labels.insert("claim-pursued-against-output-of-replaced-transaction".into());
			self.say(format!("  stale claims against outputs of replaced transactions: {:?}", stale));
			if !self.unburied_now() {
				let tip = self.o_tip();
				return Err(Failure::new("retraction", format!("at tip {}@{} the node still claims {:?}: outputs of a transaction that was reorganised out (never buried) and whose own input is meanwhile spent by a different confirmed transaction", short_hash(&tip.0), tip.1, stale)).with_key("retraction/claim-against-output-of-replaced-transaction"));
			}
		}
		for op in self.obs.bump_outpoints.drain(..) {
			if exists(&op, &self.obs.funding_rev) {
				set.insert(format!("{}:{}", op.txid, op.vout));
			}
		}
		let spent_on_chain: HashSet<String> = self.mirror.iter().flat_map(|m| m.2.iter()).filter_map(|t| self.rel_txs.get(t)).flat_map(|t| t.input.iter().map(|i| format!("{}:{}", i.previous_output.txid, i.previous_output.vout))).collect();
		let spent: Vec<String> = set.iter().filter(|p| spent_on_chain.contains(*p)).cloned().collect();
		Ok((set.into_iter().collect(), spent))
	}

	fn snapshot(&mut self) -> Result<Snap, Failure> {
		let o = self.o;
		let (pursued, pursued_spent) = self.probe_pursued()?;
		let nd = &self.sim.w.nodes[o];
		let cm = &nd.chain_monitor.chain_monitor;
		let mut s = Snap::default();
		let tip = self.o_tip();
		s.tip = format!("{}@{}", short_hash(&tip.0), tip.1);
		let mb = nd.node.current_best_block();
		s.best.push(format!("manager {}@{}", short_hash(&mb.block_hash), mb.height));
		let mut mons = cm.list_monitors();
		mons.sort();
		for id in mons.iter() {
			if let Ok(m) = cm.get_monitor(*id) {
				let b = m.current_best_block();
				s.best.push(format!("monitor {} {}@{}", vcore::hex(&id.0[..4]), short_hash(&b.block_hash), b.height));
				let mut bals: Vec<String> = m.get_claimable_balances().iter().map(|b| format!("{} {:?}", vcore::hex(&id.0[..4]), b)).collect();
				bals.sort();
				s.balances.extend(bals);
			}
		}
		for c in nd.node.list_channels() {
			s.channels.push(format!("{} ready={} confirmations={:?} required={:?}", vcore::hex(&c.channel_id.0[..4]), c.is_channel_ready, c.confirmations, c.confirmations_required));
		}
		s.channels.sort();
		let fmt_rel = |v: Vec<(Txid, u32, Option<BlockHash>)>| -> Vec<String> {
			let mut out: Vec<String> = v.into_iter().map(|(t, h, b)| format!("{} {} {}", t, h, b.map(|x| short_hash(&x)).unwrap_or_default())).collect();
			out.sort();
			out
		};
		s.rel_mgr = fmt_rel(Confirm::get_relevant_txids(nd.node));
		s.rel_mon = fmt_rel(Confirm::get_relevant_txids(cm));
		// which channels O considers closed. The ClosureReason is not compared: whether the manager notices an
		// expired HTLC first (HTLCsTimedOut) or is shown the confirmed commitment first (CommitmentTxConfirmed)
		// depends on the call schedule, the closing transaction does not.
		s.closed = self.obs.closed.iter().map(|c| c.split(' ').next().unwrap_or("").to_string()).collect();
		s.closed.sort();
		s.closed_reasons = self.obs.closed.clone();
		s.closed_reasons.sort();
		s.htlc = self.obs.res.clone();
		s.htlc.sort();
		s.spendable = self.obs.spendable.clone();
		s.spendable.sort();
		s.pursued = pursued;
		s.after_disconnect = self.last_was_disconnect;
		s.pursued_spent = pursued_spent;
		let mut peers = self.obs.peers_closed.clone();
		for i in 0..self.sim.w.n {
			if i != o {
				let mut ids: Vec<String> = self.sim.w.nodes[i].node.list_channels().iter().map(|c| vcore::hex(&c.channel_id.0[..4])).collect();
				ids.sort();
				peers.push(format!("n{} open {:?}", i, ids));
			}
		}
		peers.sort();
		s.peers = peers;
		s.know = self.know.iter().cloned().collect();
		s.know_preimages = self.know_preimages.iter().cloned().collect();
		s.pair_world = self.sim.w.n == 2;
		if self.max_height_told > tip.1 {
			// conclusions LDK draws from the height alone (an HTLC about to expire upstream is failed back, a
			// channel with an expired HTLC is closed, a CSV-delayed output matures) are not undone when the tip moves
			// back; a replica that was told a higher block knows more than the current best chain says
			s.know.push(format!("told-height {}", self.max_height_told));
			self.out.labels.insert("tip-below-highest-told-height".into());
		}
		s.reloaded = self.reloads > 0;
		s.burial_reorg = self.unburied_now();
		if s.burial_reorg {
			self.out.labels.insert("reorg-unburies-buried-tx".into());
		}
		Ok(s)
	}

	// ---- replica 0: executes the chain script and records the trace -----------------------------------

	fn mine_salted(&mut self, txs: Vec<Transaction>) -> (Block, usize) {
		let (mut block, rejected) = self.sim.chain.mine(txs);
		// ChainSim's dummy headers do not depend on the block content: give competing blocks distinct hashes
		block.header.nonce = self.salt;
		if let Some(r) = block.compute_merkle_root() {
			block.header.merkle_root = r;
		}
		*self.sim.chain.blocks.last_mut().unwrap() = block.clone();
		let height = self.sim.chain.height();
		self.sim.rec(SEvent::Mined { height, txids: block.txdata.iter().map(|t| t.compute_txid()).collect() });
		(block, rejected.len())
	}

	/// maximal conflict-free set of known unconfirmed transactions valid in the next block
	fn candidates(&self, rev: bool) -> Vec<Transaction> {
		let ch = &self.sim.chain;
		let mut pool: Vec<&Transaction> = ch.seen.values().filter(|t| !ch.confirmed.contains_key(&t.compute_txid()) && !t.input.is_empty()).collect();
		if rev {
			pool.reverse();
		}
		let h = ch.height() + 1;
		let mut in_block: HashMap<OutPoint, bitcoin::TxOut> = HashMap::new();
		let mut spent: HashSet<OutPoint> = HashSet::new();
		let mut chosen: Vec<Transaction> = vec![];
		let mut chosen_ids: HashSet<Txid> = HashSet::new();
		loop {
			let mut added = false;
			for t in pool.iter() {
				let id = t.compute_txid();
				if chosen_ids.contains(&id) || t.input.iter().any(|i| spent.contains(&i.previous_output)) {
					continue;
				}
				if ch.check_tx(t, h, &in_block, false).is_ok() {
					for (v, o) in t.output.iter().enumerate() {
						in_block.insert(OutPoint { txid: id, vout: v as u32 }, o.clone());
					}
					for i in t.input.iter() {
						spent.insert(i.previous_output);
					}
					chosen_ids.insert(id);
					chosen.push((*t).clone());
					added = true;
				}
			}
			if !added {
				break;
			}
		}
		chosen
	}

	fn builder_event(&mut self, trace: &mut Trace, ev: TEv, plan: &Plan) -> Result<(), Failure> {
		let idx = trace.evs.len();
		trace.evs.push(ev.clone());
		// the builder takes a snapshot after every event; which ones are compared is decided once the trace is known
		self.apply_event(idx, &ev, plan, false, None, true)
	}

	/// Execute the chain script as replica 0.
	pub fn build(&mut self, sc: &Scenario) -> Result<Trace, Failure> {
		let plan = plain_plan();
		let mut trace = Trace::default();
		self.sim.min_reorg_floor = self.sim.chain.height();
		let floor = self.sim.chain.height();
		for step in sc.script.iter() {
			match step {
				Step::Mine { sel, empty } => {
					let txs = match sel {
						Sel::None => vec![],
						Sel::All => self.candidates(false),
						Sel::Rev => self.candidates(true),
						Sel::One(k) => {
							let c = self.candidates(false);
							if c.is_empty() {
								vec![]
							} else {
								vec![c[pick(*k, c.len())].clone()]
							}
						},
						Sel::Two(k, l) => {
							let c = self.candidates(false);
							if c.is_empty() {
								vec![]
							} else {
								let (a, b) = (pick(*k, c.len()), pick(*l, c.len()));
								if a == b {
									vec![c[a].clone()]
								} else {
									vec![c[a.min(b)].clone(), c[a.max(b)].clone()]
								}
							}
						},
					};
					let (b, _) = self.mine_salted(txs);
					trace.txs_mined += b.txdata.len();
					trace.blocks += 1;
					self.builder_event(&mut trace, TEv::Connect(b), &plan)?;
					for _ in 0..*empty {
						let (b, _) = self.mine_salted(vec![]);
						trace.blocks += 1;
						self.builder_event(&mut trace, TEv::Connect(b), &plan)?;
					}
				},
				Step::ToExpiry { which, delta } => {
					let h = self.sim.chain.height();
					let n = if self.expiries.is_empty() {
						1
					} else {
						let e = self.expiries[pick(*which, self.expiries.len())] as i64 + *delta as i64;
						(e - h as i64).clamp(1, 220) as u32
					};
					for _ in 0..n {
						let (b, _) = self.mine_salted(vec![]);
						trace.blocks += 1;
						self.builder_event(&mut trace, TEv::Connect(b), &plan)?;
					}
				},
				Step::Fork { .. } | Step::ForkTx { .. } => {
					let h = self.sim.chain.height();
					let (depth, fates, extra) = match step {
						Step::Fork { depth, fates, extra } => (*depth as u32, fates, extra),
						Step::ForkTx { adj, fates, extra } => {
							let last_tx = (floor + 1..=h).rev().find(|x| self.sim.chain.blocks[*x as usize].txdata.iter().any(|t| self.relevant.contains(&t.compute_txid())));
							let d0 = last_tx.map(|x| h - x + 1).unwrap_or(1) as i64;
							((d0 + *adj as i64).clamp(1, ANTI_REORG_DELAY as i64) as u32, fates, extra)
						},
						_ => unreachable!(),
					};
					let d = depth.clamp(1, ANTI_REORG_DELAY).min(h - floor);
					if d == 0 {
						continue;
					}
					let mut removed: Vec<(usize, Transaction)> = vec![];
					for (pos, b) in self.sim.chain.blocks[(h - d + 1) as usize..].iter().enumerate() {
						for tx in b.txdata.iter() {
							removed.push((pos, tx.clone()));
						}
					}
					for _ in 0..d {
						self.sim.chain.disconnect_tip();
					}
					let to_height = self.sim.chain.height();
					self.sim.rec(SEvent::Reorged { to_height });
					let rel_removed = removed.iter().filter(|(_, t)| self.relevant.contains(&t.compute_txid())).count();
					if rel_removed > 0 && trace.first_relevant_reorg.is_none() {
						trace.first_relevant_reorg = Some(trace.evs.len());
					}
					trace.relevant_removed += rel_removed;
					trace.reorgs += 1;
					trace.max_depth = trace.max_depth.max(d);
					self.salt += 1;
					self.builder_event(&mut trace, TEv::Disconnect(d), &plan)?;
					let len = (d + (*extra as u32).clamp(1, 3)) as usize;
					let mut contents: Vec<Vec<Transaction>> = vec![vec![]; len];
					for (i, (pos, tx)) in removed.iter().enumerate() {
						let fate = if fates.is_empty() { Fate::Same } else { fates[i % fates.len()].clone() };
						match fate {
							Fate::Same => contents[*pos].push(tx.clone()),
							Fate::Later => contents[(*pos + 1).min(len - 1)].push(tx.clone()),
							Fate::Drop => trace.dropped += 1,
							Fate::Conflict => {
								let id = tx.compute_txid();
								let ch = &self.sim.chain;
								let alt = ch.seen.values().find(|t| t.compute_txid() != id && !ch.confirmed.contains_key(&t.compute_txid()) && t.input.iter().any(|i| tx.input.iter().any(|j| j.previous_output == i.previous_output)) && !removed.iter().any(|(_, r)| r.compute_txid() == t.compute_txid()));
								match alt {
									Some(a) => {
										contents[*pos].push(a.clone());
										trace.conflicts_mined += 1;
									},
									None => trace.dropped += 1,
								}
							},
						}
					}
					for txs in contents {
						let (b, _) = self.mine_salted(txs);
						trace.txs_mined += b.txdata.len();
						trace.blocks += 1;
						self.builder_event(&mut trace, TEv::Connect(b), &plan)?;
					}
				},
				Step::Claim { pay } => {
					let cands: Vec<usize> = self.sim.pays.iter().filter(|p| p.state == PayState::Claimable).map(|p| p.idx).collect();
					if cands.is_empty() {
						continue;
					}
					let p = cands[pick(*pay, cands.len())];
					self.builder_event(&mut trace, TEv::Claim(p), &plan)?;
				},
			}
		}
		trace.finish();
		// the final snapshot is the last one taken
		if let Some((_, s)) = self.out.snaps.iter().next_back() {
			self.out.final_snap = Some(s.clone());
		}
		Ok(trace)
	}

	/// Replay the trace as another replica.
	pub fn follow(&mut self, trace: &Trace, plan: &Plan) -> Result<(), Failure> {
		if plan.final_only {
			self.out.modes.insert("final-chain-only".into());
		}
		let n = trace.evs.len();
		for (i, ev) in trace.evs.iter().enumerate() {
			self.apply_event(i, ev, plan, i + 1 == n, Some(trace), trace.checkpoint[i])?;
		}
		Ok(())
	}

	/// see `unburied_now`
	pub fn buried_tx_unburied(&self) -> bool {
		self.unburied_now()
	}

	pub fn fingerprint(&self) -> &str {
		&self.out.fingerprint
	}

	pub fn calls(&self) -> &Vec<String> {
		&self.out.calls
	}

	pub fn finish_out(mut self) -> RunOut {
		self.out.labels.extend(std::mem::take(&mut self.obs.labels));
		self.out.stats = std::mem::take(&mut self.obs.stats);
		std::mem::take(&mut self.out)
	}

	pub fn history(&self) -> String {
		crate::oracle_commit::dump_history(&self.sim)
	}
}

pub fn short_hash(h: &BlockHash) -> String {
	h.to_string()[..10].to_string()
}
