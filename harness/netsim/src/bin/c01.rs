//! C01 — every commitment conserves the channel's funds and both peers agree on it.
use netsim::ops::*;
use netsim::oracle_commit::*;
use netsim::rec::install_recording_signer;
use proptest::prelude::*;
use serde::{Deserialize, Serialize};
use serde_json::json;
use vcore::*;

#[derive(Clone, Debug, Serialize, Deserialize)]
struct Case {
	spec: WorldSpec,
	ops: Vec<Op>,
	settle: bool,
}

fn weights() -> OpWeights {
	OpWeights { send: 30, claim: 10, fail: 5, deliver: 40, flush: 4, events: 12, forwards: 10, disconnect: 4, reconnect: 6, setfee: 4, timer: 1, async_toggle: 3, complete: 6, pump: 6 }
}

fn strat(max_ops: usize) -> impl Strategy<Value = Case> {
	(world_spec(vec![Topology::Pair]), proptest::collection::vec(op_strategy(weights()), 5..max_ops), proptest::bool::weighted(0.8))
		.prop_map(|(spec, ops, settle)| Case { spec, ops, settle })
}

fn oracle(c: &Case, ctx: &mut Ctx) -> CaseResult {
	let mut sim = c.spec.build(false);
	let mut o = CommitOracle::new(&sim);
	let mut tags: Vec<&'static str> = vec![];
	for op in c.ops.iter() {
		let tag = apply(&mut sim, &c.spec, op);
		tags.push(tag);
		o.step(&sim)?;
	}
	if c.settle {
		let quiet = sim.settle(40);
		o.step(&sim)?;
		ctx.label(if quiet { "settled" } else { "not-quiescent" });
	}
	let st = &o.stats;
	ctx.label(match c.spec.ctype {
		CType::Static => "type:static_remote_key",
		CType::Anchors => "type:anchors_zero_fee_htlc",
		CType::ZeroFee => "type:zero_fee_commitments",
	});
	ctx.label_if(st.signed_with_dust > 0, "signed-with-dust-htlc");
	ctx.label_if(st.retransmitted_commits > 0, "retransmitted-commitment_signed");
	ctx.label_if(st.retransmitted_revokes > 0, "retransmitted-revoke_and_ack");
	ctx.label_if(st.both_unacked_seen, "both-sides-unacked");
	ctx.label_if(st.dropped_inflight > 0, "disconnect-with-inflight");
	ctx.label_if(st.fee_updates > 0, "fee-update");
	ctx.label_if(st.fee_concurrent_with_add, "fee-concurrent-with-add");
	ctx.label_if(st.max_pending >= 5, "5+-concurrent-htlcs");
	ctx.label_if(c.spec.deferred, "deferred-chain-monitor");
	ctx.label_if(tags.contains(&"send-refused"), "send-refused");
	ctx.label_if(tags.contains(&"async-on"), "async-persist");
	ctx.sub_evaluations(st.signed);
	ctx.nontrivial_if(st.signed_with_pending > 0 && (st.both_unacked_seen || st.dropped_inflight > 0 || st.fee_concurrent_with_add));
	ctx.summary(json!({"spec": {"type": format!("{:?}", c.spec.ctype), "value_sat": c.spec.value_sat, "feerate": c.spec.feerate}, "ops": tags, "commitments_signed": st.signed, "max_pending_htlcs": st.max_pending}));
	Ok(())
}

fn main() {
	install_recording_signer();
	let mut c = Check::new("C01", "exploration");
	c.assume("both peers are unmodified LDK nodes; messages are delivered FIFO per direction, individually, at generated times");
	c.assume("reference model (BOLT-2 update bookkeeping + BOLT-3 trimming/fee/anchor rules) is written from the specifications and consumes only observed wire messages");
	c.assume("the peers' minimum acceptable feerate estimates stay at the floor so an honest update_fee is always acceptable");
	c.part_with(
		PartSpec {
			name: "pair-commitments",
			rule: "random world (channel type, value, push, reserve, dust exposure, htlc minimum, in-flight %, max accepted, feerate) + 5..N generated operations over one channel; every sign_counterparty_commitment is compared with the model. Non-trivial: a commitment was signed with >=1 pending HTLC and the schedule had both sides unacked at once, a disconnect with messages in flight, or a fee update concurrent with an add",
			quick_cases: 3000,
			thorough_cases: 120_000,
			max_shrink: 600,
		},
		|| strat(45),
		oracle,
	);
	c.finish();
}
