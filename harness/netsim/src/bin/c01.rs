//! C01 — every commitment conserves the channel's funds and both peers agree on it.
use netsim::ops::*;
use netsim::oracle_commit::*;
use netsim::rec::install_recording_signer;
use proptest::prelude::*;
use serde::{Deserialize, Serialize};
use serde_json::json;
use vcore::*;

#[derive(Clone, Debug, Serialize, Deserialize)]
struct Case {
	spec: WorldSpec,
	ops: Vec<Op>,
	settle: bool,
}

fn weights() -> OpWeights {
	OpWeights { send: 30, claim: 10, fail: 5, deliver: 40, flush: 4, events: 12, forwards: 10, disconnect: 4, reconnect: 6, setfee: 4, timer: 1, async_toggle: 3, complete: 6, pump: 6, force_close: 0, tamper_revoke: 0, ..OpWeights::zero() }
}

fn strat(max_ops: usize) -> impl Strategy<Value = Case> {
	(world_spec(vec![Topology::Pair]), proptest::collection::vec(op_strategy(weights()), 5..max_ops), proptest::bool::weighted(0.8))
		.prop_map(|(spec, ops, settle)| Case { spec, ops, settle })
}

fn jump_weights() -> OpWeights {
	OpWeights { send: 34, claim: 8, fail: 4, deliver: 44, flush: 3, events: 10, forwards: 8, disconnect: 1, reconnect: 4, setfee: 1, setfee_jump: 7, timer: 1, async_toggle: 3, complete: 6, pump: 4, ..OpWeights::zero() }
}

/// fee changes of any size (the library's buffers only cover a doubling): the funder's balance is kept small in
/// half of the cases so that a higher fee really bites
fn jump_strat(max_ops: usize) -> impl Strategy<Value = Case> {
	(world_spec(vec![Topology::Pair]), proptest::collection::vec(op_strategy(jump_weights()), 8..max_ops), proptest::bool::weighted(0.8), proptest::bool::weighted(0.5), 700u16..990).prop_map(|(mut spec, ops, settle, tight, push)| {
		if tight {
			spec.push_permille = vec![push];
			spec.value_sat = vec![spec.value_sat[0].min(400_000)];
		}
		Case { spec, ops, settle }
	})
}

/// The fundee has an HTLC awaiting the funder's revoke_and_ack and more of them waiting behind it when the funder
/// announces a much higher fee; the messages then cross in a generated order.
fn jump_template(max_ops: usize) -> impl Strategy<Value = Case> {
	(
		world_spec(vec![Topology::Pair]),
		proptest::collection::vec(op_strategy(OpWeights { send: 6, claim: 3, deliver: 30, pump: 3, events: 4, ..OpWeights::zero() }), 0..6),
		proptest::collection::vec(prop_oneof![(0u16..20_000).prop_map(Amt::Frac), (400_000u64..30_000_000).prop_map(Amt::Abs), Just(Amt::LimitMinus(0))], 2..6),
		prop_oneof![600u32..3_000, 2_000u32..12_000, 5_000u32..40_000],
		proptest::collection::vec(op_strategy(OpWeights { deliver: 60, send: 6, events: 6, pump: 2, complete: 3, ..OpWeights::zero() }), 4..max_ops),
		700u16..995,
		proptest::bool::weighted(0.7),
	)
		.prop_map(|(mut spec, warmup, amts, rate, tail, push, small)| {
			// the funder (node 0) keeps little: a higher fee bites at once
			spec.push_permille = vec![push];
			if small {
				spec.value_sat = vec![spec.value_sat[0].min(400_000)];
			}
			spec.max_accepted = spec.max_accepted.max(12);
			spec.inflight_pct = 100;
			let mut ops = warmup;
			ops.push(Op::Pump);
			for a in amts {
				ops.push(Op::Send { route: 40_000, amt: a });
			}
			ops.push(Op::SetFeeJump { node: 0, rate });
			ops.extend(tail);
			Case { spec, ops, settle: true }
		})
}

fn jump_oracle(c: &Case, ctx: &mut Ctx) -> CaseResult {
	match oracle_with(c, ctx, true) {
		Err(f) if f.oracle == "excused-update-race" => {
			ctx.label("ended-by-update-race");
			Ok(())
		},
		r => r,
	}
}

fn oracle(c: &Case, ctx: &mut Ctx) -> CaseResult {
	oracle_with(c, ctx, false)
}

fn oracle_with(c: &Case, ctx: &mut Ctx, jumps: bool) -> CaseResult {
	let mut sim = c.spec.build(false);
	let mut o = CommitOracle::new(&sim);
	o.allow_update_race = jumps;
	let mut tags: Vec<&'static str> = vec![];
	for op in c.ops.iter() {
		let tag = apply(&mut sim, &c.spec, op);
		tags.push(tag);
		o.step(&sim)?;
	}
	if c.settle {
		let quiet = sim.settle(40);
		o.step(&sim)?;
		ctx.label(if quiet { "settled" } else { "not-quiescent" });
	}
	ctx.label_if(tags.contains(&"setfee-jump"), "fee-jump");
	let st = &o.stats;
	ctx.label(match c.spec.ctype {
		CType::Static => "type:static_remote_key",
		CType::Anchors => "type:anchors_zero_fee_htlc",
		CType::ZeroFee => "type:zero_fee_commitments",
	});
	ctx.label_if(st.signed_with_dust > 0, "signed-with-dust-htlc");
	ctx.label_if(st.retransmitted_commits > 0, "retransmitted-commitment_signed");
	ctx.label_if(st.retransmitted_revokes > 0, "retransmitted-revoke_and_ack");
	ctx.label_if(st.both_unacked_seen, "both-sides-unacked");
	ctx.label_if(st.dropped_inflight > 0, "disconnect-with-inflight");
	ctx.label_if(st.fee_updates > 0, "fee-update");
	ctx.label_if(st.fee_concurrent_with_add, "fee-concurrent-with-add");
	ctx.label_if(st.max_pending >= 5, "5+-concurrent-htlcs");
	ctx.label_if(c.spec.deferred, "deferred-chain-monitor");
	ctx.label_if(tags.contains(&"send-refused"), "send-refused");
	ctx.label_if(tags.contains(&"async-on"), "async-persist");
	ctx.sub_evaluations(st.signed);
	ctx.nontrivial_if(st.signed_with_pending > 0 && (st.both_unacked_seen || st.dropped_inflight > 0 || st.fee_concurrent_with_add));
	ctx.summary(json!({"spec": {"type": format!("{:?}", c.spec.ctype), "value_sat": c.spec.value_sat, "feerate": c.spec.feerate}, "ops": tags, "commitments_signed": st.signed, "max_pending_htlcs": st.max_pending}));
	Ok(())
}

// ------------------------------------------------------------------------------------------------
// (g) limit exactness: at a link-quiescent instant the reported [minimum, limit] is exactly the set of
// amounts the sender accepts and the peer accepts.
// ------------------------------------------------------------------------------------------------

#[derive(Clone, Debug, Serialize, Deserialize)]
enum Probe {
	BelowMin,
	AtMin,
	Inside(u16),
	AtLimit,
	AboveLimit(u8),
}

#[derive(Clone, Debug, Serialize, Deserialize)]
struct LimitCase {
	spec: WorldSpec,
	ops: Vec<Op>,
	sender_is_funder: bool,
	probe: Probe,
}

fn limit_weights() -> OpWeights {
	OpWeights { send: 40, claim: 6, fail: 4, deliver: 25, flush: 6, events: 10, forwards: 10, disconnect: 0, reconnect: 0, setfee: 5, timer: 0, async_toggle: 0, complete: 0, pump: 10, force_close: 0, tamper_revoke: 0, ..OpWeights::zero() }
}

fn limit_strat() -> impl Strategy<Value = LimitCase> {
	(
		world_spec(vec![Topology::Pair]),
		proptest::collection::vec(op_strategy(limit_weights()), 0..30),
		any::<bool>(),
		prop_oneof![
			2 => Just(Probe::BelowMin),
			2 => Just(Probe::AtMin),
			2 => any::<u16>().prop_map(Probe::Inside),
			3 => Just(Probe::AtLimit),
			3 => prop_oneof![Just(1u8), 1u8..=255].prop_map(Probe::AboveLimit),
		],
	)
		.prop_map(|(spec, ops, sender_is_funder, probe)| LimitCase { spec, ops, sender_is_funder, probe })
}

fn chan_fingerprint(sim: &netsim::sim::Sim, node: usize) -> String {
	let d = sim.chan_details(node, 0);
	match d {
		None => "none".into(),
		Some(d) => format!(
			"out={} in={} lim={} min={} pend_in={} pend_out={} usable={}",
			d.outbound_capacity_msat,
			d.inbound_capacity_msat,
			d.next_outbound_htlc_limit_msat,
			d.next_outbound_htlc_minimum_msat,
			d.pending_inbound_htlcs.len(),
			d.pending_outbound_htlcs.len(),
			d.is_usable
		),
	}
}

fn limit_oracle(c: &LimitCase, ctx: &mut Ctx) -> CaseResult {
	use netsim::sim::*;
	let mut sim = c.spec.build(false);
	let mut o = CommitOracle::new(&sim);
	for op in c.ops.iter() {
		apply(&mut sim, &c.spec, op);
		o.step(&sim)?;
	}
	// reach a link-quiescent instant: nothing queued, no update in flight; pending committed HTLCs may remain
	apply(&mut sim, &c.spec, &Op::Pump);
	o.step(&sim)?;
	if sim.total_queued() != 0 {
		ctx.discard();
		return Ok(());
	}
	let sender = if c.sender_is_funder { 0 } else { 1 };
	let receiver = 1 - sender;
	let Some(det) = sim.chan_details(sender, 0) else {
		ctx.discard();
		return Ok(());
	};
	if !det.is_usable {
		ctx.discard();
		return Ok(());
	}
	let min = det.next_outbound_htlc_minimum_msat;
	let lim = det.next_outbound_htlc_limit_msat;
	let pending = det.pending_inbound_htlcs.len() + det.pending_outbound_htlcs.len();
	let (amt, expect_ok) = match &c.probe {
		Probe::BelowMin => {
			if min <= 1 {
				(0, false)
			} else {
				(min - 1, false)
			}
		},
		Probe::AtMin => (min, min <= lim),
		Probe::Inside(f) => {
			if min > lim {
				(min, false)
			} else {
				(min + ((lim - min) as u128 * (*f as u128) / 65536) as u64, true)
			}
		},
		Probe::AtLimit => (lim, min <= lim && lim > 0),
		Probe::AboveLimit(d) => (lim + *d as u64, false),
	};
	if amt == 0 {
		// a zero-value HTLC is not a meaningful "one below the minimum" probe
		ctx.label("probe-skipped-zero");
		return Ok(());
	}
	if !expect_ok && amt >= min && amt <= lim {
		ctx.label("probe-skipped-degenerate");
		return Ok(());
	}
	let before_s = chan_fingerprint(&sim, sender);
	let before_r = chan_fingerprint(&sim, receiver);
	let log_mark = sim.log.len();
	let idx = sim.send(sender, &[0], amt);
	o.step(&sim)?;
	let emitted_add = sim.log[log_mark..].iter().any(|(_, e)| matches!(e, SEvent::Emit { wire: Wire::Add(_), .. }));
	let key_ctx = format!(
		"{:?} amt={} min={} lim={} sender={} ({}) pending_htlcs={} type={:?} feerate={} value={:?}",
		c.probe, amt, min, lim, sender, if c.sender_is_funder { "funder" } else { "fundee" }, pending, c.spec.ctype, c.spec.feerate, c.spec.value_sat
	);
	ctx.label(match &c.probe {
		Probe::BelowMin => "probe:min-1",
		Probe::AtMin => "probe:min",
		Probe::Inside(_) => "probe:inside",
		Probe::AtLimit => "probe:limit",
		Probe::AboveLimit(_) => "probe:limit+d",
	});
	ctx.label_if(pending > 0, "probe-with-pending-htlcs");
	if expect_ok {
		if sim.pays[idx].state == PayState::Refused || !emitted_add {
			return Err(Failure::new("limit-exactness", format!("an HTLC inside the reported limits was refused by the sender: {}", key_ctx))
				.with_key(format!("limit-exactness/inside-refused/{:?}/{}", c.spec.ctype, if c.sender_is_funder { "funder" } else { "fundee" })));
		}
		// the peer must accept it and the dance must complete
		apply(&mut sim, &c.spec, &Op::Pump);
		if let Err(mut f) = o.step(&sim) {
			f.detail = format!("after sending an HTLC inside the reported limits ({}): {}", key_ctx, f.detail);
			f.key = format!("limit-exactness/inside-rejected-by-peer/{}", f.oracle);
			return Err(f);
		}
		// the recipient saw it (claimable) -- i.e. it was irrevocably committed on both sides
		if !sim.pays[idx].claimable_seen {
			// legitimately possible only if the recipient failed it back for a reason unrelated to limits
			let failed = sim.pays[idx].failed_event;
			return Err(Failure::new("limit-exactness", format!("an HTLC inside the reported limits did not become claimable at the peer (failed_back={}): {}", failed, key_ctx))
				.with_key(format!("limit-exactness/inside-not-committed/{:?}", c.spec.ctype)));
		}
		ctx.nontrivial_if(matches!(c.probe, Probe::AtLimit | Probe::AtMin) || pending > 0);
	} else {
		if emitted_add {
			// the sender accepted an amount outside its own reported limits
			return Err(Failure::new("limit-exactness", format!("an HTLC outside the reported limits was sent: {}", key_ctx))
				.with_key(format!("limit-exactness/outside-accepted/{:?}/{}", c.spec.ctype, if c.sender_is_funder { "funder" } else { "fundee" })));
		}
		// refused locally without harming the channel
		sim.process_events(sender);
		o.step(&sim)?;
		let after_s = chan_fingerprint(&sim, sender);
		let after_r = chan_fingerprint(&sim, receiver);
		vensure!(before_s == after_s && before_r == after_r, "limit-exactness", "a refused send changed the channel state: {} -> {} / {} -> {} ({})", before_s, after_s, before_r, after_r, key_ctx);
		// the next send inside the limits still works
		if min <= lim && lim > 0 {
			let idx2 = sim.send(sender, &[0], min.max(1));
			apply(&mut sim, &c.spec, &Op::Pump);
			o.step(&sim)?;
			vensure!(sim.pays[idx2].claimable_seen, "limit-exactness", "after a refused send, an HTLC at the reported minimum no longer goes through ({})", key_ctx);
		}
		ctx.nontrivial();
	}
	Ok(())
}

// ------------------------------------------------------------------------------------------------
// (f) cooperative close pays each party its final balance less only the negotiated fee
// ------------------------------------------------------------------------------------------------

#[derive(Clone, Debug, Serialize, Deserialize)]
struct CloseCase {
	spec: WorldSpec,
	ops: Vec<Op>,
	closer_is_funder: bool,
	/// per claimable payment: claim (true) or fail back
	resolutions: Vec<bool>,
	/// request the close before the pending payments are resolved (shutdown then waits for them)
	close_early: bool,
	/// the close is requested straight after the generated operations (events not yet handled, messages still
	/// queued) and the shutdown exchange is delivered before anybody handles events
	#[serde(default)]
	raw_close: bool,
}

fn close_strat() -> impl Strategy<Value = CloseCase> {
	(world_spec(vec![Topology::Pair]), proptest::collection::vec(op_strategy(limit_weights()), 0..30), any::<bool>(), proptest::collection::vec(any::<bool>(), 8), any::<bool>(), proptest::bool::weighted(0.3))
		.prop_map(|(spec, ops, closer_is_funder, resolutions, close_early, raw_close)| CloseCase { spec, ops, closer_is_funder, resolutions, close_early: close_early || raw_close, raw_close })
}

/// One party ends with a balance at or right next to the dust limit of the closing transaction (354 sat): the acceptor
/// starts with nothing and is paid 353 / 354 / 355 sat (+- a few msat), or pays everything but that back.
fn close_dust_edge_strat() -> impl Strategy<Value = CloseCase> {
	(
		world_spec(vec![Topology::Pair]),
		prop_oneof![3 => Just(354_000i64), 1 => Just(353_000i64), 1 => Just(355_000i64), 1 => Just(330_000i64), 1 => Just(546_000i64)],
		prop_oneof![3 => Just(0i64), 1 => Just(1i64), 1 => Just(-1i64), 1 => Just(999i64), 1 => Just(-999i64)],
		any::<bool>(),
		proptest::collection::vec(op_strategy(OpWeights { deliver: 10, pump: 4, events: 4, ..OpWeights::zero() }), 0..4),
	)
		.prop_map(|(mut spec, sat, msat, closer_is_funder, tail)| {
			spec.push_permille = vec![0];
			spec.htlc_min_msat = spec.htlc_min_msat.min(1000);
			spec.node_tweaks = vec![];
			spec.reserve_ppm = 0;
			let mut ops = vec![Op::Send { route: 0, amt: Amt::Abs((sat + msat).max(1) as u64) }, Op::Pump, Op::Claim { pay: 0 }, Op::Pump, Op::Pump];
			ops.extend(tail);
			CloseCase { spec, ops, closer_is_funder, resolutions: vec![true; 8], close_early: false, raw_close: false }
		})
}

fn close_oracle(c: &CloseCase, ctx: &mut Ctx) -> CaseResult {
	use lightning::events::Event;
	use netsim::sim::*;
	let mut sim = c.spec.build(false);
	let mut o = CommitOracle::new(&sim);
	for op in c.ops.iter() {
		apply(&mut sim, &c.spec, op);
		o.step(&sim)?;
	}
	if !c.raw_close {
		apply(&mut sim, &c.spec, &Op::Pump);
		o.step(&sim)?;
	}
	let closer = if c.closer_is_funder { 0 } else { 1 };
	let chan_id = sim.chans[0].id;
	let request_close = |sim: &mut Sim, o: &mut CommitOracle| -> bool {
		let peer = sim.w.node_id(1 - closer);
		o.coop_close_requested[0] = true;
		let r = sim.w.nodes[closer].node.close_channel(&chan_id, &peer);
		sim.drain(closer);
		r.is_ok()
	};
	let mut requested = false;
	if c.close_early {
		requested = request_close(&mut sim, &mut o);
		if c.raw_close {
			ctx.label("close-requested-with-events-unhandled");
			apply(&mut sim, &c.spec, &Op::Flush);
			o.step(&sim)?;
		}
		apply(&mut sim, &c.spec, &Op::Pump);
		o.step(&sim)?;
	}
	// resolve whatever is claimable
	for round in 0..4 {
		let cands: Vec<usize> = sim.pays.iter().filter(|p| p.state == PayState::Claimable).map(|p| p.idx).collect();
		if cands.is_empty() && round > 0 {
			break;
		}
		for (i, p) in cands.iter().enumerate() {
			if c.resolutions[i % c.resolutions.len()] {
				sim.claim(*p);
			} else {
				sim.fail_back(*p);
			}
		}
		apply(&mut sim, &c.spec, &Op::Pump);
		o.step(&sim)?;
	}
	if !requested {
		requested = request_close(&mut sim, &mut o);
	}
	if !requested {
		ctx.discard();
		return Ok(());
	}
	for _ in 0..6 {
		apply(&mut sim, &c.spec, &Op::Pump);
		for i in 0..2 {
			sim.timer_tick(i);
		}
		o.step(&sim)?;
	}
	// both sides must have closed cooperatively and broadcast the same closing transaction
	let closed: Vec<usize> = sim
		.log
		.iter()
		.filter_map(|(_, e)| match e {
			SEvent::Ldk { node, ev: Event::ChannelClosed { .. } } => Some(*node),
			_ => None,
		})
		.collect();
	if !(closed.contains(&0) && closed.contains(&1)) {
		// pending HTLCs that were never claimable (e.g. still in a holding cell) can legitimately stall the close
		ctx.label("close-not-completed");
		return Ok(());
	}
	let funding = sim.chans[0].funding_tx.compute_txid();
	let mut closing: Vec<bitcoin::Transaction> = vec![];
	for n in 0..2 {
		for tx in sim.broadcasts[n].iter() {
			if tx.input.len() == 1 && tx.input[0].previous_output.txid == funding && !closing.iter().any(|t| t.compute_txid() == tx.compute_txid()) {
				closing.push(tx.clone());
			}
		}
	}
	vensure!(closing.len() == 1, "coop-close", "expected exactly one distinct closing transaction, saw {}", closing.len());
	let tx = &closing[0];
	let exp0 = o.models[0].fully_applied(0).map_err(|e| Failure::new("bolt2-model", e))?;
	vensure!(exp0.nondust.is_empty() && exp0.dust.is_empty(), "coop-close", "channel closed cooperatively with {} HTLCs pending in the model", exp0.nondust.len() + exp0.dust.len());
	// balances: [side0 (funder), side1]
	let bal = [exp0.balance_msat[0], exp0.balance_msat[1]];
	let value = sim.chans[0].value_sat;
	let out_sum: u64 = tx.output.iter().map(|o| o.value.to_sat()).sum();
	let fee = value - out_sum;
	// identify outputs by the shutdown scripts exchanged
	let mut scripts: [Option<bitcoin::ScriptBuf>; 2] = [None, None];
	let mut fees_offered: Vec<(u64, Option<(u64, u64)>)> = vec![];
	for (_, e) in sim.log.iter() {
		if let SEvent::Emit { from, wire, .. } = e {
			match wire {
				Wire::Shutdown(m) => scripts[*from] = Some(m.scriptpubkey.clone()),
				Wire::ClosingSigned(m) => fees_offered.push((m.fee_satoshis, m.fee_range.as_ref().map(|r| (r.min_fee_satoshis, r.max_fee_satoshis)))),
				_ => {},
			}
		}
	}
	let out_of = |side: usize| -> u64 { scripts[side].as_ref().map(|s| tx.output.iter().filter(|o| o.script_pubkey == *s).map(|o| o.value.to_sat()).sum()).unwrap_or(0) };
	let got = [out_of(0), out_of(1)];
	vensure!(got[0] + got[1] == out_sum, "coop-close", "closing transaction pays {} sat to scripts that are neither party's shutdown script", out_sum - got[0] - got[1]);
	// the non-funder is paid exactly its balance (or nothing if that is below its dust limit); the funder pays the fee
	let nf = bal[1] / 1000;
	let dust = [sim.chans[0].open.common_fields.dust_limit_satoshis, sim.chans[0].accept.common_fields.dust_limit_satoshis];
	let detail = format!("balances msat {:?}, outputs {:?}, fee {}, dust limits {:?}, offered fees {:?}", bal, got, fee, dust, fees_offered);
	if got[1] != nf {
		vensure!(got[1] == 0 && nf < dust[1].max(dust[0]).max(546), "coop-close", "non-funder is paid {} but its final balance is {} sat ({})", got[1], nf, detail);
	}
	let f_bal = bal[0] / 1000;
	vensure!(got[0] <= f_bal, "coop-close", "funder is paid more than its balance ({})", detail);
	// sub-satoshi remainders of the two msat balances cannot be paid out and go to the miner on top of the
	// negotiated fee, as does a peer output too small to be created
	let remainder = value - f_bal - nf;
	let negotiated = fee.saturating_sub(remainder + (nf - got[1]));
	if got[0] > 0 {
		vensure!(got[0] + negotiated == f_bal && fee >= remainder + (nf - got[1]), "coop-close", "funder output + negotiated fee {} does not equal its balance ({})", negotiated, detail);
	}
	// the final fee is one both sides proposed/accepted and lies inside every exchanged fee range
	for (_, r) in fees_offered.iter() {
		if let Some((lo, hi)) = r {
			vensure!(negotiated >= *lo && negotiated <= *hi || got[0] == 0, "coop-close", "negotiated fee {} outside an exchanged fee range [{}, {}] ({})", negotiated, lo, hi, detail);
		}
	}
	ctx.label(if c.close_early { "close-requested-with-htlcs-pending" } else { "close-after-resolution" });
	ctx.label_if(got[0] == 0 || got[1] == 0, "one-output-omitted");
	ctx.nontrivial_if(o.stats.signed >= 2);
	Ok(())
}

fn main() {
	install_recording_signer();
	netsim::rec::tolerate_monitor_roundtrip_tripwire();
	let mut c = Check::new("C01", "exploration");
	c.assume("both peers are unmodified LDK nodes; messages are delivered FIFO per direction, individually, at generated times");
	c.assume("reference model (BOLT-2 update bookkeeping + BOLT-3 trimming/fee/anchor rules) is written from the specifications and consumes only observed wire messages");
	c.assume("the peers' minimum acceptable feerate estimates stay at the floor so an honest update_fee is always acceptable");
	c.part_with(
		PartSpec {
			name: "pair-commitments",
			rule: "random world (channel type, value, push, reserve, dust exposure, htlc minimum, in-flight %, max accepted, feerate) + 5..N generated operations over one channel; every sign_counterparty_commitment is compared with the model. Non-trivial: a commitment was signed with >=1 pending HTLC and the schedule had both sides unacked at once, a disconnect with messages in flight, or a fee update concurrent with an add",
			quick_cases: 2000,
			thorough_cases: 120_000,
			max_shrink: 600,
		},
		|| strat(45),
		oracle,
	);
	c.part_with(
		PartSpec {
			name: "fee-jumps",
			rule: "as pair-commitments, with fee changes of any size (253..40 000 sat/kw, up or down, far beyond the doubling the library's fee-spike buffer covers) and, in half of the cases, a funder that keeps little of the channel. Same oracles; a refusal (error message) is the protocol's own update_fee race, and ends the case without a verdict, only if the refused message crossed on the wire with an add / fee update of the refusing side (that update was emitted later than the refused message's sender's latest update, was still in flight then, or the link was cut in between); a refusal of a message whose sender had been told every update of the refusing side beforehand is a violation. Non-trivial: as pair-commitments, and a fee jump happened",
			quick_cases: 1500,
			thorough_cases: 90_000,
			max_shrink: 600,
		},
		|| prop_oneof![3 => jump_strat(45).boxed(), 1 => jump_template(30).boxed()],
		jump_oracle,
	);
	c.part_with(
		PartSpec {
			name: "limit-exactness",
			rule: "random world + 0..30 operations, pumped to a link-quiescent instant (pending committed HTLCs allowed); then one probe send at min-1 / min / inside / limit / limit+d from either side. Inside: the sender emits the HTLC, the peer accepts it and it becomes claimable; outside: nothing is emitted, list_channels is unchanged on both sides and a minimum-sized HTLC still goes through. Non-trivial: probe at an edge or with HTLCs pending",
			quick_cases: 1200,
			thorough_cases: 100_000,
			max_shrink: 400,
		},
		limit_strat,
		limit_oracle,
	);
	c.part_with(
		PartSpec {
			name: "coop-close",
			rule: "random world + 0..30 operations, payments resolved by generated claim/fail choices, cooperative close requested by either side (optionally while HTLCs are pending); the single closing transaction pays the non-funder its model balance, the funder its balance minus the fee, the fee lies in every exchanged fee range. Non-trivial: >=2 commitment updates happened before the close",
			quick_cases: 2400,
			thorough_cases: 40_000,
			max_shrink: 300,
		},
		|| prop_oneof![5 => close_strat().boxed(), 1 => close_dust_edge_strat().boxed()],
		close_oracle,
	);
	c.finish();
}
