//! C07 — after a unilateral close every entitled output is recovered, validly and in time.
use netsim::ext_c07::*;
use netsim::ops::*;
use netsim::rec::install_recording_signer;
use proptest::prelude::*;
use vcore::*;

fn traffic_weights() -> OpWeights {
	OpWeights { send: 27, send_two_parts: 4, claim: 8, fail: 3, deliver: 34, flush: 3, events: 10, forwards: 10, disconnect: 3, reconnect: 5, setfee: 3, timer: 1, pump: 8, mine: 2, set_style: 2, ..OpWeights::zero() }
}

/// partial settlement of the burst: some HTLCs get committed, claimed or failed, dances are left half done
fn settle_weights() -> OpWeights {
	OpWeights { deliver: 40, events: 14, forwards: 14, claim: 12, fail: 3, pump: 5, flush: 3, ..OpWeights::zero() }
}

fn send_op() -> impl Strategy<Value = Op> + Clone {
	op_strategy(OpWeights { send: 7, send_two_parts: 1, ..OpWeights::zero() })
}

fn pre_strategy() -> impl Strategy<Value = Pre> + Clone {
	prop_oneof![
		3 => any::<u16>().prop_map(|pay| Pre::Claim { pay }),
		4 => (any::<u16>(), prop_oneof![Just(253u32), 253u32..2_000, 1_000u32..8_000, 253u32..30_000]).prop_map(|(node, rate)| Pre::Fee { node, rate }),
		4 => any::<u16>().prop_map(|node| Pre::Rebroadcast { node }),
		1 => any::<u16>().prop_map(|node| Pre::Timer { node }),
		1 => (any::<u16>(), 0u8..11).prop_map(|(node, style)| Pre::Style { node, style }),
	]
}

fn step_strategy() -> impl Strategy<Value = Step> + Clone {
	(
		prop_oneof![8 => Just(None), 2 => prop_oneof![Just(0i8), Just(-1i8), Just(1i8), -6i8..4].prop_map(Some)],
		proptest::collection::vec(pre_strategy(), 0..3),
		prop_oneof![
			3 => Just(Incl::All),
			2 => Just(Incl::Reverse),
			6 => Just(Incl::Overdue),
			2 => any::<u16>().prop_map(Incl::Pick),
			2 => any::<u16>().prop_map(Incl::Prefer),
		],
		proptest::bool::weighted(0.8),
	)
		.prop_map(|(advance, pre, incl, pump)| Step { advance, pre, incl, pump })
}

fn strat(topos: Vec<Topology>, max_prefix: usize, max_burst: usize, max_steps: usize) -> impl Strategy<Value = Case> {
	(
		world_spec(topos),
		proptest::collection::vec(0u8..11, 3),
		proptest::collection::vec(op_strategy(traffic_weights()), 0..max_prefix),
		proptest::collection::vec(send_op(), 2..max_burst),
		proptest::collection::vec(op_strategy(settle_weights()), 0..16),
		any::<u16>(),
		prop_oneof![
			3 => (any::<bool>(), any::<bool>()).prop_map(|(by_funder, cut_link)| Close::Force { by_funder, cut_link }),
			2 => (any::<bool>(), any::<bool>()).prop_map(|(of_funder, cut_link)| Close::MineHolder { of_funder, cut_link }),
		],
		proptest::collection::vec(step_strategy(), 3..max_steps),
		// confirmation delay bound of the case: mostly short, sometimes up to MAX_BLOCKS_FOR_CONF
		// (the last class breaks the property's premise that claims confirm in time: timeliness verdicts are
		// then vacuous by their own condition, but races between a preimage claim and a timeout really happen)
		prop_oneof![6 => 0u8..=4, 4 => 3u8..=18, 2 => 19u8..=60],
		proptest::bool::weighted(0.25),
		prop_oneof![
			4 => Just(Traj::Flat),
			2 => (253u32..3_000, 2u8..40).prop_map(|(start, pct)| Traj::Rising { start, pct }),
			3 => (1_000u32..30_000, 2u8..40).prop_map(|(start, pct)| Traj::Falling { start, pct }),
			2 => (253u32..2_000, 2_000u32..40_000, 0u8..30, 1u8..12).prop_map(|(base, peak, at, len)| Traj::Spike { base, peak, at, len }),
		],
		// one case in six is a race at the expiry boundary with generated parameters: several same-expiry HTLCs in
		// one direction, the recipient's commitment confirms, the recipient learns some preimages right away but
		// its claims wait in the mempool (confirmation bound beyond the expiry), the sender's (aggregated) timeout
		// claim appears at the expiry, then the waiting claims confirm together
		(proptest::bool::weighted(0.17), any::<bool>(), 3usize..7, 1usize..4, -3i8..0, 0i8..2, 80u8..120, proptest::collection::vec(any::<u16>(), 4)),
	)
		.prop_map(|(mut spec, styles, prefix, burst, settle, chan, close, steps, max_delay, tail_reverse, traj, (race, dir, n_sends, n_claims, before, at, race_delay, picks))| {
			spec.deferred = false;
			spec.node_styles = styles;
			if race {
				let route = if dir { 0u16 } else { 32768 };
				let mut ops: Vec<Op> = (0..n_sends).map(|i| Op::Send { route, amt: Amt::Frac(1500 + 700 * i as u16) }).collect();
				ops.push(Op::Pump);
				ops.push(Op::Pump);
				let mut rsteps = vec![
					Step { advance: None, pre: picks.iter().take(n_claims.min(n_sends - 1)).map(|p| Pre::Claim { pay: *p }).collect(), incl: Incl::Overdue, pump: false },
					Step { advance: Some(before), pre: vec![], incl: Incl::Overdue, pump: false },
					Step { advance: Some(at), pre: vec![], incl: Incl::Overdue, pump: false },
					Step { advance: None, pre: vec![], incl: Incl::All, pump: true },
				];
				rsteps.extend(steps.into_iter().take(6));
				// the recipient's commitment is the one that confirms (route 0 = from the funder's side)
				return Case { spec, ops, chan, close: Close::MineHolder { of_funder: !dir, cut_link: true }, steps: rsteps, max_delay: race_delay, tail_reverse, traj };
			}
			let mut ops = prefix;
			ops.extend(burst);
			ops.extend(settle);
			Case { spec, ops, chan, close, steps, max_delay, tail_reverse, traj }
		})
}

fn oracle(c: &Case, ctx: &mut Ctx) -> CaseResult {
	run_case(c, ctx, 520)
}

fn main() {
	install_recording_signer();
	netsim::rec::tolerate_monitor_roundtrip_tripwire();
	let mut c = Check::new("C07", "exploration");
	c.set_case_timeout_secs(240);
	let thorough = c.tier() == Tier::Thorough;
	c.assume("both peers are unmodified LDK nodes (no revoked commitment is ever confirmed; that is C06); persistence is synchronous; no restarts");
	c.assume("consensus validity = libbitcoinconsensus script verification + nLockTime/BIP-68 height rules + inputs exist + fee >= 0, judged for the block after the tip at the moment the transaction is handed to the broadcaster; relay policy is not modelled. A spend that lost to a transaction confirmed in the very block the node is processing is tolerated as stale");
	c.assume("every valid mempool transaction confirms within the case's max_delay blocks (0..18 = MAX_BLOCKS_FOR_CONF in 5 of 6 cases, 19..60 in the rest) unless a conflicting one confirms first; which of two conflicting transactions confirms is a generator choice; no reorgs (C11)");
	c.assume("anchor channels: each node's wallet holds 30 confirmed 1-BTC UTXOs, so coin selection never fails (the 'barely enough UTXOs' corner of the design is not generated)");
	c.assume("fee monotonicity tolerance 2 % (signature-size variance, integer feerate rounding); SpendableOutputs are swept one event at a time at 253 sat/kw to a per-node script by spend_spendable_outputs the moment they are announced");
	c.assume("tolerated and documented: a ClaimableAwaitingConfirmations entry of 0 sat for an absent balance output; an empty OP_RETURN output on the anchor CPFP child");
	let (prefix, burst, steps) = if thorough { (40, 12, 60) } else { (22, 7, 30) };
	c.part_with(
		PartSpec {
			name: "pair-close",
			rule: "pair channel (all three channel types), generated traffic ending in a burst of sends and a partial settlement, closure by API force-close of either end (link up: both commitments race; link cut: one) or by confirming either end's latest holder commitment behind its back; then a generated chain schedule (which mempool transactions confirm, jumps to an HTLC expiry +-k, late claim_funds, sweep feerate changes, rebroadcast/timer calls, delivery styles) and a deterministic tail until everything is swept. Non-trivial: the confirmed commitment carried >=1 non-dust HTLC, the case ran to completion, and a claim was re-issued, a BumpTransaction target was raised, or two conflicting transactions of the two ends were in the mempool",
			quick_cases: 1500,
			thorough_cases: 45_000,
			max_shrink: 300,
		},
		move || strat(vec![Topology::Pair], prefix, burst, steps),
		oracle,
	);
	c.part_with(
		PartSpec {
			name: "line3-close",
			rule: "as pair-close on a 0-1-2 line with forwarded payments: the closed channel's HTLCs are forwards whose preimage arrives from the other channel (off chain or on chain); the other channel may time out and close by itself. Same non-triviality rule",
			quick_cases: 600,
			thorough_cases: 15_000,
			max_shrink: 300,
		},
		move || strat(vec![Topology::Line3], prefix, burst, steps),
		oracle,
	);
	c.finish();
}
