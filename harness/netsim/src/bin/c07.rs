//! C07 — after a unilateral close every entitled output is recovered, validly and in time.
use netsim::ext_c07::*;
use netsim::ops::*;
use netsim::rec::install_recording_signer;
use proptest::prelude::*;
use vcore::*;

fn traffic_weights() -> OpWeights {
	OpWeights { send: 30, claim: 8, fail: 3, deliver: 34, flush: 3, events: 10, forwards: 10, disconnect: 3, reconnect: 5, setfee: 3, timer: 1, pump: 8, mine: 2, set_style: 2, ..OpWeights::zero() }
}

/// partial settlement of the burst: some HTLCs get committed, claimed or failed, dances are left half done
fn settle_weights() -> OpWeights {
	OpWeights { deliver: 40, events: 14, forwards: 14, claim: 12, fail: 3, pump: 5, flush: 3, ..OpWeights::zero() }
}

fn send_op() -> impl Strategy<Value = Op> + Clone {
	op_strategy(OpWeights { send: 1, ..OpWeights::zero() })
}

fn pre_strategy() -> impl Strategy<Value = Pre> + Clone {
	prop_oneof![
		3 => any::<u16>().prop_map(|pay| Pre::Claim { pay }),
		3 => (any::<u16>(), prop_oneof![Just(253u32), 253u32..2_000, 253u32..30_000]).prop_map(|(node, rate)| Pre::Fee { node, rate }),
		2 => any::<u16>().prop_map(|node| Pre::Rebroadcast { node }),
		1 => any::<u16>().prop_map(|node| Pre::Timer { node }),
		1 => (any::<u16>(), 0u8..11).prop_map(|(node, style)| Pre::Style { node, style }),
	]
}

fn step_strategy() -> impl Strategy<Value = Step> + Clone {
	(
		proptest::collection::vec(pre_strategy(), 0..3),
		prop_oneof![
			5 => Just(Incl::All),
			2 => Just(Incl::Reverse),
			4 => Just(Incl::Overdue),
			2 => any::<u16>().prop_map(Incl::Pick),
			2 => any::<u16>().prop_map(Incl::Prefer),
		],
		proptest::bool::weighted(0.8),
	)
		.prop_map(|(pre, incl, pump)| Step { pre, incl, pump })
}

fn strat(topos: Vec<Topology>, max_prefix: usize, max_burst: usize, max_steps: usize) -> impl Strategy<Value = Case> {
	(
		world_spec(topos),
		proptest::collection::vec(0u8..11, 3),
		proptest::collection::vec(op_strategy(traffic_weights()), 0..max_prefix),
		proptest::collection::vec(send_op(), 1..max_burst),
		proptest::collection::vec(op_strategy(settle_weights()), 0..16),
		any::<u16>(),
		prop_oneof![
			3 => (any::<bool>(), any::<bool>()).prop_map(|(by_funder, cut_link)| Close::Force { by_funder, cut_link }),
			2 => (any::<bool>(), any::<bool>()).prop_map(|(of_funder, cut_link)| Close::MineHolder { of_funder, cut_link }),
		],
		proptest::collection::vec(step_strategy(), 3..max_steps),
		0u8..=4,
		any::<bool>(),
	)
		.prop_map(|(mut spec, styles, prefix, burst, settle, chan, close, steps, max_delay, tail_reverse)| {
			spec.deferred = false;
			spec.node_styles = styles;
			let mut ops = prefix;
			ops.extend(burst);
			ops.extend(settle);
			Case { spec, ops, chan, close, steps, max_delay, tail_reverse }
		})
}

fn oracle(c: &Case, ctx: &mut Ctx) -> CaseResult {
	run_case(c, ctx, 460)
}

fn main() {
	install_recording_signer();
	let mut c = Check::new("C07", "exploration");
	c.set_case_timeout_secs(240);
	c.assume("both peers are unmodified LDK nodes (no revoked commitment is ever confirmed; that is C06); persistence is synchronous");
	c.assume("consensus validity = libbitcoinconsensus script verification + nLockTime/BIP-68 height rules + inputs exist + fee >= 0, judged for the block after the tip at the moment the transaction is handed to the broadcaster; relay policy is not modelled");
	c.assume("every valid mempool transaction confirms within the case's max_delay (0..4) blocks unless a conflicting one confirms first; which of two conflicting claims confirms is a generator choice; no reorgs (C11)");
	c.assume("anchor channels: each node's wallet holds 12 confirmed 1-BTC UTXOs, so coin selection never fails");
	c.assume("fee monotonicity tolerance 2 % (signature-size variance); SpendableOutputs are swept at 253 sat/kw to a per-node script by spend_spendable_outputs the moment they are announced");
	c.part_with(
		PartSpec {
			name: "pair-close",
			rule: "pair channel (all three channel types), generated traffic ending in a burst of sends and a partial settlement, closure by API force-close of either end (link up: both commitments race; link cut: one) or by confirming either end's latest holder commitment behind its back; then a generated chain schedule (which mempool transactions confirm, late claim_funds, sweep feerate changes, rebroadcast/timer calls, delivery styles) and a deterministic tail until everything is swept. Non-trivial: the confirmed commitment carried >=1 non-dust HTLC, the case ran to completion, and a claim was re-issued (fee bump) or both ends had competing claims for one output",
			quick_cases: 700,
			thorough_cases: 24_000,
			max_shrink: 300,
		},
		|| strat(vec![Topology::Pair], 22, 6, 30),
		oracle,
	);
	c.part_with(
		PartSpec {
			name: "line3-close",
			rule: "as pair-close on a 0-1-2 line with forwarded payments: the closed channel's HTLCs are forwards whose preimage arrives from the other channel (off chain or on chain); the other channel may time out and close by itself. Same non-triviality rule",
			quick_cases: 300,
			thorough_cases: 10_000,
			max_shrink: 300,
		},
		|| strat(vec![Topology::Line3], 22, 6, 30),
		oracle,
	);
	c.finish();
}
