//! C08 — HTLC deadlines: the node acts before money can be lost to a timeout.
//!
//! Parametric scenarios whose numbers and schedules are generated (DESIGN "### C08"):
//!   S1 receive (final hop), S2 forward admission, S3 dead / last-moment downstream, S4 receiver holding a
//!   preimage with a dead upstream peer, S5 HTLC stuck in the holding cell while its expiry nears.
//! All peers are unmodified LDK nodes; "silent", "slow" and "last moment" are schedules of the harness-owned
//! transport, block delivery and confirmation delays.
use netsim::ext_c08::*;
use netsim::ops::*;
use netsim::oracle_commit::dump_history;
use netsim::rec::install_recording_signer;
use netsim::sim::*;
use proptest::prelude::*;
use serde::{Deserialize, Serialize};
use serde_json::json;
use vcore::*;

// ---------------------------------------------------------------------------------------------------
// thresholds, derived from the documented constants
// ---------------------------------------------------------------------------------------------------

/// HTLC_FAIL_BACK_BUFFER doc, purpose (2): an HTLC received "within this many blocks of its expiry (plus
/// one ...)" is failed without telling the user. So with the receiving node at height H an HTLC is shown as
/// claimable iff expiry - H >= HTLC_FAIL_BACK_BUFFER + 2; MIN_FINAL_CLTV_EXPIRY_DELTA (= buffer + 3, one
/// block of slack for a block found while routing) says such a payment must then succeed.
const ACCEPT_MIN_REL: i64 = HTLC_FAIL_BACK_BUFFER as i64 + 2;

/// How blocks arrive during a phase.
#[derive(Clone, Copy, Debug, Serialize, Deserialize, PartialEq, Eq)]
enum Arrive {
	/// one by one, everybody processes messages / forwards / events after each block
	SinglePump,
	/// one by one, nothing else happens in between
	Single,
	/// as one burst (nodes with a block-skipping delivery style hear only of the last block)
	Burst,
}

fn arrive_strategy() -> impl Strategy<Value = Arrive> + Clone {
	prop_oneof![Just(Arrive::SinglePump), Just(Arrive::Single), Just(Arrive::Burst)]
}

#[derive(Clone, Debug, Serialize, Deserialize)]
struct Env {
	ctype: CType,
	/// block delivery style per node
	styles: Vec<u8>,
	amt_msat: u64,
	/// forwarding policy of every node
	cltv_delta: u16,
	fee_base_msat: u32,
	fee_ppm: u32,
}

fn env_strategy() -> impl Strategy<Value = Env> + Clone {
	(
		prop_oneof![Just(CType::Static), Just(CType::Anchors), Just(CType::ZeroFee)],
		proptest::collection::vec(0u8..11, 3),
		prop_oneof![Just(5_000_000u64), 2_000_000u64..60_000_000],
		prop_oneof![3 => Just(MIN_CLTV_EXPIRY_DELTA), 2 => MIN_CLTV_EXPIRY_DELTA..=MIN_CLTV_EXPIRY_DELTA + 4, 1 => MIN_CLTV_EXPIRY_DELTA..120u16],
		prop_oneof![Just(1000u32), 0u32..3000],
		prop_oneof![Just(0u32), 0u32..5000],
	)
		.prop_map(|(ctype, styles, amt_msat, cltv_delta, fee_base_msat, fee_ppm)| Env { ctype, styles, amt_msat: amt_msat / 1000 * 1000 + 777, cltv_delta, fee_base_msat, fee_ppm })
}

struct Drv {
	sim: Sim,
	/// nodes that currently receive blocks
	chain_nodes: Vec<usize>,
	/// directed links on which nothing is delivered
	blocked: Vec<(usize, usize)>,
}

impl Drv {
	fn new(sim: Sim) -> Drv {
		let n = sim.w.n;
		Drv { sim, chain_nodes: (0..n).collect(), blocked: vec![] }
	}
	fn all(&self) -> Vec<usize> {
		(0..self.sim.w.n).collect()
	}
	fn pump(&mut self) -> bool {
		let all = self.all();
		self.sim.pump_links(&all, &self.blocked.clone())
	}
	/// `n` empty blocks
	fn advance(&mut self, n: u32, how: Arrive) {
		if n == 0 {
			return;
		}
		let nodes = self.chain_nodes.clone();
		match how {
			Arrive::Burst => self.sim.mine_burst_for(n, &nodes),
			Arrive::Single => {
				for _ in 0..n {
					self.sim.mine_for(vec![], &nodes);
				}
			},
			Arrive::SinglePump => {
				for _ in 0..n {
					self.sim.mine_for(vec![], &nodes);
					self.pump();
				}
			},
		}
	}
}

fn fin<T>(sim: &Sim, ctx: &Ctx, r: Result<T, Failure>) -> Result<T, Failure> {
	if ctx.replay && (r.is_err() || std::env::var("C08_DUMP").is_ok()) {
		println!("==== history ====\n{}", dump_history(sim));
	}
	r
}

fn no_broadcasts(sim: &Sim) -> bool {
	sim.broadcasts.iter().all(|b| b.is_empty())
}

// ---------------------------------------------------------------------------------------------------
// S1: receive at the final hop
// ---------------------------------------------------------------------------------------------------

#[derive(Clone, Debug, Serialize, Deserialize)]
struct S1 {
	env: Env,
	/// (expiry - receiver height when it decides) - ACCEPT_MIN_REL; far > 0 values allowed
	rel_off: i32,
	/// blocks between the sender's send and delivery of the HTLC; between the completed commitment dance and
	/// the receiver's decision
	k1: u8,
	a1: Arrive,
	k2: u8,
	a2: Arrive,
	/// claim_funds is called at height claim_deadline + claim_off (not before the receiver's decision height)
	claim_off: i32,
	a3: Arrive,
	/// blocks between claim_funds and the delivery of the resulting messages (the payer is slow)
	slow: u8,
}

fn s1_strategy() -> impl Strategy<Value = S1> + Clone {
	(env_strategy(), prop_oneof![6 => -3i32..=3, 1 => 4i32..60, 1 => 60i32..3000], 0u8..4, arrive_strategy(), 0u8..4, arrive_strategy(), -4i32..=3, arrive_strategy(), 0u8..=3)
		.prop_map(|(env, rel_off, k1, a1, k2, a2, claim_off, a3, slow)| S1 { env, rel_off, k1, a1, k2, a2, claim_off, a3, slow })
}

fn s1_enumeration() -> Vec<S1> {
	let mut v = vec![];
	for (ci, ctype) in [CType::Static, CType::Anchors, CType::ZeroFee].into_iter().enumerate() {
		for rel_off in -3i32..=3 {
			for claim_off in -3i32..=3 {
				for (ai, a3) in [Arrive::SinglePump, Arrive::Single, Arrive::Burst].into_iter().enumerate() {
					for (k1, k2) in [(0u8, 0u8), (2, 0), (0, 2), (1, 1)] {
						let s = (ci as i32 + ai as i32 + k1 as i32 + rel_off + 3 + claim_off + 3) as u8;
						v.push(S1 {
							env: Env { ctype, styles: vec![s % 11, (s / 2 + 4) % 11, 0], amt_msat: 5_000_777, cltv_delta: MIN_CLTV_EXPIRY_DELTA, fee_base_msat: 1000, fee_ppm: 0 },
							rel_off,
							k1,
							a1: if s % 2 == 0 { Arrive::Single } else { Arrive::Burst },
							k2,
							a2: if s % 3 == 0 { Arrive::Burst } else { Arrive::Single },
							claim_off,
							a3,
							slow: (s % 4) as u8,
						});
					}
				}
			}
		}
	}
	v
}

fn s1_oracle(c: &S1, ctx: &mut Ctx) -> CaseResult {
	constants_consistent().map_err(|e| Failure::new("constants", e))?;
	let spec = timing_world(Topology::Pair, c.env.ctype, c.env.cltv_delta, c.env.fee_base_msat, c.env.fee_ppm, &c.env.styles);
	let mut d = Drv::new(spec.build(false));
	let r = s1_inner(c, ctx, &mut d);
	fin(&d.sim, ctx, r)
}

fn s1_inner(c: &S1, ctx: &mut Ctx, d: &mut Drv) -> CaseResult {
	let (a, b) = (0usize, 1usize);
	let h0 = d.sim.height_of(a);
	let k = c.k1 as i64 + c.k2 as i64;
	let rel = ACCEPT_MIN_REL + c.rel_off as i64;
	// expiry = h0 + 1 + final_delta (the sender counts from the next block); decision height = h0 + k
	let fd = rel + k - 1;
	if fd < 0 {
		ctx.discard();
		return Ok(());
	}
	let p = d.sim.send_custom(a, &[0], c.env.amt_msat, fd as u32, 0, 0).ok_or_else(|| Failure::new("harness", "no route"))?;
	if d.sim.pays[p].state == PayState::Refused {
		// the sending API refusing is not a deadline decision
		ctx.label("s1:send-refused");
		ctx.discard();
		return Ok(());
	}
	let hash = d.sim.pays[p].hash;
	let expiry = h0 + 1 + fd as u32;
	// blocks while the update_add_htlc is still in flight
	d.advance_nopump(c.k1 as u32, c.a1);
	d.sim.flush_links(&[]);
	// blocks after the HTLC is irrevocably committed but before the receiver looks at it
	d.advance_nopump(c.k2 as u32, c.a2);
	let h_dec = d.sim.height_of(b);
	vensure!(h_dec as i64 == h0 as i64 + k, "harness", "decision height {} != {} + {}", h_dec, h0, k);
	d.pump();
	let t = Timeline::build(&d.sim);
	let on_wire = t.add_of(a, b, &hash).ok_or_else(|| Failure::new("harness", "no update_add_htlc on the wire"))?;
	vensure!(on_wire.cltv == expiry, "harness", "HTLC expiry {} != computed {}", on_wire.cltv, expiry);
	let claimable = t.claimable(b, &hash);
	let should_accept = rel >= ACCEPT_MIN_REL;
	ctx.label(if should_accept { "s1:expiry-acceptable" } else { "s1:expiry-too-soon" });
	ctx.label_if(c.rel_off.abs() <= 2, "s1:accept-boundary±2");
	// (a) never shown as claimable inside the buffer; an invoice-compliant HTLC is shown
	if !should_accept {
		vensure!(claimable.is_none(), "claimable-inside-buffer", "PaymentClaimable at height {} for an HTLC expiring at {} ({} blocks away; documented minimum is HTLC_FAIL_BACK_BUFFER {} + 2)", h_dec, expiry, rel, HTLC_FAIL_BACK_BUFFER);
		let f = t.fail_of(b, a, &hash);
		vensure!(f.is_some(), "no-upstream-failure", "HTLC expiring {} blocks after height {} was neither shown as claimable nor failed back", rel, h_dec);
		vensure!(t.failed(a, &hash) && !t.sent(a, &hash), "payer-outcome", "payer did not see the payment fail");
		vensure!(no_broadcasts(&d.sim) && d.sim.chan_open_at(a, 0) && d.sim.chan_open_at(b, 0), "channel-closed-needlessly", "a too-soon HTLC cost the channel");
		ctx.nontrivial_if(c.rel_off >= -2);
		ctx.summary(json!({"scenario": "S1", "expiry_minus_height": rel, "decision": "failed back", "type": format!("{:?}", c.env.ctype)}));
		return Ok(());
	}
	let Some((h_ev, deadline)) = claimable else {
		return Err(Failure::new("acceptable-htlc-rejected", format!("HTLC expiring at {} received at height {} ({} blocks, documented minimum {}) was not shown as claimable", expiry, h_dec, rel, ACCEPT_MIN_REL)));
	};
	vensure!(h_ev == h_dec, "harness", "claimable at unexpected height");
	// claim_deadline doc: "The block height at which this payment will be failed back"; buffer doc (1)
	let cd = expiry - HTLC_FAIL_BACK_BUFFER;
	vensure!(deadline == Some(cd), "claim-deadline-value", "claim_deadline {:?} but expiry {} - HTLC_FAIL_BACK_BUFFER {} = {}", deadline, expiry, HTLC_FAIL_BACK_BUFFER, cd);
	vensure!(cd > h_dec, "claim-deadline-already-passed", "PaymentClaimable at height {} with claim_deadline {}", h_dec, cd);
	// move to the claim height
	let h_claim = (cd as i64 + c.claim_off as i64).max(h_dec as i64) as u32;
	d.advance(h_claim - h_dec, c.a3);
	let t = Timeline::build(&d.sim);
	if let Some(f) = t.fail_of(b, a, &hash) {
		// (b) the node fails back only from claim_deadline on
		vensure!(f.h_from >= cd, "failed-back-before-deadline", "receiver failed the HTLC back at height {} but claim_deadline is {}", f.h_from, cd);
	}
	ctx.label_if((h_claim as i64 - cd as i64).abs() <= 2, "s1:claim-boundary±2");
	if h_claim < cd {
		ctx.label("s1:claim-before-deadline");
		vensure!(t.fail_of(b, a, &hash).is_none(), "failed-back-before-deadline", "failed back before height {}", cd);
		d.sim.claim(p);
		// the payer is slow: up to LATENCY_GRACE_PERIOD_BLOCKS pass before anything is delivered; the on-chain
		// trigger (expiry - CLTV_CLAIM_BUFFER) must not be reached, so the channel must survive
		let slow = (c.slow as u32).min(expiry - CLTV_CLAIM_BUFFER - 1 - h_claim);
		d.advance_nopump(slow, Arrive::Single);
		ctx.label_if(slow > 0, "s1:slow-payer");
		d.pump();
		let t = Timeline::build(&d.sim);
		vensure!(t.claimed(b, &hash), "claim-before-deadline-failed", "claim_funds at height {} < claim_deadline {} did not produce PaymentClaimed", h_claim, cd);
		vensure!(t.sent(a, &hash) && !t.failed(a, &hash), "claim-before-deadline-failed", "claim_funds at height {} < claim_deadline {}: payer did not get PaymentSent", h_claim, cd);
		vensure!(t.fail_of(b, a, &hash).is_none(), "claim-before-deadline-failed", "HTLC failed although claimed in time");
		vensure!(no_broadcasts(&d.sim) && d.sim.chan_open_at(a, 0) && d.sim.chan_open_at(b, 0), "closed-while-peer-merely-slow", "channel went on chain at height {} although the first trigger is expiry {} - CLTV_CLAIM_BUFFER {}", d.sim.height_of(b), expiry, CLTV_CLAIM_BUFFER);
	} else {
		ctx.label("s1:claim-at-or-after-deadline");
		d.pump();
		let t = Timeline::build(&d.sim);
		let f = t.fail_of(b, a, &hash).ok_or_else(|| Failure::new("not-failed-back-at-deadline", format!("height {} >= claim_deadline {} but the receiver did not fail the HTLC back", h_claim, cd)))?;
		if c.a3 == Arrive::SinglePump {
			vensure!(f.h_from == cd, "not-failed-back-at-deadline", "fail emitted at height {} instead of claim_deadline {}", f.h_from, cd);
		}
		// a late claim_funds must not claim anything any more
		d.sim.claim(p);
		d.pump();
		let t = Timeline::build(&d.sim);
		vensure!(!t.claimed(b, &hash) && !t.sent(a, &hash), "claimed-after-deadline", "payment claimed at height {} >= claim_deadline {}", h_claim, cd);
		vensure!(t.failed(a, &hash), "payer-outcome", "payer did not see the payment fail");
		vensure!(no_broadcasts(&d.sim) && d.sim.chan_open_at(a, 0) && d.sim.chan_open_at(b, 0), "channel-closed-needlessly", "an expired claimable payment cost the channel");
	}
	ctx.nontrivial_if(c.rel_off <= 2 || (h_claim as i64 - cd as i64).abs() <= 2);
	ctx.summary(json!({"scenario": "S1", "expiry_minus_height": rel, "claim_height_minus_deadline": h_claim as i64 - cd as i64, "type": format!("{:?}", c.env.ctype)}));
	Ok(())
}

impl Drv {
	fn advance_nopump(&mut self, n: u32, how: Arrive) {
		self.advance(n, if how == Arrive::SinglePump { Arrive::Single } else { how });
	}
}

// ---------------------------------------------------------------------------------------------------
// S2: forward admission
// ---------------------------------------------------------------------------------------------------

#[derive(Clone, Copy, Debug, Serialize, Deserialize, PartialEq, Eq)]
enum S2Mode {
	/// outgoing expiry = (H + 1) + LATENCY_GRACE_PERIOD_BLOCKS + 1 + off  (forwardable iff off >= 0)
	OutgoingSoon,
	/// incoming expiry = (H + 1) + CLTV_FAR_FAR_AWAY + off  (forwardable iff off <= 0)
	Far,
	/// comfortable expiries; off = (outgoing expiry - final node's height) - ACCEPT_MIN_REL (the final hop's rule)
	Mid,
}

#[derive(Clone, Debug, Serialize, Deserialize)]
struct S2 {
	env: Env,
	mode: S2Mode,
	off: i32,
	/// CLTV delta offered to the forwarder minus the one it advertises
	delta_adj: i32,
	/// fee offered minus the one it advertises
	fee_adj: i32,
	k1: u8,
	a1: Arrive,
	k2: u8,
	a2: Arrive,
}

fn s2_strategy() -> impl Strategy<Value = S2> + Clone {
	(
		env_strategy(),
		prop_oneof![Just(S2Mode::OutgoingSoon), Just(S2Mode::Far), Just(S2Mode::Mid)],
		-3i32..=3,
		prop_oneof![3 => Just(0i32), 4 => -3i32..=3, 1 => 0i32..40],
		prop_oneof![6 => Just(0i32), 1 => Just(-1i32), 1 => 0i32..3],
		0u8..4,
		arrive_strategy(),
		0u8..4,
		arrive_strategy(),
	)
		.prop_map(|(env, mode, off, delta_adj, fee_adj, k1, a1, k2, a2)| S2 { env, mode, off, delta_adj, fee_adj, k1, a1, k2, a2 })
}

fn s2_enumeration() -> Vec<S2> {
	let mut v = vec![];
	for (ci, ctype) in [CType::Static, CType::Anchors, CType::ZeroFee].into_iter().enumerate() {
		for mode in [S2Mode::OutgoingSoon, S2Mode::Far, S2Mode::Mid] {
			for off in -3i32..=3 {
				for delta_adj in -3i32..=3 {
					for (k1, k2) in [(0u8, 0u8), (2, 1)] {
						let s = (ci as i32 + off + 3 + delta_adj + 3 + k1 as i32) as u8;
						v.push(S2 {
							env: Env { ctype, styles: vec![s % 11, (s + 3) % 11, (s + 7) % 11], amt_msat: 5_000_777, cltv_delta: MIN_CLTV_EXPIRY_DELTA + (s % 3) as u16, fee_base_msat: 1000, fee_ppm: 100 },
							mode,
							off,
							delta_adj,
							fee_adj: 0,
							k1,
							a1: if s % 2 == 0 { Arrive::Single } else { Arrive::Burst },
							k2,
							a2: if s % 3 == 0 { Arrive::Burst } else { Arrive::Single },
						});
					}
				}
			}
		}
	}
	v
}

fn s2_oracle(c: &S2, ctx: &mut Ctx) -> CaseResult {
	constants_consistent().map_err(|e| Failure::new("constants", e))?;
	let spec = timing_world(Topology::Line3, c.env.ctype, c.env.cltv_delta, c.env.fee_base_msat, c.env.fee_ppm, &c.env.styles);
	let mut d = Drv::new(spec.build(false));
	let r = s2_inner(c, ctx, &mut d);
	fin(&d.sim, ctx, r)
}

fn s2_inner(c: &S2, ctx: &mut Ctx, d: &mut Drv) -> CaseResult {
	let (a, b, cc) = (0usize, 1usize, 2usize);
	let h0 = d.sim.height_of(a) as i64;
	let k = c.k1 as i64 + c.k2 as i64;
	let h = h0 + k; // forwarder's height when it decides
	let policy = c.env.cltv_delta as i64;
	let offered_delta = policy + c.delta_adj as i64;
	// outgoing expiry = h0 + 1 + final_delta; incoming = outgoing + offered_delta
	let fd: i64 = match c.mode {
		S2Mode::OutgoingSoon => (h + 1 + LATENCY_GRACE_PERIOD_BLOCKS as i64 + 1 + c.off as i64) - (h0 + 1),
		S2Mode::Far => (h + 1 + CLTV_FAR_FAR_AWAY as i64 + c.off as i64) - offered_delta - (h0 + 1),
		S2Mode::Mid => (h + ACCEPT_MIN_REL + c.off as i64) - (h0 + 1),
	};
	if fd < 0 || offered_delta < 0 {
		ctx.discard();
		return Ok(());
	}
	let p = d.sim.send_custom(a, &[0, 1], c.env.amt_msat, fd as u32, c.delta_adj, c.fee_adj as i64).ok_or_else(|| Failure::new("harness", "no route"))?;
	if d.sim.pays[p].state == PayState::Refused {
		ctx.label("s2:send-refused");
		ctx.discard();
		return Ok(());
	}
	let hash = d.sim.pays[p].hash;
	let out_exp = h0 + 1 + fd;
	let in_exp = out_exp + offered_delta;
	d.advance_nopump(c.k1 as u32, c.a1);
	// only the first hop's commitment dance completes; nobody decides anything yet
	d.sim.flush_links(&[]);
	d.advance_nopump(c.k2 as u32, c.a2);
	vensure!(d.sim.height_of(b) as i64 == h, "harness", "forwarder height {} != {}", d.sim.height_of(b), h);
	d.pump();
	let t = Timeline::build(&d.sim);
	let on_wire = t.add_of(a, b, &hash).ok_or_else(|| Failure::new("harness", "no update_add_htlc on the wire"))?;
	vensure!(on_wire.cltv as i64 == in_exp, "harness", "incoming expiry {} != computed {}", on_wire.cltv, in_exp);
	// The forwarding rules. cur = height of the next block (in which anything we do now can confirm).
	let cur = h + 1;
	let r_delta = in_exp < out_exp + policy; // BOLT 4 incorrect_cltv_expiry: below the advertised cltv_expiry_delta
	let r_soon = in_exp <= cur + HTLC_FAIL_BACK_BUFFER as i64; // "refuse to accept a new HTLC" within HTLC_FAIL_BACK_BUFFER
	let r_far = in_exp > cur + CLTV_FAR_FAR_AWAY as i64; // BOLT 4 expiry_too_far
	let r_out = out_exp <= cur + LATENCY_GRACE_PERIOD_BLOCKS as i64; // outgoing HTLC "expires ~now"
	let r_fee = c.fee_adj < 0;
	let should_forward = !(r_delta || r_soon || r_far || r_out || r_fee);
	for (on, l) in [(r_delta, "s2:rule:delta-too-small"), (r_soon, "s2:rule:incoming-too-soon"), (r_far, "s2:rule:too-far"), (r_out, "s2:rule:outgoing-too-soon"), (r_fee, "s2:rule:fee"), (should_forward, "s2:forwardable")] {
		ctx.label_if(on, l);
	}
	let fwd = t.add_of(b, cc, &hash);
	if r_fee && !(r_delta || r_soon || r_far || r_out) {
		// fee policy is C02's subject
		if fwd.is_some() {
			ctx.label("foreign-failure:C02:underpaid-forward");
		}
		return Ok(());
	}
	if !should_forward {
		vensure!(
			fwd.is_none(),
			"forwarded-inside-buffer",
			"forwarder at height {} relayed an HTLC with incoming expiry {} / outgoing expiry {} (policy delta {}; rules: delta-too-small={} incoming-too-soon={} too-far={} outgoing-too-soon={})",
			h,
			in_exp,
			out_exp,
			policy,
			r_delta,
			r_soon,
			r_far,
			r_out
		);
		vensure!(t.fail_of(b, a, &hash).is_some(), "no-upstream-failure", "HTLC neither forwarded nor failed back");
		vensure!(t.failed(a, &hash) && !t.sent(a, &hash), "payer-outcome", "payer did not see the payment fail");
		vensure!(t.claimable(cc, &hash).is_none(), "claimable-without-forward", "recipient saw a payment that was not forwarded");
	} else {
		let m = fwd.ok_or_else(|| Failure::new("acceptable-forward-rejected", format!("forwarder at height {} refused incoming expiry {} / outgoing {} (policy delta {}) although every documented threshold is met", h, in_exp, out_exp, policy)))?;
		vensure!(m.cltv as i64 == out_exp, "forwarded-wrong-expiry", "outgoing HTLC expires at {} but the onion says {}", m.cltv, out_exp);
		vensure!(m.h_from as i64 == h, "harness", "forward emitted at unexpected height");
		// the final hop's own rule (S1) at its height
		let rel_c = out_exp - d.sim.height_of(cc) as i64;
		let cl = t.claimable(cc, &hash);
		if rel_c >= ACCEPT_MIN_REL {
			let (_, dl) = cl.ok_or_else(|| Failure::new("acceptable-htlc-rejected", format!("final hop refused an HTLC expiring in {} blocks", rel_c)))?;
			vensure!(dl == Some(out_exp as u32 - HTLC_FAIL_BACK_BUFFER), "claim-deadline-value", "claim_deadline {:?} for expiry {}", dl, out_exp);
			d.sim.claim(p);
			d.pump();
			let t = Timeline::build(&d.sim);
			vensure!(t.claimed(cc, &hash) && t.sent(a, &hash), "claim-before-deadline-failed", "forwarded payment claimed in time did not complete");
		} else {
			vensure!(cl.is_none(), "claimable-inside-buffer", "final hop showed an HTLC expiring in {} blocks as claimable", rel_c);
			vensure!(t.failed(a, &hash), "payer-outcome", "payer did not see the payment fail");
		}
	}
	vensure!(no_broadcasts(&d.sim) && (0..2).all(|ch| d.sim.chan_open_at(b, ch)), "channel-closed-needlessly", "an admission decision cost a channel");
	let near = match c.mode {
		S2Mode::OutgoingSoon | S2Mode::Far | S2Mode::Mid => c.off.abs() <= 2,
	};
	ctx.label(match c.mode {
		S2Mode::OutgoingSoon => "s2:mode:outgoing-soon",
		S2Mode::Far => "s2:mode:far",
		S2Mode::Mid => "s2:mode:mid",
	});
	ctx.label_if(c.delta_adj.abs() <= 2 && c.delta_adj != 0, "s2:delta-boundary±2");
	ctx.nontrivial_if(near || c.delta_adj.abs() <= 2);
	ctx.summary(json!({"scenario": "S2", "mode": format!("{:?}", c.mode), "off": c.off, "delta_adj": c.delta_adj, "forwarded": fwd.is_some(), "type": format!("{:?}", c.env.ctype)}));
	Ok(())
}

// ---------------------------------------------------------------------------------------------------
// on-chain phases shared by S3 / S4
// ---------------------------------------------------------------------------------------------------

#[derive(Clone, Debug, Serialize, Deserialize)]
struct Delays {
	/// blocks until a broadcast commitment confirms (1..=MAX_BLOCKS_FOR_CONF), counted from the trigger height
	d_commit: u8,
	/// blocks until the HTLC output is resolved once a spend is minable (0..=MAX_BLOCKS_FOR_CONF)
	d_htlc: u8,
	/// the node crosses its trigger height inside a burst of 1 + cross_burst blocks (cross_burst < d_commit)
	cross_burst: u8,
}

fn delays_strategy() -> impl Strategy<Value = Delays> + Clone {
	(prop_oneof![2 => Just(MAX_BLOCKS_FOR_CONF as u8), 1 => Just(1u8), 3 => 1u8..=MAX_BLOCKS_FOR_CONF as u8], prop_oneof![2 => Just(MAX_BLOCKS_FOR_CONF as u8), 1 => Just(0u8), 3 => 0u8..=MAX_BLOCKS_FOR_CONF as u8], prop_oneof![3 => Just(0u8), 1 => 0u8..5])
		.prop_map(|(d_commit, d_htlc, cb)| Delays { d_commit, d_htlc, cross_burst: cb.min(d_commit - 1) })
}

impl Drv {
	/// one block according to the confirmation plan, then everybody reacts
	fn step_block(&mut self, plan: &ConfPlan, hash: &lightning::types::payment::PaymentHash) {
		let txs = next_block_txs(&self.sim, plan, hash);
		let nodes = self.chain_nodes.clone();
		self.sim.mine_for(txs, &nodes);
		self.pump();
	}
}

// ---------------------------------------------------------------------------------------------------
// S3: dead, slow or last-moment downstream peer
// ---------------------------------------------------------------------------------------------------

#[derive(Clone, Copy, Debug, Serialize, Deserialize, PartialEq, Eq)]
enum CMode {
	/// C never answers. stage: how far the B-C commitment dance got before C fell silent (0: C never saw the
	/// update_add_htlc; 1: C's revoke_and_ack / commitment_signed never arrive; 2: complete, C holds the payment)
	Silent { disconnect: bool, stage: u8 },
	/// C (not following the chain meanwhile) fulfils when B's height is outgoing expiry + at
	LateFulfill { at: i8 },
	/// C fails the HTLC when B's height is outgoing expiry + at
	LateFail { at: i8 },
	/// B-C disconnected; C knows the preimage and follows the chain again from B's height = outgoing expiry +
	/// wake; its on-chain claim competes with B's timeout and is preferred by the miner iff c_wins
	OnChain { wake: i8, c_wins: bool },
}

#[derive(Clone, Debug, Serialize, Deserialize)]
struct S3 {
	env: Env,
	/// the payment is below the dust limit (no HTLC output on any commitment)
	#[serde(default)]
	dust: bool,
	/// final CLTV delta = MIN_FINAL_CLTV_EXPIRY_DELTA + fd_extra
	fd_extra: u8,
	mode: CMode,
	delays: Delays,
	pre: Arrive,
	/// B is stopped and restarted from its current persisted state (manager written at that moment, monitors as
	/// persisted) when its height first reaches the on-chain trigger height + this many blocks
	#[serde(default)]
	restart_b: Option<u8>,
}

fn cmode_strategy() -> impl Strategy<Value = CMode> + Clone {
	prop_oneof![
		3 => (any::<bool>(), 0u8..=2).prop_map(|(disconnect, stage)| CMode::Silent { disconnect, stage }),
		2 => (-3i8..=3).prop_map(|at| CMode::LateFulfill { at }),
		2 => (-3i8..=3).prop_map(|at| CMode::LateFail { at }),
		3 => (prop_oneof![-3i8..=4, 4i8..30], any::<bool>()).prop_map(|(wake, c_wins)| CMode::OnChain { wake, c_wins }),
	]
}

fn s3_strategy() -> impl Strategy<Value = S3> + Clone {
	(env_strategy(), proptest::bool::weighted(0.12), prop_oneof![Just(0u8), 0u8..12], cmode_strategy(), delays_strategy(), arrive_strategy(), proptest::option::weighted(0.3, 0u8..26)).prop_map(|(env, dust, fd_extra, mode, delays, pre, restart_b)| S3 { env, dust, fd_extra, mode, delays, pre, restart_b })
}

fn fixed_env(ctype: CType, s: u8) -> Env {
	Env { ctype, styles: vec![s % 11, (s / 2 + 3) % 11, (s + 7) % 11], amt_msat: 5_000_777, cltv_delta: MIN_CLTV_EXPIRY_DELTA, fee_base_msat: 1000, fee_ppm: 0 }
}

const ENUM_DELAYS: [(u8, u8, u8); 4] = [(1, 0, 0), (18, 18, 0), (18, 1, 3), (6, 12, 0)];

fn s3_enumeration() -> Vec<S3> {
	let mut modes = vec![];
	for disconnect in [false, true] {
		for stage in 0u8..=2 {
			modes.push(CMode::Silent { disconnect, stage });
		}
	}
	for at in -3i8..=3 {
		modes.push(CMode::LateFulfill { at });
		modes.push(CMode::LateFail { at });
	}
	for wake in -3i8..=4 {
		for c_wins in [false, true] {
			modes.push(CMode::OnChain { wake, c_wins });
		}
	}
	let mut v = vec![];
	for ctype in [CType::Static, CType::Anchors, CType::ZeroFee] {
		for (mi, mode) in modes.iter().enumerate() {
			for (di, (d_commit, d_htlc, cross_burst)) in ENUM_DELAYS.iter().enumerate() {
				let s = (mi * 5 + di * 3) as u8;
				v.push(S3 { env: fixed_env(ctype, s), dust: false, fd_extra: (s % 3) as u8, mode: *mode, delays: Delays { d_commit: *d_commit, d_htlc: *d_htlc, cross_burst: *cross_burst }, pre: [Arrive::Burst, Arrive::Single, Arrive::SinglePump][(s % 3) as usize], restart_b: None });
			}
		}
	}
	v
}

fn s3_oracle(c: &S3, ctx: &mut Ctx) -> CaseResult {
	constants_consistent().map_err(|e| Failure::new("constants", e))?;
	let spec = timing_world(Topology::Line3, c.env.ctype, c.env.cltv_delta, c.env.fee_base_msat, c.env.fee_ppm, &c.env.styles);
	let mut d = Drv::new(spec.build(false));
	let r = s3_inner(c, ctx, &mut d);
	fin(&d.sim, ctx, r)
}

fn s3_inner(c: &S3, ctx: &mut Ctx, d: &mut Drv) -> CaseResult {
	let (a, b, cn) = (0usize, 1usize, 2usize);
	let grace = LATENCY_GRACE_PERIOD_BLOCKS;
	let fd = MIN_FINAL_CLTV_EXPIRY_DELTA as u32 + c.fd_extra as u32;
	let amt = if c.dust { 100_777 } else { c.env.amt_msat };
	ctx.label_if(c.dust, "s3:dust-htlc");
	let p = d.sim.send_custom(a, &[0, 1], amt, fd, 0, 0).ok_or_else(|| Failure::new("harness", "no route"))?;
	vensure!(d.sim.pays[p].state != PayState::Refused, "harness", "send refused");
	let hash = d.sim.pays[p].hash;
	let stage = match c.mode {
		CMode::Silent { stage, .. } => stage,
		_ => 2,
	};
	match stage {
		0 => d.blocked = vec![(b, cn), (cn, b)],
		1 => d.blocked = vec![(cn, b)],
		_ => {},
	}
	d.pump();
	let t = Timeline::build(&d.sim);
	let in_exp = t.add_of(a, b, &hash).ok_or_else(|| Failure::new("harness", "no incoming add"))?.cltv;
	let out_add = t.add_of(b, cn, &hash).ok_or_else(|| Failure::new("acceptable-forward-rejected", "a forward with the advertised delta and the minimum final delta was not relayed"))?.clone();
	let out_exp = out_add.cltv;
	vensure!(in_exp >= out_exp + c.env.cltv_delta as u32, "harness", "expiries");
	if stage == 2 {
		vensure!(t.claimable(cn, &hash).is_some(), "acceptable-htlc-rejected", "final hop refused a payment with the minimum final CLTV delta");
	}
	// what C does
	let mut action_at: Option<i64> = None;
	match c.mode {
		CMode::Silent { disconnect, .. } => {
			if disconnect {
				d.sim.disconnect(b, cn);
			} else {
				d.blocked = vec![(b, cn), (cn, b)];
			}
		},
		CMode::LateFulfill { at } | CMode::LateFail { at } => {
			d.chain_nodes = vec![a, b];
			action_at = Some(out_exp as i64 + at as i64);
		},
		CMode::OnChain { wake, .. } => {
			d.sim.disconnect(b, cn);
			d.chain_nodes = vec![a, b];
			d.sim.claim(p);
			action_at = Some(out_exp as i64 + wake as i64);
		},
	}
	let trigger = out_exp + grace; // outbound HTLC: on chain LATENCY_GRACE_PERIOD_BLOCKS after expiry
	let htlc_sat = out_add.amt_msat / 1000;
	let prefer = match c.mode {
		CMode::OnChain { c_wins: true, .. } => Some(cn),
		_ => Some(b),
	};
	let mut plan = ConfPlan { d_commit: c.delays.d_commit as u32, d_htlc: c.delays.d_htlc as u32, prefer, htlc_sat };
	// quiet phase up to a few blocks before anything is due
	let h_now = d.sim.height_of(b);
	d.advance(out_exp - 4 - h_now, c.pre);
	d.pump();
	vensure!(no_broadcasts(&d.sim), "closed-while-peer-merely-slow", "something went on chain {} blocks before the outgoing HTLC expires", 4);
	let end = in_exp + grace + 2;
	let mut acted = action_at.is_none();
	let mut crossed = false;
	let mut restarted = false;
	while d.sim.chain.height() < end {
		let hb = d.sim.height_of(b);
		if !crossed && hb + 1 == trigger && c.delays.cross_burst > 0 && d.sim.chain.mempool.is_empty() && acted_or_later(acted, action_at, trigger + c.delays.cross_burst as u32) {
			crossed = true;
			let nodes = d.chain_nodes.clone();
			d.sim.mine_burst_for(1 + c.delays.cross_burst as u32, &nodes);
			d.pump();
			// the commitment's confirmation deadline counts from the trigger height, not from when B noticed
			plan.d_commit = (c.delays.d_commit - c.delays.cross_burst) as u32;
			ctx.label("s3:trigger-crossed-in-burst");
		} else {
			d.step_block(&plan, &hash);
		}
		if let Some(off) = c.restart_b {
			if !restarted && d.sim.height_of(b) >= trigger + off as u32 {
				restarted = true;
				ctx.label("s3:forwarder-restarted-during-resolution");
				let up_connected = d.sim.is_connected(a, b);
				d.sim.snapshot_manager(b);
				if let Err(e) = d.sim.restart(b, 0, false) {
					vfail!("harness", "restart of B from its current persisted state failed: {}", e);
				}
				if up_connected {
					d.sim.reconnect(a, b);
				}
				d.pump();
			}
		}
		if !acted && d.sim.height_of(b) as i64 >= action_at.unwrap() {
			acted = true;
			match c.mode {
				CMode::LateFulfill { .. } => d.sim.claim(p),
				CMode::LateFail { .. } => d.sim.fail_back(p),
				CMode::OnChain { .. } => {
					d.chain_nodes = vec![a, b, cn];
					d.sim.catch_up(cn, false);
				},
				_ => {},
			}
			d.pump();
		}
	}
	// ------------------------------------------------------------------ oracles
	let t = Timeline::build(&d.sim);
	let view = chain_view(&d.sim, htlc_sat, &hash);
	let b_commit = t.first_commit_broadcast(&d.sim, b, 1);
	// what C's answer achieved off chain: it counts only if B received it while the B-C channel was still open
	// (the error B sends when it force-closes reaches C immediately; ChannelClosed follows the broadcast decision)
	let b_closed_1 = t.closure_step(&d.sim, b, 1);
	let fulfilled_offchain = t.delivered_before(true, cn, b, &hash, b_closed_1).is_some();
	let failed_offchain = t.delivered_before(false, cn, b, &hash, b_closed_1).is_some() && matches!(c.mode, CMode::LateFail { .. });
	// (c) the holder commitment goes on chain within the grace period after the outgoing HTLC expired, not before
	// (the first moment B can act on height `trigger` is the first time it processes events at a height >= trigger:
	// `trigger` itself, or the end of the burst in which it crossed that height)
	let act_height = if crossed { trigger + c.delays.cross_burst as u32 } else { trigger };
	if let Some((h, _, _)) = b_commit {
		vensure!(h >= trigger, "onchain-too-early", "B broadcast its commitment at height {} but the outgoing HTLC expires at {} (+{} grace)", h, out_exp, grace);
		vensure!(h <= act_height, "onchain-too-late", "B broadcast its commitment only at height {}, the outgoing HTLC expired at {}, the grace period ended at {} and B could act at {}", h, out_exp, trigger, act_height);
		vensure!(!(matches!(c.mode, CMode::LateFulfill { at } | CMode::LateFail { at } if (out_exp as i64 + at as i64) < trigger as i64)), "closed-while-peer-merely-slow", "B went on chain although C resolved the HTLC at height {} < {}", action_at.unwrap(), trigger);
		if let CMode::LateFulfill { at } | CMode::LateFail { at } = c.mode {
			vensure!((out_exp as i64 + at as i64) >= trigger as i64 && !fulfilled_offchain && !failed_offchain, "harness", "answer before the trigger yet B closed");
		}
	} else {
		let c_commit_first = view.commit_confirmed.get(&1).map(|x| x.1 <= trigger).unwrap_or(false);
		vensure!(fulfilled_offchain || failed_offchain || c_commit_first, "onchain-too-late", "outgoing HTLC expired at {} and was never resolved, yet B did not go on chain by {}", out_exp, trigger);
	}
	// downstream outcome
	let onchain_preimage = view.htlc_spend.get(&1).map(|x| x.3).unwrap_or(false);
	let downstream_fulfilled = fulfilled_offchain || onchain_preimage;
	// (d) never "paid downstream, not paid upstream"; the upstream channel survives
	if downstream_fulfilled {
		ctx.label(if onchain_preimage { "s3:downstream-claimed-on-chain" } else { "s3:downstream-fulfilled-late" });
		vensure!(t.sent(a, &hash) && !t.failed(a, &hash), "lost-upstream-htlc", "C was paid (on chain: {}) but B did not claim the incoming HTLC (expiry {}) from A", onchain_preimage, in_exp);
	} else {
		ctx.label(if failed_offchain { "s3:downstream-failed-late" } else { "s3:downstream-timed-out" });
		vensure!(t.failed(a, &hash) && !t.sent(a, &hash), "upstream-not-failed", "the outgoing HTLC timed out / failed but A never saw the payment fail (incoming expiry {}, height now {})", in_exp, d.sim.height_of(a));
	}
	for n in [a, b] {
		vensure!(t.closed(&d.sim, n, 0).is_none() && d.sim.chan_open_at(n, 0), "upstream-channel-lost", "channel A-B closed at node {}: {:?}", n, t.closed(&d.sim, n, 0));
	}
	vensure!(view.commit_broadcast.get(&0).is_none(), "upstream-channel-lost", "a commitment of channel A-B was broadcast");
	// (e) a timeout is passed upstream only once buried by ANTI_REORG_DELAY, and before A would act (in_exp + grace)
	if !downstream_fulfilled && !failed_offchain {
		let f = t.fail_of(b, a, &hash).ok_or_else(|| Failure::new("upstream-not-failed", "no update_fail_htlc B->A"))?;
		let (_, conf_h) = *view.commit_confirmed.get(&1).ok_or_else(|| Failure::new("harness", "no commitment confirmed"))?;
		let buried_from = match (view.htlc_outpoint.get(&1), view.htlc_spend.get(&1)) {
			(Some(_), Some((_, sh, _, _))) => *sh,
			(Some(_), None) => return Err(Failure::new("htlc-output-unresolved", format!("the HTLC output of the confirmed commitment was never spent although the HTLC expired at {}", out_exp))),
			// the HTLC never made it into the confirmed commitment: the commitment itself resolves it
			(None, _) => {
				ctx.label("s3:htlc-not-in-confirmed-commitment");
				conf_h
			},
		};
		vensure!(f.h_from + 1 >= buried_from + ANTI_REORG_DELAY, "failed-upstream-before-buried", "B failed the incoming HTLC at height {} but the downstream timeout confirmed at {} (needs {} confirmations)", f.h_from, buried_from, ANTI_REORG_DELAY);
		vensure!(f.h_from < in_exp + grace, "failed-upstream-too-late", "B failed the incoming HTLC (expiry {}) only at height {}", in_exp, f.h_from);
		ctx.label_if(f.h_from + 2 * grace >= in_exp, "s3:upstream-failed-within-6-blocks-of-its-expiry");
		ctx.label_if(c.delays.d_commit as u32 + c.delays.d_htlc as u32 >= 2 * MAX_BLOCKS_FOR_CONF - 2, "s3:max-confirmation-delays");
	}
	ctx.label(match c.mode {
		CMode::Silent { stage: 2, .. } => "s3:silent",
		CMode::Silent { .. } => "s3:silent-awaiting-commitment",
		CMode::LateFulfill { .. } => "s3:late-fulfill",
		CMode::LateFail { .. } => "s3:late-fail",
		CMode::OnChain { .. } => "s3:on-chain-race",
	});
	ctx.label_if(b_commit.is_some(), "s3:B-went-on-chain");
	ctx.label_if(b_commit.is_none() && view.commit_confirmed.contains_key(&1), "s3:only-C-went-on-chain");
	ctx.nontrivial_if(b_commit.is_some() || matches!(c.mode, CMode::LateFulfill { .. } | CMode::LateFail { .. }));
	ctx.summary(json!({"scenario": "S3", "mode": format!("{:?}", c.mode), "delays": format!("{:?}", c.delays), "delta": c.env.cltv_delta, "type": format!("{:?}", c.env.ctype), "b_commit_height_minus_out_expiry": b_commit.map(|x| x.0 as i64 - out_exp as i64)}));
	Ok(())
}

fn acted_or_later(acted: bool, action_at: Option<i64>, after_burst: u32) -> bool {
	// do not let a burst jump over the scheduled action of C
	acted || action_at.map(|x| x > after_burst as i64).unwrap_or(true)
}

// ---------------------------------------------------------------------------------------------------
// S4: receiver holding a preimage, upstream peer dead or slow
// ---------------------------------------------------------------------------------------------------

#[derive(Clone, Copy, Debug, Serialize, Deserialize, PartialEq, Eq)]
enum Dead {
	/// the connection drops before claim_funds
	Disconnected,
	/// update_fulfill_htlc / commitment_signed never reach the payer
	NothingDelivered,
	/// the payer receives the fulfil but its answers never arrive
	NoAnswer,
}

#[derive(Clone, Debug, Serialize, Deserialize)]
struct S4 {
	env: Env,
	fd_extra: u8,
	dead: Dead,
	/// the payer comes back when the receiver's height is (expiry - CLTV_CLAIM_BUFFER) + back; None = never
	back: Option<i8>,
	delays: Delays,
	pre: Arrive,
}

fn s4_strategy() -> impl Strategy<Value = S4> + Clone {
	(
		env_strategy(),
		prop_oneof![Just(0u8), 0u8..20],
		prop_oneof![Just(Dead::Disconnected), Just(Dead::NothingDelivered), Just(Dead::NoAnswer)],
		prop_oneof![2 => Just(None), 3 => (-3i8..=2).prop_map(Some)],
		delays_strategy(),
		arrive_strategy(),
	)
		.prop_map(|(env, fd_extra, dead, back, delays, pre)| S4 { env, fd_extra, dead, back, delays, pre })
}

fn s4_enumeration() -> Vec<S4> {
	let mut v = vec![];
	for ctype in [CType::Static, CType::Anchors, CType::ZeroFee] {
		for (i, dead) in [Dead::Disconnected, Dead::NothingDelivered, Dead::NoAnswer].into_iter().enumerate() {
			for back in [None, Some(-3i8), Some(-2), Some(-1), Some(0), Some(1), Some(2)] {
				for (di, (d_commit, d_htlc, cross_burst)) in ENUM_DELAYS.iter().enumerate() {
					let s = (i as i32 * 7 + di as i32 * 3 + back.unwrap_or(5) as i32 + 3) as u8;
					v.push(S4 { env: fixed_env(ctype, s), fd_extra: (s % 4) as u8, dead, back, delays: Delays { d_commit: *d_commit, d_htlc: *d_htlc, cross_burst: *cross_burst }, pre: [Arrive::Burst, Arrive::Single, Arrive::SinglePump][(s % 3) as usize] });
				}
			}
		}
	}
	v
}

fn s4_oracle(c: &S4, ctx: &mut Ctx) -> CaseResult {
	constants_consistent().map_err(|e| Failure::new("constants", e))?;
	let spec = timing_world(Topology::Pair, c.env.ctype, c.env.cltv_delta, c.env.fee_base_msat, c.env.fee_ppm, &c.env.styles);
	let mut d = Drv::new(spec.build(false));
	let r = s4_inner(c, ctx, &mut d);
	fin(&d.sim, ctx, r)
}

fn s4_inner(c: &S4, ctx: &mut Ctx, d: &mut Drv) -> CaseResult {
	let (a, b) = (0usize, 1usize);
	let fd = MIN_FINAL_CLTV_EXPIRY_DELTA as u32 + c.fd_extra as u32;
	let p = d.sim.send_custom(a, &[0], c.env.amt_msat, fd, 0, 0).ok_or_else(|| Failure::new("harness", "no route"))?;
	vensure!(d.sim.pays[p].state != PayState::Refused, "harness", "send refused");
	let hash = d.sim.pays[p].hash;
	d.pump();
	let t = Timeline::build(&d.sim);
	let add = t.add_of(a, b, &hash).ok_or_else(|| Failure::new("harness", "no add"))?.clone();
	let expiry = add.cltv;
	vensure!(t.claimable(b, &hash).is_some(), "acceptable-htlc-rejected", "receiver refused a payment with the minimum final CLTV delta");
	match c.dead {
		Dead::Disconnected => d.sim.disconnect(a, b),
		Dead::NothingDelivered => d.blocked = vec![(b, a), (a, b)],
		Dead::NoAnswer => d.blocked = vec![(a, b)],
	}
	d.sim.claim(p);
	d.pump();
	// inbound HTLC with a known preimage: on chain once expiry - height <= CLTV_CLAIM_BUFFER
	let trigger = expiry - CLTV_CLAIM_BUFFER;
	let back_at = c.back.map(|x| trigger as i64 + x as i64);
	let htlc_sat = add.amt_msat / 1000;
	let mut plan = ConfPlan { d_commit: c.delays.d_commit as u32, d_htlc: c.delays.d_htlc as u32, prefer: Some(b), htlc_sat };
	let h_now = d.sim.height_of(b);
	d.advance(trigger - 4 - h_now, c.pre);
	d.pump();
	vensure!(no_broadcasts(&d.sim), "closed-while-peer-merely-slow", "the receiver went on chain at height {} although expiry {} - CLTV_CLAIM_BUFFER {} = {}", d.sim.height_of(b), expiry, CLTV_CLAIM_BUFFER, trigger);
	let end = expiry + LATENCY_GRACE_PERIOD_BLOCKS + 2;
	let mut returned = back_at.is_none();
	let mut crossed = false;
	while d.sim.chain.height() < end {
		let hb = d.sim.height_of(b);
		if !crossed && hb + 1 == trigger && c.delays.cross_burst > 0 && acted_or_later(returned, back_at, trigger + c.delays.cross_burst as u32) {
			crossed = true;
			let nodes = d.chain_nodes.clone();
			d.sim.mine_burst_for(1 + c.delays.cross_burst as u32, &nodes);
			d.pump();
			plan.d_commit = (c.delays.d_commit - c.delays.cross_burst) as u32;
			ctx.label("s4:trigger-crossed-in-burst");
		} else {
			d.step_block(&plan, &hash);
		}
		if !returned && d.sim.height_of(b) as i64 >= back_at.unwrap() {
			returned = true;
			d.blocked.clear();
			if c.dead == Dead::Disconnected {
				d.sim.reconnect(a, b);
			}
			d.pump();
		}
	}
	let t = Timeline::build(&d.sim);
	let view = chain_view(&d.sim, htlc_sat, &hash);
	let b_commit = t.first_commit_broadcast(&d.sim, b, 0);
	let in_time = matches!(c.back, Some(x) if x < 0);
	let act_height = if crossed { trigger + c.delays.cross_burst as u32 } else { trigger };
	vensure!(t.claimed(b, &hash), "claim-before-deadline-failed", "claim_funds long before claim_deadline but no PaymentClaimed");
	if in_time {
		// merely slow: the payer answered before the trigger height; nothing may go on chain
		ctx.label("s4:payer-back-in-time");
		vensure!(b_commit.is_none() && no_broadcasts(&d.sim), "closed-while-peer-merely-slow", "the payer answered at height {} < {} but the channel went on chain", back_at.unwrap(), trigger);
		vensure!(d.sim.chan_open_at(a, 0) && d.sim.chan_open_at(b, 0), "closed-while-peer-merely-slow", "channel closed");
		vensure!(t.sent(a, &hash) && !t.failed(a, &hash), "claim-before-deadline-failed", "payer did not get PaymentSent");
	} else {
		ctx.label(if c.back.is_some() { "s4:payer-back-too-late" } else { "s4:payer-dead" });
		// (c) inbound + preimage: first broadcast no later than expiry - CLTV_CLAIM_BUFFER, and not before
		let (h, _, _) = b_commit.ok_or_else(|| Failure::new("onchain-too-late", format!("receiver knows the preimage, HTLC expires at {}, but it never went on chain (trigger {})", expiry, trigger)))?;
		vensure!(h >= trigger, "onchain-too-early", "receiver broadcast at height {} < expiry {} - CLTV_CLAIM_BUFFER {}", h, expiry, CLTV_CLAIM_BUFFER);
		vensure!(h <= act_height, "onchain-too-late", "receiver broadcast only at height {}; expiry {} - CLTV_CLAIM_BUFFER {} = {} (could act at {})", h, expiry, CLTV_CLAIM_BUFFER, trigger, act_height);
		// with both confirmations inside MAX_BLOCKS_FOR_CONF the preimage claim confirms before the payer can time out
		let (ctxid, conf_h) = *view.commit_confirmed.get(&0).ok_or_else(|| Failure::new("harness", "no commitment confirmed"))?;
		if view.htlc_outpoint.get(&0).is_none() {
			// the payer's commitment without the HTLC confirmed (it had received the fulfil): the receiver's balance
			// on it must already include the HTLC
			ctx.label("s4:settled-in-payers-commitment");
			let want = (d.sim.chans[0].push_msat + add.amt_msat) / 1000;
			let tx = &d.sim.chain.confirmed[&ctxid].0;
			vensure!(tx.output.iter().any(|o| o.value.to_sat() == want), "lost-inbound-htlc", "confirmed commitment {} (height {}) has neither the HTLC output nor an output of {} sat for the receiver", ctxid, conf_h, want);
			vensure!(conf_h <= expiry, "lost-inbound-htlc", "commitment confirmed at {} > expiry {}", conf_h, expiry);
		} else {
			let spend = view.htlc_spend.get(&0).ok_or_else(|| Failure::new("htlc-output-unresolved", format!("no spend of the HTLC output confirmed by height {}", d.sim.chain.height())))?;
			vensure!(spend.3, "lost-inbound-htlc", "the HTLC output was spent without the preimage (tx {} at height {})", spend.0, spend.1);
			vensure!(spend.1 <= expiry, "lost-inbound-htlc", "preimage claim confirmed at {} > expiry {}", spend.1, expiry);
			ctx.label_if(spend.1 == expiry, "s4:claim-confirmed-in-last-block");
		}
		vensure!(t.sent(a, &hash) && !t.failed(a, &hash), "payer-outcome", "payer did not learn the preimage");
	}
	ctx.nontrivial_if(b_commit.is_some() || in_time);
	ctx.summary(json!({"scenario": "S4", "dead": format!("{:?}", c.dead), "back": c.back, "delays": format!("{:?}", c.delays), "type": format!("{:?}", c.env.ctype), "broadcast_height_minus_trigger": b_commit.map(|x| x.0 as i64 - trigger as i64)}));
	Ok(())
}

// ---------------------------------------------------------------------------------------------------
// S5: HTLC held back (holding cell) while its expiry nears
// ---------------------------------------------------------------------------------------------------

#[derive(Clone, Copy, Debug, Serialize, Deserialize, PartialEq, Eq)]
enum Hold {
	/// the forwarder waits for a revoke_and_ack of the downstream peer
	AwaitingRaa,
	/// a ChannelMonitor update of the downstream channel is still being persisted
	MonitorUpdate,
}

#[derive(Clone, Debug, Serialize, Deserialize)]
struct S5 {
	env: Env,
	fd_extra: u8,
	hold: Hold,
	/// the blockage ends when the forwarder's height is (outgoing expiry - LATENCY_GRACE_PERIOD_BLOCKS) + release
	release: Option<i8>,
	pre: Arrive,
}

fn s5_strategy() -> impl Strategy<Value = S5> + Clone {
	(env_strategy(), prop_oneof![Just(0u8), 0u8..10], prop_oneof![Just(Hold::AwaitingRaa), Just(Hold::MonitorUpdate)], prop_oneof![1 => Just(None), 4 => (-3i8..=3).prop_map(Some)], arrive_strategy())
		.prop_map(|(env, fd_extra, hold, release, pre)| S5 { env, fd_extra, hold, release, pre })
}

fn s5_enumeration() -> Vec<S5> {
	let mut v = vec![];
	for ctype in [CType::Static, CType::Anchors, CType::ZeroFee] {
		for hold in [Hold::AwaitingRaa, Hold::MonitorUpdate] {
			for release in [None, Some(-3i8), Some(-2), Some(-1), Some(0), Some(1), Some(2), Some(3)] {
				for (pi, pre) in [Arrive::Burst, Arrive::Single, Arrive::SinglePump].into_iter().enumerate() {
					let s = (pi as i32 * 3 + release.unwrap_or(4) as i32 + 3) as u8;
					v.push(S5 { env: fixed_env(ctype, s), fd_extra: (s % 4) as u8, hold, release, pre });
				}
			}
		}
	}
	v
}

fn s5_oracle(c: &S5, ctx: &mut Ctx) -> CaseResult {
	constants_consistent().map_err(|e| Failure::new("constants", e))?;
	let spec = timing_world(Topology::Line3, c.env.ctype, c.env.cltv_delta, c.env.fee_base_msat, c.env.fee_ppm, &c.env.styles);
	let mut d = Drv::new(spec.build(false));
	let r = s5_inner(c, ctx, &mut d);
	fin(&d.sim, ctx, r)
}

fn s5_inner(c: &S5, ctx: &mut Ctx, d: &mut Drv) -> CaseResult {
	let (a, b, cn) = (0usize, 1usize, 2usize);
	let grace = LATENCY_GRACE_PERIOD_BLOCKS;
	let fd = MIN_FINAL_CLTV_EXPIRY_DELTA as u32 + c.fd_extra as u32;
	let chan1 = d.sim.chans[1].id;
	// make the downstream channel busy with an unrelated, long-dated payment B -> C
	match c.hold {
		Hold::AwaitingRaa => d.blocked = vec![(cn, b)],
		Hold::MonitorUpdate => d.sim.w.set_async(b, Some(chan1), true),
	}
	let p0 = d.sim.send_custom(b, &[1], 3_000_333, fd + 300, 0, 0).ok_or_else(|| Failure::new("harness", "no route"))?;
	vensure!(d.sim.pays[p0].state != PayState::Refused, "harness", "send refused");
	d.pump();
	let h0 = d.sim.height_of(a);
	let p = d.sim.send_custom(a, &[0, 1], c.env.amt_msat, fd, 0, 0).ok_or_else(|| Failure::new("harness", "no route"))?;
	vensure!(d.sim.pays[p].state != PayState::Refused, "harness", "send refused");
	let hash = d.sim.pays[p].hash;
	d.pump();
	let t = Timeline::build(&d.sim);
	let in_exp = t.add_of(a, b, &hash).ok_or_else(|| Failure::new("harness", "no add"))?.cltv;
	let out_exp = h0 + 1 + fd;
	if t.add_of(b, cn, &hash).is_some() || t.fail_of(b, a, &hash).is_some() {
		ctx.label("s5:not-held");
		ctx.discard();
		return Ok(());
	}
	// a held-back HTLC is given up once out_exp <= height + LATENCY_GRACE_PERIOD_BLOCKS ("our counterparty should
	// almost certainly just fail it for expiring ~now")
	let limit = out_exp - grace;
	let release_at = c.release.map(|r| limit as i64 + r as i64);
	let h_now = d.sim.height_of(b);
	d.advance(limit - 4 - h_now, c.pre);
	d.pump();
	let t = Timeline::build(&d.sim);
	vensure!(t.fail_of(b, a, &hash).is_none(), "held-htlc-failed-early", "held HTLC failed back at height {} although its outgoing expiry is {}", d.sim.height_of(b), out_exp);
	let mut released = release_at.is_none();
	let end = limit + 5;
	while d.sim.chain.height() < end {
		let nodes = d.chain_nodes.clone();
		d.sim.mine_for(vec![], &nodes);
		d.pump();
		if !released && d.sim.height_of(b) as i64 >= release_at.unwrap() {
			released = true;
			match c.hold {
				Hold::AwaitingRaa => d.blocked.clear(),
				Hold::MonitorUpdate => {
					d.sim.complete_all_updates(b);
					d.sim.w.set_async(b, Some(chan1), false);
				},
			}
			d.pump();
		}
	}
	let t = Timeline::build(&d.sim);
	let fwd = t.add_of(b, cn, &hash);
	let failed = t.fail_of(b, a, &hash);
	// (a) never offered downstream inside the buffer
	if let Some(m) = fwd {
		vensure!(out_exp > m.h_from + grace, "forwarded-inside-buffer", "held HTLC released to the downstream peer at height {} with expiry {} (within LATENCY_GRACE_PERIOD_BLOCKS {})", m.h_from, out_exp, grace);
		vensure!(m.cltv == out_exp, "forwarded-wrong-expiry", "outgoing expiry {} != {}", m.cltv, out_exp);
		ctx.label("s5:released-in-time");
	}
	let in_time = matches!(release_at, Some(r) if r < limit as i64);
	if in_time {
		vensure!(fwd.is_some(), "held-htlc-not-forwarded", "blockage ended at height {} < {} but the HTLC was not forwarded", release_at.unwrap(), limit);
	} else {
		// instead an upstream failure, as soon as the limit height is reached
		let f = failed.ok_or_else(|| Failure::new("held-htlc-not-failed", format!("held HTLC (outgoing expiry {}) neither forwarded nor failed back by height {}", out_exp, d.sim.height_of(b))))?;
		vensure!(f.h_from >= limit, "held-htlc-failed-early", "failed at {} < {}", f.h_from, limit);
		vensure!(f.h_from == limit, "held-htlc-not-failed", "held HTLC failed back only at height {}; limit was {}", f.h_from, limit);
		vensure!(fwd.is_none(), "forwarded-inside-buffer", "held HTLC both failed back and forwarded");
		vensure!(t.failed(a, &hash), "payer-outcome", "payer did not see the failure");
		ctx.label("s5:timed-out-in-holding-cell");
	}
	vensure!(d.sim.chan_open_at(a, 0) && d.sim.chan_open_at(b, 0) && d.sim.chan_open_at(b, 1) && no_broadcasts(&d.sim), "channel-closed-needlessly", "a held HTLC cost a channel (incoming expiry {})", in_exp);
	ctx.label(match c.hold {
		Hold::AwaitingRaa => "s5:hold:awaiting-raa",
		Hold::MonitorUpdate => "s5:hold:monitor-update",
	});
	ctx.nontrivial_if(c.release.map(|r| r.abs() <= 2).unwrap_or(true));
	ctx.summary(json!({"scenario": "S5", "hold": format!("{:?}", c.hold), "release": c.release, "type": format!("{:?}", c.env.ctype)}));
	Ok(())
}

// ---------------------------------------------------------------------------------------------------
// S6: a payment received in two parts with different expiries
// ---------------------------------------------------------------------------------------------------

#[derive(Clone, Debug, Serialize, Deserialize)]
struct S6 {
	env: Env,
	/// the earlier-expiring part leaves this many blocks above the acceptance minimum at the decision height
	rel_off: u8,
	/// the other part expires this many blocks later
	gap: u8,
	/// which channel carries the earlier-expiring part
	early_on_second: bool,
	split_permille: u16,
	claim_off: i32,
	a3: Arrive,
}

fn s6_strategy() -> impl Strategy<Value = S6> + Clone {
	(env_strategy(), 0u8..6, prop_oneof![Just(0u8), 1u8..4, 4u8..40], any::<bool>(), 100u16..900, -4i32..=3, arrive_strategy())
		.prop_map(|(env, rel_off, gap, early_on_second, split_permille, claim_off, a3)| S6 { env, rel_off, gap, early_on_second, split_permille, claim_off, a3 })
}

fn s6_enumeration() -> Vec<S6> {
	let mut v = vec![];
	for (ci, ctype) in [CType::Static, CType::Anchors, CType::ZeroFee].into_iter().enumerate() {
		for gap in [0u8, 1, 2, 7] {
			for early_on_second in [false, true] {
				for claim_off in -3i32..=3 {
					for a3 in [Arrive::SinglePump, Arrive::Single, Arrive::Burst] {
						let s = (ci as i32 + gap as i32 + claim_off + 3) as u8;
						v.push(S6 { env: Env { ctype, styles: vec![s % 11, (s / 2 + 4) % 11, 0], amt_msat: 8_000_777, cltv_delta: MIN_CLTV_EXPIRY_DELTA, fee_base_msat: 1000, fee_ppm: 0 }, rel_off: s % 4, gap, early_on_second, split_permille: 400, claim_off, a3 });
					}
				}
			}
		}
	}
	v
}

fn s6_oracle(c: &S6, ctx: &mut Ctx) -> CaseResult {
	constants_consistent().map_err(|e| Failure::new("constants", e))?;
	let spec = timing_world(Topology::Line3Parallel, c.env.ctype, c.env.cltv_delta, c.env.fee_base_msat, c.env.fee_ppm, &c.env.styles);
	let mut d = Drv::new(spec.build(false));
	let r = s6_inner(c, ctx, &mut d);
	fin(&d.sim, ctx, r)
}

fn s6_inner(c: &S6, ctx: &mut Ctx, d: &mut Drv) -> CaseResult {
	// Line3Parallel: channels 1 and 2 both connect node 1 (payer) and node 2 (recipient)
	let (a, b) = (1usize, 2usize);
	let h0 = d.sim.height_of(a);
	let fd_early = (ACCEPT_MIN_REL + c.rel_off as i64 - 1) as u32;
	let fd_late = fd_early + c.gap as u32;
	let amt1 = c.env.amt_msat * c.split_permille as u64 / 1000;
	let amt2 = c.env.amt_msat - amt1;
	let (fd1, fd2) = if c.early_on_second { (fd_late, fd_early) } else { (fd_early, fd_late) };
	let p = d.sim.send_custom_mpp(a, &[(1, amt1, fd1), (2, amt2, fd2)]).ok_or_else(|| Failure::new("harness", "no route"))?;
	if d.sim.pays[p].state == PayState::Refused {
		ctx.label("s6:send-refused");
		ctx.discard();
		return Ok(());
	}
	let hash = d.sim.pays[p].hash;
	let exp_early = h0 + 1 + fd_early;
	d.pump();
	let t = Timeline::build(&d.sim);
	let Some((h_ev, deadline)) = t.claimable(b, &hash) else {
		return Err(Failure::new("acceptable-htlc-rejected", format!("two-part payment with expiries {} / {} received at height {} was not shown as claimable", exp_early, exp_early + c.gap as u32, h0)));
	};
	// "can be claimed at any height strictly below its advertised claim deadline, and from that height on the node
	// fails it back itself": the node gives up each part HTLC_FAIL_BACK_BUFFER blocks before that part expires,
	// so the advertised deadline has to be that of the part expiring first
	let cd = exp_early - HTLC_FAIL_BACK_BUFFER;
	ctx.label_if(c.gap > 0, "s6:parts-expire-at-different-heights");
	ctx.label(if c.early_on_second { "s6:earlier-part-on-second-channel" } else { "s6:earlier-part-on-first-channel" });
	vensure!(deadline == Some(cd), "claim-deadline-value", "claim_deadline {:?} but the earliest part expires at {} and is failed back at {} - HTLC_FAIL_BACK_BUFFER {} = {}", deadline, exp_early, exp_early, HTLC_FAIL_BACK_BUFFER, cd);
	vensure!(cd > h_ev, "claim-deadline-already-passed", "PaymentClaimable at height {} with claim_deadline {}", h_ev, cd);
	let h_claim = (cd as i64 + c.claim_off as i64).max(h_ev as i64) as u32;
	d.advance(h_claim - h_ev, c.a3);
	let t = Timeline::build(&d.sim);
	let failed_back = t.fails.iter().filter(|m| m.from == b && m.to == a && m.hash == Some(hash)).map(|m| m.h_from).min();
	if let Some(h) = failed_back {
		vensure!(h >= cd, "failed-back-before-deadline", "the recipient gave up a part at height {} but the advertised claim_deadline is {}", h, cd);
	}
	ctx.label_if((h_claim as i64 - cd as i64).abs() <= 2, "s6:claim-boundary±2");
	if h_claim < cd {
		ctx.label("s6:claim-before-deadline");
		vensure!(failed_back.is_none(), "failed-back-before-deadline", "a part was failed back before height {}", cd);
		d.sim.claim(p);
		d.pump();
		let t = Timeline::build(&d.sim);
		vensure!(t.claimed(b, &hash), "claim-before-deadline-failed", "claim_funds at height {} < claim_deadline {} did not produce PaymentClaimed", h_claim, cd);
		let fulfilled = t.fulfills.iter().filter(|m| m.from == b && m.to == a && m.hash == Some(hash)).count();
		vensure!(fulfilled == 2, "claim-before-deadline-failed", "claim_funds at height {} < claim_deadline {} released the preimage on {} of 2 parts", h_claim, cd, fulfilled);
		vensure!(t.sent(a, &hash) && !t.failed(a, &hash), "claim-before-deadline-failed", "payer did not get PaymentSent");
	} else {
		ctx.label("s6:claim-at-or-after-deadline");
		d.pump();
		let t = Timeline::build(&d.sim);
		let first_fail = t.fails.iter().filter(|m| m.from == b && m.to == a && m.hash == Some(hash)).map(|m| m.h_from).min();
		let Some(hf) = first_fail else {
			return Err(Failure::new("not-failed-back-at-deadline", format!("height {} >= claim_deadline {} but the recipient failed no part back", h_claim, cd)));
		};
		if c.a3 == Arrive::SinglePump {
			vensure!(hf == cd, "not-failed-back-at-deadline", "first fail emitted at height {} instead of claim_deadline {}", hf, cd);
		}
		d.sim.claim(p);
		d.pump();
		let t = Timeline::build(&d.sim);
		let fulfilled = t.fulfills.iter().filter(|m| m.from == b && m.to == a && m.hash == Some(hash)).count();
		vensure!(fulfilled == 0 && !t.claimed(b, &hash) && !t.sent(a, &hash), "claimed-after-deadline", "claim_funds at height {} >= claim_deadline {} released the preimage on {} part(s)", h_claim, cd, fulfilled);
	}
	ctx.nontrivial_if(c.gap > 0 || (h_claim as i64 - cd as i64).abs() <= 2);
	ctx.summary(json!({"scenario": "S6", "gap": c.gap, "claim_height_minus_deadline": h_claim as i64 - cd as i64, "type": format!("{:?}", c.env.ctype)}));
	Ok(())
}

fn main() {
	install_recording_signer();
	netsim::rec::tolerate_monitor_roundtrip_tripwire();
	let mut c = Check::new("C08", "exploration");
	c.assume("all peers are unmodified LDK nodes; silence, slowness and last-moment answers are schedules of the harness-owned transport, of block delivery to individual nodes and of confirmation delays");
	c.assume("the library's stated bounds are respected: every transaction a node broadcasts confirms within MAX_BLOCKS_FOR_CONF (18) blocks of the height at which the node was due to act, there are no reorganisations, fee estimates are constant, and the node processes its events after every block except inside generated bursts");
	c.assume("crate-private constants (MAX_BLOCKS_FOR_CONF 18, CLTV_CLAIM_BUFFER 36, LATENCY_GRACE_PERIOD_BLOCKS 3, CLTV_FAR_FAR_AWAY 2016) are restated from their documentation, tied to the public HTLC_FAIL_BACK_BUFFER / MIN_CLTV_EXPIRY_DELTA / MIN_FINAL_CLTV_EXPIRY_DELTA by the documented relations, and pinned by checks at both sides of every boundary");
	c.assume("the upstream payer A answers within the same block height (it is honest and responsive); deltas are at least MIN_CLTV_EXPIRY_DELTA, final deltas at least MIN_FINAL_CLTV_EXPIRY_DELTA in S3-S5");
	c.note("thresholds", json!({"HTLC_FAIL_BACK_BUFFER": HTLC_FAIL_BACK_BUFFER, "ANTI_REORG_DELAY": ANTI_REORG_DELAY, "MIN_CLTV_EXPIRY_DELTA": MIN_CLTV_EXPIRY_DELTA, "MIN_FINAL_CLTV_EXPIRY_DELTA": MIN_FINAL_CLTV_EXPIRY_DELTA, "restated": {"MAX_BLOCKS_FOR_CONF": MAX_BLOCKS_FOR_CONF, "CLTV_CLAIM_BUFFER": CLTV_CLAIM_BUFFER, "LATENCY_GRACE_PERIOD_BLOCKS": LATENCY_GRACE_PERIOD_BLOCKS, "CLTV_FAR_FAR_AWAY": CLTV_FAR_FAR_AWAY}}));
	let thorough = c.tier() == Tier::Thorough;
	c.part_with(
		PartSpec {
			name: "s1-receive",
			rule: "pair; final-hop HTLC whose expiry lies at a generated offset (-3..+3, or far) from the acceptance boundary height + HTLC_FAIL_BACK_BUFFER + 2 at the height where the receiver decides; 0-3 blocks (single / burst, all block delivery styles) before delivery and before the decision; oracle: no PaymentClaimable inside the buffer but an update_fail_htlc, PaymentClaimable with claim_deadline = expiry - HTLC_FAIL_BACK_BUFFER otherwise; then claim_funds at claim_deadline + (-4..+3) with blocks arriving singly (processing in between or not) or as a burst and a payer that answers 0-3 blocks late: below the deadline the claim completes at both ends and nothing goes on chain, from the deadline on the receiver has failed the HTLC back itself (exactly at the deadline height when it processes every block) and a late claim_funds claims nothing. Non-trivial: an offset within 2 blocks of a boundary",
			quick_cases: 1200,
			thorough_cases: 40_000,
			max_shrink: 300,
		},
		s1_strategy,
		s1_oracle,
	);
	c.part_with(
		PartSpec {
			name: "s2-forward-admission",
			rule: "line of three; the sender offers the forwarder its advertised CLTV delta (48..119) + (-3..+3) and fee + (-1..+2); final delta chosen so that the outgoing expiry is at offset -3..+3 from (next height + LATENCY_GRACE_PERIOD_BLOCKS + 1), the incoming expiry at offset -3..+3 from (next height + CLTV_FAR_FAR_AWAY), or the outgoing expiry at offset -3..+3 from the final hop's own acceptance boundary; blocks before delivery / decision as in S1; oracle: update_add_htlc to the next hop (with the onion's expiry) iff every threshold is met, otherwise update_fail_htlc upstream; the final hop is judged by the S1 rule. Non-trivial: an offset within 2 blocks of a threshold",
			quick_cases: 1200,
			thorough_cases: 40_000,
			max_shrink: 300,
		},
		s2_strategy,
		s2_oracle,
	);
	c.part_with(
		PartSpec {
			name: "s3-dead-downstream",
			rule: "A-B-C, B's delta 48..119, final delta 42..53, normal and dust HTLCs; C silent (link withheld or disconnected, B-C commitment dance interrupted at 3 stages), C fulfils / fails when B's height is outgoing expiry + (-3..+3), or C claims on chain after waking up at outgoing expiry + (-3..+29) with the miner preferring either side; commitment confirms 1..18 blocks after B's trigger height, the HTLC output is resolved 0..18 blocks after a spend is minable, B may cross its trigger height inside a burst; oracle: B's first commitment broadcast for B-C happens at a height in [expiry + LATENCY_GRACE_PERIOD_BLOCKS, first height >= that at which B could act] and not at all if C answered before; C paid (off chain or preimage on chain) => A ends with PaymentSent; otherwise A ends with PaymentFailed and B's update_fail_htlc to A is emitted no earlier than ANTI_REORG_DELAY confirmations of the timeout spend (of the commitment, if the HTLC has no output) and before incoming expiry + grace; the A-B channel stays open and nothing of it is broadcast. Non-trivial: B went on chain or C answered at the last moment",
			quick_cases: 600,
			thorough_cases: 25_000,
			max_shrink: 200,
		},
		s3_strategy,
		s3_oracle,
	);
	c.part_with(
		PartSpec {
			name: "s4-preimage-dead-upstream",
			rule: "pair; the receiver has claimed (preimage known) while the payer is disconnected, receives nothing, or does not answer; the payer returns when the receiver's height is (expiry - CLTV_CLAIM_BUFFER) + (-3..+2) or never; confirmation delays as in S3; oracle: payer back before the trigger => nothing is broadcast and the payment completes; otherwise the receiver's first commitment broadcast is at a height in [expiry - CLTV_CLAIM_BUFFER, first height >= that at which it could act], and the HTLC is settled in its favour on chain (preimage spend, or the payer's own commitment without the HTLC) at a height <= expiry. Non-trivial: every case (either a last-moment return or an on-chain claim)",
			quick_cases: 600,
			thorough_cases: 25_000,
			max_shrink: 200,
		},
		s4_strategy,
		s4_oracle,
	);
	c.part_with(
		PartSpec {
			name: "s5-holding-cell",
			rule: "A-B-C; the forward sits in B's holding cell because B awaits C's revoke_and_ack or a monitor update of B-C is in flight; the blockage ends when B's height is (outgoing expiry - LATENCY_GRACE_PERIOD_BLOCKS) + (-3..+3) or never; oracle: an update_add_htlc to C is only ever emitted at a height h with expiry > h + LATENCY_GRACE_PERIOD_BLOCKS; if the blockage does not end before, B emits update_fail_htlc to A exactly at that limit height, A sees PaymentFailed, no channel is closed. Non-trivial: release within 2 blocks of the limit or never",
			quick_cases: 400,
			thorough_cases: 15_000,
			max_shrink: 200,
		},
		s5_strategy,
		s5_oracle,
	);
	c.part_with(
		PartSpec {
			name: "s6-two-part-receive",
			rule: "payer and recipient joined by two channels; one payment in two parts whose final expiries differ by 0..40 blocks, the earlier one on either channel; oracle: PaymentClaimable advertises claim_deadline = (earliest part's expiry) - HTLC_FAIL_BACK_BUFFER; claim_funds at any height below it releases the preimage on both parts and no part was failed back before; from that height on the recipient has failed the earliest part back itself and a late claim_funds releases nothing. Non-trivial: the parts expire at different heights or the claim height is within 2 blocks of the deadline",
			quick_cases: 500,
			thorough_cases: 12_000,
			max_shrink: 200,
		},
		s6_strategy,
		s6_oracle,
	);
	if thorough {
		c.enumerate("s6-boundary-cross-product", "exhaustive over channel type x expiry gap {0,1,2,7} x which channel carries the earlier part x claim-height offset -3..+3 x block arrival mode (S6 oracle)", s6_enumeration(), true, s6_oracle);
		c.enumerate("s1-boundary-cross-product", "exhaustive over channel type x acceptance offset -3..+3 x claim-height offset -3..+3 x block arrival mode x 4 placements of the preceding blocks (S1 oracle)", s1_enumeration(), true, s1_oracle);
		c.enumerate("s2-boundary-cross-product", "exhaustive over channel type x threshold (outgoing-too-soon, too-far, final-hop) x offset -3..+3 x offered-delta offset -3..+3 x 2 placements of the preceding blocks (S2 oracle)", s2_enumeration(), true, s2_oracle);
		c.enumerate("s3-mode-cross-product", "exhaustive over channel type x every behaviour of C (silent x 3 stages x 2 link states, fulfil / fail at offsets -3..+3, on-chain wake-up at -3..+4 x miner preference) x 4 confirmation-delay profiles incl. both extremes (S3 oracle)", s3_enumeration(), true, s3_oracle);
		c.enumerate("s4-mode-cross-product", "exhaustive over channel type x 3 kinds of dead payer x return offset {never, -3..+2} x 4 confirmation-delay profiles (S4 oracle)", s4_enumeration(), true, s4_oracle);
		c.enumerate("s5-mode-cross-product", "exhaustive over channel type x 2 kinds of blockage x release offset {never, -3..+3} x 3 block arrival modes (S5 oracle)", s5_enumeration(), true, s5_oracle);
	}
	c.finish();
}
