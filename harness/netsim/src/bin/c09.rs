//! C09 — no state is revealed to the peer before its monitor update is durable.
use netsim::ops::*;
use netsim::oracle_commit::*;
use netsim::oracle_persist::*;
use netsim::rec::install_recording_signer;
use proptest::prelude::*;
use serde::{Deserialize, Serialize};
use serde_json::json;
use vcore::*;

#[derive(Clone, Debug, Serialize, Deserialize)]
struct Case {
	spec: WorldSpec,
	ops: Vec<Op>,
}

fn weights() -> OpWeights {
	OpWeights {
		send: 26,
		claim: 12,
		fail: 5,
		deliver: 40,
		flush: 4,
		events: 14,
		forwards: 14,
		disconnect: 4,
		reconnect: 7,
		setfee: 2,
		timer: 0,
		async_toggle: 14,
		complete: 22,
		pump: 8,
		force_close: 1,
		tamper_revoke: 0,
		..OpWeights::zero()
	}
}

fn strat(max_ops: usize) -> impl Strategy<Value = Case> {
	(world_spec(vec![Topology::Pair, Topology::Line3, Topology::Line3]), proptest::collection::vec(op_strategy(weights()), 20..max_ops)).prop_map(|(spec, ops)| Case { spec, ops })
}

fn oracle(c: &Case, ctx: &mut Ctx) -> CaseResult {
	let mut sim = c.spec.build(false);
	let r = oracle_inner(c, ctx, &mut sim);
	if ctx.replay && r.is_err() {
		println!("==== history ====\n{}", dump_history(&sim));
	}
	r
}

fn oracle_inner(c: &Case, ctx: &mut Ctx, sim: &mut netsim::sim::Sim) -> CaseResult {
	let mut co = CommitOracle::new(sim);
	let mut po = PersistOracle::new(sim);
	let mut tags: Vec<&'static str> = vec![];
	let mut bcur = sim.log.len();
	let mut closed_by_user: Vec<(usize, usize)> = vec![];
	for op in c.ops.iter() {
		let tag = apply(sim, &c.spec, op);
		tags.push(tag);
		if tag == "force-close" {
			co.allow_force_close = true;
			if let Op::ForceClose { chan, by_funder } = op {
				let ci = pick(*chan, sim.chans.len());
				closed_by_user.push((ci, if *by_funder { sim.chans[ci].a } else { sim.chans[ci].b }));
			}
		}
		po.step(sim)?;
		// commitment broadcasts: the transaction must not leave before the update storing it is durable
		let new_log: Vec<(u64, netsim::sim::SEvent)> = sim.log[bcur..].to_vec();
		bcur = sim.log.len();
		for (_, e) in new_log {
			if let netsim::sim::SEvent::Broadcast { node, tx, .. } = e {
				for (ci, ch) in sim.chans.iter().enumerate() {
					if (ch.a == node || ch.b == node) && tx.input.len() == 1 && tx.input[0].previous_output.txid == ch.funding_tx.compute_txid() && (tx.input[0].sequence.0 >> 24) == 0x80 {
						// which of this node's commitments is it? (signed by the peer)
						let number = co.signed_commitment_number(&tx.compute_txid()).map(|(_, _, n)| n);
						let user = closed_by_user.contains(&(ci, node));
						po.check_commitment_broadcast(node, &ch.id, number, user)?;
						ctx.label("commitment-broadcast-checked");
					}
				}
			}
		}
		if let Err(f) = co.step(sim) {
			// commitment content / protocol errors are C01's verdict; stop this case
			ctx.label(&format!("foreign-failure:C01:{}", f.oracle));
			if std::env::var("VERIF_DEBUG_FOREIGN").is_ok() {
				return Err(f);
			}
			return Ok(());
		}
	}
	// (d) release: complete everything, deliver everything: the peers accept what is released and nothing
	// is left half-way
	let quiet = sim.settle(40);
	po.step(sim)?;
	if let Err(f) = co.step(sim) {
		ctx.label(&format!("foreign-failure:C01:{}", f.oracle));
		if std::env::var("VERIF_DEBUG_FOREIGN").is_ok() {
			return Err(f);
		}
		return Ok(());
	}
	if quiet {
		po.check_not_stuck(sim)?;
	} else {
		ctx.label("not-quiescent");
	}
	let st = &po.stats;
	ctx.label_if(st.in_progress > 0, "async-updates");
	ctx.label_if(st.out_of_order_completions > 0, "out-of-order-completion");
	ctx.label_if(st.msgs_arrived_while_frozen > 0, "message-arrived-while-frozen");
	ctx.label_if(st.messages_while_other_channel_pending > 0, "other-channel-active-while-one-frozen");
	ctx.label_if(st.forward_rules > 0, "forward-dependency-checked");
	ctx.label_if(st.preimage_rules > 0, "preimage-dependency-checked");
	ctx.label_if(c.spec.deferred, "deferred-chain-monitor");
	ctx.label(match c.spec.topo {
		Topology::Pair => "topo:pair",
		_ => "topo:line3",
	});
	ctx.sub_evaluations(st.gated_messages);
	ctx.nontrivial_if(st.in_progress > 0 && (st.out_of_order_completions > 0 || st.msgs_arrived_while_frozen > 0));
	ctx.summary(json!({"topo": format!("{:?}", c.spec.topo), "ops": tags, "updates": st.updates, "in_progress": st.in_progress, "gated_messages": st.gated_messages}));
	Ok(())
}

fn main() {
	install_recording_signer();
	let mut c = Check::new("C09", "exploration");
	c.assume("the Persist implementation follows the documented contract: a channel may switch to InProgress at any time and back to Completed only when nothing is in flight; completions are reported through ChainMonitor::channel_monitor_updated in any order");
	c.assume("update step kinds are read from the derived Debug rendering of ChannelMonitorUpdate; an unknown step name aborts the run as inconclusive");
	c.part_with(
		PartSpec {
			name: "durability",
			rule: "pair and three-node line worlds (immediate and deferred ChainMonitor), generated traffic with per-channel persistence switched to InProgress at generated times and completed in generated order; every message that advances a channel (update_*, commitment_signed, revoke_and_ack, channel_ready) must leave only while none of that channel's updates is in flight, fresh commitment_signed / revoke_and_ack need a completed update carrying the corresponding commitment, forwards / upstream fulfils / PaymentClaimed / PaymentForwarded need the completed update they depend on, update ids are gap-free, and after completing and delivering everything no HTLC is left half-way. Non-trivial: >=1 update completed out of order or a message arrived for a frozen channel",
			quick_cases: 2500,
			thorough_cases: 100_000,
			max_shrink: 500,
		},
		|| strat(80),
		oracle,
	);
	c.finish();
}
