//! C09 — no state is revealed to the peer before its monitor update is durable.
use netsim::ops::*;
use netsim::oracle_commit::*;
use netsim::oracle_persist::*;
use netsim::rec::install_recording_signer;
use proptest::prelude::*;
use serde::{Deserialize, Serialize};
use serde_json::json;
use vcore::*;

#[derive(Clone, Debug, Serialize, Deserialize)]
struct Case {
	spec: WorldSpec,
	ops: Vec<Op>,
}

fn weights() -> OpWeights {
	OpWeights {
		send: 26,
		claim: 12,
		fail: 5,
		deliver: 40,
		flush: 4,
		events: 14,
		forwards: 14,
		disconnect: 4,
		reconnect: 7,
		setfee: 2,
		timer: 0,
		async_toggle: 14,
		complete: 22,
		pump: 8,
		force_close: 1,
		tamper_revoke: 0,
		..OpWeights::zero()
	}
}

fn strat(max_ops: usize) -> impl Strategy<Value = Case> {
	(world_spec(vec![Topology::Pair, Topology::Line3, Topology::Line3]), proptest::collection::vec(op_strategy(weights()), 20..max_ops)).prop_map(|(spec, ops)| Case { spec, ops })
}

fn oracle(c: &Case, ctx: &mut Ctx) -> CaseResult {
	let mut sim = c.spec.build(false);
	let r = oracle_inner(c, ctx, &mut sim);
	if ctx.replay && r.is_err() {
		println!("==== history ====\n{}", dump_history(&sim));
	}
	r
}

fn oracle_inner(c: &Case, ctx: &mut Ctx, sim: &mut netsim::sim::Sim) -> CaseResult {
	let mut co = CommitOracle::new(sim);
	let mut po = PersistOracle::new(sim);
	let mut tags: Vec<&'static str> = vec![];
	let mut bcur = sim.log.len();
	let mut closed_by_user: Vec<(usize, usize)> = vec![];
	for op in c.ops.iter() {
		let tag = apply(sim, &c.spec, op);
		tags.push(tag);
		if tag == "force-close" {
			co.allow_force_close = true;
			if let Op::ForceClose { chan, by_funder } = op {
				let ci = pick(*chan, sim.chans.len());
				closed_by_user.push((ci, if *by_funder { sim.chans[ci].a } else { sim.chans[ci].b }));
			}
		}
		po.step(sim)?;
		// commitment broadcasts: the transaction must not leave before the update storing it is durable
		let new_log: Vec<(u64, netsim::sim::SEvent)> = sim.log[bcur..].to_vec();
		bcur = sim.log.len();
		for (_, e) in new_log {
			if let netsim::sim::SEvent::Broadcast { node, tx, .. } = e {
				for (ci, ch) in sim.chans.iter().enumerate() {
					if (ch.a == node || ch.b == node) && tx.input.len() == 1 && tx.input[0].previous_output.txid == ch.funding_tx.compute_txid() && (tx.input[0].sequence.0 >> 24) == 0x80 {
						// which of this node's commitments is it? (signed by the peer)
						let number = co.signed_commitment_number(&tx.compute_txid()).map(|(_, _, n)| n);
						let user = closed_by_user.contains(&(ci, node));
						po.check_commitment_broadcast(node, &ch.id, number, user)?;
						ctx.label("commitment-broadcast-checked");
					}
				}
			}
		}
		if let Err(f) = co.step(sim) {
			// commitment content / protocol errors are C01's verdict; stop this case
			ctx.label(&format!("foreign-failure:C01:{}", f.oracle));
			if std::env::var("VERIF_DEBUG_FOREIGN").is_ok() {
				return Err(f);
			}
			return Ok(());
		}
	}
	// (d) release: complete everything, deliver everything: the peers accept what is released and nothing
	// is left half-way
	let quiet = sim.settle(40);
	po.step(sim)?;
	if let Err(f) = co.step(sim) {
		ctx.label(&format!("foreign-failure:C01:{}", f.oracle));
		if std::env::var("VERIF_DEBUG_FOREIGN").is_ok() {
			return Err(f);
		}
		return Ok(());
	}
	if quiet {
		po.check_not_stuck(sim)?;
	} else {
		ctx.label("not-quiescent");
	}
	let st = &po.stats;
	ctx.label_if(st.in_progress > 0, "async-updates");
	ctx.label_if(st.out_of_order_completions > 0, "out-of-order-completion");
	ctx.label_if(st.msgs_arrived_while_frozen > 0, "message-arrived-while-frozen");
	ctx.label_if(st.messages_while_other_channel_pending > 0, "other-channel-active-while-one-frozen");
	ctx.label_if(st.forward_rules > 0, "forward-dependency-checked");
	ctx.label_if(st.preimage_rules > 0, "preimage-dependency-checked");
	ctx.label_if(c.spec.deferred, "deferred-chain-monitor");
	ctx.label(match c.spec.topo {
		Topology::Pair => "topo:pair",
		_ => "topo:line3",
	});
	ctx.sub_evaluations(st.gated_messages);
	ctx.nontrivial_if(st.in_progress > 0 && (st.out_of_order_completions > 0 || st.msgs_arrived_while_frozen > 0));
	ctx.summary(json!({"topo": format!("{:?}", c.spec.topo), "ops": tags, "updates": st.updates, "in_progress": st.in_progress, "gated_messages": st.gated_messages}));
	Ok(())
}

// ------------------------------------------------------------------------------------------------
// channel establishment with asynchronous initial persistence: funding_signed, the funding broadcast and
// channel_ready are released only after the initial monitor persist (and later updates) completed
// ------------------------------------------------------------------------------------------------

#[derive(Clone, Debug, Serialize, Deserialize)]
struct OpenCase {
	spec: WorldSpec,
	async_funder: bool,
	async_fundee: bool,
	/// when each side's initial persist is completed: 0 = right away, 1 = after the peer's next message was
	/// delivered, 2 = after the funding confirmed, 3 = after some more blocks
	complete_funder_at: u8,
	complete_fundee_at: u8,
	value_sat: u64,
	push_permille: u16,
	extra_blocks: u8,
	/// generated schedule after the negotiation: interleaves disconnects, reconnects, blocks and completions
	#[serde(default)]
	steps: Vec<OStep>,
}

#[derive(Clone, Debug, Serialize, Deserialize)]
enum OStep {
	Pump,
	Disconnect,
	Reconnect,
	/// mine everything in the mempool plus n-1 empty blocks
	Mine(u8),
	CompleteFunder,
	CompleteFundee,
}

fn open_strat() -> impl Strategy<Value = OpenCase> {
	let step = prop_oneof![
		3 => Just(OStep::Pump),
		2 => Just(OStep::Disconnect),
		2 => Just(OStep::Reconnect),
		3 => (1u8..9).prop_map(OStep::Mine),
		1 => Just(OStep::CompleteFunder),
		1 => Just(OStep::CompleteFundee),
	];
	(
		(world_spec(vec![Topology::Pair]), any::<bool>(), any::<bool>(), 0u8..5, 0u8..5, prop_oneof![Just(100_000u64), 30_000u64..5_000_000], 0u16..800, 0u8..4),
		proptest::collection::vec(step, 0..12),
	)
		.prop_map(|((spec, async_funder, async_fundee, complete_funder_at, complete_fundee_at, value_sat, push_permille, extra_blocks), steps)| OpenCase { spec, async_funder, async_fundee, complete_funder_at, complete_fundee_at, value_sat, push_permille, extra_blocks, steps })
}

fn open_oracle(c: &OpenCase, ctx: &mut Ctx) -> CaseResult {
	use netsim::sim::*;
	use netsim::world::*;
	// an empty world: no channel yet
	let cfg = c.spec.user_config();
	let w = World::new(WorldCfg { n: 2, configs: vec![cfg; 2], keep_images: false, deferred_monitor: c.spec.deferred, connect_style: connect_style_of(c.spec.connect_style), node_styles: vec![], disable_revocation_policy: vec![] });
	for nd in w.nodes.iter() {
		*nd.fee_estimator.sat_per_kw.lock().unwrap() = c.spec.feerate;
	}
	let mut sim = Sim::new(w);
	let r = open_oracle_inner(c, ctx, &mut sim);
	if ctx.replay && r.is_err() {
		println!("==== history ====\n{}", dump_history(&sim));
	}
	r
}

fn open_oracle_inner(c: &OpenCase, ctx: &mut Ctx, sim: &mut netsim::sim::Sim) -> CaseResult {
	use lightning::events::Event;
	use netsim::rec::*;
	use netsim::sim::*;
	if c.spec.ctype != CType::Static {
		sim.fund_wallets(2);
	}
	sim.w.set_async(0, None, c.async_funder);
	sim.w.set_async(1, None, c.async_fundee);
	let ids = [sim.w.node_id(0), sim.w.node_id(1)];
	let keep = (c.value_sat / 5).max(10_000);
	let push = (c.value_sat * c.push_permille as u64).min((c.value_sat - keep) * 1000);
	if sim.w.nodes[0].node.create_channel(ids[1], c.value_sat, push, 42, None, None).is_err() {
		ctx.discard();
		return Ok(());
	}
	// the invariants, evaluated on everything emitted so far
	let mut log_cur = 0usize;
	let mut hist_cur = 0usize;
	// per node: is the initial persist (and any later update) still in flight?
	let pending = |sim: &Sim, node: usize| -> bool { !sim.w.pending_updates(node).is_empty() };
	let mut funding_tx: Option<bitcoin::Transaction> = None;
	let mut saw_gated = 0u32;
	let mut withheld = 0u32;
	let mut check = |sim: &Sim, funding_tx: &Option<bitcoin::Transaction>, withheld: &mut u32, saw_gated: &mut u32| -> CaseResult {
		let evs = merged_since(sim, &mut hist_cur, &mut log_cur);
		for (_, ev) in evs {
			match ev {
				M::S(SEvent::Emit { from, wire, .. }) => {
					let gated = match &wire {
						Wire::ChannelReady(_) => Some("channel_ready"),
						// funding_signed is deliberately not gated: the property lists channel_ready and the funding
						// broadcast, and the library documents that signing the counterparty's funding transaction
						// before the monitor is durable cannot lose money
						_ => None,
					};
					if let Some(what) = gated {
						*saw_gated += 1;
						if pending(sim, from) {
							return Err(Failure::new("released-before-initial-persist", format!("node {} sent {} while its initial monitor persist / an update was still in flight", from, what)).with_key(format!("released-before-initial-persist/{}", what)));
						}
					}
				},
				M::S(SEvent::Broadcast { node, tx, .. }) => {
					if let Some(f) = funding_tx {
						if tx.compute_txid() == f.compute_txid() {
							*saw_gated += 1;
							if pending(sim, node) {
								return Err(Failure::new("released-before-initial-persist", format!("node {} broadcast the funding transaction while its initial monitor persist was still in flight", node)).with_key("released-before-initial-persist/funding-broadcast"));
							}
						}
					}
				},
				M::H(HEvent::PersistNew { in_progress: true, .. }) => *withheld += 1,
				_ => {},
			}
		}
		Ok(())
	};
	let complete = |sim: &mut Sim, node: usize| {
		sim.complete_all_updates(node);
	};
	// helper: deliver everything queued, handling establishment events
	let pump = |sim: &mut Sim, funding_tx: &mut Option<bitcoin::Transaction>| {
		for _ in 0..12 {
			sim.drain_all();
			let live: Vec<(usize, usize)> = sim.links.iter().filter(|(_, q)| !q.is_empty()).map(|(k, _)| *k).collect();
			let mut progress = !live.is_empty();
			for (f, t) in live {
				sim.deliver(f, t, 1);
			}
			for i in 0..2 {
				for ev in sim.process_events(i) {
					progress = true;
					match ev {
						Event::OpenChannelRequest { temporary_channel_id, counterparty_node_id, .. } => {
							let _ = sim.w.nodes[i].node.accept_inbound_channel(&temporary_channel_id, &counterparty_node_id, 43, None);
						},
						Event::FundingGenerationReady { temporary_channel_id, counterparty_node_id, channel_value_satoshis, output_script, .. } => {
							let tx = bitcoin::Transaction {
								version: bitcoin::transaction::Version::TWO,
								lock_time: bitcoin::absolute::LockTime::ZERO,
								input: vec![],
								output: vec![bitcoin::TxOut { value: bitcoin::Amount::from_sat(channel_value_satoshis), script_pubkey: output_script }],
							};
							*funding_tx = Some(tx.clone());
							let _ = sim.w.nodes[i].node.funding_transaction_generated(temporary_channel_id, counterparty_node_id, tx);
						},
						_ => {},
					}
				}
				sim.drain(i);
			}
			if !progress {
				break;
			}
		}
	};
	// phase A: negotiation up to the point where persistence matters
	pump(sim, &mut funding_tx);
	check(sim, &funding_tx, &mut withheld, &mut saw_gated)?;
	let mut schedule_used = 0u32;
	for st in c.steps.iter() {
		match st {
			OStep::Pump => pump(sim, &mut funding_tx),
			OStep::Disconnect => {
				if sim.is_connected(0, 1) {
					sim.disconnect(0, 1);
					schedule_used += 1;
				}
			},
			OStep::Reconnect => {
				if !sim.is_connected(0, 1) {
					sim.reconnect(0, 1);
					pump(sim, &mut funding_tx);
					schedule_used += 1;
				}
			},
			OStep::Mine(n) => {
				let txs = sim.chain.mempool.clone();
				sim.mine_block(txs);
				sim.mine_empty(*n as u32 - 1);
			},
			OStep::CompleteFunder => complete(sim, 0),
			OStep::CompleteFundee => complete(sim, 1),
		}
		sim.drain_all();
		check(sim, &funding_tx, &mut withheld, &mut saw_gated)?;
	}
	ctx.label_if(schedule_used > 0, "disconnect-during-establishment");
	let stage_done = |at: u8, stage: u8| at <= stage;
	if !sim.is_connected(0, 1) && c.complete_funder_at < 4 {
		sim.reconnect(0, 1);
	}
	for stage in 0u8..4 {
		if stage_done(c.complete_fundee_at, stage) {
			complete(sim, 1);
		}
		if stage_done(c.complete_funder_at, stage) {
			complete(sim, 0);
		}
		pump(sim, &mut funding_tx);
		check(sim, &funding_tx, &mut withheld, &mut saw_gated)?;
		if stage == 1 {
			// confirm the funding transaction if it has been broadcast (it is in the mempool then); otherwise
			// just let time pass
			let txs = sim.chain.mempool.clone();
			sim.mine_block(txs);
			sim.mine_empty(6);
			pump(sim, &mut funding_tx);
			check(sim, &funding_tx, &mut withheld, &mut saw_gated)?;
		}
		if stage == 2 {
			sim.mine_empty(c.extra_blocks as u32 + 1);
		}
	}
	complete(sim, 0);
	complete(sim, 1);
	if !sim.is_connected(0, 1) {
		sim.reconnect(0, 1);
	}
	let txs = sim.chain.mempool.clone();
	sim.mine_block(txs);
	sim.mine_empty(7);
	pump(sim, &mut funding_tx);
	check(sim, &funding_tx, &mut withheld, &mut saw_gated)?;
	// (d) release: once everything completed the channel must come up
	let ready = sim.w.nodes[0].node.list_channels().iter().any(|d| d.is_channel_ready) && sim.w.nodes[1].node.list_channels().iter().any(|d| d.is_channel_ready);
	if funding_tx.is_some() {
		vensure!(ready, "stuck-after-completion", "channel did not become ready although all persistence completed and the funding confirmed (async funder {}, fundee {}, completion stages {}/{})", c.async_funder, c.async_fundee, c.complete_funder_at, c.complete_fundee_at);
	}
	ctx.label_if(c.async_funder, "funder-async");
	ctx.label_if(c.async_fundee, "fundee-async");
	ctx.label_if(c.spec.deferred, "deferred-chain-monitor");
	ctx.sub_evaluations(saw_gated as u64);
	ctx.nontrivial_if(withheld > 0 && (c.complete_funder_at > 0 || c.complete_fundee_at > 0));
	ctx.summary(json!({"type": format!("{:?}", c.spec.ctype), "async": [c.async_funder, c.async_fundee], "complete_at": [c.complete_funder_at, c.complete_fundee_at], "gated_emissions": saw_gated}));
	Ok(())
}

fn main() {
	install_recording_signer();
	netsim::rec::tolerate_monitor_roundtrip_tripwire();
	let mut c = Check::new("C09", "exploration");
	c.assume("the Persist implementation follows the documented contract: a channel may switch to InProgress at any time and back to Completed only when nothing is in flight; completions are reported through ChainMonitor::channel_monitor_updated in any order");
	c.assume("update step kinds are read from the derived Debug rendering of ChannelMonitorUpdate; an unknown step name aborts the run as inconclusive");
	c.part_with(
		PartSpec {
			name: "durability",
			rule: "pair and three-node line worlds (immediate and deferred ChainMonitor), generated traffic with per-channel persistence switched to InProgress at generated times and completed in generated order; every message that advances a channel (update_*, commitment_signed, revoke_and_ack, channel_ready) must leave only while none of that channel's updates is in flight, fresh commitment_signed / revoke_and_ack need a completed update carrying the corresponding commitment, forwards / upstream fulfils / PaymentClaimed / PaymentForwarded need the completed update they depend on, update ids are gap-free, and after completing and delivering everything no HTLC is left half-way. Non-trivial: >=1 update completed out of order or a message arrived for a frozen channel",
			quick_cases: 2500,
			thorough_cases: 100_000,
			max_shrink: 500,
		},
		|| strat(80),
		oracle,
	);
	c.part_with(
		PartSpec {
			name: "open-async",
			rule: "channel establishment on a fresh pair with the initial monitor persist of either side answered InProgress and completed at a generated stage (at once / after the peer's next message / after the funding confirmed / later): the funding broadcast and channel_ready leave only while nothing of that node is in flight, and the channel becomes ready once everything completed. Non-trivial: an initial persist was actually withheld past at least one stage",
			quick_cases: 1200,
			thorough_cases: 40_000,
			max_shrink: 200,
		},
		open_strat,
		open_oracle,
	);
	c.finish();
}
