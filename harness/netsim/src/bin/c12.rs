//! C12 — persisted objects survive serialization unchanged.
use netsim::ext_c12::*;
use netsim::ops::*;
use netsim::oracle_commit::dump_history;
use netsim::rec::install_recording_signer;
use netsim::sim::*;
use proptest::prelude::*;
use serde::{Deserialize, Serialize};
use serde_json::json;
use vcore::*;

#[derive(Clone, Debug, Serialize, Deserialize)]
struct Case {
	spec: WorldSpec,
	ops: Vec<Op>,
}

/// traffic with asynchronous persistence, disconnections, force closes and mined blocks
fn weights() -> OpWeights {
	OpWeights {
		send: 22,
		send_blinded: 9,
		claim: 12,
		fail: 7,
		deliver: 40,
		flush: 4,
		events: 12,
		forwards: 12,
		disconnect: 4,
		reconnect: 7,
		setfee: 2,
		timer: 1,
		async_toggle: 8,
		complete: 12,
		pump: 8,
		force_close: 3,
		mine: 10,
		reorg: 1,
		set_style: 1,
		..OpWeights::zero()
	}
}

/// Apply one operation. A panic inside the library while the *scenario* runs is C12's only if it is one of
/// the serialization round-trip assertions of `TestChainMonitor` (test_utils.rs); any other debug assertion /
/// panic belongs to the property that covers that mechanism: the case stops without a C12 verdict.
fn apply_guarded(sim: &mut Sim, spec: &WorldSpec, op: &Op, ctx: &mut Ctx) -> Result<Option<&'static str>, Failure> {
	let saved = take_last_panic();
	let r = std::panic::catch_unwind(std::panic::AssertUnwindSafe(|| apply(sim, spec, op)));
	match r {
		Ok(tag) => {
			set_last_panic(saved);
			Ok(Some(tag))
		},
		Err(_) => {
			let (msg, loc) = take_last_panic().unwrap_or_default();
			// TestChainMonitor's watch_channel / update_channel / load_existing_monitor (round-trip assertions)
			let line: u32 = loc.rsplit(':').next().and_then(|l| l.parse().ok()).unwrap_or(0);
			if loc.contains("util/test_utils.rs") && (600..=745).contains(&line) {
				return Err(Failure::new("roundtrip-assertion-in-test-double", format!("panic at {}: {}", loc, msg)).with_key(format!("panic@{}", loc)));
			}
			let short = loc.rsplit("/lightning/src/").next().unwrap_or(&loc).to_string();
			ctx.label(&format!("foreign-failure:panic@{}", short));
			Ok(None)
		},
	}
}

fn strat(max_ops: usize) -> impl Strategy<Value = Case> {
	(world_spec(vec![Topology::Pair, Topology::Line3, Topology::Line3]), proptest::collection::vec(op_strategy(weights()), 20..max_ops)).prop_map(|(spec, ops)| Case { spec, ops })
}

fn monitors_oracle(c: &Case, ctx: &mut Ctx) -> CaseResult {
	let mut sim = c.spec.build(true);
	sim.min_reorg_floor = sim.chain.height();
	let r = monitors_inner(c, ctx, &mut sim);
	if ctx.replay && r.is_err() {
		println!("==== history ====\n{}", dump_history(&sim));
	}
	r
}

fn monitors_inner(c: &Case, ctx: &mut Ctx, sim: &mut Sim) -> CaseResult {
	let mut h = MonHarvest::new(sim, false);
	let mut tags: Vec<&'static str> = vec![];
	for (k, op) in c.ops.iter().enumerate() {
		let Some(tag) = apply_guarded(sim, &c.spec, op, ctx)? else { return Ok(()) };
		tags.push(tag);
		h.step(sim, is_chain_tag(tag))?;
		if k % 3 == 0 {
			h.check_manager(sim, (k / 3) % sim.w.n)?;
		}
	}
	let st = &h.stats;
	ctx.sub_evaluations(st.images + st.live_snapshots + st.updates);
	ctx.label_if(st.commute_strict > 0, "commute-strict");
	ctx.label_if(st.commute_lenient_ok > 0, "commute-in-chain-op-ok");
	ctx.label_if(st.commute_unverifiable > 0, "commute-in-chain-op-unverifiable");
	ctx.label_if(st.commute_modulo_events > 0, "commute-modulo-drained-events");
	ctx.label_if(st.eq_exempt_failed_back > 0, "eq-exempt:failed-back-set");
	ctx.label_if(st.byte_unstable_images > 0, "image-reencoding-reordered");
	ctx.label_if(st.manager_live_compared > 0, "manager-compared-to-live-while-disconnected");
	ctx.label_if(st.manager_same_len < st.manager_images, "manager-reencoding-length-differs");
	ctx.label_if(st.states_with_pending_htlcs > 0, "state:pending-htlc");
	ctx.label_if(st.states_with_inflight_update > 0, "state:update-in-flight");
	ctx.label_if(st.states_awaiting_conf > 0, "state:onchain-awaiting-conf");
	ctx.label_if(st.states_pending_claims > 0, "state:pending-claims");
	for (k, _) in st.step_kinds.iter() {
		ctx.label(&format!("step:{}", k));
	}
	ctx.label(match c.spec.topo {
		Topology::Pair => "topo:pair",
		_ => "topo:line3",
	});
	ctx.nontrivial_if(st.nonquiescent_states > 0);
	ctx.summary(json!({"topo": format!("{:?}", c.spec.topo), "ops": tags, "images": st.images, "updates": st.updates, "live": st.live_snapshots, "strict": st.commute_strict,
		"byte_stable": st.byte_stable_images, "byte_unstable": st.byte_unstable_images}));
	Ok(())
}

// ---------------------------------------------------------------------------------------------------
// (c) manager: differential re-execution in a twin world
// ---------------------------------------------------------------------------------------------------

#[derive(Clone, Debug, Serialize, Deserialize)]
struct TwinCase {
	spec: WorldSpec,
	prefix: Vec<Op>,
	node: u16,
	suffix: Vec<Op>,
}

fn suffix_weights() -> OpWeights {
	OpWeights { send: 24, send_blinded: 8, claim: 22, fail: 9, events: 4, forwards: 4, disconnect: 3, setfee: 2, timer: 2, async_toggle: 3, pump: 6, force_close: 4, mine: 12, ..OpWeights::zero() }
}

/// prefix profile that leaves the forwarding node of a line with monitor updates in flight while HTLCs are
/// being committed (forwards / failures / channel messages parked in the channel until the update completes)
fn async_heavy_weights() -> OpWeights {
	OpWeights { send: 24, send_blinded: 9, claim: 8, fail: 5, deliver: 55, flush: 2, events: 8, forwards: 16, disconnect: 1, reconnect: 4, setfee: 1, async_toggle: 16, complete: 4, pump: 3, ..OpWeights::zero() }
}

/// (Reorganisations are left to the other parts: when a reorg un-does an on-chain HTLC resolution, a reloaded
/// manager re-derives the already failed-and-forgotten payment from the monitor on start-up, the running one
/// does not; that is start-up reconciliation, not serialization.)
/// The recipient at the end of a line holds a payment that arrived over a blinded path and an ordinary one, removes
/// both (the blinded one can only be failed with update_fail_malformed_htlc) and is written before its peer has
/// acknowledged the removals.
fn twin_blinded_removals() -> impl Strategy<Value = TwinCase> {
	(
		world_spec(vec![Topology::Line3]),
		proptest::collection::vec((proptest::bool::weighted(0.5), amt_strategy()), 2..5),
		proptest::collection::vec((any::<u16>(), proptest::bool::weighted(0.7)), 2..5),
		proptest::collection::vec(op_strategy(OpWeights { deliver: 10, ..OpWeights::zero() }), 0..3),
		proptest::collection::vec(op_strategy(suffix_weights()), 3..14),
	)
		.prop_map(|(mut spec, sends, removals, extra, suffix)| {
			spec.max_accepted = spec.max_accepted.max(10);
			spec.inflight_pct = 100;
			spec.dust_exposure_fixed_msat = None;
			let mut prefix = vec![];
			for (i, (blinded, amt)) in sends.into_iter().enumerate() {
				// at least one of each kind
				let blinded = if i == 0 { true } else if i == 1 { false } else { blinded };
				prefix.push(if blinded { Op::SendBlinded { route: 0, amt } } else { Op::Send { route: 0, amt } });
			}
			prefix.extend([Op::Pump, Op::Pump, Op::Pump]);
			for (pay, fail) in removals {
				prefix.push(if fail { Op::FailBack { pay } } else { Op::Claim { pay } });
			}
			prefix.push(Op::Forwards { node: 60_000 });
			prefix.extend(extra);
			TwinCase { spec, prefix, node: 60_000, suffix }
		})
}

fn twin_strat() -> impl Strategy<Value = TwinCase> {
	prop_oneof![7 => twin_strat_general().boxed(), 1 => twin_blinded_removals().boxed()]
}

fn twin_strat_general() -> impl Strategy<Value = TwinCase> {
	proptest::bool::weighted(0.4).prop_flat_map(|heavy| {
		let (w, topos, node) = if heavy { (async_heavy_weights(), vec![Topology::Line3], (30_000u16..35_000).boxed()) } else { (OpWeights { reorg: 0, ..weights() }, vec![Topology::Pair, Topology::Line3, Topology::Line3], any::<u16>().boxed()) };
		(world_spec(topos), proptest::collection::vec(op_strategy(w), 8..45), node, proptest::collection::vec(op_strategy(suffix_weights()), 3..14)).prop_map(|(spec, prefix, node, suffix)| TwinCase { spec, prefix, node, suffix })
	})
}

fn twin_oracle(c: &TwinCase, ctx: &mut Ctx) -> CaseResult {
	let mut a = c.spec.build(true);
	let mut b = c.spec.build(true);
	// channel establishment is not reorged (funding reorgs are C07/C11's subject)
	a.min_reorg_floor = a.chain.height();
	b.min_reorg_floor = b.chain.height();
	let r = twin_inner(c, ctx, &mut a, &mut b);
	if ctx.replay && r.is_err() {
		println!("==== history of the original world ====\n{}", dump_history(&a));
		println!("==== history of the twin (reloaded) world ====\n{}", dump_history(&b));
	}
	r
}

fn first_char_diff(a: &[String], b: &[String]) -> String {
	if a.len() == 1 && b.len() == 1 {
		let (x, y) = (a[0].as_bytes(), b[0].as_bytes());
		let p = x.iter().zip(y.iter()).position(|(c, d)| c != d).unwrap_or(x.len().min(y.len()));
		let lo = p.saturating_sub(120);
		return format!("first difference at {}: ...{} | {}", p, String::from_utf8_lossy(&x[lo..(p + 80).min(x.len())]), String::from_utf8_lossy(&y[lo..(p + 80).min(y.len())]));
	}
	String::new()
}

fn sort_mempools(a: &mut Sim, b: &mut Sim) {
	align_mempools(a, b);
}

fn twin_inner(c: &TwinCase, ctx: &mut Ctx, a: &mut Sim, b: &mut Sim) -> CaseResult {
	let lenient = std::env::var("C12_TWIN_LENIENT").is_ok();
	let mut tags: Vec<&'static str> = vec![];
	for op in c.prefix.iter() {
		sort_mempools(a, b);
		let Some(ta) = apply_guarded(a, &c.spec, op, ctx)? else { return Ok(()) };
		let Some(tb) = apply_guarded(b, &c.spec, op, ctx)? else { return Ok(()) };
		tags.push(ta);
		if ta != tb {
			ctx.label("prefix-diverged");
			return Ok(());
		}
	}
	// both worlds went through the same history: they must look the same (otherwise the simulator or the
	// library is not deterministic enough for this comparison; no verdict)
	let m0 = ForkMark { log_pos: 0, bc_pos: vec![0; a.w.n] };
	let mut notes = vec![];
	if let Some((k, _, _)) = surface_diff(&surface(a, &m0), &surface(b, &m0), &mut notes) {
		if lenient {
			vcore::report(&format!("prefix diverged in {}", k));
		}
		ctx.label(&format!("prefix-diverged:{}", k.split('.').last().unwrap_or("")));
		return Ok(());
	}
	let x = pick(c.node, a.w.n);
	// non-triviality: what is pending at the node at the moment of the write
	let chans = a.w.nodes[x].node.list_channels();
	let pending_htlcs = chans.iter().any(|d| !d.pending_inbound_htlcs.is_empty() || !d.pending_outbound_htlcs.is_empty());
	let inflight = !a.w.pending_updates(x).is_empty();
	let closed_pending = a.w.nodes[x].chain_monitor.chain_monitor.get_claimable_balances(&[]).iter().any(|b| !matches!(b, lightning::chain::channelmonitor::Balance::ClaimableOnChannelClose { .. }));
	let queued = (0..a.w.n).any(|j| j != x && (a.queued(x, j) > 0 || a.queued(j, x) > 0));
	ctx.label_if(pending_htlcs, "at-write:pending-htlcs");
	ctx.label_if(inflight, "at-write:monitor-update-in-flight");
	ctx.label_if(closed_pending, "at-write:onchain-claims-pending");
	ctx.label_if(queued, "at-write:messages-in-flight");
	ctx.label_if(tags.iter().any(|t| *t == "send-blinded"), "prefix:blinded-payment");
	{
		// an inbound HTLC the node removed with update_fail_malformed_htlc (the last hop of a blinded path failing
		// the payment) whose removal the peer has not yet acknowledged
		use lightning::ln::channel_state::InboundHTLCStateDetails;
		let removing = chans.iter().flat_map(|d| d.pending_inbound_htlcs.iter()).filter(|h| h.state == Some(InboundHTLCStateDetails::AwaitingRemoteRevokeToRemoveFail)).count();
		ctx.label_if(removing > 0, "at-write:inbound-htlc-failure-awaiting-revocation");
		ctx.label_if(removing > 1, "at-write:several-inbound-failures-awaiting-revocation");
	}
	let ma = fork_mark(a);
	let mb = fork_mark(b);
	a.c12_bounce(x, &c.spec);
	if let Err(e) = b.c12_reload(x) {
		return Err(Failure::new("manager-read", format!("node {} did not reload from its own encoding and current monitors: {}", x, e)).with_key("manager-read/reload"));
	}
	let mut compared = 0u64;
	let prefix_tags = tags.clone();
	let mut step = |a: &mut Sim, b: &mut Sim, ctx: &mut Ctx, what: &str| -> Result<bool, Failure> {
		a.c12_rebroadcast_all();
		b.c12_rebroadcast_all();
		let qa = a.settle(60);
		let qb = b.settle(60);
		if !qa || !qb {
			ctx.label("not-quiescent");
			return Ok(false);
		}
		compared += 1;
		let mut notes = vec![];
		let d = surface_diff(&surface(a, &ma), &surface(b, &mb), &mut notes);
		notes.sort();
		notes.dedup();
		for n in notes {
			ctx.label(&n);
		}
		if let Some((k, oa, ob)) = d {
			let class = k.split('.').last().unwrap_or("").to_string();
			if lenient && std::env::var("C12_TWIN_ONLY").map(|v| v != class).unwrap_or(true) {
				ctx.label(&format!("diff:{}", class));
				let mut extra = format!("deferred={} ctype={:?} topo={:?} x={} prefix={:?}", c.spec.deferred, c.spec.ctype, c.spec.topo, x, prefix_tags);
				if class == "broadcasts" {
					for (w, sim) in [("orig", &*a), ("reloaded", &*b)] {
						for (i, l) in sim.broadcasts.iter().enumerate() {
							for t in l.iter() {
								let id = format!("{}", t.compute_txid());
								let touches = |v: &Vec<String>| v.iter().any(|k| t.input.iter().any(|i| k.contains(&i.previous_output.to_string())));
								if touches(&oa) || touches(&ob) {
									extra += &format!("\n   {} n{} tx {} inputs {:?} outs {} locktime {}", w, i, id, t.input.iter().map(|i| format!("{}:{}", &i.previous_output.txid.to_string()[..8], i.previous_output.vout)).collect::<Vec<_>>(), t.output.len(), t.lock_time);
								}
							}
						}
					}
				}
				if class == "bump-events" {
					let sa = surface(a, &ma);
					let sb = surface(b, &mb);
					let short = |e: &String| -> String {
						let p = e.find("package_target_feerate").unwrap_or(0);
						let q = e.find("pending_htlcs").unwrap_or(e.len().saturating_sub(200));
						format!("{} ... {}", e[p..(p + 60).min(e.len())].to_string(), e[q..(q + 300).min(e.len())].to_string())
					};
					for (w, s) in [("orig", &sa), ("reloaded", &sb)] {
						for (k2, v) in s.iter() {
							if k2.contains(&format!("n{}.bump-events", x)) {
								for e in v.iter() {
									extra += &format!("\n   {} {}: {}", w, k2, short(e));
								}
							}
						}
					}
				}
				if class == "events" {
					let sa = surface(a, &ma);
					let xnode = x;
					for x in ob.iter() {
						let name: String = x.chars().take_while(|c| c.is_alphanumeric()).collect();
						for (k2, v) in sa.iter() {
							if k2.ends_with("events-before") || k2.ends_with(".events") {
								for e in v.iter().filter(|e| e.starts_with(&name)) {
									extra += &format!("\n   orig {}: {}", k2, e);
								}
							}
						}
						extra += &format!("\n   RELOADED-ONLY: {}", x);
						if name == "PaymentPathSuccessful" {
							for (w, sim) in [("orig", &*a), ("reloaded", &*b)] {
								for (st, e) in sim.log.iter() {
									match e {
										SEvent::Ldk { node, ev } if *node == xnode => extra += &format!("\n     {} @{} n{} {}", w, st, node, format!("{:?}", ev).chars().take(110).collect::<String>()),
										SEvent::Restart { .. } | SEvent::Disconnect { .. } | SEvent::Mined { .. } => extra += &format!("\n     {} @{} {}", w, st, format!("{:?}", e).chars().take(100).collect::<String>()),
										SEvent::Api { what, .. } => extra += &format!("\n     {} @{} api {}", w, st, what),
										_ => {},
									}
								}
							}
						}
					}
				}
				vcore::report(&extra);
				let cut = |v: &Vec<String>| v.iter().map(|s| s.chars().take(300).collect::<String>()).collect::<Vec<_>>();
				vcore::report(&format!("DIFF after {} in {}:\n  only original: {:?}\n  only reloaded: {:?}\n  {}", what, k, cut(&oa), cut(&ob), first_char_diff(&oa, &ob)));
				return Ok(false);
			}
			return Err(Failure::new("twin-surface", format!("after {}: {} differs between the world that kept running and the world where node {} was reloaded from its own encoding\n  only original: {:?}\n  only reloaded: {:?}", what, k, x, oa, ob)).with_key(format!("twin-surface/{}", class)));
		}
		Ok(true)
	};
	if !step(a, b, ctx, "reload + reconnect")? {
		return Ok(());
	}
	for (i, op) in c.suffix.iter().enumerate() {
		sort_mempools(a, b);
		let Some(ta) = apply_guarded(a, &c.spec, op, ctx)? else { return Ok(()) };
		let Some(tb) = apply_guarded(b, &c.spec, op, ctx)? else { return Ok(()) };
		tags.push(ta);
		if ta != tb {
			if lenient {
				ctx.label("diff:op-outcome");
				return Ok(());
			}
			return Err(Failure::new("twin-op-outcome", format!("suffix op {} {:?}: original world: {}, reloaded world: {}", i, op, ta, tb)).with_key("twin-op-outcome"));
		}
		if !step(a, b, ctx, &format!("suffix op {} ({})", i, ta))? {
			return Ok(());
		}
	}
	ctx.sub_evaluations(compared);
	ctx.nontrivial_if(pending_htlcs || inflight || closed_pending);
	ctx.summary(json!({"topo": format!("{:?}", c.spec.topo), "node": x, "ops": tags, "compared": compared}));
	Ok(())
}

// ---------------------------------------------------------------------------------------------------
// (e) + (f): unknown TLV records, truncations and single-byte corruptions of harvested encodings
// ---------------------------------------------------------------------------------------------------

#[derive(Clone, Debug, Serialize, Deserialize)]
struct CorruptCase {
	spec: WorldSpec,
	ops: Vec<Op>,
	/// which harvested object of each kind (monitor, update, manager)
	objs: [u16; 3],
	odd_value: Vec<u8>,
	cuts: Vec<u32>,
	muts: Vec<(u32, u8)>,
}

fn corrupt_strat() -> impl Strategy<Value = CorruptCase> {
	(
		world_spec(vec![Topology::Pair, Topology::Line3]),
		proptest::collection::vec(op_strategy(weights()), 10..50),
		any::<[u16; 3]>(),
		proptest::collection::vec(any::<u8>(), 0..40),
		proptest::collection::vec(any::<u32>(), 24..25),
		proptest::collection::vec((any::<u32>(), 1u8..=255), 40..41),
	)
		.prop_map(|(spec, ops, objs, odd_value, cuts, muts)| CorruptCase { spec, ops, objs, odd_value, cuts, muts })
}

fn corrupt_oracle(c: &CorruptCase, ctx: &mut Ctx) -> CaseResult {
	let mut sim = c.spec.build(true);
	sim.min_reorg_floor = sim.chain.height();
	let mut h = MonHarvest::new(&sim, true);
	h.reread_every = u64::MAX;
	for (k, op) in c.ops.iter().enumerate() {
		let Some(tag) = apply_guarded(&mut sim, &c.spec, op, ctx)? else { return Ok(()) };
		h.step(&sim, is_chain_tag(tag))?;
		if k % 5 == 0 {
			h.check_manager(&sim, (k / 5) % sim.w.n)?;
		}
	}
	let n = sim.w.n;
	h.check_manager(&sim, pick(c.objs[2], n))?;
	let mut st = CorruptStats::default();
	// outcomes of single-byte mutations are classified and labelled; C12_STRICT_MUTATIONS=1 turns them into failures
	st.survey = std::env::var("C12_STRICT_MUTATIONS").is_err();
	let mut nonq = false;
	// prefer non-quiescent monitor states
	let mons: Vec<&Harvested> = {
		let nq: Vec<&Harvested> = h.kept_monitors.iter().filter(|m| m.nonquiescent).collect();
		if nq.is_empty() { h.kept_monitors.iter().collect() } else { nq }
	};
	if !mons.is_empty() {
		let o = mons[pick(c.objs[0], mons.len())];
		nonq |= o.nonquiescent;
		let cx = Corruptor::new(&sim, o.node, Kind::Monitor);
		corrupt_object(&cx, &o.bytes, &c.odd_value, &c.cuts, &c.muts, 0, &mut st)?;
	}
	if !h.kept_updates.is_empty() {
		let o = &h.kept_updates[pick(c.objs[1], h.kept_updates.len())];
		let cx = Corruptor::new(&sim, o.node, Kind::Update);
		corrupt_object(&cx, &o.bytes, &c.odd_value, &c.cuts, &c.muts, 600, &mut st)?;
		nonq = true;
	}
	{
		// the manager as it is now (its monitors are the live ones)
		let o = h.kept_managers.last().unwrap();
		let cx = Corruptor::new(&sim, o.node, Kind::Manager);
		let k = c.muts.len() / 2;
		corrupt_object(&cx, &o.bytes, &c.odd_value, &c.cuts[..c.cuts.len() / 2], &c.muts[..k], 0, &mut st)?;
	}
	ctx.sub_evaluations(st.odd_ok + st.even_err + st.prefixes + st.mutations_err + st.mutations_ok_same + st.mutations_ok_other);
	for (k, _) in st.findings.iter() {
		ctx.label(&format!("finding:{}", k));
	}
	if ctx.replay || std::env::var("C12_CORRUPT_SURVEY").is_ok() {
		for e in st.examples.iter().take(5) {
			vcore::report(&format!("FINDING {}", e));
		}
	}
	ctx.label_if(st.tail_ambiguous > 0, "tlv-tail-not-located");
	ctx.label_if(st.tail_located > 0, "tlv-tail-located");
	ctx.label_if(st.mutations_ok_other > 0, "mutation-read-as-different-object");
	ctx.label_if(st.mutations_ok_same > 0, "mutation-read-as-same-object");
	ctx.nontrivial_if(nonq && st.tail_located > 0);
	ctx.summary(json!({"topo": format!("{:?}", c.spec.topo), "stats": format!("{:?}", st)}));
	Ok(())
}

// ---------------------------------------------------------------------------------------------------
// (d) network graph and scorer
// ---------------------------------------------------------------------------------------------------

use netsim::ext_c12::aux::*;

#[derive(Clone, Debug, Serialize, Deserialize)]
struct ScoreCase {
	spec: WorldSpec,
	extra_nodes: u8,
	gossip: Vec<GossipOp>,
	decay: (u64, u64),
	ops: Vec<ScoreOp>,
	queries: Vec<Query>,
	fee: FeeParams,
	tail: Vec<ScoreOp>,
	fill_updates: bool,
}

fn gossip_strat() -> impl Strategy<Value = GossipOp> {
	let bytes = |n: usize| proptest::collection::vec(any::<u8>(), 0..n);
	prop_oneof![
		6 => (any::<u8>(), any::<u8>(), any::<u32>(), prop_oneof![Just(None), (1_000u64..20_000_000).prop_map(Some)], any::<bool>(), bytes(20)).prop_map(|(a, b, scid, capacity_sat, full, excess)| GossipOp::Announce { a, b, scid, capacity_sat, full, excess }),
		8 => ((any::<u16>(), any::<bool>(), 0u32..1_000_000, proptest::bool::weighted(0.1), any::<u16>()), (0u64..100_000, prop_oneof![1_000u64..50_000_000_000, Just(u64::MAX)], any::<u32>(), any::<u32>(), bytes(20)))
			.prop_map(|((chan, dir, ts, disabled, cltv), (min, max, base, ppm, excess))| GossipOp::Update { chan, dir, ts, disabled, cltv, min, max, base, ppm, excess }),
		3 => (any::<u8>(), 0u32..1_000_000, bytes(33), any::<[u8; 3]>(), proptest::collection::vec((any::<u8>(), any::<[u8; 16]>(), any::<u16>()), 0..5), bytes(20)).prop_map(|(node, ts, alias, rgb, addrs, excess)| GossipOp::NodeAnn { node, ts, alias, rgb, addrs, excess }),
		1 => any::<u16>().prop_map(|chan| GossipOp::FailChannel { chan }),
		1 => any::<u8>().prop_map(|node| GossipOp::FailNode { node }),
		1 => (0u32..3_000_000).prop_map(|now| GossipOp::Stale { now }),
		1 => any::<u32>().prop_map(GossipOp::RgsTimestamp),
	]
}

fn path_strat() -> impl Strategy<Value = PathSpec> {
	(any::<u16>(), proptest::collection::vec(any::<u16>(), 0..4), prop_oneof![1u64..10_000, 1_000u64..5_000_000_000]).prop_map(|(start, hops, amount_msat)| PathSpec { start, hops, amount_msat })
}

fn score_op_strat() -> impl Strategy<Value = ScoreOp> {
	let dt = || prop_oneof![Just(0u32), 0u32..600, 0u32..100_000, 0u32..3_000_000];
	prop_oneof![
		5 => (path_strat(), any::<u8>(), dt()).prop_map(|(path, at, dt)| ScoreOp::Failed { path, at, dt }),
		5 => (path_strat(), dt()).prop_map(|(path, dt)| ScoreOp::Success { path, dt }),
		1 => (path_strat(), any::<u8>(), dt()).prop_map(|(path, at, dt)| ScoreOp::ProbeFailed { path, at, dt }),
		1 => (path_strat(), dt()).prop_map(|(path, dt)| ScoreOp::ProbeSuccess { path, dt }),
		2 => dt().prop_map(|dt| ScoreOp::TimePassed { dt }),
	]
}

fn score_strat() -> impl Strategy<Value = ScoreCase> {
	let fee = (
		(0u64..2_000, 0u64..300_000, 0u64..100_000, 0u64..1_000_000, 0u64..100_000, 0u64..1_000_000),
		(0u64..1_000, prop_oneof![Just(1_0000_0000_000u64), 0u64..u64::MAX], any::<bool>(), prop_oneof![Just(0u64), 0u64..1_000_000]),
	)
		.prop_map(|((base, base_amt_mult, liq_mult, liq_amt_mult, hist_mult, hist_amt_mult), (anti_probing, impossible, linear, probing_diversity))| FeeParams { base, base_amt_mult, liq_mult, liq_amt_mult, hist_mult, hist_amt_mult, anti_probing, impossible, linear, probing_diversity });
	(
		world_spec(vec![Topology::Pair, Topology::Line3]),
		0u8..7,
		proptest::collection::vec(gossip_strat(), 0..40),
		(prop_oneof![Just(14 * 24 * 3600u64), 1u64..10_000_000], prop_oneof![Just(6 * 3600u64), 1u64..1_000_000]),
		proptest::collection::vec(score_op_strat(), 1..40),
		proptest::collection::vec((any::<u16>(), any::<bool>(), prop_oneof![0u64..100_000, 0u64..20_000_000_000], prop_oneof![Just(0u64), 0u64..5_000_000_000]).prop_map(|(chan, dir, amount_msat, inflight_msat)| Query { chan, dir, amount_msat, inflight_msat }), 4..24),
		fee,
		proptest::collection::vec(score_op_strat(), 0..4),
		proptest::bool::weighted(0.8),
	)
		.prop_map(|(spec, extra_nodes, gossip, decay, ops, queries, fee, tail, fill_updates)| ScoreCase { spec, extra_nodes, gossip, decay, ops, queries, fee, tail, fill_updates })
}

fn score_oracle(c: &ScoreCase, ctx: &mut Ctx) -> CaseResult {
	let sim = c.spec.build(false);
	let nd = &sim.w.nodes[0];
	let g: &'static Graph = nd.network_graph;
	TLV_STATS.with(|c| c.set((0, 0)));
	let mut m = GraphModel { nodes: (0..sim.w.n).map(|i| sim.w.node_id(i)).collect(), chans: vec![], applied: 0, rejected: 0 };
	for k in 0..c.extra_nodes {
		m.nodes.push(node_key(k + 1));
	}
	// the world's own channels with their real ids, keys, capacities and forwarding policies
	world_channels_into_graph(&sim, g, &mut m);
	for op in c.gossip.iter() {
		apply_gossip(g, &mut m, op);
	}
	graph_oracle(g, nd.logger)?;
	if c.fill_updates {
		// give every channel both directions' policies so that it can be scored
		let missing: Vec<(u16, bool)> = {
			let ro = g.read_only();
			let mut v = vec![];
			for (i, ch) in m.chans.iter().enumerate() {
				if let Some(info) = ro.channel(ch.0) {
					if info.one_to_two.is_none() {
						v.push((i as u16, false));
					}
					if info.two_to_one.is_none() {
						v.push((i as u16, true));
					}
				}
			}
			v
		};
		for (i, dir) in missing {
			let scid = m.chans[i as usize].0;
			let upd = lightning::ln::msgs::UnsignedChannelUpdate {
				chain_hash: bitcoin::constants::ChainHash::using_genesis_block(bitcoin::Network::Testnet),
				short_channel_id: scid,
				timestamp: 1_700_000_000,
				message_flags: 1,
				channel_flags: dir as u8,
				cltv_expiry_delta: 40,
				htlc_minimum_msat: 1,
				htlc_maximum_msat: 4_000_000_000,
				fee_base_msat: 1000,
				fee_proportional_millionths: 100,
				excess_data: vec![],
			};
			let _ = g.update_channel_unsigned(&upd);
		}
		graph_oracle(g, nd.logger)?;
	}
	let res = scorer_oracle(g, nd.logger, &m, c.decay, &c.ops, &c.queries, &c.fee, &c.tail)?;
	let ro = g.read_only();
	let (loc, amb) = TLV_STATS.with(|c| c.get());
	ctx.label_if(loc > 0, "tlv-tail-located");
	ctx.label_if(amb > 0, "tlv-tail-not-located");
	ctx.label_if(res.entries > 0, "scorer:has-entries");
	ctx.label_if(res.entries > 1, "scorer:several-entries");
	ctx.label_if(res.nonempty_buckets, "scorer:non-empty-historical-buckets");
	ctx.label_if(res.nonzero_penalties > 0, "scorer:non-zero-penalties");
	ctx.label_if(ro.channels().len() > sim.chans.len(), "graph:generated-channels");
	ctx.label_if(ro.nodes().unordered_iter().any(|(_, n)| n.announcement_info.is_some()), "graph:node-announcements");
	ctx.label_if(g.get_last_rapid_gossip_sync_timestamp().is_some(), "graph:rgs-timestamp");
	ctx.sub_evaluations(res.queries);
	ctx.nontrivial_if(res.nonempty_buckets);
	ctx.summary(json!({"channels": ro.channels().len(), "nodes": ro.nodes().len(), "gossip_applied": m.applied, "gossip_rejected": m.rejected, "scorer_entries": res.entries, "queries": res.queries}));
	Ok(())
}

// ---------------------------------------------------------------------------------------------------
// (d) output sweeper
// ---------------------------------------------------------------------------------------------------

use netsim::ext_c12::sweep::*;

#[derive(Clone, Debug, Serialize, Deserialize)]
struct SweepCase {
	spec: WorldSpec,
	ops: Vec<Op>,
	node: u16,
	exclude_static: bool,
	/// per tracked batch: delay (blocks) before the first sweep, 0 = none
	delays: Vec<u8>,
}

fn sweep_weights() -> OpWeights {
	OpWeights { send: 20, claim: 12, fail: 3, deliver: 20, events: 14, forwards: 8, pump: 14, force_close: 8, mine: 30, reorg: 3, setfee: 2, ..OpWeights::zero() }
}

fn closing_weights() -> OpWeights {
	OpWeights { claim: 4, events: 14, pump: 20, force_close: 14, mine: 44, reorg: 2, ..OpWeights::zero() }
}

fn sweep_strat() -> impl Strategy<Value = SweepCase> {
	let ops = (proptest::collection::vec(op_strategy(sweep_weights()), 8..30), proptest::collection::vec(op_strategy(closing_weights()), 12..36)).prop_map(|(mut a, b)| {
		a.extend(b);
		a
	});
	(world_spec(vec![Topology::Pair, Topology::Line3]), ops, any::<u16>(), proptest::bool::weighted(0.2), proptest::collection::vec(prop_oneof![Just(0u8), 0u8..12], 8..9))
		.prop_map(|(spec, ops, node, exclude_static, delays)| SweepCase { spec, ops, node, exclude_static, delays })
}

fn sweep_oracle(c: &SweepCase, ctx: &mut Ctx) -> CaseResult {
	let mut sim = c.spec.build(false);
	sim.min_reorg_floor = sim.chain.height();
	TLV_STATS.with(|c| c.set((0, 0)));
	let x = pick(c.node, sim.w.n);
	let change = { use bitcoin::hashes::Hash; bitcoin::ScriptBuf::new_p2wpkh(&bitcoin::WPubkeyHash::from_byte_array([7u8; 20])) };
	let rig_a = Rig::new(change.clone());
	let mut st = SweepStats::default();
	let mut tags = vec![];
	let mut batches = 0usize;
	let mut sweep_failed = false;
	// `sim` is mutated between the steps, the sweepers only borrow it while they are fed: keep the sweeper as
	// persisted bytes between steps and re-create it from them (this *is* the round trip under test for the
	// lagging copy; the leading copy is compared against an instance that never went through bytes within the step)
	let mut fed: Vec<bitcoin::BlockHash>;
	// the persisted image together with the chain view it corresponds to
	let mut prev_bytes: Option<(Vec<u8>, Vec<bitcoin::BlockHash>)> = None;
	let mut log_pos = sim.log.len();
	for op in c.ops.iter() {
		let Some(tag) = apply_guarded(&mut sim, &c.spec, op, ctx)? else { return Ok(()) };
		tags.push(tag);
		// leading copy: the instance as it was (re-created from its own bytes only because the borrow of `sim`
		// has to end between steps; checked below to be loss-free), lagging copy: same bytes, separate rig
		let rig_b = Rig::new(change.clone());
		let (sw_a, sw_b) = match &prev_bytes {
			None => {
				// nothing persisted yet: a fresh sweeper starting at the current tip
				fed = sim.chain.blocks.iter().map(|b| b.block_hash()).collect();
				(new_sweeper(&rig_a, &sim, x), new_sweeper(&rig_b, &sim, x))
			},
			Some((b, fed_then)) => {
				fed = fed_then.clone();
				let a = reload_sweeper(&rig_a, &sim, x, b).map_err(|e| Failure::new("sweeper-read", format!("{:?}", e)).with_key("sweeper-read"))?;
				let bb = reload_sweeper(&rig_b, &sim, x, b).map_err(|e| Failure::new("sweeper-read", format!("{:?}", e)).with_key("sweeper-read"))?;
				st.reloads += 1;
				(a, bb)
			},
		};
		let mut fed_b = fed.clone();
		sync_chain(&sw_a, &sim, &mut fed, Some(&mut st));
		sync_chain(&sw_b, &sim, &mut fed_b, None);
		for (descs, chan) in new_descriptors(&sim, x, log_pos) {
			let d = c.delays[batches % c.delays.len()];
			batches += 1;
			let delay = if d == 0 { None } else { Some(sim.chain.height() + d as u32) };
			st.delayed |= delay.is_some();
			for sw in [&sw_a, &sw_b] {
				let _ = sw.track_spendable_outputs(descs.clone(), chan, None, c.exclude_static, delay);
			}
		}
		log_pos = sim.log.len();
		let ra = sw_a.regenerate_and_broadcast_spend_if_necessary();
		let rb = sw_b.regenerate_and_broadcast_spend_if_necessary();
		vensure!(ra == rb, "sweeper-twin", "after {}: sweep result {:?} vs {:?}", tag, ra, rb);
		if ra.is_err() {
			// the sweep (or persisting) failed: the state stays dirty in memory and the store legitimately lags
			sweep_failed = true;
		}
		// same state, same inputs => same tracked outputs, tip and broadcasts
		let (ta, tb) = (sw_a.tracked_spendable_outputs(), sw_b.tracked_spendable_outputs());
		vensure!(render_tracked(&ta) == render_tracked(&tb), "sweeper-twin", "after {}: tracked outputs differ\n a: {:?}\n b: {:?}", tag, render_tracked(&ta), render_tracked(&tb));
		vensure!(sw_a.current_best_block() == sw_b.current_best_block(), "sweeper-twin", "best block differs");
		let bc_a: Vec<bitcoin::Transaction> = rig_a.bc.txs.lock().unwrap().drain(..).collect();
		let bc_b: Vec<bitcoin::Transaction> = rig_b.bc.txs.lock().unwrap().drain(..).collect();
		let key = |t: &bitcoin::Transaction| {
			let mut i: Vec<String> = t.input.iter().map(|i| i.previous_output.to_string()).collect();
			i.sort();
			format!("{:?} {:?} {}", i, t.output, t.lock_time)
		};
		vensure!(bc_a.iter().map(key).collect::<Vec<_>>() == bc_b.iter().map(key).collect::<Vec<_>>(), "sweeper-twin", "after {}: broadcasts differ", tag);
		st.steps_compared += 1;
		st.broadcasts += bc_a.len() as u64;
		st.tracked_max = st.tracked_max.max(ta.len());
		for o in ta.iter() {
			use lightning::util::sweep::OutputSpendStatus::*;
			match o.status {
				PendingFirstConfirmation { .. } => st.pending_first_conf = true,
				PendingThresholdConfirmations { .. } => st.pending_threshold = true,
				_ => {},
			}
		}
		// the persisted bytes: read back equal to the live instance; both copies persisted the same state
		let bytes_a = rig_a.store.sweeper_bytes();
		if let (Some(b), true) = (&bytes_a, ra.is_ok()) {
			let rig_c = Rig::new(change.clone());
			let sw_c = reload_sweeper(&rig_c, &sim, x, b).map_err(|e| Failure::new("sweeper-read", format!("{:?}", e)).with_key("sweeper-read"))?;
			// the persisted image may lag the in-memory state only by what the block callbacks changed after the
			// last persisting call; `regenerate_and_broadcast_spend_if_necessary` above persisted everything
			vensure!(sw_c.tracked_spendable_outputs() == ta, "sweeper-roundtrip", "after {}: read(persisted bytes) has different tracked outputs than the live sweeper", tag);
			vensure!(sw_c.current_best_block() == sw_a.current_best_block(), "sweeper-roundtrip", "after {}: read(persisted bytes) has a different best block", tag);
			drop(sw_c);
			// unknown TLV records in the sweeper state's tail stream
			let render = |bytes: &[u8]| -> Result<Vec<u8>, String> {
				let rig = Rig::new(change.clone());
				let sw = reload_sweeper(&rig, &sim, x, bytes).map_err(|e| format!("{:?}", e))?;
				Ok(format!("{:?} {:?}", render_tracked(&sw.tracked_spendable_outputs()), sw.current_best_block()).into_bytes())
			};
			tlv_injection_oracle("sweeper", b, &SWEEPER_TAIL, &render)?;
			if let Some(bb) = rig_b.store.sweeper_bytes() {
				st.store_compared += 1;
				if bb == *b {
					st.byte_equal_stores += 1;
				}
			}
		}
		drop(sw_a);
		drop(sw_b);
		// the sweeps go to the mempool of the world so that later blocks confirm them
		for t in bc_a.iter() {
			let _ = sim.chain.broadcast(t);
		}
		if let Some(b) = bytes_a {
			if prev_bytes.as_ref().map(|p| p.0 != b).unwrap_or(true) {
				prev_bytes = Some((b, fed.clone()));
			}
		}
	}
	ctx.sub_evaluations(st.steps_compared);
	let (loc, amb) = TLV_STATS.with(|c| c.get());
	ctx.label_if(loc > 0, "tlv-tail-located");
	ctx.label_if(amb > 0, "tlv-tail-not-located");
	ctx.label_if(st.tracked_max > 0, "sweeper:tracked-outputs");
	ctx.label_if(st.tracked_max > 1, "sweeper:several-outputs");
	ctx.label_if(st.pending_first_conf, "sweeper:sweep-awaiting-first-confirmation");
	ctx.label_if(st.pending_threshold, "sweeper:sweep-awaiting-threshold");
	ctx.label_if(st.delayed, "sweeper:delayed-sweep");
	ctx.label_if(st.reorgs > 0, "sweeper:reorg");
	ctx.label_if(sweep_failed, "sweeper:a-sweep-attempt-failed");
	ctx.label_if(st.store_compared > st.byte_equal_stores, "sweeper:twin-bytes-differ(signature-randomness/input-order)");
	ctx.nontrivial_if(st.pending_first_conf || st.pending_threshold);
	ctx.summary(json!({"ops": tags, "stats": format!("{:?}", st)}));
	Ok(())
}

// ---------------------------------------------------------------------------------------------------
// monitors in punishment histories: a revoked commitment with several HTLC outputs is confirmed, the
// victim's aggregated justice package is in flight, and the cheater confirms one of its second-stage
// transactions first (the victim's package is split)
// ---------------------------------------------------------------------------------------------------

#[derive(Clone, Debug, Serialize, Deserialize)]
struct JusticeCase {
	spec: WorldSpec,
	/// amounts (fractions of the limit) of the payments victim -> cheater and cheater -> victim
	v_to_x: Vec<u16>,
	x_to_v: Vec<u16>,
	/// cheater is the funder?
	cheater_is_funder: bool,
	/// resolve the payments by claiming (true) or failing them back before the old state is published
	claim: Vec<bool>,
	/// which of the cheater's second-stage transactions is confirmed first
	which: u16,
	/// blocks mined between revocation and publication of the old commitment (its HTLCs may have expired by then)
	wait_blocks: u8,
	/// blocks mined (empty) between the revoked commitment and the second-stage transaction beyond what its lock time needs
	extra_blocks: u8,
	tail: Vec<Op>,
}

fn justice_strat() -> impl Strategy<Value = JusticeCase> {
	(
		world_spec(vec![Topology::Pair]),
		proptest::collection::vec(2000u16..30000, 1..4),
		proptest::collection::vec(2000u16..30000, 1..4),
		any::<bool>(),
		proptest::collection::vec(proptest::bool::weighted(0.4), 8..9),
		any::<u16>(),
		0u8..4,
		proptest::collection::vec(op_strategy(closing_weights()), 2..10),
		prop_oneof![Just(0u8), 40u8..110, 55u8..75],
	)
		.prop_map(|(mut spec, v_to_x, x_to_v, cheater_is_funder, claim, which, extra_blocks, tail, wait_blocks)| {
			// both sides need funds for non-dust HTLCs
			spec.value_sat = vec![spec.value_sat[0].max(400_000)];
			spec.push_permille = vec![500];
			spec.max_accepted = spec.max_accepted.max(10);
			spec.dust_exposure_fixed_msat = None;
			spec.deferred = false;
			// second-stage transactions of anchor channels need external funding and are not available from the
			// monitor: most cases use the pre-anchor channel type
			if which % 4 != 0 {
				spec.ctype = CType::Static;
			}
			JusticeCase { spec, v_to_x, x_to_v, cheater_is_funder, claim, which, wait_blocks, extra_blocks, tail }
		})
}

fn justice_oracle(c: &JusticeCase, ctx: &mut Ctx) -> CaseResult {
	let mut sim = build_world_with_cheaters(&c.spec, true, vec![if c.cheater_is_funder { 0 } else { 1 }]);
	sim.min_reorg_floor = sim.chain.height();
	let phase_cell = std::cell::Cell::new("traffic");
	let saved = take_last_panic();
	let r = match std::panic::catch_unwind(std::panic::AssertUnwindSafe(|| justice_inner(c, ctx, &mut sim, &phase_cell))) {
		Ok(r) => {
			set_last_panic(saved);
			r
		},
		Err(_) => {
			// a panic while blocks were delivered: the round-trip assertion of TestChainMonitor is C12's own
			// finding (keyed by phase like the harness's comparison), anything else is not C12's
			let (msg, loc) = take_last_panic().unwrap_or_default();
			if msg.contains("new_monitor == ") {
				let phase = phase_cell.get();
				let key = if phase == "after-cheater-second-stage" { "monitor-roundtrip-eq/justice-package-split".to_string() } else { format!("monitor-roundtrip-eq/justice/{}", phase) };
				Err(Failure::new("monitor-roundtrip-eq", format!("panic at {}: {}", loc, msg)).with_key(key))
			} else {
				let short = loc.rsplit("/lightning/src/").next().unwrap_or(&loc).to_string();
				ctx.label(&format!("foreign-failure:panic@{}", short));
				Ok(())
			}
		},
	};
	if ctx.replay && r.is_err() {
		println!("==== history ====\n{}", dump_history(&sim));
	}
	r
}

fn justice_inner(c: &JusticeCase, ctx: &mut Ctx, sim: &mut Sim, phase_cell: &std::cell::Cell<&'static str>) -> CaseResult {
	let (x, v) = if c.cheater_is_funder { (0usize, 1usize) } else { (1, 0) };
	let mut h = MonHarvest::new(sim, false);
	let mut phase = "traffic";
	// Monitor round-trip failures are keyed by the phase of the punishment history (that tells the finding
	// classes apart): after the cheater's second-stage transaction split the victim's justice package the key
	// is `monitor-roundtrip-eq/justice-package-split`, whether the harness's own comparison or the identical
	// assertion inside TestChainMonitor::update_channel notices it first.
	let rt_key = |phase: &str| if phase == "after-cheater-second-stage" { "monitor-roundtrip-eq/justice-package-split".to_string() } else { format!("monitor-roundtrip-eq/justice/{}", phase) };
	let step = |h: &mut MonHarvest, sim: &Sim, chain: bool, phase: &str| -> CaseResult {
		h.step(sim, chain).map_err(|mut f| {
			f.key = if f.oracle == "monitor-roundtrip-eq" || f.oracle == "monitor-reencode" { rt_key(phase) } else { format!("{}/{}", f.key, phase) };
			f
		})
	};
	let japply = |sim: &mut Sim, op: &Op, phase: &str, ctx: &mut Ctx| -> Result<Option<&'static str>, Failure> {
		apply_guarded(sim, &c.spec, op, ctx).map_err(|mut f| {
			if f.detail.contains("new_monitor == ") {
				f.key = rt_key(phase);
				f.oracle = "monitor-roundtrip-eq".into();
			}
			f
		})
	};
	// 1. HTLCs in both directions, committed on both sides
	for (from, amts) in [(v, &c.v_to_x), (x, &c.x_to_v)] {
		for a in amts.iter() {
			let Some(amt) = resolve_amount(sim, from, 0, &Amt::Frac(*a)) else { continue };
			let amt = amt.max(3_000_000).min(resolve_amount(sim, from, 0, &Amt::LimitMinus(0)).unwrap_or(0));
			if amt == 0 {
				continue;
			}
			sim.try_send(from, &[0], amt);
			if japply(sim, &Op::Pump, phase, ctx)?.is_none() {
			return Ok(());
		}
			step(&mut h, sim, false, phase)?;
		}
	}
	let pending = sim.chan_details(x, 0).map(|d| d.pending_inbound_htlcs.len() + d.pending_outbound_htlcs.len()).unwrap_or(0);
	if pending < 1 {
		ctx.label("no-htlcs-committed");
		return Ok(());
	}
	// 2. the cheater claims (some of) the payments it received - its monitor then knows the preimages, the
	//    peer has not seen the fulfils yet - and keeps its current (soon revoked) commitment together with the
	//    second-stage transactions (HTLC-success for what it can claim, HTLC-timeout for what it offered)
	let mine: Vec<usize> = sim.pays.iter().filter(|p| p.state == PayState::Claimable && p.to == x).map(|p| p.idx).collect();
	for (k, p) in mine.iter().enumerate() {
		if c.claim[k % c.claim.len()] {
			sim.claim(*p);
			step(&mut h, sim, false, phase)?;
		}
	}
	let chan_id = sim.chans[0].id;
	let old_txs = {
		let nd = &sim.w.nodes[x];
		let m = nd.chain_monitor.chain_monitor.get_monitor(chan_id).map_err(|_| Failure::new("harness", "no monitor"))?;
		m.unsafe_get_latest_holder_commitment_txn(&nd.logger)
	};
	ctx.label(&format!("revoked-commitment-htlc-txs:{}", (old_txs.len() - 1).min(4)));
	// 3. the HTLCs are resolved off-chain: the kept commitment becomes revoked
	let cands: Vec<usize> = sim.pays.iter().filter(|p| p.state == PayState::Claimable).map(|p| p.idx).collect();
	for (k, p) in cands.iter().enumerate() {
		if c.claim[k % c.claim.len()] {
			sim.claim(*p);
		} else {
			sim.fail_back(*p);
		}
		if japply(sim, &Op::Pump, phase, ctx)?.is_none() {
			return Ok(());
		}
		step(&mut h, sim, false, phase)?;
	}
	if !sim.settle(30) {
		ctx.label("not-quiescent");
		return Ok(());
	}
	step(&mut h, sim, false, phase)?;
	// 4. (later) the revoked commitment confirms
	for _ in 0..c.wait_blocks {
		sim.mine_block(vec![]);
	}
	if c.wait_blocks > 0 {
		if japply(sim, &Op::Pump, phase, ctx)?.is_none() {
			return Ok(());
		}
		step(&mut h, sim, true, phase)?;
		ctx.label(if c.wait_blocks >= 72 { "published-after-htlc-expiry" } else { "published-late" });
	}
	phase = "revoked-commitment-confirmed";
	phase_cell.set(phase);
	let _ = sim.chain.broadcast(&old_txs[0]);
	let rejected = sim.mine_block(vec![old_txs[0].clone()]);
	if !rejected.is_empty() {
		ctx.label("revoked-commitment-rejected");
		return Ok(());
	}
	step(&mut h, sim, true, phase)?;
	if japply(sim, &Op::Pump, phase, ctx)?.is_none() {
			return Ok(());
		}
	step(&mut h, sim, false, phase)?;
	let justice_in_flight = sim.broadcasts[v].iter().any(|t| t.input.iter().any(|i| i.previous_output.txid == old_txs[0].compute_txid()));
	ctx.label_if(justice_in_flight, "justice-transaction-in-flight");
	// 5. the cheater's second-stage transaction confirms first (the victim's justice transactions are not mined)
	if old_txs.len() > 1 {
		let t = &old_txs[1 + pick(c.which, old_txs.len() - 1)];
		let lt = t.lock_time.to_consensus_u32();
		let mut guard = 0;
		while (sim.chain.height() + 1 <= lt && lt < 500_000_000) && guard < 400 {
			sim.mine_block(vec![]);
			guard += 1;
			if guard % 8 == 0 {
				step(&mut h, sim, true, phase)?;
			}
		}
		for _ in 0..c.extra_blocks {
			sim.mine_block(vec![]);
			step(&mut h, sim, true, phase)?;
		}
		phase = "after-cheater-second-stage";
		phase_cell.set(phase);
		let _ = sim.chain.broadcast(t);
		let rejected = sim.mine_block(vec![t.clone()]);
		ctx.label(if rejected.is_empty() { "cheater-second-stage-confirmed" } else { "cheater-second-stage-rejected" });
		ctx.label(if lt == 0 { "second-stage:htlc-success" } else { "second-stage:htlc-timeout" });
		if std::env::var("C12_DEBUG").is_ok() {
			vcore::report(&format!("SECOND-STAGE locktime {} rejected {:?} height {}", lt, rejected, sim.chain.height()));
		}
		step(&mut h, sim, true, phase)?;
		if japply(sim, &Op::Pump, phase, ctx)?.is_none() {
			return Ok(());
		}
		step(&mut h, sim, false, phase)?;
	}
	// 6. whatever follows
	for op in c.tail.iter() {
		let Some(tag) = japply(sim, op, phase, ctx)? else { return Ok(()) };
		step(&mut h, sim, is_chain_tag(tag), phase)?;
	}
	let st = &h.stats;
	ctx.sub_evaluations(st.images + st.live_snapshots + st.updates);
	ctx.label_if(st.states_pending_claims > 0, "state:pending-claims");
	ctx.label_if(st.states_awaiting_conf > 0, "state:onchain-awaiting-conf");
	ctx.nontrivial_if(justice_in_flight);
	if std::env::var("C12_DEBUG").is_ok() {
		vcore::report(&format!("JUSTICE ctype={:?} htlc_txs={} justice_in_flight={} pending_claims={} images={} strict={} lenient_ok={} unverifiable={}", c.spec.ctype, old_txs.len() - 1, justice_in_flight, st.states_pending_claims, st.images, st.commute_strict, st.commute_lenient_ok, st.commute_unverifiable));
	}
	Ok(())
}

/// Serialized monitors handed over by other checks (hex files under replays/regress/C12): each must read,
/// and re-encoding what was read must give the same bytes (up to hash-map entry order).
fn regress_images() -> Vec<String> {
	let mut v: Vec<String> = std::fs::read_dir(format!("{}/replays/regress/C12", VERIF_ROOT)).map(|d| d.filter_map(|e| e.ok()).map(|e| e.file_name().to_string_lossy().to_string()).filter(|n| n.ends_with(".hex")).collect()).unwrap_or_default();
	v.sort();
	v
}

fn regress_image_oracle(name: &String, ctx: &mut Ctx) -> CaseResult {
	let hexs = std::fs::read_to_string(format!("{}/replays/regress/C12/{}", VERIF_ROOT, name)).map_err(|e| Failure::new("harness", format!("{}", e)))?;
	let bytes = unhex(hexs.trim());
	// images are written by node 0 of a functional_test_utils network (keys seed [0; 32])
	let keys = lightning::util::test_utils::TestKeysInterface::new(&[0u8; 32], bitcoin::Network::Testnet);
	let stem = name.trim_end_matches(".hex");
	let (m, left) = read_mon(&bytes, &keys).map_err(|e| Failure::new("monitor-read", format!("{}: {:?}", name, e)).with_key(format!("monitor-read/regress/{}", stem)))?;
	vensure!(left == 0, "monitor-read", "{}: {} bytes unread", name, left);
	let b2 = lightning::util::ser::Writeable::encode(&m);
	ctx.nontrivial();
	if !same_bytes_modulo_order(&bytes, &b2) {
		let p = bytes.iter().zip(b2.iter()).position(|(a, b)| a != b).unwrap_or(0);
		// images taken after a justice package split show the listed finding `monitor-roundtrip-eq/justice-package-split`
		let key = if stem.contains("after-split") { "monitor-roundtrip-eq/justice-package-split".to_string() } else { format!("monitor-reencode/regress/{}", stem) };
		return Err(Failure::new("monitor-reencode", format!("{}: write(read(b)) differs from b beyond ordering ({} vs {} bytes, first difference at byte {})", name, b2.len(), bytes.len(), p)).with_key(key));
	}
	Ok(())
}

fn main() {
	install_recording_signer();
	let mut c = Check::new("C12", "exploration");
	c.assume("objects are harvested from simulator histories (pair / three-node line; traffic, asynchronous persistence, disconnections, force closes, mined blocks, reorganisations above the funding depth, revoked-commitment publication); splice-specific fields never become populated");
	c.assume("byte-for-byte stability write(read(b)) == b does NOT hold for monitors, managers, graphs and scorers on the unchanged tree because hash-map entries are written in per-instance random order (observed in >90% of monitor images); asserted instead: equality under the library's `==` (monitor, update, graph), equal length and byte histogram of the re-encoding, and canonical (key-sorted) byte equality for the scorer; ChannelMonitorUpdate and OutputSweeper state contain no hash maps and are compared byte-for-byte (sweeper: up to signature randomness / input order of the sweep transaction)");
	c.assume("ChannelMonitor `==` includes `failed_back_htlc_ids`, documented as in-memory only (\"Not serialized\"): a live monitor of a forwarding node in a world with a closed channel that differs from its read-back image is accepted if the re-encoding has the same bytes up to order and the read-back image is a fixed point (label eq-exempt:failed-back-set)");
	c.assume("update-commutes-with-round-trip is strict for updates applied outside block delivery; inside a block-delivering operation the monitor also changes through chain data between two persist calls, so a mismatch there is counted as unverifiable, not as a violation; pending (monitor) events drained by the manager between two persist calls are drained on both sides before a second comparison");
	c.assume("manager twin: the reloaded node is read from encode() and the encodings of its live monitors taken at the same instant (no staleness; crash consistency is C10's subject); the never-reloaded twin gets the equivalent bounce (in-flight monitor updates completed, persistence synchronous, all connections dropped); both twins get rebroadcast_pending_claims() before every comparison (the background processor's timer); the miner of the twin worlds only considers transactions both worlds broadcast (identified by txid, fee-bumping transactions by what they spend besides wallet outputs); twin histories contain no reorganisations (a reloaded manager re-derives payments from monitors whose on-chain resolution a reorg un-did); worlds are compared at quiescence after each subsequent operation");
	c.assume("legitimate differences after a reload that are excluded, with reason: witness data / signatures (LDK signs with auxiliary randomness from the entropy source), hold_times (wall clock), BumpTransaction events and the transactions their handler broadcasts (not persisted by design, regenerated as needed; wallet UTXO choice depends on handling order), repeated events (documented at-least-once delivery), payment-resolution events re-derived at start-up from closed channels' monitors (kinds PaymentPathSuccessful, PaymentSent, PaymentClaimed, PaymentFailed, PaymentPathFailed, PaymentForwarded; labelled), re-broadcasts of transactions already broadcast before the reload; events emitted by the running node must all be emitted by the reloaded one");
	c.assume("scorer: the stand-in for the current time (last update time, used only by probing_diversity_penalty_msat) is not persisted; penalties are compared without that penalty right after the round trip and with it after both scorers received the same further updates");
	c.assume("single-byte mutations: value-level corruption is undetectable by design (no checksums), and what the library does with a well-formed but semantically corrupted object (debug assertions / overflow checks in read cross-checks, write, list_channels; an object whose own encoding no longer reads) is recorded as labels finding:mutation-*; failing oracles are: every strict prefix is rejected without panic, unknown odd TLV in the tail stream is skipped and the object is unchanged, unknown even TLV is rejected, no hang / over-allocation (watchdog). C12_STRICT_MUTATIONS=1 turns the labels into failures");
	c.assume("a panic inside the library while a scenario runs is a C12 failure only if it is one of TestChainMonitor's serialization round-trip assertions; other debug assertions end the case with a foreign-failure label");
	c.part_with(
		PartSpec {
			name: "monitors",
			rule: "pair / line3 worlds with generated traffic, asynchronous persistence, disconnections, force closes, mined blocks and reorgs; after EVERY operation: every monitor image handed to Persist since the last step is read back (all bytes consumed; re-encoding has the same bytes up to order; every 4th image re-read again and `==`), every ChannelMonitorUpdate handed to Watch satisfies read(write(u)) == u and byte-identical re-encoding, read(write(M_k-1)) + update_monitor(U_k) == read(M_k as persisted), every changed live monitor m satisfies read(write(m)) == m, and every third operation one node's ChannelManager is read back from encode() + current monitors (fixed point of channels/payments; equal to the live manager when no peer is connected). Non-trivial: some harvested monitor state is non-quiescent (pending HTLC / update in flight / on-chain event awaiting confirmations / pending claim)",
			quick_cases: 750,
			thorough_cases: 30_000,
			max_shrink: 300,
		},
		|| strat(70),
		monitors_oracle,
	);
	c.part_with(
		PartSpec {
			name: "manager-twin",
			rule: "the same generated prefix is executed in two worlds; in one a generated node is reloaded from its own ChannelManager::encode() and the encodings of its live monitors, in the other it gets the equivalent bounce; then the same generated operations are applied to both, both are driven to quiescence after each, and the public surface is compared: list_channels (every field), list_recent_payments, claimable balances, delivered HTLC / shutdown / error messages, events and broadcasts since the fork (rules in the assumptions). Non-trivial: at the moment of the write the node had pending HTLCs, a monitor update in flight or on-chain claims pending",
			quick_cases: 600,
			thorough_cases: 24_000,
			max_shrink: 300,
		},
		twin_strat,
		twin_oracle,
	);
	c.part_with(
		PartSpec {
			name: "corruptions",
			rule: "one monitor (non-quiescent state preferred), one monitor update and one manager encoding harvested from a generated history: the tail TLV stream is located structurally (unique position whose BigSize length equals the remaining length and whose content is an ascending TLV stream of known types including the always-written ones); unknown odd records (types 43, 1001, 2^48-1; empty / generated value) appended => reads and equals the original; unknown even records (42, 1000, 2^32-2) => Err; strict prefixes (24 generated cut points + the last 8 bytes; all cut points for updates up to 600 bytes) => Err without panic; 40 (manager 20) generated single-byte mutations => classified (labels). Non-trivial: tail located and the monitor state is non-quiescent",
			quick_cases: 250,
			thorough_cases: 10_000,
			max_shrink: 200,
		},
		corrupt_strat,
		corrupt_oracle,
	);
	c.part_with(
		PartSpec {
			name: "graph-scorer",
			rule: "node 0's NetworkGraph of a pair / line3 world receives the world's real channels (ids, funding keys, capacities, policies) plus generated gossip (full and partial channel announcements with/without capacity, channel updates, node announcements with all address kinds, permanent channel / node failures, stale pruning, rapid-sync timestamp): read(write(g)) == g, same rapid-sync timestamp, same bytes up to order. A ProbabilisticScorer over that graph receives generated payment_path_failed / successful / probe_* / time_passed sequences over connected paths: write -> read -> write is byte-identical after sorting entries by channel, and the re-read scorer gives the same estimated_channel_liquidity_range, historical bucket read-outs and channel_penalty_msat for a generated battery of (channel, direction, amount, in-flight) usages and generated fee parameters, right after the round trip and after the same further updates. Non-trivial: some historical bucket is non-empty",
			quick_cases: 1000,
			thorough_cases: 40_000,
			max_shrink: 1000,
		},
		score_strat,
		score_oracle,
	);
	c.part_with(
		PartSpec {
			name: "sweeper",
			rule: "an OutputSweeperSync follows one node of a world through a generated history with force closes, mined blocks and reorgs: it tracks the node's SpendableOutputs (generated delay / static-output exclusion), sees every block, its sweeps enter the world's mempool. After every operation the bytes it persisted are read back (tracked outputs `==` and best block equal to the live sweeper's), and a second sweeper re-read from the previous step's bytes is given the same inputs and must end with the same tracked outputs, tip, sweep result and broadcasts (up to input order / signatures of the sweep transaction). Non-trivial: a sweep transaction awaits its first confirmation or its confirmation threshold",
			quick_cases: 300,
			thorough_cases: 12_000,
			max_shrink: 300,
		},
		sweep_strat,
		sweep_oracle,
	);
	c.part_with(
		PartSpec {
			name: "punishment",
			rule: "punishment histories on a pair: HTLCs in both directions, the cheater keeps its commitment and second-stage transactions, the HTLCs are resolved off-chain (state revoked), a generated number of blocks later the revoked commitment is confirmed, the victim's justice transactions stay unmined and one of the cheater's second-stage transactions is confirmed first (package split), then generated closing operations; the monitor / update oracles of part `monitors` run after every step. Non-trivial: a justice transaction of the victim is in flight",
			quick_cases: 100,
			thorough_cases: 4_000,
			max_shrink: 200,
		},
		justice_strat,
		justice_oracle,
	);
	c.enumerate("regress-images", "serialized monitors handed over by other checks (replays/regress/C12/*.hex): read, re-encode, same bytes up to order", regress_images(), true, regress_image_oracle);
	c.finish();
}
