//! C12 — persisted objects survive serialization unchanged.
use netsim::ext_c12::*;
use netsim::ops::*;
use netsim::oracle_commit::dump_history;
use netsim::rec::install_recording_signer;
use netsim::sim::*;
use proptest::prelude::*;
use serde::{Deserialize, Serialize};
use serde_json::json;
use vcore::*;

#[derive(Clone, Debug, Serialize, Deserialize)]
struct Case {
	spec: WorldSpec,
	ops: Vec<Op>,
}

/// traffic with asynchronous persistence, disconnections, force closes and mined blocks
fn weights() -> OpWeights {
	OpWeights {
		send: 26,
		claim: 12,
		fail: 5,
		deliver: 40,
		flush: 4,
		events: 12,
		forwards: 12,
		disconnect: 4,
		reconnect: 7,
		setfee: 2,
		timer: 1,
		async_toggle: 8,
		complete: 12,
		pump: 8,
		force_close: 3,
		mine: 10,
		reorg: 1,
		set_style: 1,
		..OpWeights::zero()
	}
}

fn strat(max_ops: usize) -> impl Strategy<Value = Case> {
	(world_spec(vec![Topology::Pair, Topology::Line3, Topology::Line3]), proptest::collection::vec(op_strategy(weights()), 20..max_ops)).prop_map(|(spec, ops)| Case { spec, ops })
}

fn monitors_oracle(c: &Case, ctx: &mut Ctx) -> CaseResult {
	let mut sim = c.spec.build(true);
	let r = monitors_inner(c, ctx, &mut sim);
	if ctx.replay && r.is_err() {
		println!("==== history ====\n{}", dump_history(&sim));
	}
	r
}

fn monitors_inner(c: &Case, ctx: &mut Ctx, sim: &mut Sim) -> CaseResult {
	let mut h = MonHarvest::new(sim, false);
	let mut tags: Vec<&'static str> = vec![];
	for op in c.ops.iter() {
		let tag = apply(sim, &c.spec, op);
		tags.push(tag);
		h.step(sim, is_chain_tag(tag))?;
	}
	let st = &h.stats;
	ctx.sub_evaluations(st.images + st.live_snapshots + st.updates);
	ctx.label_if(st.commute_strict > 0, "commute-strict");
	ctx.label_if(st.commute_lenient_ok > 0, "commute-in-chain-op-ok");
	ctx.label_if(st.commute_unverifiable > 0, "commute-in-chain-op-unverifiable");
	ctx.label_if(st.commute_modulo_events > 0, "commute-modulo-drained-events");
	ctx.label_if(st.eq_exempt_failed_back > 0, "eq-exempt:failed-back-set");
	ctx.label_if(st.byte_unstable_images > 0, "image-reencoding-reordered");
	ctx.label_if(st.states_with_pending_htlcs > 0, "state:pending-htlc");
	ctx.label_if(st.states_with_inflight_update > 0, "state:update-in-flight");
	ctx.label_if(st.states_awaiting_conf > 0, "state:onchain-awaiting-conf");
	ctx.label_if(st.states_pending_claims > 0, "state:pending-claims");
	for (k, _) in st.step_kinds.iter() {
		ctx.label(&format!("step:{}", k));
	}
	ctx.label(match c.spec.topo {
		Topology::Pair => "topo:pair",
		_ => "topo:line3",
	});
	ctx.nontrivial_if(st.nonquiescent_states > 0);
	ctx.summary(json!({"topo": format!("{:?}", c.spec.topo), "ops": tags, "images": st.images, "updates": st.updates, "live": st.live_snapshots, "strict": st.commute_strict,
		"byte_stable": st.byte_stable_images, "byte_unstable": st.byte_unstable_images}));
	Ok(())
}

fn main() {
	install_recording_signer();
	let mut c = Check::new("C12", "exploration");
	c.part_with(PartSpec { name: "monitors", rule: "wip", quick_cases: 400, thorough_cases: 20_000, max_shrink: 300 }, || strat(70), monitors_oracle);
	c.finish();
}
