//! C05 — revoked state is never used and state is never revoked early.
use netsim::ops::*;
use netsim::oracle_commit::*;
use netsim::oracle_revoke::*;
use netsim::rec::install_recording_signer;
use proptest::prelude::*;
use serde::{Deserialize, Serialize};
use serde_json::json;
use vcore::*;

#[derive(Clone, Debug, Serialize, Deserialize)]
struct Case {
	spec: WorldSpec,
	ops: Vec<Op>,
}

fn weights(tamper: bool) -> OpWeights {
	OpWeights {
		send: 30,
		claim: 12,
		fail: 5,
		deliver: 40,
		flush: 4,
		events: 12,
		forwards: 10,
		disconnect: 8,
		reconnect: 10,
		setfee: 3,
		timer: 1,
		async_toggle: 3,
		complete: 6,
		pump: 8,
		force_close: if tamper { 0 } else { 2 },
		tamper_revoke: if tamper { 25 } else { 0 },
		..OpWeights::zero()
	}
}

/// schedules for the restart part: async persistence on most of the time, frequent reconnects, manager
/// snapshots at generated moments, crashes (restart from a snapshot + durable or landed monitors) and user
/// force-closes afterwards
fn restart_weights() -> OpWeights {
	OpWeights {
		send: 26,
		claim: 12,
		fail: 4,
		deliver: 44,
		flush: 3,
		events: 10,
		forwards: 8,
		disconnect: 9,
		reconnect: 12,
		timer: 1,
		async_toggle: 8,
		complete: 7,
		pump: 5,
		force_close: 5,
		snapshot: 8,
		restart: 7,
		mine: 2,
		..OpWeights::zero()
	}
}

fn restart_strat(max_ops: usize) -> impl Strategy<Value = Case> {
	(world_spec(vec![Topology::Pair]), proptest::collection::vec(op_strategy(restart_weights()), 25..max_ops)).prop_map(|(spec, ops)| Case { spec, ops })
}

/// Restart part: the commitment-content oracle is not run (C01's domain, and it does not follow restarts);
/// the revocation oracle is a function of the signer / wire / broadcast history only and carries over.
fn run_restart(c: &Case, ctx: &mut Ctx) -> CaseResult {
	let mut sim = c.spec.build(false);
	let r = match std::panic::catch_unwind(std::panic::AssertUnwindSafe(|| run_restart_inner(c, ctx, &mut sim))) {
		Ok(r) => r,
		Err(payload) => {
			if ctx.replay {
				println!("==== history (panicked) ====\n{}", dump_history(&sim));
			}
			// listed finding (see C10): a monitor update that was blocked inside the Channel when the manager was
			// written shares its update id with a later unblocked update; after a reload from that manager the ids
			// collide. Matched on the panic message plus the history condition.
			let (msg, loc) = vcore::take_last_panic().unwrap_or_default();
			if let Some(key) = netsim::ext_c10::classify_id_reuse_panic(&sim, &msg) {
				Err(Failure::new("panic", format!("panic at {}: {}", loc, msg)).with_key(key))
			} else {
				vcore::set_last_panic(Some((msg, loc)));
				std::panic::resume_unwind(payload)
			}
		},
	};
	if ctx.replay && r.is_err() {
		println!("==== history ====\n{}", dump_history(&sim));
	}
	r
}

fn run_restart_inner(c: &Case, ctx: &mut Ctx, sim: &mut netsim::sim::Sim) -> CaseResult {
	let mut ro = RevokeOracle::new(sim);
	let mut keys = initial_keys_map(sim);
	let mut tags: Vec<&'static str> = vec![];
	let (mut restarts, mut closed, mut closed_after_restart, mut lost_inflight) = (0u32, false, false, false);
	for i in 0..sim.w.n {
		sim.snapshot_manager(i);
	}
	for op in c.ops.iter() {
		if let Op::Restart { node, landed, .. } = op {
			let nd = pick(*node, sim.w.n);
			if !*landed && !sim.w.pending_updates(nd).is_empty() {
				lost_inflight = true;
			}
		}
		let tag = apply(sim, &c.spec, op);
		tags.push(tag);
		match tag {
			"restart" => restarts += 1,
			"restart-failed" => return Err(Failure::new("restart-deserialization", sim.last_restart_error.clone().unwrap_or_default())),
			"force-close" => {
				closed = true;
				closed_after_restart |= restarts > 0;
			},
			_ => {},
		}
		ro.step(sim, &mut keys)?;
	}
	sim.settle(30);
	ro.step(sim, &mut keys)?;
	ro.finish()?;
	let st = &ro.stats;
	ctx.label_if(restarts > 0, "restarted");
	ctx.label_if(restarts > 1, "restarted-twice+");
	ctx.label_if(lost_inflight, "in-flight-monitor-write-lost-at-crash");
	ctx.label_if(closed, "force-closed");
	ctx.label_if(closed_after_restart, "force-closed-after-restart");
	ctx.label_if(st.re_releases > 0, "secret-re-released-on-retransmit");
	ctx.label_if(st.commitment_broadcasts > 0, "commitment-broadcast-seen");
	ctx.label_if(st.holder_signatures > 0, "holder-commitment-signed");
	ctx.sub_evaluations(st.releases + st.counterparty_signatures + st.secrets_checked);
	let both2 = st.updates_each_dir[0] >= 2 && st.updates_each_dir[1] >= 2;
	ctx.nontrivial_if(both2 && restarts > 0 && (st.commitment_broadcasts > 0 || st.re_releases > 0));
	ctx.summary(json!({"type": format!("{:?}", c.spec.ctype), "ops": tags, "secrets_released": st.releases, "restarts": restarts, "commitment_broadcasts": st.commitment_broadcasts}));
	Ok(())
}

fn strat(tamper: bool, max_ops: usize) -> impl Strategy<Value = Case> {
	(world_spec(vec![Topology::Pair]), proptest::collection::vec(op_strategy(weights(tamper)), 25..max_ops)).prop_map(|(spec, ops)| Case { spec, ops })
}

/// oracle names that belong to other properties: a failure there is not a C05 verdict
const FOREIGN: &[&str] = &["commitment-feerate", "commitment-htlcs", "commitment-balances", "commitment-conservation", "commitment-outputs", "commitment-input", "bolt2-model", "peer-disagreement"];

fn run(c: &Case, ctx: &mut Ctx, tamper: bool) -> CaseResult {
	let mut sim = c.spec.build(false);
	let mut co = CommitOracle::new(&sim);
	co.allow_force_close = true;
	let mut ro = RevokeOracle::new(&sim);
	let mut keys = initial_keys_map(&sim);
	let mut tags: Vec<&'static str> = vec![];
	let mut closed = false;
	for op in c.ops.iter() {
		let tag = apply(&mut sim, &c.spec, op);
		tags.push(tag);
		if tag == "force-close" {
			closed = true;
		}
		if let Err(f) = co.step(&sim) {
			if (FOREIGN.contains(&f.oracle.as_str()) && !tamper) || (!tamper && !closed) {
				// commitment content, protocol errors and closures in honest operation are C01's verdict
				ctx.label(&format!("foreign-failure:C01:{}", f.oracle));
				if std::env::var("VERIF_DEBUG_FOREIGN").is_ok() {
					return Err(f);
				}
				return Ok(());
			}
		}
		ro.step(&sim, &mut keys)?;
	}
	// drive on so that retransmissions and (after a force close) monitor broadcasts happen
	sim.settle(30);
	let _ = co.step(&sim);
	ro.step(&sim, &mut keys)?;
	ro.finish()?;
	let st = &ro.stats;
	ctx.label_if(st.re_releases > 0, "secret-re-released-on-retransmit");
	ctx.label_if(co.stats.retransmitted_revokes > 0, "retransmitted-revoke_and_ack");
	ctx.label_if(co.stats.retransmitted_commits > 0, "retransmitted-commitment_signed");
	ctx.label_if(closed, "force-closed");
	ctx.label_if(st.commitment_broadcasts > 0, "commitment-broadcast-seen");
	ctx.label_if(st.holder_signatures > 0, "holder-commitment-signed");
	ctx.label_if(st.tampered_delivered > 0, "tampered-secret-delivered");
	ctx.label_if(st.tampered_rejected > 0, "tampered-secret-rejected");
	ctx.sub_evaluations(st.releases + st.counterparty_signatures + st.secrets_checked);
	let both3 = st.updates_each_dir[0] >= 3 && st.updates_each_dir[1] >= 3;
	if tamper {
		ctx.nontrivial_if(st.tampered_delivered > 0);
	} else {
		ctx.nontrivial_if(both3 && (co.stats.retransmitted_revokes > 0 || co.stats.retransmitted_commits > 0 || closed || co.stats.dropped_inflight > 0));
	}
	ctx.summary(json!({"type": format!("{:?}", c.spec.ctype), "ops": tags, "secrets_released": st.releases, "counterparty_commitments_signed": st.counterparty_signatures}));
	Ok(())
}

fn main() {
	install_recording_signer();
	netsim::rec::tolerate_monitor_roundtrip_tripwire();
	let mut c = Check::new("C05", "exploration");
	c.assume("both peers are unmodified LDK nodes except in the tamper part, where the harness corrupts one revoke_and_ack secret in flight");
	c.assume("signer calls are observed through a recording signer installed with test_utils::SIGNER_FACTORY; TestChannelSigner's own enforcement panics also count as failures");
	c.part_with(
		PartSpec {
			name: "honest",
			rule: "pair channel, generated schedules with frequent disconnect/reconnect, async persistence and user force-closes; every release_commitment_secret / sign_counterparty_commitment / sign_holder_* call, revoke_and_ack and broadcast is checked against the revocation rules. Non-trivial: >=3 revocations in each direction and a retransmission, an in-flight drop or a force close",
			quick_cases: 2500,
			thorough_cases: 120_000,
			max_shrink: 500,
		},
		|| strat(false, 90),
		|c, ctx| run(c, ctx, false),
	);
	c.part_with(
		PartSpec {
			name: "tampered-secret",
			rule: "as above, plus the harness flips bits in the secret of a queued revoke_and_ack; the receiver must raise an error and must not persist a CommitmentSecret step. Non-trivial: a corrupted secret was actually delivered",
			quick_cases: 1200,
			thorough_cases: 40_000,
			max_shrink: 500,
		},
		|| strat(true, 70),
		|c, ctx| run(c, ctx, true),
	);
	c.assume("restart part: a node restarts from any manager snapshot it wrote (generated moments) together with, per channel, the newest monitor image whose write was acknowledged -- or, generated, the newest one written at all; this is the set of states the persistence contract allows a crash to leave behind");
	c.part_with(
		PartSpec {
			name: "restart",
			rule: "pair channel under mostly-asynchronous persistence with generated disconnects, manager snapshots, crashes/restarts (durable or landed monitor images, any snapshot) and user force-closes; the same revocation rules are checked over the whole history across restarts (a secret released before the crash stays released). Non-trivial: >=2 revocations in each direction, >=1 restart, and a commitment broadcast or a re-released secret afterwards",
			quick_cases: 1800,
			thorough_cases: 80_000,
			max_shrink: 500,
		},
		|| restart_strat(100),
		run_restart,
	);
	c.finish();
}
