//! C04 — inbound payments are claimable only if complete and authentic; all-or-nothing.
//!
//! Receiver R (node 0) with 1-3 channels from 1-2 senders. The senders are the adversary but act through
//! LDK's own send API with generated onion fields. R's decisions (fail back / hold / PaymentClaimable /
//! fulfil) are compared in lock-step with `ext_c04::RecvModel`, a reference written from the documented
//! receive rules; on top of that the wire history is checked for the all-or-nothing and crediting clauses.
use lightning::events::{Event, PaymentPurpose};
use lightning::types::payment::{PaymentHash, PaymentPreimage, PaymentSecret};
use netsim::ext_c04::*;
use netsim::oracle_commit::*;
use netsim::rec::install_recording_signer;
use netsim::sim::*;
use proptest::prelude::*;
use serde::{Deserialize, Serialize};
use serde_json::json;
use std::collections::{BTreeMap, BTreeSet};
use vcore::*;

/// amount assumed for registrations without a minimum when the generator needs a reference value
const DEFAULT_AMT: u64 = 1_000_000;
/// custom TLV types the generator draws from (even = must-understand, odd = optional)
const TLV_TYPES: [u64; 5] = [65536, 65537, 65538, 65539, 70001];

// -------------------------------------------------------------------------------------------------
// case
// -------------------------------------------------------------------------------------------------

#[derive(Clone, Debug, Serialize, Deserialize)]
enum SecretSpec {
	/// the secret R issued for registration j (j == own registration: valid)
	Of(u16),
	/// that secret with one bit flipped
	Flip { reg: u16, bit: u8 },
	Random(u8),
	None,
}

#[derive(Clone, Debug, Serialize, Deserialize)]
enum MetaSpec {
	/// the (encrypted) metadata R handed out for registration j
	Of(u16),
	Tamper { reg: u16, pos: u8, xor: u8 },
	/// the plaintext the user registered (not what the invoice carries)
	Plain(u16),
	None,
	Raw(Vec<u8>),
}

#[derive(Clone, Debug, Serialize, Deserialize)]
enum TotalSpec {
	/// exactly the registered minimum
	Min,
	Plus(i64),
	Times(u8),
	Abs(u64),
	Zero,
}

#[derive(Clone, Debug, Serialize, Deserialize)]
enum AmtSpec {
	/// n eighths of the announced total
	Share(u8),
	/// what is missing to the announced total, plus delta
	Rest(i32),
	Abs(u64),
}

#[derive(Clone, Debug, Serialize, Deserialize)]
enum CltvSpec {
	/// final delta 40 + k: R accepts iff expiry > height + HTLC_FAIL_BACK_BUFFER + 1, i.e. k >= 0
	Boundary(i8),
	/// registered min_final_cltv_expiry_delta - 1 + k: accepted iff k >= 0 (and the rule above holds)
	MinFinal(i8),
	Normal,
	Far(u8),
}

#[derive(Clone, Debug, Serialize, Deserialize)]
struct SendSpec {
	chan: u16,
	reg: u16,
	amt: AmtSpec,
	secret: SecretSpec,
	total: TotalSpec,
	meta: MetaSpec,
	tlvs: Vec<(u8, Vec<u8>)>,
	cltv: CltvSpec,
	/// pay a keysend hash like an invoice (no preimage in the onion)
	as_invoice: bool,
	/// a further part of the previous send: registration, secret, total, metadata and TLVs are taken from
	/// it, only channel, amount and CLTV are this send's own (what an honest multi-part sender does)
	#[serde(default)]
	like_last: bool,
}

#[derive(Clone, Debug, Serialize, Deserialize)]
enum Step {
	Send(SendSpec),
	/// R processes what arrived since the last non-Send step
	Forwards,
	Tick,
	Mine { n: u8 },
	/// one block whose header time is the expiry of registration `reg` (margin included) plus k seconds
	MineTime { reg: u16, k: i8 },
	/// mine up to the advertised claim_deadline of the payment for `reg` plus k
	MineToDeadline { reg: u16, k: i8 },
	Claim { reg: u16, known_tlvs: bool },
	FailBack { reg: u16 },
	/// R force-closes a channel
	ForceClose { chan: u16 },
}

#[derive(Clone, Debug, Serialize, Deserialize)]
struct Case {
	world: WSpec,
	regs: Vec<RegSpec>,
	steps: Vec<Step>,
	/// 0: nothing, 1: claim everything claimable at the end, 2: fail everything back
	finale: u8,
}

// -------------------------------------------------------------------------------------------------
// strategies
// -------------------------------------------------------------------------------------------------

fn world_strat(max_chans: usize) -> impl Strategy<Value = WSpec> {
	(proptest::collection::vec((0u8..2, prop_oneof![Just(1_000_000u64), 1_000_000u64..4_000_000]), 1..=max_chans), any::<bool>()).prop_map(|(mut chans, anchors)| {
		// sender indices are dense: a second sender exists only if somebody uses index 1
		if chans.iter().all(|(s, _)| *s == 1) {
			for c in chans.iter_mut() {
				c.0 = 0;
			}
		}
		WSpec { chans, anchors }
	})
}

fn amount_strat() -> impl Strategy<Value = u64> {
	prop_oneof![
		3 => Just(DEFAULT_AMT),
		2 => 1_000u64..400_000,            // dust on every commitment
		2 => 300_000u64..700_000,          // around the dust thresholds (354 sat, 354 + HTLC tx fee)
		3 => 1_000_000u64..100_000_000,
	]
}

fn reg_strat() -> impl Strategy<Value = RegSpec> {
	(
		prop_oneof![4 => Just(RegKind::Ldk), 4 => Just(RegKind::ForHash), 1 => Just(RegKind::Keysend)],
		prop_oneof![1 => Just(None), 4 => amount_strat().prop_map(Some)],
		prop_oneof![Just(0u32), Just(1u32), Just(3600u32), 0u32..100_000],
		prop_oneof![3 => Just(None), 2 => prop_oneof![Just(18u16), Just(41), Just(42), Just(45), 18u16..90].prop_map(Some)],
		prop_oneof![3 => Just(None), 1 => proptest::collection::vec(any::<u8>(), 0..40).prop_map(Some)],
		proptest::bool::weighted(0.3),
	)
		.prop_map(|(kind, amt, expiry_secs, min_cltv, meta, reuse_prev_hash)| RegSpec { kind, amt, expiry_secs, min_cltv, meta, reuse_prev_hash })
}

fn bit_strat() -> impl Strategy<Value = u8> {
	// uniform, plus the edges of the IV / encrypted-info halves and the last byte
	prop_oneof![4 => any::<u8>(), 1 => 120u8..136, 1 => 248u8..=255, 1 => 0u8..8]
}

fn send_strat() -> impl Strategy<Value = SendSpec> {
	(
		(any::<u16>(), any::<u16>()),
		prop_oneof![3 => (1u8..=8).prop_map(AmtSpec::Share), 5 => prop_oneof![4 => Just(0i32), 1 => Just(-1), 1 => Just(1), 1 => -2000i32..2000].prop_map(AmtSpec::Rest), 1 => amount_strat().prop_map(AmtSpec::Abs)],
		prop_oneof![
			14 => Just(SecretSpec::Of(u16::MAX)),       // placeholder, replaced by own registration below
			2 => any::<u16>().prop_map(SecretSpec::Of),
			3 => (any::<u16>(), bit_strat()).prop_map(|(reg, bit)| SecretSpec::Flip { reg, bit }),
			1 => any::<u8>().prop_map(SecretSpec::Random),
			1 => Just(SecretSpec::None),
		],
		prop_oneof![
			48 => Just(TotalSpec::Min),
			12 => prop_oneof![Just(-1i64), Just(1), Just(1000), -5000i64..5000].prop_map(TotalSpec::Plus),
			4 => (2u8..4).prop_map(TotalSpec::Times),
			4 => amount_strat().prop_map(TotalSpec::Abs),
			1 => Just(TotalSpec::Zero),
		],
		prop_oneof![
			14 => Just(MetaSpec::Of(u16::MAX)),
			1 => any::<u16>().prop_map(MetaSpec::Of),
			2 => (any::<u8>(), 1u8..=255).prop_map(|(pos, xor)| MetaSpec::Tamper { reg: u16::MAX, pos, xor }),
			1 => Just(MetaSpec::Plain(u16::MAX)),
			1 => Just(MetaSpec::None),
			1 => proptest::collection::vec(any::<u8>(), 0..20).prop_map(MetaSpec::Raw),
		],
		prop_oneof![6 => Just(vec![]), 3 => proptest::collection::vec((0u8..5, proptest::collection::vec(any::<u8>(), 0..3)), 1..3)],
		prop_oneof![
			10 => Just(CltvSpec::Normal),
			2 => (-3i8..=3).prop_map(CltvSpec::Boundary),
			2 => (-2i8..=3).prop_map(CltvSpec::MinFinal),
			3 => (0u8..60).prop_map(CltvSpec::Far),
		],
		proptest::bool::weighted(0.1),
		proptest::bool::weighted(0.35),
	)
		.prop_map(|((chan, reg), amt, secret, total, meta, tlvs, cltv, as_invoice, like_last)| {
			let own = |r: u16| if r == u16::MAX { reg } else { r };
			let secret = match secret {
				SecretSpec::Of(r) => SecretSpec::Of(own(r)),
				o => o,
			};
			let meta = match meta {
				MetaSpec::Of(r) => MetaSpec::Of(own(r)),
				MetaSpec::Tamper { reg: r, pos, xor } => MetaSpec::Tamper { reg: own(r), pos, xor },
				MetaSpec::Plain(r) => MetaSpec::Plain(own(r)),
				o => o,
			};
			SendSpec { chan, reg, amt, secret, total, meta, tlvs, cltv, as_invoice, like_last }
		})
}

fn step_strat() -> impl Strategy<Value = Step> {
	prop_oneof![
		44 => send_strat().prop_map(Step::Send),
		18 => Just(Step::Forwards),
		5 => Just(Step::Tick),
		4 => prop_oneof![Just(1u8), 1u8..6, 1u8..40].prop_map(|n| Step::Mine { n }),
		2 => (any::<u16>(), prop_oneof![Just(-1i8), Just(0), Just(1), Just(100)]).prop_map(|(reg, k)| Step::MineTime { reg, k }),
		8 => (any::<u16>(), -3i8..=2).prop_map(|(reg, k)| Step::MineToDeadline { reg, k }),
		12 => (any::<u16>(), proptest::bool::weighted(0.3)).prop_map(|(reg, known_tlvs)| Step::Claim { reg, known_tlvs }),
		3 => any::<u16>().prop_map(|reg| Step::FailBack { reg }),
		3 => any::<u16>().prop_map(|chan| Step::ForceClose { chan }),
	]
}

fn case_strat(max_steps: usize) -> impl Strategy<Value = Case> {
	(world_strat(3), proptest::collection::vec(reg_strat(), 1..=3), proptest::collection::vec(step_strat(), 3..max_steps), prop_oneof![2 => Just(1u8), 1 => Just(0u8), 1 => Just(2u8)])
		.prop_map(|(world, regs, steps, finale)| Case { world, regs, steps, finale })
}

/// profile "secret-sweep": one channel, many single-part payments with tampered secrets / metadata, each
/// processed on its own, then an untampered payment that is claimed.
fn sweep_strat(max_probes: usize) -> impl Strategy<Value = Case> {
	let probe = (
		prop_oneof![
			8 => bit_strat().prop_map(|bit| SecretSpec::Flip { reg: 0, bit }),
			1 => Just(SecretSpec::Of(1)),
			1 => any::<u8>().prop_map(SecretSpec::Random),
			2 => Just(SecretSpec::Of(0)),
		],
		prop_oneof![6 => Just(MetaSpec::Of(0)), 2 => (any::<u8>(), 1u8..=255).prop_map(|(pos, xor)| MetaSpec::Tamper { reg: 0, pos, xor }), 1 => Just(MetaSpec::None)],
		prop_oneof![5 => Just(TotalSpec::Min), 1 => Just(TotalSpec::Plus(-1)), 1 => Just(TotalSpec::Plus(1))],
	);
	(any::<bool>(), proptest::collection::vec(reg_strat(), 2), proptest::collection::vec(probe, 4..max_probes)).prop_map(|(anchors, mut regs, probes)| {
		for r in regs.iter_mut() {
			if r.kind == RegKind::Keysend {
				r.kind = RegKind::ForHash;
			}
			r.min_cltv = None;
		}
		let mut steps = vec![];
		for (secret, meta, total) in probes {
			steps.push(Step::Send(SendSpec { chan: 0, reg: 0, amt: AmtSpec::Share(8), secret, total, meta, tlvs: vec![], cltv: CltvSpec::Normal, as_invoice: false, like_last: false }));
			steps.push(Step::Forwards);
			// an untampered secret with total + 1 leaves an incomplete set behind: let it time out
			steps.push(Step::Tick);
			steps.push(Step::Tick);
			steps.push(Step::Tick);
			// whatever became claimable is handed back so that the next probe starts from an empty set
			steps.push(Step::FailBack { reg: 0 });
		}
		steps.push(Step::Send(SendSpec { chan: 0, reg: 0, amt: AmtSpec::Share(8), secret: SecretSpec::Of(0), total: TotalSpec::Min, meta: MetaSpec::Of(0), tlvs: vec![], cltv: CltvSpec::Normal, as_invoice: false, like_last: false }));
		steps.push(Step::Forwards);
		Case { world: WSpec { chans: vec![(0, 1_000_000)], anchors }, regs, steps, finale: 1 }
	})
}

// -------------------------------------------------------------------------------------------------
// runner
// -------------------------------------------------------------------------------------------------

fn fail(oracle: &str, detail: String) -> Failure {
	Failure::new(oracle, detail)
}

/// what the user has been told is claimable for a hash and has not acted on yet
#[derive(Clone, Debug)]
struct UserView {
	shown: Shown,
	preimage: [u8; 32],
	emitted_at_height: u32,
}

#[derive(Default)]
struct Stats {
	parts: usize,
	decided: usize,
	claimable_events: usize,
	claimed_events: usize,
	multi_part_claimable: usize,
	tampered_parts: usize,
	boundary_parts: usize,
	claims_before_deadline: usize,
	claims_at_or_after_deadline: usize,
	claim_near_deadline: usize,
	fail_reasons: BTreeSet<&'static str>,
	order_ambiguous_batches: usize,
	valid_part_rejected: usize,
	orphaned: usize,
	closed_chan_claims: usize,
}

struct Run {
	sim: Sim,
	model: RecvModel,
	co: CommitOracle,
	now: u64,
	cursor: usize,
	batch: Vec<usize>,
	wire: BTreeMap<(usize, u64), usize>,
	failed: BTreeSet<usize>,
	fulfilled: BTreeSet<usize>,
	user: BTreeMap<[u8; 32], UserView>,
	closed: BTreeSet<usize>,
	/// part ids that were pending on a channel when R closed it, with R's own dust verdict
	dust_at_close: BTreeMap<usize, bool>,
	sent_sum: BTreeMap<[u8; 32], u64>,
	base_capacity: Vec<u64>,
	/// (set of parts shown together, by payment) for the all-or-nothing check
	shown_sets: Vec<Vec<usize>>,
	claimed_sets: Vec<Vec<usize>>,
	stats: Stats,
	trace: Vec<String>,
	replay: bool,
	foreign: Option<String>,
	/// the case left the scope of the property (e.g. a sender timed an HTLC out on chain): stop, label
	aborted: Option<&'static str>,
}

struct Expect {
	must_fail: Vec<usize>,
	may_fail: Vec<([u8; 32], Vec<usize>, bool)>,
	fulfill: Vec<usize>,
	claimed: Option<Shown>,
	what: String,
}

impl Expect {
	fn none(what: &str) -> Expect {
		Expect { must_fail: vec![], may_fail: vec![], fulfill: vec![], claimed: None, what: what.to_string() }
	}
}

impl Run {
	fn height(&self) -> u32 {
		self.sim.w.nodes[R].node.current_best_block().height
	}

	fn wireable(&self, pid: usize) -> bool {
		!self.closed.contains(&self.model.parts[pid].chan)
	}

	fn note(&mut self, s: String) {
		if self.replay {
			// printed right away as well: a panic inside the library unwinds past the summary below
			println!("C04-STEP {}", s);
			self.trace.push(s);
		}
	}

	fn tripwire(&mut self) {
		if self.foreign.is_none() {
			if let Err(f) = self.co.step(&self.sim) {
				self.foreign = Some(f.oracle.clone());
			}
		}
	}

	/// collect R's update_fail / update_fulfill messages emitted since the last call
	fn observe_wire(&mut self) -> Result<(BTreeSet<usize>, BTreeSet<usize>), Failure> {
		let mut nf = BTreeSet::new();
		let mut nfu = BTreeSet::new();
		for (_, e) in self.sim.log[self.cursor..].iter() {
			if let SEvent::Emit { from: R, wire, .. } = e {
				let (cid, hid, fulfil) = match wire {
					Wire::Fail(m) => (m.channel_id, m.htlc_id, None),
					Wire::FailMalformed(m) => (m.channel_id, m.htlc_id, None),
					Wire::Fulfill(m) => (m.channel_id, m.htlc_id, Some(m.payment_preimage)),
					_ => continue,
				};
				let Some(chan) = self.sim.chans.iter().position(|c| c.id == cid) else { continue };
				let Some(pid) = self.wire.get(&(chan, hid)).cloned() else { continue };
				match fulfil {
					None => {
						if self.failed.insert(pid) {
							nf.insert(pid);
						}
					},
					Some(pre) => {
						if sha(&pre.0) != self.model.parts[pid].hash {
							return Err(fail("fulfill-preimage", format!("R fulfilled part#{} with a preimage that does not hash to the payment hash", pid)));
						}
						if self.fulfilled.insert(pid) {
							nfu.insert(pid);
						}
					},
				}
			}
		}
		self.cursor = self.sim.log.len();
		Ok((nf, nfu))
	}

	fn check_claimable_event(&self, ev: &Event, sh: &Shown, height: u32) -> Result<[u8; 32], Failure> {
		let Event::PaymentClaimable { payment_hash, amount_msat, claim_deadline, purpose, onion_fields, receiving_channel_ids, counterparty_skimmed_fee_msat, .. } = ev else { unreachable!() };
		let ctx = format!("PaymentClaimable for hash {} (parts {:?})", hex(&payment_hash.0[..4]), sh.parts);
		// (a) amount_msat = sum of the parts
		vensure!(*amount_msat == sh.amount, "claimable-amount", "{}: amount_msat {} but the parts sum to {}", ctx, amount_msat, sh.amount);
		vensure!(*counterparty_skimmed_fee_msat == 0, "claimable-amount", "{}: skimmed fee {} on direct payments", ctx, counterparty_skimmed_fee_msat);
		// (a) claim_deadline = min part expiry - HTLC_FAIL_BACK_BUFFER, and the window is open at emission
		vensure!(*claim_deadline == Some(sh.deadline), "claim-deadline", "{}: claim_deadline {:?}, expected min expiry - {} = {}", ctx, claim_deadline, HTLC_FAIL_BACK_BUFFER, sh.deadline);
		vensure!(sh.deadline > height, "claim-deadline", "{}: deadline {} not after the height {} at emission", ctx, sh.deadline, height);
		let mut got: Vec<usize> = receiving_channel_ids.iter().filter_map(|(id, _)| self.sim.chans.iter().position(|c| c.id == *id)).collect();
		got.sort();
		let mut want: Vec<usize> = sh.parts.iter().map(|p| self.model.parts[*p].chan).collect();
		want.sort();
		vensure!(got == want, "claimable-channels", "{}: receiving channels {:?}, parts arrived over {:?}", ctx, got, want);
		// (a) the fields shown are those every part agreed on
		let Some(of) = onion_fields else { return Err(fail("claimable-fields", format!("{}: no onion_fields", ctx))) };
		vensure!(of.payment_secret.map(|s| s.0) == sh.secret, "claimable-fields", "{}: payment_secret differs from the parts'", ctx);
		vensure!(of.total_mpp_amount_msat == sh.total, "claimable-fields", "{}: total_mpp_amount_msat {} but parts announced {}", ctx, of.total_mpp_amount_msat, sh.total);
		vensure!(of.payment_metadata == sh.meta_plain, "claimable-fields", "{}: payment_metadata {:?}, registered plaintext {:?}", ctx, of.payment_metadata, sh.meta_plain);
		let tl = of.custom_tlvs();
		for p in sh.parts.iter() {
			let pt = &self.model.parts[*p].tlvs;
			vensure!(tl.iter().all(|t| pt.contains(t)), "claimable-fields", "{}: custom TLVs {:?} not all present in part#{} {:?}", ctx, tl, p, pt);
			let ev_even: Vec<_> = tl.iter().filter(|(k, _)| k % 2 == 0).collect();
			let p_even: Vec<_> = pt.iter().filter(|(k, _)| k % 2 == 0).collect();
			vensure!(ev_even == p_even, "claimable-fields", "{}: even custom TLVs differ from part#{}", ctx, p);
		}
		// (a) hash + secret were issued by R for that hash, or valid keysend
		match purpose {
			PaymentPurpose::Bolt11InvoicePayment { payment_preimage, payment_secret } => {
				vensure!(!sh.keysend, "claimable-purpose", "{}: invoice purpose for a spontaneous payment", ctx);
				let reg = self.model.regs.iter().find(|r| r.kind != RegKind::Keysend && r.secret == Some(payment_secret.0) && r.hash == payment_hash.0);
				let Some(reg) = reg else { return Err(fail("claimable-secret-not-issued", format!("{}: secret {} was never issued by R for this hash", ctx, hex(&payment_secret.0)))) };
				if let Some(min) = reg.min_amt {
					vensure!(sh.amount >= min && sh.total >= min, "claimable-underpaid", "{}: amount {} / total {} below the registered minimum {}", ctx, sh.amount, sh.total, min);
				}
				match (reg.kind, payment_preimage) {
					(RegKind::Ldk, Some(p)) => {
						vensure!(sha(&p.0) == payment_hash.0, "claimable-purpose", "{}: preimage in the event does not match the hash", ctx);
						Ok(p.0)
					},
					(RegKind::Ldk, None) => Err(fail("claimable-purpose", format!("{}: no preimage for a create_inbound_payment registration", ctx))),
					(_, Some(_)) => Err(fail("claimable-purpose", format!("{}: LDK claims to know the preimage of a user-supplied hash", ctx))),
					(_, None) => Ok(reg.preimage),
				}
			},
			PaymentPurpose::SpontaneousPayment(p) => {
				vensure!(sh.keysend, "claimable-purpose", "{}: spontaneous purpose for an invoice payment", ctx);
				vensure!(sha(&p.0) == payment_hash.0, "claimable-purpose", "{}: keysend preimage does not match the hash", ctx);
				Ok(p.0)
			},
			other => Err(fail("claimable-purpose", format!("{}: unexpected purpose {:?}", ctx, other))),
		}
	}

	/// Flush, then compare everything R did with what the model allows.
	fn settle(&mut self, mut exp: Expect) -> CaseResult {
		let height = self.height();
		let now = self.now;
		let zero_total = self.batch.iter().any(|p| self.model.parts[*p].total == 0);
		let saved = take_last_panic();
		let flushed = {
			let sim = &mut self.sim;
			std::panic::catch_unwind(std::panic::AssertUnwindSafe(|| sim.c04_flush()))
		};
		let r_events = match flushed {
			Ok(ev) => {
				set_last_panic(saved);
				ev
			},
			Err(_) => {
				// `debug_assert!(!first_claimable_htlc)`: an onion announcing a total of zero makes the first part of
				// a set look like one beyond the total. Release builds fail the HTLC back (the property holds), so
				// as in `do_claim`: an observation, labelled, and the end of this case.
				let (msg, loc) = take_last_panic().unwrap_or_default();
				set_last_panic(saved);
				if zero_total && msg.contains("first_claimable_htlc") {
					self.aborted = Some("library-debug-assert:zero-total-first-part");
					return Ok(());
				}
				return Err(fail("panic", format!("after {}: R panicked at {}: {} (batch {:?})", exp.what, loc, msg, self.batch)).with_key(format!("panic@{}", loc)));
			},
		};
		self.tripwire();
		for ci in 0..self.sim.chans.len() {
			if !self.closed.contains(&ci) && self.sim.chan_details(R, ci).is_none() {
				// not closed by a ForceClose step: the peer gave up on an HTLC (or a C01-level error); what R did
				// with HTLCs of that channel in this round is no longer observable on the wire
				self.aborted = Some("unplanned-channel-closure");
				return Ok(());
			}
		}
		let (new_failed, new_fulfilled) = self.observe_wire()?;
		let claimables: Vec<&Event> = r_events.iter().filter(|e| matches!(e, Event::PaymentClaimable { .. })).collect();
		let claimeds: Vec<&Event> = r_events.iter().filter(|e| matches!(e, Event::PaymentClaimed { .. })).collect();

		// MPP timeout: may / must
		let may = std::mem::take(&mut exp.may_fail);
		for (h, ids, must) in may {
			let w: Vec<usize> = ids.iter().cloned().filter(|p| self.wireable(*p)).collect();
			let hit = w.iter().filter(|p| new_failed.contains(p)).count();
			if hit == w.len() {
				// (all observable parts failed; test builds time out on the first tick)
				self.model.drop_set(&h);
				exp.must_fail.extend(ids.iter().cloned());
				self.stats.fail_reasons.insert("mpp-timeout");
			} else if hit == 0 && !must {
				// production timeout not reached yet: still waiting is allowed
			} else if hit == 0 && ids.iter().any(|p| self.model.orphaned.contains(p)) {
				return Err(fail("forgotten-part-not-failed-back", format!("incomplete set {} (parts {:?}), held when a claim_funds call released nothing, is not failed back after {} timer ticks", hex(&h[..4]), ids, MPP_TIMEOUT_TICKS_MAX)));
			} else if hit == 0 {
				return Err(fail("mpp-timeout-not-failed", format!("incomplete set {} (parts {:?}) still held after {} timer ticks", hex(&h[..4]), ids, MPP_TIMEOUT_TICKS_MAX)));
			} else {
				return Err(fail("all-or-nothing-timeout", format!("MPP timeout failed only {} of the parts {:?} of set {}", hit, w, hex(&h[..4]))));
			}
		}

		// the batch of newly arrived parts, processed channel by channel in an order LDK does not fix
		let batch: Vec<usize> = std::mem::take(&mut self.batch).into_iter().filter(|p| self.wireable(*p)).collect();
		let mut groups: BTreeMap<usize, Vec<usize>> = BTreeMap::new();
		for p in batch.iter() {
			groups.entry(self.model.parts[*p].chan).or_default().push(*p);
		}
		let groups: Vec<Vec<usize>> = groups.into_values().collect();
		let orders = if groups.is_empty() { vec![vec![]] } else { group_orders(&groups) };
		if orders.len() > 1 {
			self.stats.order_ambiguous_batches += 1;
		}
		let obs_batch_failed: BTreeSet<usize> = batch.iter().cloned().filter(|p| new_failed.contains(p)).collect();
		let mut chosen: Option<(RecvModel, Vec<(usize, Verdict)>, BTreeSet<usize>)> = None;
		let mut first_diff = String::new();
		'search: for tolerate in [false, true] {
			for order in orders.iter() {
				let mut prerej: BTreeSet<usize> = BTreeSet::new();
				for _round in 0..2 {
					let mut m = self.model.clone();
					let mut verdicts = vec![];
					for p in order.iter() {
						if prerej.contains(p) {
							continue;
						}
						verdicts.push((*p, m.on_part(*p, height, now)));
					}
					let pred_fail: BTreeSet<usize> = verdicts.iter().filter(|(_, v)| matches!(v, Verdict::Fail(_))).map(|(p, _)| *p).chain(prerej.iter().cloned()).collect();
					let pred_claim: Vec<&Shown> = verdicts.iter().filter_map(|(_, v)| if let Verdict::Claimable(s) = v { Some(s) } else { None }).collect();
					let claim_match = pred_claim.len() == claimables.len()
						&& pred_claim.iter().zip(claimables.iter()).all(|(s, e)| matches!(e, Event::PaymentClaimable { payment_hash, amount_msat, .. } if payment_hash.0 == s.hash && *amount_msat == s.amount));
					if pred_fail == obs_batch_failed && claim_match {
						chosen = Some((m, verdicts, prerej));
						break 'search;
					}
					if first_diff.is_empty() {
						first_diff = format!(
							"model (order {:?}): fail {:?}, claimable {:?}; R: failed {:?}, claimable {:?}; verdicts {:?}",
							order,
							pred_fail,
							pred_claim.iter().map(|s| (hex(&s.hash[..4]), s.amount, s.parts.clone())).collect::<Vec<_>>(),
							obs_batch_failed,
							claimables.iter().map(|e| if let Event::PaymentClaimable { payment_hash, amount_msat, .. } = e { (hex(&payment_hash.0[..4]), *amount_msat) } else { (String::new(), 0) }).collect::<Vec<_>>(),
							verdicts.iter().map(|(p, v)| (*p, match v { Verdict::Fail(r) => *r, Verdict::Held => "held", Verdict::Claimable(_) => "claimable" })).collect::<Vec<_>>()
						);
					}
					// R may refuse an HTLC for reasons of the channel it came over (not this property): accept
					// additional failures of parts the model would have taken, and re-derive without them
					let extra: BTreeSet<usize> = obs_batch_failed.difference(&pred_fail).cloned().collect();
					if !tolerate || extra.is_empty() || !pred_fail.is_subset(&obs_batch_failed) || !prerej.is_empty() {
						break;
					}
					prerej = extra;
				}
			}
		}
		let Some((m, verdicts, prerej)) = chosen else {
			// classify: which clause does the disagreement touch?
			let oracle = if claimables.len() > 0 && first_diff.contains("claimable []; R") { "claimable-without-valid-complete-set" } else { "receive-decision" };
			return Err(fail(oracle, format!("after {}: {}", exp.what, first_diff)).with_key(format!("{}/{}", oracle, exp.what.split(' ').next().unwrap_or(""))));
		};
		self.model = m;
		self.stats.valid_part_rejected += prerej.len();
		let mut ci = 0;
		for (p, v) in verdicts.iter() {
			self.stats.decided += 1;
			match v {
				Verdict::Fail(r) => {
					self.stats.fail_reasons.insert(r);
					self.note(format!("  part#{} -> failed back ({})", p, r));
				},
				Verdict::Held => self.note(format!("  part#{} -> held", p)),
				Verdict::Claimable(sh) => {
					let ev = claimables[ci];
					ci += 1;
					let pre = self.check_claimable_event(ev, sh, height)?;
					self.stats.claimable_events += 1;
					if sh.parts.len() > 1 {
						self.stats.multi_part_claimable += 1;
					}
					self.note(format!("  part#{} -> PaymentClaimable amount {} deadline {} parts {:?}", p, sh.amount, sh.deadline, sh.parts));
					self.shown_sets.push(sh.parts.clone());
					self.user.insert(sh.hash, UserView { shown: sh.clone(), preimage: pre, emitted_at_height: height });
				},
			}
		}

		// failures outside the batch: exactly the expected ones
		for p in exp.must_fail.iter() {
			if self.wireable(*p) && !self.failed.contains(p) && self.model.orphaned.contains(p) {
				return Err(fail(
					"forgotten-part-not-failed-back",
					format!("after {}: part#{} {:?} was held when a claim_funds call released nothing; now it has to be failed back (MPP timeout / within HTLC_FAIL_BACK_BUFFER of its expiry at height {}) and R sends no update_fail_htlc", exp.what, p, self.brief(*p), height),
				));
			}
			if self.wireable(*p) && !self.failed.contains(p) {
				return Err(fail("not-failed-back", format!("after {}: part#{} ({:?}) should have been failed back by R but no update_fail_htlc was sent", exp.what, p, self.brief(*p))).with_key(format!("not-failed-back/{}", exp.what.split(' ').next().unwrap_or(""))));
			}
		}
		for p in new_failed.iter() {
			if batch.contains(p) || exp.must_fail.contains(p) {
				continue;
			}
			// R failed a part it was holding although no rule asked for it
			let in_shown = self.user.values().any(|u| u.shown.parts.contains(p) && height < u.shown.deadline) && self.model.live_parts().contains(p);
			if in_shown {
				return Err(fail("shown-part-failed-before-deadline", format!("after {}: R failed part#{} of a payment shown as claimable at height {} < deadline", exp.what, p, height)));
			}
			// (after a claim attempt that released nothing a library may also give the remaining HTLCs back)
			if !self.model.orphaned.contains(p) {
				self.stats.valid_part_rejected += 1;
			}
			self.model.forget_part(*p);
		}

		// fulfils: exactly what a claim released
		for p in new_fulfilled.iter() {
			if !exp.fulfill.contains(p) {
				return Err(fail("fulfill-without-claim", format!("after {}: R sent update_fulfill_htlc for part#{} which no successful claim_funds covers", exp.what, p)));
			}
		}
		for p in exp.fulfill.iter() {
			if self.wireable(*p) && !self.fulfilled.contains(p) {
				return Err(fail("claim-not-released", format!("after {}: part#{} of the claimed payment got no update_fulfill_htlc", exp.what, p)));
			}
		}
		match (&exp.claimed, claimeds.len()) {
			(None, 0) => {},
			(None, n) => return Err(fail("claimed-event-unexpected", format!("after {}: {} PaymentClaimed event(s) although nothing was released", exp.what, n))),
			(Some(sh), n) => {
				vensure!(n == 1, "claimed-event", "after {}: {} PaymentClaimed events for one claim", exp.what, n);
				let Event::PaymentClaimed { payment_hash, amount_msat, htlcs, sender_intended_total_msat, .. } = claimeds[0] else { unreachable!() };
				vensure!(payment_hash.0 == sh.hash && *amount_msat == sh.amount, "claimed-event", "PaymentClaimed amount {} (hash {}), shown amount {}", amount_msat, hex(&payment_hash.0[..4]), sh.amount);
				let mut got: Vec<(usize, u64, u32)> = htlcs.iter().map(|h| (self.sim.chans.iter().position(|c| c.id == h.channel_id).unwrap_or(99), h.value_msat, h.cltv_expiry)).collect();
				got.sort();
				let mut want: Vec<(usize, u64, u32)> = sh.parts.iter().map(|p| (self.model.parts[*p].chan, self.model.parts[*p].amt, self.model.parts[*p].cltv)).collect();
				want.sort();
				vensure!(got == want, "claimed-event", "PaymentClaimed lists HTLCs {:?}, the payment consisted of {:?}", got, want);
				vensure!(*sender_intended_total_msat == Some(sh.total), "claimed-event", "sender_intended_total_msat {:?} vs announced total {}", sender_intended_total_msat, sh.total);
				self.stats.claimed_events += 1;
				self.claimed_sets.push(sh.parts.clone());
			},
		}
		Ok(())
	}

	fn brief(&self, p: usize) -> (usize, u64, u64, u32) {
		let x = &self.model.parts[p];
		(x.chan, x.htlc_id, x.amt, x.cltv)
	}

	fn mine(&mut self, n: u32, time: u32) -> Vec<usize> {
		let mut failed = vec![];
		for i in 0..n {
			let txs = if i == 0 { self.sim.chain.mempool.clone() } else { vec![] };
			self.sim.c04_mine_at(txs, time);
			self.now = self.now.max(time as u64);
			let h = self.height();
			failed.extend(self.model.on_block(h));
			// orphaned parts: the documented per-HTLC fail-back rule keeps applying
		}
		failed
	}
}

fn pick_reg(r: u16, n: usize) -> usize {
	pick(r, n)
}

fn resolve_send(run: &Run, s: &SendSpec) -> Option<(SendReq, bool, bool)> {
	let regs = &run.model.regs;
	let n = regs.len();
	let reg = &regs[pick_reg(s.reg, n)];
	let live: Vec<usize> = (0..run.sim.chans.len()).filter(|c| !run.closed.contains(c)).collect();
	if live.is_empty() {
		return None;
	}
	let chan = live[pick(s.chan, live.len())];
	let a = reg.min_amt.unwrap_or(DEFAULT_AMT);
	let total = match &s.total {
		TotalSpec::Min => a,
		TotalSpec::Plus(d) => (a as i64 + d).max(1) as u64,
		TotalSpec::Times(k) => a * *k as u64,
		TotalSpec::Abs(v) => *v,
		TotalSpec::Zero => 0,
	};
	let t = if total == 0 { a } else { total };
	let sent = run.sent_sum.get(&reg.hash).cloned().unwrap_or(0);
	let amt = match &s.amt {
		AmtSpec::Share(k) => t * *k as u64 / 8,
		AmtSpec::Rest(d) => {
			if sent < t {
				((t - sent) as i64 + *d as i64).max(1) as u64
			} else {
				t / 4
			}
		},
		AmtSpec::Abs(v) => *v,
	}
	.clamp(1000, 400_000_000); // the channels' htlc_minimum_msat is 1000
	let mut tampered = false;
	let secret = match &s.secret {
		SecretSpec::Of(j) => {
			let r2 = &regs[pick_reg(*j, n)];
			if r2.secret != reg.secret {
				tampered = true;
			}
			r2.secret
		},
		SecretSpec::Flip { reg: j, bit } => {
			tampered = true;
			let mut x = regs[pick_reg(*j, n)].secret.unwrap_or(sha(&[*bit]));
			x[*bit as usize / 8] ^= 1 << (*bit % 8);
			Some(x)
		},
		SecretSpec::Random(b) => {
			tampered = true;
			Some(sha(&[0xc4, *b]))
		},
		SecretSpec::None => {
			tampered = true;
			None
		},
	};
	let metadata = match &s.meta {
		MetaSpec::Of(j) => regs[pick_reg(*j, n)].meta_enc.clone(),
		MetaSpec::Tamper { reg: j, pos, xor } => match regs[pick_reg(*j, n)].meta_enc.clone() {
			Some(mut v) if !v.is_empty() => {
				let i = *pos as usize % v.len();
				v[i] ^= *xor;
				Some(v)
			},
			_ => Some(vec![*xor]),
		},
		MetaSpec::Plain(j) => regs[pick_reg(*j, n)].meta_plain.clone(),
		MetaSpec::None => None,
		MetaSpec::Raw(v) => Some(v.clone()),
	};
	if metadata != reg.meta_enc {
		tampered = true;
	}
	if total != a {
		tampered = true;
	}
	let mut tlvs: Vec<(u64, Vec<u8>)> = vec![];
	for (k, v) in s.tlvs.iter() {
		let t = TLV_TYPES[*k as usize % TLV_TYPES.len()];
		if !tlvs.iter().any(|(x, _)| *x == t) {
			tlvs.push((t, v.clone()));
		}
	}
	tlvs.sort_by_key(|(k, _)| *k);
	let (final_delta, boundary) = match &s.cltv {
		CltvSpec::Boundary(k) => ((HTLC_FAIL_BACK_BUFFER as i32 + 1 + *k as i32).max(1) as u32, true),
		CltvSpec::MinFinal(k) => ((reg.min_cltv.unwrap_or(41) as i32 - 1 + *k as i32).max(1) as u32, reg.min_cltv.is_some()),
		CltvSpec::Normal => (70, false),
		CltvSpec::Far(x) => (80 + *x as u32, false),
	};
	let keysend_preimage = if reg.kind == RegKind::Keysend && !s.as_invoice { Some(reg.preimage) } else { None };
	Some((SendReq { chan, hash: reg.hash, amt, final_delta, secret, total, metadata, tlvs, keysend_preimage }, tampered, boundary))
}

fn run_case(c: &Case, ctx: &mut Ctx) -> CaseResult {
	let sim = build_world(&c.world);
	let co = {
		let mut co = CommitOracle::new(&sim);
		co.allow_force_close = true;
		co
	};
	let cursor = sim.log.len();
	let mut run = Run {
		sim,
		model: RecvModel::new(),
		co,
		now: initial_time(),
		cursor,
		batch: vec![],
		wire: BTreeMap::new(),
		failed: BTreeSet::new(),
		fulfilled: BTreeSet::new(),
		user: BTreeMap::new(),
		closed: BTreeSet::new(),
		dust_at_close: BTreeMap::new(),
		sent_sum: BTreeMap::new(),
		base_capacity: vec![],
		shown_sets: vec![],
		claimed_sets: vec![],
		stats: Stats::default(),
		trace: vec![],
		replay: ctx.replay,
		foreign: None,
		aborted: None,
	};
	let r = run_inner(c, ctx, &mut run);
	if ctx.replay {
		println!("==== steps ====");
		for l in run.trace.iter() {
			println!("{}", l);
		}
		if r.is_err() {
			println!("==== history ====\n{}", dump_history(&run.sim));
		}
	}
	r
}

fn run_inner(c: &Case, ctx: &mut Ctx, run: &mut Run) -> CaseResult {
	for i in 0..run.sim.chans.len() {
		run.base_capacity.push(run.sim.chan_details(R, i).map(|d| d.outbound_capacity_msat).unwrap_or(0));
	}
	for (i, rs) in c.regs.iter().enumerate() {
		let prev = run.model.regs.clone();
		match register(&run.sim, i, rs, run.now, &prev) {
			Ok(info) => run.model.regs.push(info),
			Err(e) => return Err(fail("registration", e)),
		}
	}
	let nregs = run.model.regs.len();
	let mut last_send: Option<SendSpec> = None;
	for (si, step) in c.steps.iter().enumerate() {
		if run.foreign.is_some() || run.aborted.is_some() {
			break;
		}
		match step {
			Step::Send(s) => {
				if run.model.parts.len() >= 40 {
					continue;
				}
				let merged;
				let s = match (&last_send, s.like_last) {
					(Some(l), true) => {
						merged = SendSpec { chan: s.chan, amt: s.amt.clone(), cltv: s.cltv.clone(), like_last: true, ..l.clone() };
						&merged
					},
					_ => s,
				};
				last_send = Some(s.clone());
				let Some((req, tampered, boundary)) = resolve_send(run, s) else { continue };
				if matches!(s.total, TotalSpec::Zero) {
					ctx.label("zero-total-sent");
				}
				let pid = run.model.parts.len();
				match run.sim.c04_send(&req, pid) {
					Ok(part) => {
						run.note(format!("[{}] send part#{} chan {} htlc {} hash {} amt {} total {} cltv {} secret {:?} meta {:?} tlvs {:?} keysend {}", si, pid, part.chan, part.htlc_id, hex(&part.hash[..4]), part.amt, part.total, part.cltv, part.secret.map(|s| hex(&s[..4])), part.metadata.as_ref().map(|m| m.len()), part.tlvs, part.keysend.is_some()));
						run.wire.insert((part.chan, part.htlc_id), pid);
						*run.sent_sum.entry(part.hash).or_insert(0) += part.amt;
						run.model.parts.push(part);
						run.batch.push(pid);
						run.stats.parts += 1;
						if tampered {
							run.stats.tampered_parts += 1;
						}
						if boundary {
							run.stats.boundary_parts += 1;
						}
					},
					Err(e) => {
						run.note(format!("[{}] send refused: {}", si, e));
						ctx.label(&format!("send-refused:{}", e.chars().take(60).collect::<String>()));
						// the sender may have queued events about the failed attempt
						run.sim.process_events(run.sim.chans[req.chan].a);
					},
				}
				run.tripwire();
			},
			Step::Forwards => {
				run.note(format!("[{}] forwards (height {})", si, run.height()));
				run.settle(Expect::none("forwards"))?;
			},
			Step::Tick => {
				run.note(format!("[{}] timer tick", si));
				run.sim.timer_tick(R);
				let may = run.model.on_tick();
				let mut e = Expect::none("tick");
				e.may_fail = may;
				run.settle(e)?;
			},
			Step::Mine { n } => {
				let t = run.now as u32;
				let failed = run.mine(*n as u32, t);
				run.note(format!("[{}] mined {} -> height {}; deadline reached for parts {:?}", si, n, run.height(), failed));
				if !failed.is_empty() {
					run.stats.fail_reasons.insert("deadline-reached");
				}
				let mut e = Expect::none("mine");
				e.must_fail = failed;
				run.settle(e)?;
			},
			Step::MineTime { reg, k } => {
				let rg = run.model.regs[pick_reg(*reg, nregs)].clone();
				let t = if rg.expiry_abs == u64::MAX { run.now + 10_000 } else { (rg.expiry_abs as i64 + *k as i64) as u64 };
				let t = t.max(run.now).min(u32::MAX as u64 - 1) as u32;
				let failed = run.mine(1, t);
				run.note(format!("[{}] mined 1 block with header time {} (registration expiry {} {:+}) -> height {}", si, t, rg.expiry_abs, k, run.height()));
				ctx.label("time-advanced");
				let mut e = Expect::none("mine-time");
				e.must_fail = failed;
				run.settle(e)?;
			},
			Step::MineToDeadline { reg, k } => {
				let h = run.model.regs[pick_reg(*reg, nregs)].hash;
				let Some(u) = run.user.get(&h) else { continue };
				let target = u.shown.deadline as i64 + *k as i64;
				let diff = target - run.height() as i64;
				if diff <= 0 || diff > 150 {
					continue;
				}
				let t = run.now as u32;
				let failed = run.mine(diff as u32, t);
				run.note(format!("[{}] mined {} to deadline{:+} -> height {}; deadline reached for parts {:?}", si, diff, k, run.height(), failed));
				let mut e = Expect::none("mine-to-deadline");
				e.must_fail = failed;
				run.settle(e)?;
			},
			Step::Claim { reg, known_tlvs } => {
				let h = run.model.regs[pick_reg(*reg, nregs)].hash;
				do_claim(run, ctx, si, h, *known_tlvs)?;
			},
			Step::FailBack { reg } => {
				let h = run.model.regs[pick_reg(*reg, nregs)].hash;
				do_fail_back(run, si, h)?;
			},
			Step::ForceClose { chan } => {
				let live: Vec<usize> = (0..run.sim.chans.len()).filter(|c| !run.closed.contains(c)).collect();
				if live.len() <= 1 {
					continue; // keep at least one channel to pay over
				}
				let ci = live[pick(*chan, live.len())];
				let cinfo = run.sim.chans[ci].clone();
				if let Some(d) = run.sim.chan_details(R, ci) {
					// BOLT-3 trimming on R's own commitment (the one R broadcasts): a received HTLC has an output iff
					// its value reaches R's dust limit plus, without anchors, the fee of the HTLC-success transaction
					let feerate = cinfo.open.common_fields.commitment_feerate_sat_per_1000_weight as u64;
					let limit = cinfo.accept.common_fields.dust_limit_satoshis + if c.world.anchors { 0 } else { feerate * 703 / 1000 };
					for h in d.pending_inbound_htlcs.iter() {
						if let Some(pid) = run.wire.get(&(ci, h.htlc_id)) {
							run.dust_at_close.insert(*pid, h.amount_msat / 1000 < limit);
						}
					}
				}
				let peer = run.sim.w.node_id(cinfo.a);
				let r = run.sim.w.nodes[R].node.force_close_broadcasting_latest_txn(&cinfo.id, &peer, "c04 harness".to_string());
				run.sim.rec(SEvent::Api { node: R, what: format!("force_close chan {}", ci), ok: r.is_ok(), detail: format!("{:?}", r) });
				run.sim.drain(R);
				run.closed.insert(ci);
				run.note(format!("[{}] R force-closed chan {}", si, ci));
				ctx.label("force-closed");
				run.settle(Expect::none("force-close"))?;
			},
		}
	}
	if run.foreign.is_none() && run.aborted.is_none() {
		run.settle(Expect::none("final-forwards"))?;
		let hashes: Vec<[u8; 32]> = run.user.keys().cloned().collect();
		for h in hashes {
			if run.aborted.is_some() {
				break;
			}
			match c.finale {
				1 => do_claim(run, ctx, 9000, h, true)?,
				2 => do_fail_back(run, 9001, h)?,
				_ => {},
			}
		}
	}
	// every HTLC R still holds must be failed back once it is within HTLC_FAIL_BACK_BUFFER of its expiry
	if run.foreign.is_none() && run.aborted.is_none() {
		for _ in 0..8 {
			let live: Vec<usize> = run.model.live_parts().into_iter().filter(|p| run.wireable(*p) && !run.failed.contains(p)).collect();
			if live.is_empty() {
				break;
			}
			let target = live.iter().map(|p| run.model.parts[*p].cltv - HTLC_FAIL_BACK_BUFFER).min().unwrap();
			let h = run.height();
			let n = if target > h { target - h } else { 1 };
			if n > 260 {
				ctx.label("expiry-too-far-to-mine");
				break;
			}
			let t = run.now as u32;
			let failed = run.mine(n, t);
			run.note(format!("[end] mined {} -> height {}; deadline reached for parts {:?}", n, run.height(), failed));
			let e0 = Expect { must_fail: failed, may_fail: vec![], fulfill: vec![], claimed: None, what: "final-expiry".into() };
			run.settle(e0)?;
			if run.foreign.is_some() || run.aborted.is_some() {
				break;
			}
		}
	}
	if let Some(a) = run.aborted {
		if a.starts_with("library-debug-assert:") {
			ctx.label(a);
		} else {
			ctx.label(&format!("aborted:{}", a));
		}
		return Ok(());
	}
	if let Some(f) = &run.foreign {
		ctx.label(&format!("foreign-failure:C01:{}", f));
		return Ok(());
	}

	// (e) all-or-nothing over the whole history: no payment with both fulfilled and failed parts
	// (a payment is the set of parts shown in the PaymentClaimable the claim answered; a part that R failed at
	// its own deadline and that the sender replaced belongs to an earlier, never claimed, showing)
	for set in run.claimed_sets.iter() {
		let ful: Vec<&usize> = set.iter().filter(|p| run.fulfilled.contains(p)).collect();
		let fai: Vec<&usize> = set.iter().filter(|p| run.failed.contains(p)).collect();
		if !ful.is_empty() && !fai.is_empty() {
			return Err(fail("all-or-nothing", format!("claimed payment with parts {:?}: R fulfilled {:?} and failed {:?}", set, ful, fai)));
		}
	}
	for set in run.shown_sets.iter() {
		if run.claimed_sets.contains(set) {
			continue;
		}
		// shown but never (successfully) claimed as such: its parts may only be fulfilled through a later showing
		for p in set.iter() {
			if run.fulfilled.contains(p) && !run.claimed_sets.iter().any(|c| c.contains(p)) {
				return Err(fail("all-or-nothing", format!("part#{} of the unclaimed payment {:?} was fulfilled", p, set)));
			}
		}
	}
	for p in run.fulfilled.iter() {
		if !run.claimed_sets.iter().any(|s| s.contains(p)) {
			return Err(fail("fulfill-without-claim", format!("part#{} fulfilled but never part of a PaymentClaimed", p)));
		}
	}
	// (c) crediting: on every open channel R's balance moved by exactly the fulfilled parts
	for ci in 0..run.sim.chans.len() {
		if run.closed.contains(&ci) {
			continue;
		}
		let Some(d) = run.sim.chan_details(R, ci) else { continue };
		let credited: u64 = run.fulfilled.iter().filter(|p| run.model.parts[**p].chan == ci).map(|p| run.model.parts[*p].amt).sum();
		let got = d.outbound_capacity_msat as i128 - run.base_capacity[ci] as i128;
		if got != credited as i128 {
			return Err(fail("credit", format!("chan {}: R's balance moved by {} msat, fulfilled parts sum to {} msat", ci, got, credited)));
		}
	}
	// (c) parts claimed on a channel that R had closed: non-dust parts are claimable on chain, dust is forfeited
	let closed_claimed: Vec<usize> = run.claimed_sets.iter().flatten().cloned().filter(|p| run.closed.contains(&run.model.parts[*p].chan)).collect();
	if !closed_claimed.is_empty() {
		run.stats.closed_chan_claims += closed_claimed.len();
		let t = run.now as u32;
		run.mine(1, t);
		let _ = run.sim.c04_flush();
		let bals = run.sim.w.nodes[R].chain_monitor.chain_monitor.get_claimable_balances(&[]);
		for p in closed_claimed {
			let part = run.model.parts[p].clone();
			let Some(dust) = run.dust_at_close.get(&p).cloned() else { continue };
			let pre = run.model.regs.iter().find(|r| r.hash == part.hash).map(|r| r.preimage).unwrap_or([0; 32]);
			let in_balance = bals.iter().any(|b| matches!(b, lightning::chain::channelmonitor::Balance::ContentiousClaimable { payment_hash, amount_satoshis, .. } if payment_hash.0 == part.hash && *amount_satoshis == part.amt / 1000));
			let on_chain = run.sim.broadcasts[R].iter().any(|tx| tx.input.iter().any(|i| i.witness.iter().any(|w| w == &pre[..])));
			if dust {
				ctx.label("dust-part-forfeited-on-closed-channel");
				vensure!(!in_balance, "credit-closed-channel", "dust part#{} of a closed channel shows up as claimable balance", p);
			} else {
				ctx.label("part-claimed-on-closed-channel");
				vensure!(in_balance || on_chain, "credit-closed-channel", "part#{} ({} msat) was claimed on a channel closed before the claim, but R neither lists it as ContentiousClaimable nor broadcast a transaction with the preimage; balances {:?}", p, part.amt, bals);
			}
		}
	}

	let st = &run.stats;
	ctx.label_if(st.claimable_events > 0, "payment-claimable");
	ctx.label_if(st.multi_part_claimable > 0, "mpp-claimable");
	ctx.label_if(st.claimed_events > 0, "payment-claimed");
	ctx.label_if(st.claims_before_deadline > 0, "claim-before-deadline");
	ctx.label_if(st.claims_at_or_after_deadline > 0, "claim-at-or-after-deadline");
	ctx.label_if(st.claim_near_deadline > 0, "claim-within-2-of-deadline");
	ctx.label_if(st.order_ambiguous_batches > 0, "multi-channel-batch");
	ctx.label_if(st.valid_part_rejected > 0, "valid-part-rejected");
	ctx.label_if(st.orphaned > 0, "claim-released-nothing-parts-left-over");
	ctx.label_if(st.closed_chan_claims > 0, "claim-on-closed-channel");
	ctx.label_if(c.world.chans.len() > 1, "multi-channel");
	ctx.label_if(c.world.chans.iter().any(|(s, _)| *s == 1), "two-senders");
	for r in st.fail_reasons.iter() {
		ctx.label(&format!("fail:{}", r));
	}
	ctx.sub_evaluations(st.decided as u64);
	ctx.nontrivial_if(st.decided > 0 && (st.parts >= 2 || st.tampered_parts > 0 || st.boundary_parts > 0 || st.claim_near_deadline > 0));
	ctx.summary(json!({"channels": c.world.chans.len(), "registrations": c.regs.len(), "parts": st.parts, "decided": st.decided, "claimable": st.claimable_events, "claimed": st.claimed_events, "fail_reasons": st.fail_reasons.iter().collect::<Vec<_>>()}));
	Ok(())
}

fn do_claim(run: &mut Run, ctx: &mut Ctx, si: usize, h: [u8; 32], known_tlvs: bool) -> CaseResult {
	let Some(u) = run.user.remove(&h) else { return Ok(()) };
	let height = run.height();
	let d = u.shown.deadline;
	if height < d {
		run.stats.claims_before_deadline += 1;
	} else {
		run.stats.claims_at_or_after_deadline += 1;
	}
	if (height as i64 - d as i64).abs() <= 2 {
		run.stats.claim_near_deadline += 1;
	}
	let node = run.sim.w.nodes[R].node;
	let pre = PaymentPreimage(u.preimage);
	let saved = take_last_panic();
	let r = std::panic::catch_unwind(std::panic::AssertUnwindSafe(|| {
		if known_tlvs {
			node.claim_funds_with_known_custom_tlvs(pre);
		} else {
			node.claim_funds(pre);
		}
	}));
	if r.is_err() {
		let (msg, loc) = take_last_panic().unwrap_or_default();
		set_last_panic(saved);
		// LDK has a `debug_assert!(false)` ("...different received total amounts - this should not be reachable")
		// that is reachable: a shown set loses a part at its deadline, a new part joins without completing it.
		// Release builds handle the situation (nothing is released), so this is an observation about the
		// library's assertion, not a verdict on the property: label it and end the case here (the node was
		// unwound in the middle of a call).
		let mixed = run.model.sets.get(&h).map(|s| s.shown.as_ref().map(|sh| sh.parts != s.parts.iter().map(|(i, _)| *i).collect::<Vec<_>>()).unwrap_or(false)).unwrap_or(false);
		if mixed && msg.contains("assertion failed: false") && loc.contains("channelmanager.rs") {
			run.aborted = Some("library-debug-assert:claim-mixed-total-value-received");
			return Ok(());
		}
		// `debug_assert!(.., "HTLCs should be sorted")` in PaymentId::for_inbound_from_htlcs: claim_funds on a set
		// that never completed (parts are only sorted on completion) whose parts arrived out of (channel id,
		// htlc id) order. Same category: release builds just derive an id from the unsorted list.
		let incomplete = run.model.sets.get(&h).map(|s| s.shown.as_ref().map(|sh| sh.parts != s.parts.iter().map(|(i, _)| *i).collect::<Vec<_>>()).unwrap_or(true)).unwrap_or(false);
		if incomplete && msg.contains("HTLCs should be sorted") {
			run.aborted = Some("library-debug-assert:claim-unsorted-incomplete-set");
			return Ok(());
		}
		return Err(fail("panic", format!("claim_funds panicked at {}: {}", loc, msg)).with_key(format!("panic@{}", loc)));
	}
	set_last_panic(saved);
	run.sim.rec(SEvent::Api { node: R, what: format!("claim_funds hash {} known_tlvs={}", hex(&h[..4]), known_tlvs), ok: true, detail: String::new() });
	run.sim.drain(R);
	let out = run.model.on_claim(&h, known_tlvs);
	run.note(format!("[{}] claim_funds hash {} at height {} (deadline {}, shown at {}): model {} fulfilled {:?} failed {:?} left over {:?}", si, hex(&h[..4]), height, d, u.emitted_at_height, out.what, out.fulfilled, out.failed, out.orphaned));
	// (c) strictly below the advertised deadline the claim must release every part that was shown
	if height < d && (known_tlvs || !u.shown.tlvs.iter().any(|(k, _)| k % 2 == 0)) && out.fulfilled != u.shown.parts {
		return Err(fail("claim-before-deadline-not-complete", format!("claim_funds at height {} < deadline {}: the model of R's own fail-back rules says parts {:?} of the shown {:?} are available", height, d, out.fulfilled, u.shown.parts)));
	}
	run.stats.orphaned += out.orphaned.len();
	ctx.label(&format!("claim:{}", out.what));
	let e = Expect { must_fail: out.failed.clone(), may_fail: vec![], fulfill: out.fulfilled.clone(), claimed: if out.fulfilled.is_empty() { None } else { out.shown.clone() }, what: format!("claim ({})", out.what) };
	run.settle(e)
}

fn do_fail_back(run: &mut Run, si: usize, h: [u8; 32]) -> CaseResult {
	if run.user.remove(&h).is_none() {
		return Ok(());
	}
	run.sim.w.nodes[R].node.fail_htlc_backwards(&PaymentHash(h));
	run.sim.rec(SEvent::Api { node: R, what: format!("fail_htlc_backwards hash {}", hex(&h[..4])), ok: true, detail: String::new() });
	run.sim.drain(R);
	let failed = run.model.on_fail_back(&h);
	run.note(format!("[{}] fail_htlc_backwards hash {}: parts {:?}", si, hex(&h[..4]), failed));
	if !failed.is_empty() {
		run.stats.fail_reasons.insert("user-fail-back");
	}
	let mut e = Expect::none("fail-back");
	e.must_fail = failed;
	run.settle(e)
}

// -------------------------------------------------------------------------------------------------
// pure companion: the secret / preimage API on a long-lived node
// -------------------------------------------------------------------------------------------------

#[derive(Clone, Debug, Serialize, Deserialize)]
struct ApiCase {
	amt: Option<u64>,
	secs: u32,
	min_cltv: Option<u16>,
	meta: Option<Vec<u8>>,
	masks: Vec<[u8; 4]>,
	meta_pos: u8,
	meta_xor: u8,
	user_hash_seed: u8,
}

fn api_strat() -> impl Strategy<Value = ApiCase> {
	(
		prop_oneof![Just(None), any::<u64>().prop_map(|v| Some(v % 2_000_000_000_000_000)), amount_strat().prop_map(Some)],
		prop_oneof![Just(0u32), Just(3600u32), any::<u32>()],
		prop_oneof![Just(None), any::<u16>().prop_map(Some)],
		prop_oneof![Just(None), proptest::collection::vec(any::<u8>(), 0..64).prop_map(Some)],
		proptest::collection::vec(any::<[u8; 4]>(), 0..4),
		any::<u8>(),
		1u8..=255,
		any::<u8>(),
	)
		.prop_map(|(amt, secs, min_cltv, meta, masks, meta_pos, meta_xor, user_hash_seed)| ApiCase { amt, secs, min_cltv, meta, masks, meta_pos, meta_xor, user_hash_seed })
}

thread_local! {
	static API_NODE: std::cell::RefCell<Option<(Sim, u64)>> = std::cell::RefCell::new(None);
}

fn api_oracle(c: &ApiCase, ctx: &mut Ctx) -> CaseResult {
	API_NODE.with(|cell| {
		let mut g = cell.borrow_mut();
		if g.is_none() {
			let w = netsim::world::World::new(netsim::world::WorldCfg { n: 2, configs: vec![netsim::world::default_config(); 2], keep_images: false, deferred_monitor: false, connect_style: lightning::ln::functional_test_utils::ConnectStyle::BestBlockFirst, node_styles: vec![], disable_revocation_policy: vec![] });
			*g = Some((Sim::new(w), 0));
		}
		let (sim, count) = g.as_mut().unwrap();
		*count += 1;
		if *count % 512 == 0 {
			sim.trim();
		}
		let node = sim.w.nodes[0].node;
		let get = |h: [u8; 32], s: [u8; 32], m: Option<Vec<u8>>| -> Result<([u8; 32], Option<Vec<u8>>), ()> {
			let mut m = m;
			match node.get_payment_preimage_decrypt_metadata(PaymentHash(h), PaymentSecret(s), m.as_deref_mut()) {
				Ok(p) => Ok((p.0, m)),
				Err(_) => Err(()),
			}
		};
		let (hash, secret, enc) = match node.create_inbound_payment(c.amt, c.secs, c.min_cltv, c.meta.clone()) {
			Ok(x) => x,
			Err(()) => {
				// documented: errors if the amount exceeds the total bitcoin supply (or the fields do not fit)
				ctx.label("registration-refused");
				return Ok(());
			},
		};
		let (h, s) = (hash.0, secret.0);
		// round trip: the issued secret authenticates the hash, yields its preimage and the registered metadata
		match get(h, s, enc.clone()) {
			Ok((p, m)) => {
				vensure!(sha(&p) == h, "api-roundtrip", "preimage returned for a fresh registration does not hash to its payment hash");
				vensure!(m == c.meta, "api-roundtrip", "metadata decrypts to {:?}, registered {:?}", m, c.meta);
			},
			Err(()) => return Err(fail("api-roundtrip", "fresh (hash, secret, metadata) rejected".into())),
		}
		let mut evals = 1u64;
		// every single-bit change of the secret must be rejected
		for bit in 0..256usize {
			let mut t = s;
			t[bit / 8] ^= 1 << (bit % 8);
			evals += 1;
			if let Ok((p, _)) = get(h, t, enc.clone()) {
				return Err(fail("api-tampered-secret-accepted", format!("secret with bit {} flipped accepted (preimage hashes to the hash: {})", bit, sha(&p) == h)).with_key(format!("api-tampered-secret-accepted/bit{}", bit)));
			}
		}
		for mk in c.masks.iter() {
			let mut t = s;
			for (i, b) in mk.iter().enumerate() {
				t[(*b as usize + i * 7) % 32] ^= b | 1;
			}
			evals += 1;
			if t != s && get(h, t, enc.clone()).is_ok() {
				return Err(fail("api-tampered-secret-accepted", format!("secret xor mask {:?} accepted", mk)));
			}
		}
		// metadata is committed to
		let mut variants: Vec<Option<Vec<u8>>> = vec![];
		match &enc {
			Some(v) => {
				variants.push(None);
				if !v.is_empty() {
					let mut t = v.clone();
					let i = c.meta_pos as usize % t.len();
					t[i] ^= c.meta_xor;
					variants.push(Some(t));
					variants.push(Some(v[..v.len() - 1].to_vec()));
				}
				let mut t = v.clone();
				t.push(c.meta_xor);
				variants.push(Some(t));
			},
			None => {
				variants.push(Some(vec![]));
				variants.push(Some(vec![c.meta_xor]));
			},
		}
		for v in variants {
			evals += 1;
			if get(h, s, v.clone()).is_ok() {
				return Err(fail("api-tampered-metadata-accepted", format!("metadata {:?} accepted, issued {:?}", v, enc)));
			}
		}
		// a second registration: secrets and hashes are not interchangeable
		let (hash2, secret2, enc2) = node.create_inbound_payment(c.amt, c.secs, c.min_cltv, c.meta.clone()).map_err(|_| fail("api-roundtrip", "second identical registration refused".into()))?;
		vensure!(hash2 != hash && secret2 != secret, "api-unique", "two registrations share hash or secret");
		evals += 2;
		vensure!(get(h, secret2.0, enc2.clone()).is_err(), "api-cross-accepted", "secret of another registration accepted for this hash");
		vensure!(get(hash2.0, s, enc.clone()).is_err(), "api-cross-accepted", "this secret accepted for another registration's hash");
		// user-supplied hashes: LDK never knows a preimage
		let uh = sha(&[0x55, c.user_hash_seed]);
		if let Ok((us, uenc)) = node.create_inbound_payment_for_hash(PaymentHash(uh), c.amt, c.secs, c.min_cltv, c.meta.clone()) {
			evals += 2;
			vensure!(get(uh, us.0, uenc.clone()).is_err(), "api-user-hash-preimage", "a preimage was returned for a user-supplied hash");
			vensure!(get(h, us.0, uenc).is_err(), "api-cross-accepted", "for_hash secret accepted for an LDK hash");
		}
		ctx.sub_evaluations(evals);
		ctx.label_if(c.meta.is_some(), "with-metadata");
		ctx.label_if(c.min_cltv.is_some(), "with-min-final-cltv");
		ctx.nontrivial();
		Ok(())
	})
}

fn main() {
	install_recording_signer();
	netsim::rec::tolerate_monitor_roundtrip_tripwire();
	let mut c = Check::new("C04", "exploration");
	c.assume("senders are unmodified LDK nodes whose send API is called with adversarial RecipientOnionFields, amounts, totals and final CLTV deltas; one HTLC per send call, direct channels to R");
	c.assume("R's clock is the highest block header time it has seen; registrations expire at registration time + expiry + 7200 s (LDK's margin); MPP timeout: may fail from the first timer tick (test builds), must fail after 3");
	c.assume("HTLC_FAIL_BACK_BUFFER = 39 blocks (pub const); a part is accepted only if expiry > height + 40; claim_deadline = min expiry - 39");
	c.assume("a valid part that R fails back although the model would accept it is tolerated (label valid-part-rejected): refusing money is not a violation of this property");
	c.assume("phantom-node and BOLT-12 / blinded receives are not generated; CommitOracle (C01) runs as a tripwire only");
	c.part_with(
		PartSpec {
			name: "receive",
			rule: "R with 1-3 channels from 1-2 senders, 1-3 registrations (create_inbound_payment / _for_hash / keysend, optional minimum, expiry, min_final_cltv, metadata; the same hash registered twice), 3-30 steps: sends with generated secret (valid, other registration's, single bit flipped, random, none), total (exact, +-1, multiples), amounts (shares, exact rest, +-1), metadata, custom TLVs and final CLTV around the acceptance boundaries, over any channel in any order, timer ticks, blocks, header-time jumps to a registration's expiry +-1 s, mining to the advertised claim_deadline -3..+2, claim_funds (with / without known TLVs), fail_htlc_backwards, R force-closing a channel; every decision of R is compared with the reference model, every PaymentClaimable / PaymentClaimed field with the parts, every fulfil / fail with the claims. Non-trivial: R decided on >=1 part and the case has >=2 parts, a tampered field, a CLTV at a boundary or a claim within 2 blocks of the deadline",
			quick_cases: 2600,
			thorough_cases: 80_000,
			max_shrink: 600,
		},
		|| case_strat(30),
		run_case,
	);
	c.part_with(
		PartSpec {
			name: "secret-sweep",
			rule: "one channel, 4-16 single-part payments per case with the secret of registration 0 bit-flipped (all 256 positions reachable), replaced by another registration's or random, metadata tampered, total +-1; each is processed alone and must be failed back unless every field is the issued one; then an untampered payment is claimed. Non-trivial: as above",
			quick_cases: 700,
			thorough_cases: 20_000,
			max_shrink: 400,
		},
		|| sweep_strat(16),
		run_case,
	);
	c.part_with(
		PartSpec {
			name: "preimage-api",
			rule: "create_inbound_payment on a long-lived node with generated amount / expiry / min_final_cltv / metadata; get_payment_preimage_decrypt_metadata must return the preimage and plaintext metadata for exactly the issued (hash, secret, metadata) and reject all 256 single-bit flips of the secret, generated multi-byte masks, tampered / truncated / extended / missing metadata, secrets and hashes of other registrations and for_hash secrets. Every case is non-trivial",
			quick_cases: 60_000,
			thorough_cases: 1_500_000,
			max_shrink: 200,
		},
		api_strat,
		api_oracle,
	);
	c.finish();
}
