//! C04 — inbound payments are claimable only if complete and authentic; all-or-nothing.
fn main() {}
