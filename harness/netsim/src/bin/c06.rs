//! C06 — any revoked commitment the counterparty confirms is fully punished.
//!
//! Pair V (victim, honest) / X (cheater: honest protocol peer whose only misbehaviour is to confirm a revoked
//! commitment and its HTLC transactions). Phase 1 is a generated channel history; phase 2 confirms one of X's
//! revoked commitments and lets a generated schedule decide which of X's second-stage transactions confirm
//! before V's claims, how and when V sees blocks, V's fee estimates, and when V is reloaded from disk.
use bitcoin::blockdata::block::Block;
use bitcoin::Transaction;
use lightning::chain::channelmonitor::ANTI_REORG_DELAY;
use netsim::ext_c06::*;
use netsim::ops::*;
use netsim::oracle_commit::dump_history;
use netsim::rec::install_recording_signer;
use netsim::sim::*;
use proptest::prelude::*;
use serde::{Deserialize, Serialize};
use serde_json::json;
use std::collections::VecDeque;
use vcore::*;

#[derive(Clone, Debug, Serialize, Deserialize)]
enum Step {
	/// mine one block: X's second-stage candidates selected by `x_mask` (bit i = i-th candidate), V's mineable
	/// transactions selected by `v_sel` (0 none, 1 all, 2 by `v_mask`); `x_first`: who wins a conflict;
	/// `deliver`: hand the block (and everything pending) to V right away
	Block { x_mask: u16, v_sel: u8, v_mask: u16, x_first: bool, deliver: bool },
	Empty { n: u8, deliver: bool },
	DeliverV,
	Style { style: u8 },
	/// V's fee estimate for on-chain claims from now on
	Fee { rate: u32 },
	/// V is stopped and reloaded from its persisted monitor and manager
	Reload { landed: bool },
	/// ChainMonitor::rebroadcast_pending_claims (the background processor's timer)
	Rebroadcast,
	Events,
}

#[derive(Clone, Debug, Serialize, Deserialize)]
struct Case {
	spec: WorldSpec,
	/// X is the channel funder (node 0) or the acceptor (node 1)
	x_funder: bool,
	ops: Vec<Op>,
	/// which revoked state: 0 oldest, 1 newest revoked, 2 the one with most HTLC outputs, 3 `k_pick`
	k_bias: u8,
	k_pick: u16,
	/// which monitor image of that state: 0 the last written while it was current (most preimages), 1 the first
	img_first: bool,
	/// blocks mined before X cheats (past HTLC expiries when large)
	advance: u8,
	/// peers disconnect before the cheat
	disconnect: bool,
	v_style: u8,
	v_fee: u32,
	/// the block confirming the revoked commitment reaches V immediately
	tk_deliver: bool,
	steps: Vec<Step>,
	/// every-k part: overrides the selection above with a fixed index
	#[serde(default)]
	fixed_k: Option<u16>,
}

fn weights() -> OpWeights {
	OpWeights { send: 34, claim: 12, fail: 5, deliver: 30, flush: 6, events: 10, forwards: 8, disconnect: 1, reconnect: 3, setfee: 4, timer: 1, pump: 14, ..OpWeights::zero() }
}

fn step_strategy() -> impl Strategy<Value = Step> {
	let mask = prop_oneof![Just(0u16), Just(0xffffu16), any::<u16>()];
	prop_oneof![
		30 => (mask.clone(), prop_oneof![Just(0u8), Just(1u8), Just(2u8)], any::<u16>(), any::<bool>(), proptest::bool::weighted(0.75)).prop_map(|(x_mask, v_sel, v_mask, x_first, deliver)| Step::Block { x_mask, v_sel, v_mask, x_first, deliver }),
		10 => (1u8..5, proptest::bool::weighted(0.7)).prop_map(|(n, deliver)| Step::Empty { n, deliver }),
		6 => Just(Step::DeliverV),
		4 => (0u8..11).prop_map(|style| Step::Style { style }),
		8 => prop_oneof![253u32..2_000, 253u32..60_000].prop_map(|rate| Step::Fee { rate }),
		7 => any::<bool>().prop_map(|landed| Step::Reload { landed }),
		4 => Just(Step::Rebroadcast),
		4 => Just(Step::Events),
	]
}

/// V's justice transactions stay unconfirmed for 25-60 blocks (nobody mines them) while its fee estimate changes
/// once or twice and the background timer (`rebroadcast_pending_claims`) fires between blocks: the schedule under
/// which "re-issued with adequate fees" can be observed.
fn withheld_steps() -> impl Strategy<Value = Vec<Step>> {
	(
		proptest::collection::vec(step_strategy(), 0..3),
		prop_oneof![253u32..3_000, 1_000u32..20_000],
		proptest::collection::vec((1u8..=5, proptest::bool::weighted(0.6), proptest::bool::weighted(0.2), proptest::option::weighted(0.1, 253u32..30_000), proptest::option::weighted(0.08, any::<bool>())), 8..16),
		proptest::collection::vec(step_strategy(), 0..4),
	)
		.prop_map(|(head, rate, rounds, tail)| {
			let mut v = head;
			v.push(Step::Fee { rate });
			for (n, rebroadcast, events, fee, reload) in rounds {
				v.push(Step::Empty { n, deliver: true });
				if rebroadcast {
					v.push(Step::Rebroadcast);
				}
				if events {
					v.push(Step::Events);
				}
				if let Some(rate) = fee {
					v.push(Step::Fee { rate });
				}
				if let Some(landed) = reload {
					v.push(Step::Reload { landed });
				}
			}
			v.extend(tail);
			v
		})
}

fn strat(max_ops: usize, max_steps: usize) -> impl Strategy<Value = Case> {
	(
		(world_spec(vec![Topology::Pair]), any::<bool>(), proptest::collection::vec(op_strategy(weights()), 12..max_ops)),
		(prop_oneof![2 => Just(0u8), 2 => Just(1u8), 4 => Just(2u8), 3 => Just(3u8)], any::<u16>(), proptest::bool::weighted(0.25)),
		(prop_oneof![4 => Just(0u8), 2 => 1u8..8, 5 => 72u8..110], proptest::bool::weighted(0.3), 0u8..11, prop_oneof![Just(253u32), 253u32..5_000, 253u32..40_000], proptest::bool::weighted(0.8)),
		prop_oneof![3 => proptest::collection::vec(step_strategy(), 2..max_steps).boxed(), 1 => withheld_steps().boxed()],
	)
		.prop_map(|((mut spec, x_funder, mut ops), (k_bias, k_pick, img_first), (advance, disconnect, v_style, v_fee, tk_deliver), steps)| {
			spec.deferred = false;
			spec.node_styles = vec![];
			// every history starts with a payment each way so that revoked states exist
			let mut pre = vec![Op::Send { route: 0, amt: Amt::Frac(9000) }, Op::Pump, Op::Send { route: 40000, amt: Amt::Frac(20000) }, Op::Pump];
			pre.append(&mut ops);
			Case { spec, x_funder, ops: pre, k_bias, k_pick, img_first, advance, disconnect, v_style, v_fee, tk_deliver, steps, fixed_k: None }
		})
}

/// Replay aid for C12 (env C06_DUMP_MONITOR=<file>): when V's monitor serializes to bytes whose own read-back
/// serializes differently, write those bytes (hex) once.
fn dump_nonidempotent_monitor(sim: &Sim, v: usize, chan: lightning::ln::types::ChannelId) {
	use lightning::util::ser::{ReadableArgs, Writeable};
	let Ok(path) = std::env::var("C06_DUMP_MONITOR") else { return };
	if std::path::Path::new(&path).exists() {
		return;
	}
	let Ok(mon) = sim.w.nodes[v].chain_monitor.chain_monitor.get_monitor(chan) else { return };
	let b1 = mon.encode();
	let km = sim.w.nodes[v].keys_manager;
	let mut r = &b1[..];
	let Ok((_, m2)) = <(lightning::chain::BlockLocator, lightning::chain::channelmonitor::ChannelMonitor<lightning::util::test_channel_signer::TestChannelSigner>)>::read(&mut r, (km, km)) else { return };
	let b2 = m2.encode();
	if b1 != b2 {
		let pos = b1.iter().zip(b2.iter()).position(|(a, b)| a != b).unwrap_or(0);
		println!("C06_DUMP_MONITOR: monitor image ({} bytes) re-serializes differently after read (first difference at byte {}, lengths {} / {})", b1.len(), pos, b1.len(), b2.len());
		let _ = std::fs::write(&path, vcore::hex(&b1));
	}
}

/// TestChainMonitor::update_channel's self-check that a monitor equals its own serialization round trip
fn is_roundtrip_tripwire(msg: &str, loc: &str) -> bool {
	loc.contains("util/test_utils.rs") && msg.contains("new_monitor == *monitor")
}

struct Run {
	sim: Sim,
	v: usize,
	x: usize,
	/// blocks mined but not yet handed to V
	pending: VecDeque<Block>,
}

impl Run {
	fn mine(&mut self, stale: &mut StaleX, txs: Vec<Transaction>, deliver: bool) {
		let (block, _rejected) = self.sim.c06_mine(txs);
		stale.feed(&self.sim.chain);
		self.pending.push_back(block);
		// V lags at most a few blocks behind (a node that is offline for long is outside the property)
		if deliver || self.pending.len() >= 8 {
			self.deliver_all();
		}
	}
	fn deliver_all(&mut self) {
		let blocks: Vec<Block> = self.pending.drain(..).collect();
		if !blocks.is_empty() {
			self.sim.c06_deliver(self.v, &blocks);
		}
		self.sim.c06_monitor_events(self.v);
	}
}

fn oracle(c: &Case, ctx: &mut Ctx) -> CaseResult {
	run_case(c, ctx).map(|_| ())
}

/// Ok(Some((n, nontrivial))): the history had n revoked states (and, unless the fixed index was out of range, one was played)
fn run_case(c: &Case, ctx: &mut Ctx) -> Result<Option<(usize, bool)>, Failure> {
	let x = if c.x_funder { 0 } else { 1 };
	let mut run = Run { sim: build_world(&c.spec, x), v: 1 - x, x, pending: VecDeque::new() };
	let mut trace: Vec<String> = vec![];
	let r = std::panic::catch_unwind(std::panic::AssertUnwindSafe(|| oracle_inner(c, ctx, &mut run, &mut trace)));
	// replay: show the history, also when the library panics
	if ctx.replay && !matches!(r, Ok(Ok(_))) {
		println!("==== phase 2 trace ====\n{}\n==== history ====\n{}", trace.join("\n"), dump_history(&run.sim));
	}
	match r {
		Ok(Err(f)) if std::env::var("C06_DEV_TOLERATE").map(|t| t.split(',').any(|k| k == f.key)).unwrap_or(false) => {
			ctx.label(&format!("dev-tolerated:{}", f.key));
			Ok(None)
		},
		Ok(r) => r,
		Err(p) => {
			let lp = take_last_panic();
			if lp.as_ref().map(|(m, l)| is_roundtrip_tripwire(m, l)).unwrap_or(false) {
				// another property's tripwire (C12: persisted objects survive serialization unchanged)
				ctx.label("foreign-failure:C12:monitor-roundtrip");
				return Ok(None);
			}
			set_last_panic(lp);
			std::panic::resume_unwind(p)
		},
	}
}

fn oracle_inner(c: &Case, ctx: &mut Ctx, run: &mut Run, trace: &mut Vec<String>) -> Result<Option<(usize, bool)>, Failure> {
	let (v, x) = (run.v, run.x);
	let chan = run.sim.chans[0].id;
	ctx.label(&format!("type:{:?}", c.spec.ctype));
	ctx.label(if c.x_funder { "x-is-funder" } else { "x-is-acceptor" });

	// ---- phase 1: honest channel history ----
	for op in c.ops.iter() {
		apply(&mut run.sim, &c.spec, op);
	}
	let quiet = run.sim.settle(40);
	if !quiet || run.sim.chan_details(v, 0).is_none() || run.sim.chan_details(x, 0).is_none() {
		// not a C06 matter (C01/C03 own liveness and closure in honest operation)
		ctx.label(if quiet { "phase1-channel-closed" } else { "phase1-not-quiescent" });
		ctx.discard();
		return Ok(None);
	}
	let states = match x_states(&run.sim, x, chan) {
		Ok(s) => s,
		Err(e) => {
			ctx.label(&format!("harness:x-states:{}", e.chars().take(20).collect::<String>()));
			ctx.discard();
			return Ok(None);
		},
	};
	// X's j-th oldest commitment is revoked once its j-th revoke_and_ack reached V; the newest is never eligible
	let revoked = revoked_count(&run.sim, x, v).min(states.spans.len().saturating_sub(1));
	if revoked == 0 {
		ctx.label("no-revoked-state");
		ctx.discard();
		return Ok(None);
	}
	if let Some(k) = c.fixed_k {
		if k as usize >= revoked {
			ctx.label("fixed-k-out-of-range");
			return Ok(Some((revoked, false)));
		}
	}
	let image_of = |k: usize| if c.img_first { &states.images[states.spans[k].0] } else { &states.images[states.spans[k].1] };
	let k = match (c.fixed_k, c.k_bias) {
		(Some(k), _) => k as usize,
		(_, 0) => 0,
		(_, 1) => revoked - 1,
		(_, 2) => {
			// the revoked state with the most HTLC outputs (ties: oldest); needs X's commitment of each state
			let mut best = (0usize, 0usize);
			for j in 0..revoked {
				let n = StaleX::new(&run.sim, x, image_of(j)).ok().and_then(|s| classify_tk(&s.commitment(), v).ok()).map(|t| t.htlcs.len()).unwrap_or(0);
				if n > best.1 {
					best = (j, n);
				}
			}
			best.0
		},
		_ => pick(c.k_pick, revoked),
	};
	let age = states.spans.len() - 1 - k;
	let mut stale = match StaleX::new(&run.sim, x, image_of(k)) {
		Ok(s) => s,
		Err(e) => return Err(Failure::new("harness", e)),
	};
	let tk_tx = stale.commitment();
	let tk = match classify_tk(&tk_tx, v) {
		Ok(t) => t,
		Err(e) => {
			ctx.label(&format!("harness:classify:{}", e.chars().take(24).collect::<String>()));
			ctx.discard();
			return Ok(None);
		},
	};
	// cross-check of "revoked": X's signer released the secret of exactly this commitment number
	if !released_numbers(x).contains(&tk.number) {
		ctx.label("harness:secret-not-released");
		ctx.discard();
		return Ok(None);
	}
	trace.push(format!("state k={} of {} (age {}), T_k={} number={} htlcs={:?} to_local={:?} to_remote={:?} anchors={:?}", k, states.spans.len(), age, tk.txid, (1u64 << 48) - 1 - tk.number, tk.htlcs, tk.to_local, tk.to_remote, tk.anchors));

	// ---- phase 2 ----
	*run.sim.w.nodes[v].connect_style.borrow_mut() = connect_style_of(c.v_style);
	*run.sim.w.nodes[v].fee_estimator.sat_per_kw.lock().unwrap() = c.v_fee;
	if c.disconnect {
		run.sim.disconnect(v, x);
	}
	let mut jo = JusticeOracle::new(&run.sim, v, chan, tk.clone());
	jo.note_estimate(0, c.v_fee);
	// observations about get_claimable_balances (beyond the property statement: labels, never failures)
	let mut obs: std::collections::BTreeSet<&'static str> = std::collections::BTreeSet::new();
	// X's off-node wallet (fee inputs of anchor-type HTLC transactions) and the blocks before the cheat
	let fund = stale.wallet_funding_tx(4);
	let h0 = run.sim.c06_height_of(v);
	run.mine(&mut stale, vec![fund], true);
	if c.advance > 0 {
		for _ in 0..c.advance {
			run.mine(&mut stale, vec![], false);
		}
		run.deliver_all();
	}
	jo.scan(&run.sim, h0)?;
	let v_closed_first = run.sim.chan_details(v, 0).is_none();
	ctx.label_if(v_closed_first, "v-force-closed-before-cheat");

	// X confirms its revoked commitment
	let hb = run.sim.c06_height_of(v);
	run.mine(&mut stale, vec![tk_tx.clone()], c.tk_deliver);
	let tk_height = run.sim.chain.height();
	if !run.sim.chain.confirmed.contains_key(&tk.txid) {
		return Err(Failure::new("harness", "revoked commitment was not minable".to_string()));
	}
	jo.scan(&run.sim, hb)?;
	jo.mark_durable();
	if let Some(l) = jo.observe_balances(&run.sim) {
		obs.insert(l);
	}

	let mut x_confirmed: Vec<Transaction> = vec![];
	let mut reloads = 0;
	let mut lagged = false;
	let mut styles = std::collections::BTreeSet::new();
	styles.insert(c.v_style % 11);
	for st in c.steps.iter() {
		let hb = run.sim.c06_height_of(v);
		let since = run.sim.chain.height() - tk_height;
		match st {
			Step::Block { x_mask, v_sel, v_mask, x_first, deliver } => {
				if since >= 60 {
					continue;
				}
				let xc: Vec<Transaction> = stale.candidates(tk.txid).into_iter().enumerate().filter(|(i, _)| *i < 16 && x_mask & (1 << i) != 0).map(|(_, t)| t).collect();
				let vm = jo.v_mineable(&run.sim);
				let vc: Vec<Transaction> = match v_sel {
					0 => vec![],
					1 => vm,
					_ => vm.into_iter().enumerate().filter(|(i, _)| *i < 16 && v_mask & (1 << i) != 0).map(|(_, t)| t).collect(),
				};
				let txs: Vec<Transaction> = if *x_first { xc.iter().chain(vc.iter()).cloned().collect() } else { vc.iter().chain(xc.iter()).cloned().collect() };
				run.mine(&mut stale, txs, *deliver);
				for t in xc {
					if run.sim.chain.confirmed.contains_key(&t.compute_txid()) {
						x_confirmed.push(t);
					}
				}
				trace.push(format!("block {}: x_confirmed so far {}, delivered={}", run.sim.chain.height(), x_confirmed.len(), run.pending.is_empty()));
			},
			Step::Empty { n, deliver } => {
				if since >= 60 {
					continue;
				}
				for _ in 0..*n {
					run.mine(&mut stale, vec![], false);
				}
				if *deliver {
					run.deliver_all();
				}
			},
			Step::DeliverV => run.deliver_all(),
			Step::Style { style } => {
				*run.sim.w.nodes[v].connect_style.borrow_mut() = connect_style_of(*style);
				styles.insert(*style % 11);
			},
			Step::Fee { rate } => {
				*run.sim.w.nodes[v].fee_estimator.sat_per_kw.lock().unwrap() = *rate;
				jo.note_estimate(hb, *rate);
			},
			Step::Reload { landed } => {
				// a reloaded monitor replays the chain from its own best block: it legitimately does not know
				// about spends above that height while it re-issues claims
				let img_h = run.sim.c06_image_height(v, chan).unwrap_or(hb).min(hb);
				run.sim.snapshot_manager(v);
				if let Err(e) = run.sim.restart(v, 0, *landed) {
					return Err(Failure::new("reload", format!("V could not be reloaded from its persisted state: {}", e)));
				}
				reloads += 1;
				jo.on_reload();
				run.sim.c06_monitor_events(v);
				jo.scan(&run.sim, img_h)?;
				trace.push(format!("reload at V height {} (image height {})", hb, img_h));
			},
			Step::Rebroadcast => {
				run.sim.w.nodes[v].chain_monitor.chain_monitor.rebroadcast_pending_claims();
				run.sim.drain(v);
			},
			Step::Events => {
				run.sim.c06_monitor_events(v);
			},
		}
		lagged |= run.pending.len() >= 2;
		jo.scan(&run.sim, hb)?;
		jo.adequacy_rule(&run.sim, run.sim.c06_height_of(v))?;
		// the ChainMonitor persists a monitor with pending claims after every chain notification (and the
		// restart writes the reloaded one); `rebroadcast_pending_claims` and estimator changes persist nothing
		if run.sim.c06_height_of(v) != hb || matches!(st, Step::Reload { .. }) {
			jo.mark_durable();
		}
		if let Some(l) = jo.observe_balances(&run.sim) {
			obs.insert(l);
		}
		if ctx.replay {
			dump_nonidempotent_monitor(&run.sim, v, chan);
		}
	}

	// ---- end game: X stops; everything V has broadcast gets mined (the property presumes V's claims can
	// confirm), well before X's CSV on the contested outputs matures ----
	for _ in 0..40 {
		let hb = run.sim.c06_height_of(v);
		run.deliver_all();
		jo.scan(&run.sim, hb)?;
		jo.mark_durable();
		if let Some(l) = jo.observe_balances(&run.sim) {
			obs.insert(l);
		}
		let cands = jo.v_mineable(&run.sim);
		let open = jo.statuses(&run.sim, run.sim.chain.height()).iter().any(|(_, _, s)| matches!(s, Status::Open(_)));
		if cands.is_empty() && !open {
			break;
		}
		let hb = run.sim.c06_height_of(v);
		run.mine(&mut stale, cands, true);
		jo.scan(&run.sim, hb)?;
		jo.mark_durable();
	}
	let used = run.sim.chain.height() - tk_height;
	if used + 8 >= tk.contest_delay as u32 {
		// harness budget exceeded: the premise "V's claims confirm before X's CSV" no longer holds
		ctx.label("harness:csv-budget-exceeded");
		ctx.discard();
		return Ok(None);
	}
	for _ in 0..(ANTI_REORG_DELAY + 2) {
		let hb = run.sim.c06_height_of(v);
		run.mine(&mut stale, vec![], true);
		jo.scan(&run.sim, hb)?;
		if let Some(l) = jo.observe_balances(&run.sim) {
			obs.insert(l);
		}
	}
	run.sim.c06_monitor_events(v);
	jo.scan(&run.sim, run.sim.c06_height_of(v))?;
	jo.finish(&run.sim)?;
	if jo.balances_left(&run.sim) {
		obs.insert("obs:balances-not-empty-at-end");
	}
	for l in obs.iter() {
		ctx.label(l);
	}
	// V's ChannelManager events (payment failures, ChannelClosed ...) are handled only now: handling them makes
	// the manager send ReleasePaymentComplete monitor updates, and TestChainMonitor then runs its own
	// write->read equality self-check (C12's matter), which is known to trip after a claim package was split
	let late = std::panic::catch_unwind(std::panic::AssertUnwindSafe(|| {
		run.sim.process_events(v);
	}));
	if late.is_err() {
		let p = take_last_panic();
		let foreign = p.as_ref().map(|(m, l)| is_roundtrip_tripwire(m, l)).unwrap_or(false);
		if !foreign {
			set_last_panic(p);
			return Err(Failure::new("panic", "V panicked while handling its ChannelManager events at the end of the case".to_string()).with_key("panic-late-events"));
		}
		ctx.label("foreign-failure:C12:monitor-roundtrip(late)");
	}

	// ---- classification ----
	let n_htlc = tk.htlcs.len();
	let x_succ = x_confirmed.iter().filter(|t| t.input.iter().any(|i| tk.htlcs.iter().any(|h| !h.offered_by_x && i.previous_output.txid == tk.txid && i.previous_output.vout == h.vout))).count();
	let x_tout = x_confirmed.iter().filter(|t| t.input.iter().any(|i| tk.htlcs.iter().any(|h| h.offered_by_x && i.previous_output.txid == tk.txid && i.previous_output.vout == h.vout))).count();
	ctx.label(match age {
		1 => "k-age:1",
		2 => "k-age:2",
		3..=9 => "k-age:3-9",
		_ => "k-age:10+",
	});
	ctx.label(match n_htlc {
		0 => "tk-htlc-outputs:0",
		1 => "tk-htlc-outputs:1",
		2..=3 => "tk-htlc-outputs:2-3",
		_ => "tk-htlc-outputs:4+",
	});
	ctx.label_if(tk.htlcs.iter().any(|h| h.offered_by_x), "tk-has-htlc-offered-by-x");
	ctx.label_if(tk.htlcs.iter().any(|h| !h.offered_by_x), "tk-has-htlc-received-by-x");
	ctx.label_if(tk.to_local.is_none(), "tk-no-to-local");
	ctx.label_if(tk.to_remote.is_none(), "tk-no-to-remote");
	ctx.label_if(x_succ > 0, "x-htlc-success-confirmed-first");
	ctx.label_if(x_tout > 0, "x-htlc-timeout-confirmed-first");
	ctx.label_if(x_confirmed.len() > 1, "x-second-stage-confirmed:2+");
	ctx.label_if(!stale.candidates(tk.txid).is_empty(), "x-had-second-stage-candidates");
	ctx.label_if(reloads > 0, "v-reloaded");
	ctx.label_if(lagged, "v-lagged-2+-blocks");
	ctx.label_if(c.advance >= 72, "cheat-after-htlc-expiry");
	ctx.label_if(jo.stats.reissues > 0, "v-claim-reissued");
	ctx.label_if(jo.stats.reissues_bumped > 0, "v-claim-fee-bumped");
	ctx.label_if(jo.stats.adequacy_checks > 0, "claim-pending-a-full-window:fee-adequacy-checked");
	ctx.label_if(jo.stats.benign_conflicts > 0, "v-benign-conflict");
	ctx.label_if(styles.len() > 1, "v-style-changed");
	ctx.label(&format!("v-style:{}", c.v_style % 11));
	ctx.sub_evaluations(jo.stats.v_broadcasts + jo.stats.balance_checks);
	// DESIGN C06: state k had >=1 non-dust HTLC output, and either >=1 X second-stage transaction confirmed
	// first or k is >=3 states old
	let nontrivial = n_htlc >= 1 && (!x_confirmed.is_empty() || age >= 3);
	ctx.nontrivial_if(nontrivial);
	ctx.summary(json!({"type": format!("{:?}", c.spec.ctype), "states": states.spans.len(), "k": k, "htlc_outputs": n_htlc, "x_second_stage_confirmed": x_confirmed.len(), "v_broadcasts": jo.stats.v_broadcasts, "reloads": reloads, "advance": c.advance, "blocks_after_cheat": used}));
	Ok(Some((revoked, nontrivial)))
}

/// every revoked state of one history, each against the same generated schedule (fault-enumeration flavour)
fn oracle_every_k(c: &Case, ctx: &mut Ctx, known: &[String]) -> CaseResult {
	let mut n = 0u16;
	let mut with_htlc = 0;
	loop {
		let mut cc = c.clone();
		cc.fixed_k = Some(n);
		let mut sub = Ctx::default();
		sub.replay = ctx.replay;
		match run_case(&cc, &mut sub) {
			Ok(Some((revoked, nontrivial))) if (n as usize) < revoked => {
				n += 1;
				with_htlc += nontrivial as u32;
			},
			Ok(_) => break,
			// a listed finding in one state must not hide the remaining states of this history
			Err(f) if known.iter().any(|k| *k == f.key) => {
				ctx.label(&format!("known-finding-in-state:{}", f.key));
				n += 1;
			},
			Err(mut f) => {
				f.detail = format!("[state k={}] {}", n, f.detail);
				return Err(f);
			},
		}
		if n >= 60 {
			break;
		}
	}
	ctx.sub_evaluations(n as u64);
	ctx.label(match n {
		0 => "states-tried:0",
		1..=3 => "states-tried:1-3",
		4..=10 => "states-tried:4-10",
		_ => "states-tried:11+",
	});
	ctx.label(&format!("type:{:?}", c.spec.ctype));
	ctx.nontrivial_if(n >= 3 && with_htlc >= 1);
	if n == 0 {
		ctx.discard();
	}
	ctx.summary(json!({"type": format!("{:?}", c.spec.ctype), "states_tried": n, "nontrivial_states": with_htlc}));
	Ok(())
}

fn main() {
	install_recording_signer();
	let mut c = Check::new("C06", "exploration");
	let thorough = c.tier() == Tier::Thorough;
	let known: Vec<String> = load_known_findings("C06").into_iter().filter(|k| k.status == "known").map(|k| k.key).collect();
	c.assume("V is an unmodified LDK node; X follows the protocol during the history and cheats only by confirming a revoked commitment and the HTLC-success/-timeout transactions its own out-of-date ChannelMonitor produces for it (preimages X's monitor knew while that state was current; anchor types pay fees from X's own wallet through BumpTransactionEventHandlerSync)");
	c.assume("the chain simulator (libbitcoinconsensus scripts, nLockTime, BIP-68, fee >= 0) is ground truth; relay policy, pinning and reorgs are out of scope; every still-valid transaction V has broadcast gets mined in the end game, always before X's CSV (144) on the contested outputs matures");
	c.assume("V lags the chain by at most 7 blocks; a V transaction conflicting with a spend confirmed above the height V had been told about (or above the height of the persisted monitor it was reloaded from), a replaced/duplicate broadcast and a child of V's own unconfirmed transaction are benign; fee monotonicity compares re-issues with the identical set of contested inputs, continues from the persisted state after a reload (rebroadcast_pending_claims persists nothing) and uses a 2% tolerance");
	c.assume("V's ChannelManager events are handled only at the end of a case (chain-monitor events all along): handling them triggers TestChainMonitor's serialization self-check, which is C12's tripwire and is labelled foreign-failure:C12:monitor-roundtrip; get_claimable_balances is compared with the ground truth as an observation only (labels obs:*), the property statement does not constrain it");
	c.part_with(
		PartSpec {
			name: "revoked-broadcast",
			rule: "generated history (all channel types, HTLCs both ways, dust, claims, fails, fee changes), any revoked state of X (bias oldest / newest revoked / most HTLCs), generated subset of X's HTLC-success/-timeout confirmed before V's claims, V's delivery style, lag, fee estimates and reloads. Non-trivial: the revoked commitment had >=1 HTLC output and (>=1 X second-stage transaction confirmed first or the state is >=3 commitments old)",
			quick_cases: 1200,
			thorough_cases: 30_000,
			max_shrink: 300,
		},
		move || if thorough { strat(160, 26) } else { strat(70, 18) },
		oracle,
	);
	c.part_with(
		PartSpec {
			name: "every-revoked-state",
			rule: "one generated history and schedule, replayed once for EVERY revoked commitment of X in that history (fresh world each time). Non-trivial: >=3 revoked states were played and at least one of them met the first part's rule",
			quick_cases: 48,
			thorough_cases: 1500,
			max_shrink: 60,
		},
		move || if thorough { strat(90, 14) } else { strat(40, 10) },
		move |c, ctx| oracle_every_k(c, ctx, &known),
	);
	c.finish();
}
