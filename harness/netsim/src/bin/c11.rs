//! C11 — on-chain conclusions depend only on the chain, not on how it was delivered (stub while building).
fn main() {}
