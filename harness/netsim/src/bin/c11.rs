//! C11 — on-chain conclusions depend only on the chain, not on how it was delivered.
//!
//! Differential check: one scenario (world, traffic prefix leaving pending HTLCs, force close or none, a chain
//! script with forks of depth 1..=ANTI_REORG_DELAY) is executed k = 3..5 times; the node under observation is
//! told about the identical block tree through different `Listen` / `Confirm` schedules (engine and the
//! contract rules it follows: `netsim::ext_c11`). Oracles: (a) equal conclusions at every common tip,
//! (b) nothing irreversible before burial, (c) retraction after shallow reorgs (through (a) against the replica
//! that never saw the losing fork, plus the set of outputs being claimed).
use netsim::ext_c11::*;
use netsim::ops::*;
use proptest::prelude::*;
use serde::{Deserialize, Serialize};
use serde_json::json;
use vcore::*;

#[derive(Clone, Debug, Serialize, Deserialize)]
struct Case {
	sc: Scenario,
	/// delivery plans of replicas 1..; replica 0 is told everything through plain `block_connected` /
	/// `blocks_disconnected(fork point)`. The last plan only ever sees the final chain.
	plans: Vec<Plan>,
}

fn prefix_weights() -> OpWeights {
	OpWeights { send: 30, claim: 7, fail: 3, deliver: 22, flush: 6, events: 10, forwards: 10, pump: 14, ..OpWeights::zero() }
}

fn sel_strat() -> impl Strategy<Value = Sel> {
	prop_oneof![
		5 => Just(Sel::All),
		2 => Just(Sel::Rev),
		2 => any::<u16>().prop_map(Sel::One),
		1 => (any::<u16>(), any::<u16>()).prop_map(|(a, b)| Sel::Two(a, b)),
		1 => Just(Sel::None),
	]
}

fn fate_strat() -> impl Strategy<Value = Fate> {
	prop_oneof![3 => Just(Fate::Same), 2 => Just(Fate::Later), 3 => Just(Fate::Conflict), 3 => Just(Fate::Drop)]
}

fn step_strat() -> impl Strategy<Value = Step> {
	prop_oneof![
		6 => (sel_strat(), prop_oneof![0u8..3, 0u8..7, Just(4u8), Just(5u8)]).prop_map(|(sel, empty)| Step::Mine { sel, empty }),
		2 => (any::<u16>(), -4i8..9).prop_map(|(which, delta)| Step::ToExpiry { which, delta }),
		3 => (prop_oneof![1u8..=6, 1u8..=3, Just(5u8), Just(6u8)], proptest::collection::vec(fate_strat(), 1..4), 1u8..=2).prop_map(|(depth, fates, extra)| Step::Fork { depth, fates, extra }),
		5 => (prop_oneof![4 => Just(0i8), 2 => Just(1i8), 2 => Just(-1i8)], proptest::collection::vec(fate_strat(), 1..4), 1u8..=2).prop_map(|(adj, fates, extra)| Step::ForkTx { adj, fates, extra }),
		2 => any::<u16>().prop_map(|pay| Step::Claim { pay }),
	]
}

/// Scripts shaped to reach the retraction paths often: (A) the counterparty's claim of an HTLC output confirms and
/// is reorganised out before / around the HTLC expiry, then the chain runs past the expiry; (B) the node's own
/// timeout claim confirms after the expiry and is reorganised out, possibly in favour of a late counterparty claim.
fn patterned_script() -> impl Strategy<Value = Vec<Step>> {
	let fork = || (prop_oneof![4 => Just(0i8), 1 => Just(1i8)], proptest::collection::vec(prop_oneof![3 => Just(Fate::Drop), 2 => Just(Fate::Conflict), 1 => Just(Fate::Later), 1 => Just(Fate::Same)], 1..3), 1u8..=2).prop_map(|(adj, fates, extra)| Step::ForkTx { adj, fates, extra });
	let tail = || proptest::collection::vec(step_strat(), 0..4);
	let a = (0u8..4, any::<u16>(), prop_oneof![Just(Sel::All), Just(Sel::Rev)], 0u8..5, fork(), 1i8..7, sel_strat(), 0u8..7, tail()).prop_map(|(e0, pay, sel, e1, f, delta, sel2, e2, tail)| {
		let mut v = vec![Step::Mine { sel: Sel::All, empty: e0 }, Step::Claim { pay }, Step::Mine { sel, empty: e1 }, f, Step::ToExpiry { which: 0, delta }, Step::Mine { sel: sel2, empty: e2 }];
		v.extend(tail);
		v
	});
	let b = (0u8..3, 1i8..5, 0u8..5, fork(), 0u8..3, any::<u16>(), sel_strat(), 0u8..7, tail()).prop_map(|(e0, delta, e1, f, e2, pay, sel2, e3, tail)| {
		let mut v = vec![Step::Mine { sel: Sel::All, empty: e0 }, Step::ToExpiry { which: 0, delta }, Step::Mine { sel: Sel::All, empty: e1 }, f, Step::Mine { sel: Sel::None, empty: e2 }, Step::Claim { pay }, Step::Mine { sel: sel2, empty: e3 }];
		v.extend(tail);
		v
	});
	prop_oneof![a.boxed(), b.boxed()]
}

fn conn_strat() -> impl Strategy<Value = Conn> {
	prop_oneof![
		4 => (0u8..11).prop_map(Conn::Helper),
		5 => (any::<bool>(), proptest::bool::weighted(0.3), proptest::bool::weighted(0.3), proptest::bool::weighted(0.4), proptest::bool::weighted(0.3), proptest::bool::weighted(0.2))
			.prop_map(|(best_first, dup, skip_best, filtered, split, mgr_first)| Conn::Confirm { best_first, dup, skip_best, filtered, split, mgr_first }),
		2 => (any::<bool>(), proptest::bool::weighted(0.2)).prop_map(|(filtered, mgr_first)| Conn::Listen { filtered, mgr_first }),
	]
}

fn disc_strat() -> impl Strategy<Value = Disc> {
	prop_oneof![
		4 => (0u8..11).prop_map(Disc::Helper),
		3 => (any::<bool>(), proptest::bool::weighted(0.2)).prop_map(|(then_best, mgr_first)| Disc::Unconfirm { then_best, mgr_first }),
		3 => (1u8..=3, any::<bool>(), proptest::bool::weighted(0.2)).prop_map(|(chunks, full_locator, mgr_first)| Disc::ForkPoint { chunks, full_locator, mgr_first }),
	]
}

/// a replica driven only by the repo's own eleven styles, changed from step to step
fn styled_plan() -> impl Strategy<Value = Plan> {
	proptest::collection::vec((0u8..11, 0u8..11), 1..4).prop_map(|v| Plan { final_only: false, steps: v.into_iter().map(|(a, b)| PStep { lag: false, conn: Conn::Helper(a), disc: Disc::Helper(b), reload: false }).collect() })
}

fn mixed_plan() -> impl Strategy<Value = Plan> {
	proptest::collection::vec((proptest::bool::weighted(0.2), conn_strat(), disc_strat(), proptest::bool::weighted(0.08)), 2..7).prop_map(|v| Plan { final_only: false, steps: v.into_iter().map(|(lag, conn, disc, reload)| PStep { lag, conn, disc, reload }).collect() })
}

/// a replica whose node is restarted often (after 30-60 % of the trace events), with the notification style changing
/// from step to step: styles mixed across restarts
fn reload_plan() -> impl Strategy<Value = Plan> {
	(prop_oneof![Just(0.3f64), Just(0.6f64)], any::<bool>()).prop_flat_map(|(w, helpers)| {
		let conn = if helpers { (0u8..11).prop_map(Conn::Helper).boxed() } else { conn_strat().boxed() };
		let disc = if helpers { (0u8..11).prop_map(Disc::Helper).boxed() } else { disc_strat().boxed() };
		proptest::collection::vec((proptest::bool::weighted(0.1), conn, disc, proptest::bool::weighted(w)), 2..8).prop_map(|v| Plan { final_only: false, steps: v.into_iter().map(|(lag, conn, disc, reload)| PStep { lag, conn, disc, reload }).collect() })
	})
}

fn linear_plan() -> impl Strategy<Value = Plan> {
	proptest::collection::vec((conn_strat(), disc_strat()), 1..3).prop_map(|v| Plan { final_only: true, steps: v.into_iter().map(|(conn, disc)| PStep { lag: false, conn, disc, reload: false }).collect() })
}

fn strat(max_steps: usize) -> impl Strategy<Value = Case> {
	let closure = prop_oneof![
		1 => Just(Closure::None),
		6 => (any::<u16>(), any::<bool>(), proptest::bool::weighted(0.6)).prop_map(|(chan, by_observed, tell_peer)| Closure::Force { chan, by_observed, tell_peer }),
	];
	let scenario = (
		world_spec(vec![Topology::Pair, Topology::Pair, Topology::Line3, Topology::Line3, Topology::Line3]),
		proptest::collection::vec(op_strategy(prefix_weights()), 6..26),
		prop_oneof![Just(0x8000u16), any::<u16>()],
		closure,
		prop_oneof![3 => proptest::collection::vec(step_strat(), 4..max_steps).boxed(), 2 => patterned_script().boxed()],
	)
		.prop_map(|(spec, prefix, observed, closure, script)| Scenario { spec, prefix, observed, closure, script });
	let plans = (prop_oneof![styled_plan().boxed(), mixed_plan().boxed()], proptest::option::weighted(0.5, mixed_plan()), proptest::option::weighted(0.55, reload_plan()), linear_plan()).prop_map(|(a, b, r, c)| {
		let mut v = vec![a];
		if let Some(b) = b {
			v.push(b);
		}
		if let Some(r) = r {
			v.push(r);
		}
		v.push(c);
		v
	});
	(scenario, plans).prop_map(|(sc, plans)| Case { sc, plans })
}

fn dump(title: &str, r: &Runner) {
	println!("==== {} : chain client calls ====", title);
	for l in r.calls() {
		println!("{}", l);
	}
	println!("==== {} : history ====\n{}", title, r.history());
}

/// development aid only (never set by `./check`): C11_DEV_TOLERATE=claimdrop turns the finding reported for this
/// property into a label so that the rest of the domain can be explored
fn dev_tolerate(what: &str) -> bool {
	std::env::var("C11_DEV_TOLERATE").map(|v| v.split(',').any(|t| t == what)).unwrap_or(false)
}

/// VERIF_DEBUG_FOREIGN=1 (or a comma separated subset of locktime,othernode,stalepkg,outofdomain) lets the panics
/// that are normally only labelled fail the case, to obtain a replay file for the owning property
fn debug_foreign(kind: &str) -> bool {
	std::env::var("VERIF_DEBUG_FOREIGN").map(|v| v == "1" || v.split(',').any(|t| t == kind)).unwrap_or(false)
}

type Panic = Box<dyn std::any::Any + Send>;

fn guarded<T>(f: impl FnOnce() -> T) -> Result<T, Panic> {
	std::panic::catch_unwind(std::panic::AssertUnwindSafe(f))
}

/// A panic inside the library fails the case (the runner turns it into `panic@file:line`), except for the test
/// broadcaster's own tripwire "never broadcast a transaction before its locktime": that is a statement about
/// the validity / timing of broadcasts (C07/C08), it fires when a reorg moves the tip back below an HTLC expiry
/// for which a timeout claim had already been generated, and says nothing about delivery equivalence.
fn on_panic(p: Panic, ctx: &mut Ctx, title: &str, r: &Runner, debug: bool) -> CaseResult {
	let lp = take_last_panic();
	let locktime = lp.as_ref().map(|(m, _)| m.contains("never broadcast a transaction before its locktime")).unwrap_or(false);
	// a panic while one of the *other* nodes (always told every block in one fixed style) handles a block or a
	// message is not a statement about how the observed node was told about the chain
	let other_node = !observed_node_active();
	if debug {
		dump(title, r);
	}
	let stalepkg = lp.as_ref().map(|(m, l)| l.contains("onchaintx.rs") && m.contains("self.pending_claim_requests.get(&claim_id).is_none()")).unwrap_or(false);
	if stalepkg && !debug_foreign("stalepkg") {
		// OnchainTxHandler keeps the delayed (locktimed) claim package of a commitment that was reorganised out and
		// parks a second one when it confirms again; at the HTLC expiry both become the same claim and a
		// debug_assert on the duplicate claim id fires. In release builds the second claim simply replaces the first,
		// so this is not a wrong conclusion by itself; the state after the panic is unusable, the case ends here.
		ctx.label("library-debug-assert:onchaintx-duplicate-claim-after-reorg");
		return Ok(());
	}
	if !locktime && !other_node && r.buried_tx_unburied() && !debug_foreign("outofdomain") {
		// A channel transaction that had ANTI_REORG_DELAY confirmations on the chain the node was told was
		// reorganised out (fork depth = delay, transaction in the first replaced block): the library had
		// legitimately drawn irreversible conclusions; what it does when the chain then contradicts them (e.g. a
		// conflicting commitment confirms) is outside the property ("reorgs deeper than the delay")
		ctx.label("out-of-domain:panic-after-buried-tx-was-reorged-out");
		return Ok(());
	}
	if (locktime && !debug_foreign("locktime")) || (!locktime && other_node && !debug_foreign("othernode")) {
		let loc = lp.as_ref().map(|(_, l)| l.rsplit('/').next().unwrap_or("").to_string()).unwrap_or_default();
		ctx.label(&if locktime { "foreign-failure:C07:broadcast-before-locktime-after-reorg".to_string() } else { format!("foreign-failure:panic-in-unobserved-node@{}", loc) });
		return Ok(());
	}
	set_last_panic(lp);
	std::panic::resume_unwind(p)
}

fn oracle(c: &Case, ctx: &mut Ctx) -> CaseResult {
	let debug = ctx.replay;
	let t_all = std::time::Instant::now();
	// replica 0 executes the script and records the block tree
	let mut r0 = Runner::setup(&c.sc, debug);
	let fp0 = r0.fingerprint().to_string();
	let built = match guarded(|| r0.build(&c.sc)) {
		Ok(x) => x,
		Err(p) => return on_panic(p, ctx, "replica 0 (panicked)", &r0, debug),
	};
	let trace = match built {
		Ok(t) => t,
		Err(f) => {
			if debug {
				dump("replica 0 (plain Listen, builds the chain)", &r0);
			}
			return Err(f);
		},
	};
	if debug {
		println!("PROF replica 0: {:?} events {}", r0.prof, trace.evs.len());
	}
	let out0 = r0.finish_out();
	let mut outs: Vec<RunOut> = vec![];
	let mut compared = 0u64;
	let mut compared_after_reorg = 0u64;
	let mut outcome_labels: Vec<String> = vec![];
	for (pi, plan) in c.plans.iter().enumerate() {
		let mut r = Runner::setup(&c.sc, debug);
		if r.fingerprint() != fp0 {
			// the scripted transactions must exist identically in every replica; LDK's randomised hash maps can
			// make two executions of the same prefix differ - such a case says nothing about C11
			ctx.label("replica-divergence-in-prefix");
			ctx.discard();
			return Ok(());
		}
		let followed = match guarded(|| r.follow(&trace, plan)) {
			Ok(x) => x,
			Err(p) => {
				if debug {
					println!("plan of replica {}: {:?}", pi + 1, plan);
				}
				return on_panic(p, ctx, &format!("replica {} (panicked)", pi + 1), &r, debug);
			},
		};
		if let Err(f) = followed {
			if debug {
				println!("plan of replica {}: {:?}", pi + 1, plan);
				dump(&format!("replica {}", pi + 1), &r);
			}
			return Err(f);
		}
		if debug {
			println!("PROF replica {}: {:?}", pi + 1, r.prof);
		}
		let out = r.finish_out();
		if debug {
			for (idx, s) in out.snaps.iter() {
				println!("replica {} after event {}: tip {} know {:?} pursued {:?} htlc {:?} balances {:?}", pi + 1, idx, s.tip, s.know, s.pursued, s.htlc, s.balances);
				if let Some(s0) = out0.snaps.get(idx) {
					println!("replica 0 after event {}: tip {} know {:?} pursued {:?} htlc {:?} balances {:?}", idx, s0.tip, s0.know, s0.pursued, s0.htlc, s0.balances);
				}
			}
		}
		// (a)/(c): equal conclusions wherever this replica and replica 0 had been told the same best chain
		for (idx, s) in out.snaps.iter() {
			let Some(s0) = out0.snaps.get(idx) else { continue };
			match compare(s0, s) {
				Ok(kind) => {
					outcome_labels.push(format!("compare:{}", kind));
					if kind == "peer-divergence" {
						break;
					}
					compared += 1;
					if trace.first_relevant_reorg.map(|r| *idx > r).unwrap_or(false) {
						compared_after_reorg += 1;
					}
				},
				Err((mut view, detail)) => {
					if view == "harness-tip" {
						return Err(Failure::new("harness-error", detail));
					}
					if view == "pursued-claims/claim-against-spent-output" && dev_tolerate("staleclaim") {
						outcome_labels.push(format!("dev-tolerated:{}", view));
						break;
					}
					if view == "pursued-claims/dropped-by-second" && dev_tolerate("claimdrop") {
						outcome_labels.push(format!("dev-tolerated:{}", view));
						break;
					}
					if view == "pursued-claims/dropped-by-first" {
						// which claims did the replica that saw more stop pursuing?
						let missing: Vec<&String> = s.pursued.iter().filter(|p| !s0.pursued.contains(p)).collect();
						if missing.iter().all(|m| out0.own_commitments.iter().any(|c| m.starts_with(c.as_str()))) {
							view.push_str(":output-of-own-commitment");
						}
						if dev_tolerate("claimdrop") {
							outcome_labels.push(format!("dev-tolerated:{}", view));
							break;
						}
					}
					if debug {
						println!("plan of replica {}: {:?}", pi + 1, plan);
						println!("replica 0 at event {}: {:#?}", idx, s0);
						println!("replica {} at event {}: {:#?}", pi + 1, idx, s);
						println!("==== replica {} : chain client calls ====", pi + 1);
						for l in out.calls.iter() {
							println!("{}", l);
						}
					}
					let only_final = plan.final_only;
					return Err(Failure::new(
						"equivalence",
						format!(
							"after trace event {} of {} (tip {}) replica {} ({}; modes {:?}) and replica 0 (plain block_connected / blocks_disconnected) were told the same best chain but conclude differently: {}",
							idx,
							trace.evs.len(),
							s.tip,
							pi + 1,
							if only_final { "only ever told the final chain" } else { "told the forks as its plan says" },
							out.modes,
							detail
						),
					)
					.with_key(format!("equivalence/{}", view)));
				},
			}
		}
		outs.push(out);
	}
	if debug {
		println!("PROF total {:?}", t_all.elapsed());
	}
	// labels
	ctx.label(match c.sc.spec.topo {
		Topology::Pair => "topo:pair",
		_ => "topo:line3",
	});
	ctx.label(&format!("type:{:?}", c.sc.spec.ctype));
	ctx.label(&format!("closure:{}", out0.closure));
	ctx.label_if(out0.pending_at_script_start > 0, "htlcs-pending-at-script-start");
	ctx.label_if(out0.tracked > 0, "outbound-htlc-committed-at-script-start");
	ctx.label_if(trace.reorgs > 0, "reorg");
	ctx.label_if(trace.relevant_removed > 0, "reorg-removes-channel-tx");
	ctx.label_if(trace.max_depth == 6, "fork-depth-6");
	ctx.label_if(trace.conflicts_mined > 0, "competing-branch-has-conflicting-tx");
	ctx.label_if(trace.dropped > 0, "competing-branch-drops-tx");
	ctx.label_if(trace.txs_mined > 0, "channel-txs-mined");
	let mut all_labels: std::collections::BTreeSet<String> = out0.labels.clone();
	let mut mode_sets: std::collections::BTreeSet<Vec<String>> = std::collections::BTreeSet::new();
	mode_sets.insert(out0.modes.iter().cloned().collect());
	let mut st = (out0.stats.failbacks_checked, out0.stats.spendable_checked, out0.stats.balance_forgets_checked, out0.stats.failbacks_near_expiry);
	for o in outs.iter() {
		all_labels.extend(o.labels.iter().cloned());
		mode_sets.insert(o.modes.iter().cloned().collect());
		for m in o.modes.iter() {
			ctx.label(&format!("mode:{}", m));
		}
		st.0 += o.stats.failbacks_checked;
		st.1 += o.stats.spendable_checked;
		st.2 += o.stats.balance_forgets_checked;
		st.3 += o.stats.failbacks_near_expiry;
	}
	for l in all_labels.iter() {
		ctx.label(l);
	}
	outcome_labels.sort();
	outcome_labels.dedup();
	for l in outcome_labels.iter() {
		ctx.label(l);
	}
	ctx.label_if(st.0 > 0, "b1-failback-burial-checked");
	ctx.label_if(st.1 > 0, "b2-spendable-burial-checked");
	ctx.label_if(st.2 > 0, "b3-balance-forget-burial-checked");
	ctx.label_if(compared_after_reorg > 0, "compared-after-relevant-reorg");
	ctx.sub_evaluations(compared + st.0 + st.1 + st.2);
	// non-trivial: a reorg removed a channel transaction, and at least two replicas with genuinely different
	// delivery plans were compared at a common tip afterwards
	ctx.nontrivial_if(trace.relevant_removed > 0 && compared_after_reorg > 0 && mode_sets.len() >= 2);
	ctx.summary(json!({
		"topo": format!("{:?}", c.sc.spec.topo), "type": format!("{:?}", c.sc.spec.ctype), "closure": out0.closure,
		"trace_events": trace.evs.len(), "blocks": trace.blocks, "reorgs": trace.reorgs, "max_fork_depth": trace.max_depth,
		"channel_txs_removed_by_reorgs": trace.relevant_removed, "txs_mined": trace.txs_mined,
		"replicas": 1 + c.plans.len(), "modes": outs.iter().map(|o| o.modes.iter().cloned().collect::<Vec<_>>()).collect::<Vec<_>>(),
		"snapshots_compared": compared,
	}));
	Ok(())
}

fn main() {
	netsim::rec::tolerate_observations();
	netsim::rec::tolerate_monitor_roundtrip_tripwire();
	let mut c = Check::new("C11", "exploration");
	c.assume("replicas are deterministic re-executions of the whole scenario (same seeds and keys), not restores of one serialized image; a case whose prefix does not reproduce identically (funding / commitment txids, pending HTLCs) is discarded");
	c.assume("the block tree is built once by replica 0 (plain block_connected / blocks_disconnected(fork point)) from the transactions its nodes broadcast, checked by the consensus simulator; every replica is given the identical blocks (competing blocks have distinct hashes), only the observed node's Listen/Confirm call schedule differs; the other nodes always see every block in one fixed ConnectStyle");
	c.assume("conclusions are compared only between replicas that hold the same knowledge beyond the current best chain: a replica that was shown a counterparty commitment only in a losing fork, was told a higher block than the current tip (the library fails HTLCs back / closes channels / matures CSV outputs from the height alone), received a claim close to an HTLC expiry while its view lagged, or saw a channel transaction reach ANTI_REORG_DELAY confirmations that later lost them, is compared on best block only; a preimage shown only in a losing fork limits the comparison to best block, relevant txids, spendable outputs and (two-node worlds) claim sets");
	c.assume("ClosureReason classes are not compared (HTLCsTimedOut vs CommitmentTxConfirmed depends on the call schedule), transient broadcasts are not compared; the set of outputs being claimed is probed with ChainMonitor::rebroadcast_pending_claims at common tips, restricted to outputs that exist on the told chain, excluding wallet fee inputs, and not right after a bare disconnection (time-driven claims are re-derived with the next block)");
	c.assume("burial oracle (b): fail-backs are checked for HTLCs the node had fully committed outbound when the script starts, not failed by the peer off-chain, and not within LATENCY_GRACE_PERIOD_BLOCKS of the inbound expiry (documented early fail-back); the HTLC output of a payment hash is recognised from witness scripts revealed by any transaction seen (contains RIPEMD160(payment_hash))");
	c.assume("reorgs never reach the channel-establishment blocks (funding is never unconfirmed); a delivery plan may reload the observed node between two trace events (manager and monitors written, read back and installed as they are, peers reconnected, nothing re-told about the chain: the chain client simply carries on, possibly in another style) - a reloaded replica's event-derived views are compared as sets because a restarted node may repeat an event; manager-before-monitor call order is generated as a legal schedule");
	c.assume("library panics that are not C11 verdicts are labelled, not failed: the test broadcaster's broadcast-before-locktime tripwire (C07), debug assertions in a node other than the observed one, the OnchainTxHandler duplicate-claim-id debug assertion after a commitment was reorganised out and re-confirmed (benign in release), and any panic after a transaction that had ANTI_REORG_DELAY confirmations was reorganised out (outside the property)");
	c.set_case_timeout_secs(240);
	c.part_with(
		PartSpec {
			name: "delivery-equivalence",
			rule: "pair / line-of-3 worlds, traffic leaving pending HTLCs, force close by either side (told or silent) or none, chain script of mined candidate sets, runs of empty blocks, jumps to HTLC expiries, late claims and forks of depth 1..6 whose competing branch re-mines / delays / replaces by a conflicting spend / drops each removed transaction; 3-4 replicas: plain Listen, the eleven ConnectStyles switched per step, Confirm/Listen mixes (filtered, duplicated, split, best-block first or skipped, per-tx unconfirm, fork-point disconnect in one or several calls, lagging), in about half of the cases one whose node is reloaded from its own serialized manager and monitors after 30-60 % of the trace events with the style changing across the reloads, and one that only ever sees the final chain. Non-trivial: a reorg removed >=1 channel transaction and replicas with different call schedules were compared at a common tip afterwards",
			quick_cases: 800,
			thorough_cases: 24_000,
			max_shrink: 40,
		},
		|| strat(13),
		oracle,
	);
	c.finish();
}
