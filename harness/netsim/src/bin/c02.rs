//! C02 — a forwarding node never loses money on an HTLC it forwards.
use netsim::ext_c02::*;
use netsim::ops::*;
use netsim::oracle_commit::*;
use netsim::rec::install_recording_signer;
use netsim::sim::*;
use proptest::prelude::*;
use serde::{Deserialize, Serialize};
use serde_json::json;
use vcore::*;

#[derive(Clone, Debug, Serialize, Deserialize)]
struct Case {
	spec: WorldSpec,
	ops: Vec<COp>,
	/// at the final settle a payment the recipient still holds is claimed (true) or failed back
	resolutions: Vec<bool>,
}

fn offchain_weights() -> CWeights {
	CWeights {
		fwd: 12,
		fwd_ready: 18,
		claim: 8,
		fail: 5,
		deliver: 40,
		flush: 3,
		events: 12,
		forwards: 12,
		pump: 6,
		disconnect: 4,
		reconnect: 8,
		timer: 1,
		async_b: 10,
		complete_b: 14,
		snapshot_b: 8,
		restart_b: 2,
		force_close: 0,
		mine: 2,
		mine_to: 0,
		claim_then: 12,
		close_then_claim: 0,
		claim_then_close: false,
	}
}

fn onchain_weights() -> CWeights {
	CWeights { force_close: 3, mine: 10, mine_to: 6, deliver: 30, fwd: 8, fwd_ready: 24, claim_then: 8, close_then_claim: 14, claim_then_close: true, ..offchain_weights() }
}

fn topologies() -> Vec<Topology> {
	vec![Topology::Line3, Topology::Line3, Topology::Line3, Topology::Line4, Topology::Line3Parallel]
}

fn strat(w: CWeights, min_ops: usize, max_ops: usize) -> impl Strategy<Value = Case> {
	(world_spec(topologies()), proptest::bool::weighted(0.7), proptest::collection::vec(cop_strategy(w), min_ops..max_ops), proptest::collection::vec(proptest::bool::weighted(0.75), 1..6)).prop_map(
		|(mut spec, roomy, ops, resolutions)| {
			if roomy {
				// most worlds leave room for forwarding; the rest keep the tight generated limits (refusals)
				spec.dust_exposure_fixed_msat = None;
				spec.dust_exposure_multiplier = spec.dust_exposure_multiplier.max(10_000);
				spec.inflight_pct = 100;
				spec.max_accepted = spec.max_accepted.max(20);
				spec.htlc_min_msat = spec.htlc_min_msat.min(1000);
				spec.reserve_ppm = spec.reserve_ppm.min(20_000);
				for v in spec.value_sat.iter_mut() {
					*v = (*v).max(100_000);
				}
			}
			Case { spec, ops, resolutions }
		},
	)
}

fn cpu_ms() -> u64 {
	let mut ts = libc::timespec { tv_sec: 0, tv_nsec: 0 };
	unsafe { libc::clock_gettime(libc::CLOCK_THREAD_CPUTIME_ID, &mut ts) };
	ts.tv_sec as u64 * 1000 + ts.tv_nsec as u64 / 1_000_000
}

thread_local! {
	static PHASES: std::cell::RefCell<[u64; 4]> = std::cell::RefCell::new([0; 4]);
}

fn oracle(c: &Case, ctx: &mut Ctx) -> CaseResult {
	let t0 = std::time::Instant::now();
	let c0 = cpu_ms();
	let mut sim = c.spec.build(false);
	let t1 = t0.elapsed();
	// a panic inside the library is a failure of the case (the runner records it); print the history first
	let mut r = match std::panic::catch_unwind(std::panic::AssertUnwindSafe(|| oracle_inner(c, ctx, &mut sim))) {
		Ok(r) => r,
		Err(payload) => {
			if ctx.replay {
				println!("==== history (panicked) ====\n{}", dump_history(&sim));
			}
			// give the library's own contract assertions a key that does not depend on a line number
			let (msg, loc) = vcore::take_last_panic().unwrap_or_default();
			if msg.contains("returned Completed while prior updates are still InProgress") {
				Err(Failure::new("panic", format!("panic at {}: {}", loc, msg)).with_key("panic/update-completed-while-prior-in-flight"))
			} else {
				vcore::set_last_panic(Some((msg, loc)));
				std::panic::resume_unwind(payload)
			}
		},
	};
	// development aids (never set by ./check): timing report, and exclusion of failure keys under triage
	if std::env::var("VERIF_C02_TIMING").is_ok() {
		let ph = PHASES.with(|p| *p.borrow());
		vcore::report(&format!("[cpu] total {} build {} ops {} settle {} finish {} blocks {} ops {}", cpu_ms() - c0, ph[0].saturating_sub(c0), ph[1] - ph[0], ph[2] - ph[1], ph[3] - ph[2], sim.chain.height(), c.ops.len()));
	}
	if std::env::var("VERIF_C02_TIMING").is_ok() && t0.elapsed().as_millis() > 1500 {
		vcore::report(&format!("[timing] case took {} ms (build {} ms), {} ops, height {}, pending: {}", t0.elapsed().as_millis(), t1.as_millis(), c.ops.len(), sim.chain.height(), sim.c02_chain_work_desc().chars().take(400).collect::<String>()));
	}
	if let (Err(f), Ok(ex)) = (&r, std::env::var("VERIF_C02_EXCLUDE")) {
		if ex.split(',').any(|k| k == f.key) {
			ctx.label(&format!("excluded-under-triage:{}", f.key));
			r = Ok(());
		}
	}
	if ctx.replay && (r.is_err() || std::env::var("VERIF_C02_TRACE").is_ok()) {
		println!("==== history ====\n{}", dump_history(&sim));
	}
	r
}

fn foreign(ctx: &mut Ctx, prop: &str, f: Failure) -> CaseResult {
	ctx.label(&format!("foreign-failure:{}:{}", prop, f.oracle));
	if std::env::var("VERIF_DEBUG_FOREIGN").is_ok() {
		return Err(f);
	}
	Ok(())
}

fn oracle_inner(c: &Case, ctx: &mut Ctx, sim: &mut Sim) -> CaseResult {
	PHASES.with(|p| p.borrow_mut()[0] = cpu_ms());
	sim.snapshot_manager(B);
	let mut co = CommitOracle::new(sim);
	co.allow_force_close = true;
	let mut fo = FwdOracle::new(sim);
	let mut tags: Vec<&'static str> = vec![];
	for op in c.ops.iter() {
		let tag = apply_c02(sim, &c.spec, op);
		tags.push(tag);
		if tag == "restart-failed" {
			// a restart from legally persisted state that does not deserialize is C10's verdict
			return foreign(ctx, "C10", Failure::new("restart-deserialization", format!("{:?}", sim.last_restart_error)));
		}
		fo.step(sim)?;
		if let Err(f) = co.step(sim) {
			return foreign(ctx, "C01", f);
		}
	}
	if ctx.replay {
		println!("==== ops applied: {:?}", tags);
	}
	PHASES.with(|p| p.borrow_mut()[1] = cpu_ms());
	let (quiet, mined) = sim.c02_settle(c.spec.deferred, &c.resolutions, 700);
	fo.step(sim)?;
	if let Err(f) = co.step(sim) {
		return foreign(ctx, "C01", f);
	}
	if let Some(e) = &fo.model_error {
		ctx.label("model-lost-track");
		if std::env::var("VERIF_DEBUG_FOREIGN").is_ok() {
			return Err(Failure::new("bolt2-model", e.clone()));
		}
	}
	PHASES.with(|p| p.borrow_mut()[2] = cpu_ms());
	if quiet {
		fo.finish(sim, &c.spec)?;
	} else {
		ctx.label("not-quiescent");
	}
	PHASES.with(|p| p.borrow_mut()[3] = cpu_ms());
	let st = fo.stats.clone();
	let dist = fo.disturbed_fulfilled(sim);
	ctx.label(match c.spec.topo {
		Topology::Line4 => "topo:line4",
		Topology::Line3Parallel => "topo:line3-parallel",
		_ => "topo:line3",
	});
	ctx.label(match c.spec.ctype {
		CType::Static => "type:static_remote_key",
		CType::Anchors => "type:anchors_zero_fee_htlc",
		CType::ZeroFee => "type:zero_fee_commitments",
	});
	for t in ["claim-then", "close-then-claim", "mine-to-expiry", "force-close", "send-refused"] {
		ctx.label_if(tags.contains(&t), &format!("op:{}", t));
	}
	ctx.label_if(st.forwarded > 0, "forwarded");
	ctx.label_if(st.refused_forwards > 0, "forward-refused-and-failed-back");
	ctx.label_if(st.fee_edge[0] > 0, "forwarded-at-exact-policy-fee");
	ctx.label_if(st.delta_edge[0] > 0, "forwarded-at-exact-policy-delta");
	ctx.label_if(st.learned_msg > 0, "preimage-learned-by-message");
	ctx.label_if(st.learned_chain > 0, "preimage-learned-from-chain");
	ctx.label_if(st.up_fulfilled_msg > 0, "upstream-fulfilled-by-message");
	ctx.label_if(st.up_fulfilled_chain > 0, "upstream-claimed-on-chain");
	ctx.label_if(st.up_failed_after_offchain_removal > 0, "upstream-failed-after-offchain-removal");
	ctx.label_if(st.up_failed_after_onchain > 0, "upstream-failed-after-onchain-resolution");
	ctx.label_if(st.fee_events_checked > 0, "payment-forwarded-fee-checked");
	ctx.label_if(st.restarts_b > 0, "restarted-B");
	ctx.label_if(st.chans_onchain > 0, "channel-resolved-on-chain");
	ctx.label_if(st.dust_forfeits > 0, "upstream-dust-forfeited");
	ctx.label_if(dist[1] > 0, "disturbance:async-update-in-flight-at-fulfil");
	ctx.label_if(dist[2] > 0, "disturbance:disconnect");
	ctx.label_if(dist[3] > 0, "disturbance:restart");
	ctx.label_if(dist[4] > 0, "disturbance:on-chain");
	ctx.label_if(c.spec.deferred, "deferred-chain-monitor");
	ctx.label_if(mined > 0, "settle-mined-blocks");
	if quiet && !st.ledger.is_empty() {
		ctx.label(&format!("ledger:{}", st.ledger));
	}
	ctx.sub_evaluations(st.admission_checks + st.learned_msg + st.learned_chain + st.up_failed_after_offchain_removal + st.up_failed_after_onchain);
	ctx.nontrivial_if(dist[0] > 0);
	ctx.summary(json!({"topo": format!("{:?}", c.spec.topo), "type": format!("{:?}", c.spec.ctype), "ops": tags, "forwarded": st.forwarded, "refused": st.refused_forwards, "learned": st.learned_msg + st.learned_chain, "blocks_in_settle": mined, "ledger": st.ledger}));
	Ok(())
}

const RULE_TAIL: &str = "Oracles per forwarded HTLC pair (matched by payment hash on B's two links): (a) admission against the policy B advertises for the outgoing channel (fee, cltv_expiry_delta, expiry buffer, next hop's limits), refused forwards are failed back and reported; (b) once B learned the preimage (update_fulfill_htlc on an open channel, or a mined downstream preimage spend) the upstream HTLC ends fulfilled (message committed, or preimage spend of the upstream HTLC output) in the continuation driven to quiescence with uncensored mining; (c) an upstream update_fail_htlc is preceded by the downstream HTLC's irrevocable removal by failure (BOLT-2 model) or by an on-chain resolution without preimage buried ANTI_REORG_DELAY deep; (d) crash points: restarts of B from durable monitor images and any earlier manager snapshot, after which (b) must still hold; (e) B's msat total over its channels (model balances; on chain: monitor reports + spendable outputs + fees) is not below the start, PaymentForwarded fees equal amt_in - amt_out. Non-trivial: a forward whose downstream side was fulfilled and an async update in flight at B at that time, a disconnect, a restart of B, or an on-chain resolution of either link happened before the upstream resolution";

fn main() {
	install_recording_signer();
	let mut c = Check::new("C02", "exploration");
	c.assume("peers of B are unmodified LDK nodes that stay up; messages are delivered FIFO per direction, individually, at generated times");
	c.assume("Persist follows its documented contract (InProgress at any time, completion in any order, back to synchronous only when nothing is in flight); a restart uses the durable (or latest written) monitor images and any manager snapshot taken earlier");
	c.assume("the chain is not censored: every block contains everything in the mempool valid for it, blocks reach every node at once, no reorgs; every node handles its events after each block (anchor claims are broadcast then)");
	c.assume("the forwarder's documented expiry buffer is LATENCY_GRACE_PERIOD_BLOCKS = 3 beyond the next block height; ANTI_REORG_DELAY = 6");
	c.assume("trampoline, intercepted and phantom forwards, fee updates and channel config updates are not generated; all channels of a world share one forwarding policy");
	c.part_with(
		PartSpec {
			name: "forward-offchain",
			rule: &format!("line A-B-C (also A-B-C-D and two parallel B-C channels), generated world; 12..N operations: sends through B in both directions with the hop fee (-1/0/+1 msat) and CLTV delta (-1/0/+1) around B's policy, final CLTV deltas around the expiry buffer, amounts around the next hop's minimum / B's outbound limit / dust thresholds; claims and failures by the recipient; individual message deliveries, forwards, events; asynchronous persistence on B's channels with any completion order; disconnects; manager snapshots and restarts of B. {}", RULE_TAIL),
			quick_cases: 2200,
			thorough_cases: 70_000,
			max_shrink: 500,
		},
		|| strat(offchain_weights(), 12, 60),
		oracle,
	);
	c.part_with(
		PartSpec {
			name: "forward-onchain",
			rule: &format!("as forward-offchain plus force closes of either link by either end, uncensored mining (conflicting candidates in either order), and mining up to the downstream / upstream expiry of a forwarded HTLC -8..+8 blocks (the next hop claims before, at or after the timeout, or never). {}", RULE_TAIL),
			quick_cases: 1400,
			thorough_cases: 45_000,
			max_shrink: 500,
		},
		|| strat(onchain_weights(), 12, 50),
		oracle,
	);
	c.finish();
}
