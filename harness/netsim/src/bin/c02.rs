//! C02 — a forwarding node never loses money on an HTLC it forwards.
use netsim::ext_c02::*;
use netsim::ops::*;
use netsim::oracle_commit::*;
use netsim::rec::install_recording_signer;
use netsim::sim::*;
use proptest::prelude::*;
use serde::{Deserialize, Serialize};
use serde_json::json;
use vcore::*;

#[derive(Clone, Debug, Serialize, Deserialize)]
struct Case {
	spec: WorldSpec,
	ops: Vec<COp>,
	/// at the final settle a payment the recipient still holds is claimed (true) or failed back
	resolutions: Vec<bool>,
}

fn offchain_weights() -> CWeights {
	CWeights {
		fwd: 12,
		fwd_ready: 18,
		claim: 8,
		fail: 5,
		deliver: 40,
		flush: 3,
		events: 12,
		forwards: 12,
		pump: 6,
		disconnect: 4,
		reconnect: 8,
		timer: 1,
		async_b: 10,
		complete_b: 14,
		snapshot_b: 8,
		config_b: 3,
		restart_b: 2,
		force_close: 0,
		mine: 2,
		mine_to: 0,
		claim_then: 12,
		close_then_claim: 0,
		claim_then_close: false,
	}
}

fn onchain_weights() -> CWeights {
	CWeights { force_close: 3, mine: 10, mine_to: 6, deliver: 30, fwd: 8, fwd_ready: 24, claim_then: 8, close_then_claim: 14, claim_then_close: true, ..offchain_weights() }
}

fn topologies() -> Vec<Topology> {
	vec![Topology::Line3, Topology::Line3, Topology::Line3, Topology::Line4, Topology::Line3Parallel]
}

fn strat(w: CWeights, min_ops: usize, max_ops: usize) -> impl Strategy<Value = Case> {
	(
		world_spec(topologies()),
		proptest::bool::weighted(0.7),
		proptest::collection::vec(cop_strategy(w), min_ops..max_ops),
		proptest::collection::vec(proptest::bool::weighted(0.75), 1..6),
		// one case in twelve starts with two forwards that arrive over B's two parallel channels and leave over
		// the same third channel, are fulfilled back to back with both inbound preimage updates in flight, and
		// only one of those updates is completed before the generated operations continue
		(proptest::bool::weighted(0.085), 15_000_000u64..40_000_000, 15_000_000u64..40_000_000, 1u8..3, 1u8..4, any::<u16>()),
		// one case in fourteen: B's manager is written by another thread right after B decoded the onion of a
		// committed inbound HTLC and queued it for forwarding (first half of process_pending_htlc_forwards); B then
		// forwards, the HTLC is committed downstream, and B later restarts from that write
		(proptest::bool::weighted(0.07), 2_000_000u64..30_000_000, any::<bool>(), proptest::bool::weighted(0.5), 0u8..4),
	)
		.prop_map(|(mut spec, roomy, ops, resolutions, (two, a1, a2, k1, k2, which), (queued, qa, landed, claim_first, extra))| {
			if queued && !two {
				spec.dust_exposure_fixed_msat = None;
				spec.dust_exposure_multiplier = spec.dust_exposure_multiplier.max(10_000);
				spec.inflight_pct = 100;
				spec.max_accepted = spec.max_accepted.max(20);
				spec.htlc_min_msat = spec.htlc_min_msat.min(1000);
				spec.reserve_ppm = spec.reserve_ppm.min(20_000);
				for v in spec.value_sat.iter_mut() {
					*v = (*v).max(200_000);
				}
				let mut head = vec![
					COp::Fwd(FwdSend { route: 0, amt: FwdAmt::Base(Amt::Abs(qa)), fee_adj: 0, delta_adj: 0, final_delta: 70, use_prev: 0 }),
					COp::Flush,
					COp::Base(Op::DecodeAdds { node: 30_000 }),
					COp::SnapshotB,
					COp::Base(Op::Forwards { node: 30_000 }),
					COp::Flush,
				];
				let mut it = ops.into_iter();
				head.extend(it.by_ref().take(extra as usize));
				if claim_first {
					head.push(COp::ClaimThen { pay: 0, k: 1, then: Disturb::None });
				}
				head.push(COp::RestartB { snap: 0, landed });
				head.extend(it.take(14));
				return Case { spec, ops: head, resolutions };
			}
			if roomy || two {
				// most worlds leave room for forwarding; the rest keep the tight generated limits (refusals)
				spec.dust_exposure_fixed_msat = None;
				spec.dust_exposure_multiplier = spec.dust_exposure_multiplier.max(10_000);
				spec.inflight_pct = 100;
				spec.max_accepted = spec.max_accepted.max(20);
				spec.htlc_min_msat = spec.htlc_min_msat.min(1000);
				spec.reserve_ppm = spec.reserve_ppm.min(20_000);
				for v in spec.value_sat.iter_mut() {
					*v = (*v).max(100_000);
				}
			}
			if two {
				spec.topo = Topology::Line3Parallel;
				spec.value_sat = vec![spec.value_sat[0].max(300_000)];
				let send = |route: u16, amt: u64| COp::FwdReady(FwdSend { route, amt: FwdAmt::Base(Amt::Abs(amt)), fee_adj: 0, delta_adj: 0, final_delta: 70, use_prev: 0 });
				// routes 2 and 3 (of 4) of a Line3Parallel world: node 2 -> node 0 over channel 1 resp. channel 2, then channel 0
				let mut head = vec![
					send(40_000, a1),
					send(60_000, a2),
					COp::ClaimThen { pay: 0, k: k1, then: Disturb::AsyncUp },
					COp::ClaimThen { pay: 65535, k: k2, then: Disturb::AsyncUp },
					// (the next hop can only send the second fulfil once B has answered the first commitment_signed)
					COp::Pump,
					COp::CompleteB { which },
					COp::Pump,
				];
				head.extend(ops.into_iter().take(12));
				return Case { spec, ops: head, resolutions };
			}
			Case { spec, ops, resolutions }
		})
}

/// What one executed history looked like (for labels / non-triviality).
#[derive(Default)]
struct Outcome {
	tags: Vec<&'static str>,
	stats: FwdStats,
	dist: [u64; 5],
	quiet: bool,
	mined: u32,
	/// the case ended early because another property's oracle fired: (property, oracle)
	foreign: Option<(String, String)>,
	model_lost: bool,
	durability_checks: u64,
}

/// Run `ops` on a fresh world, step the oracles after every operation, settle, run the final checks.
/// A panic inside the library is a failure of the case; the known ones get line-independent keys.
fn run(spec: &WorldSpec, ops: &[COp], resolutions: &[bool], ctx: &mut Ctx) -> Result<Outcome, Failure> {
	let mut sim = spec.build(false);
	let r = match std::panic::catch_unwind(std::panic::AssertUnwindSafe(|| run_inner(spec, ops, resolutions, ctx, &mut sim))) {
		Ok(r) => r,
		Err(payload) => {
			if ctx.replay {
				println!("==== history (panicked) ====\n{}", dump_history(&sim));
			}
			let (msg, loc) = vcore::take_last_panic().unwrap_or_default();
			if msg.contains("returned Completed while prior updates are still InProgress") && reload_with_landed_writes(&sim) {
				Err(Failure::new("panic", format!("panic at {}: {}", loc, msg)).with_key("panic/update-completed-while-prior-in-flight"))
			} else if msg.contains("Attempted to apply ChannelMonitorUpdates out of order") && restarted_b(&sim) {
				// sibling of the known reload panic: a blocked update of one channel is released by another channel's
				// completion before the channel's own in-flight updates were replayed
				Err(Failure::new("panic", format!("panic at {}: {}", loc, msg)).with_key("panic/monitor-update-out-of-order-after-reload"))
			} else if let Some(key) = netsim::ext_c10::classify_id_reuse_panic(&sim, &msg) {
				// listed root cause (see the C10 entry): a blocked monitor update in the manager snapshot shares its
				// id with a later unblocked update and is dropped on a stale reload
				Err(Failure::new("panic", format!("panic at {}: {}", loc, msg)).with_key(key))
			} else if msg.contains("self.pending_claim_requests.get(&claim_id).is_none()") {
				// OnchainTxHandler registered two claims with one id (debug assertion)
				Err(Failure::new("panic", format!("panic at {}: {}", loc, msg)).with_key("panic/onchaintx-duplicate-claim-id"))
			} else {
				vcore::set_last_panic(Some((msg, loc)));
				std::panic::resume_unwind(payload)
			}
		},
	};
	if ctx.replay && (r.is_err() || std::env::var("VERIF_C02_TRACE").is_ok()) {
		println!("==== history ====\n{}", dump_history(&sim));
	}
	r
}

/// Condition of the known reload panic: B was restarted from monitor images that contain writes which were
/// still in flight (InProgress) when it stopped, and since that restart no Persist call of B answered InProgress.
fn reload_with_landed_writes(sim: &Sim) -> bool {
	use netsim::rec::{hist_since, HEvent};
	let Some((rs, ids)) = sim.log.iter().rev().find_map(|(s, e)| match e {
		SEvent::Restart { node, ok: true, monitor_ids, .. } if *node == B => Some((*s, monitor_ids.clone())),
		_ => None,
	}) else {
		return false;
	};
	let mut inflight: std::collections::BTreeSet<(lightning::ln::types::ChannelId, u64)> = Default::default();
	let mut in_progress_after = false;
	for (s, e) in hist_since(0) {
		match e {
			HEvent::PersistUpdate { node, chan, update_id: Some(id), in_progress: true, .. } if node == B => {
				if s < rs {
					inflight.insert((chan, id));
				} else {
					in_progress_after = true;
				}
			},
			HEvent::PersistCompleted { node, chan, update_id } if node == B && s < rs => {
				inflight.remove(&(chan, update_id));
			},
			_ => {},
		}
	}
	let landed = inflight.iter().any(|(c, id)| ids.iter().any(|(c2, used)| c2 == c && *id <= *used));
	landed && !in_progress_after
}

fn restarted_b(sim: &Sim) -> bool {
	sim.log.iter().any(|(_, e)| matches!(e, SEvent::Restart { node, ok: true, .. } if *node == B))
}

fn run_inner(spec: &WorldSpec, ops: &[COp], resolutions: &[bool], ctx: &mut Ctx, sim: &mut Sim) -> Result<Outcome, Failure> {
	let mut out = Outcome::default();
	sim.snapshot_manager(B);
	let mut co = CommitOracle::new(sim);
	co.allow_force_close = true;
	let mut fo = FwdOracle::new(sim);
	let debug_foreign = std::env::var("VERIF_DEBUG_FOREIGN").is_ok();
	for op in ops.iter() {
		let tag = apply_c02(sim, spec, op);
		out.tags.push(tag);
		if tag == "restart-failed" {
			// a restart from legally persisted state that does not deserialize is C10's verdict
			let f = Failure::new("restart-deserialization", format!("{:?}", sim.last_restart_error));
			if debug_foreign {
				return Err(f);
			}
			out.foreign = Some(("C10".into(), f.oracle));
			return Ok(out);
		}
		fo.step(sim).map_err(|f| fo.qualify_lost_commitment(sim, f))?;
		if let Err(f) = co.step(sim) {
			if debug_foreign {
				return Err(f);
			}
			out.foreign = Some(("C01".into(), f.oracle));
			return Ok(out);
		}
	}
	if ctx.replay {
		println!("==== ops applied: {:?}", out.tags);
	}
	let (quiet, mined) = sim.c02_settle(spec.deferred, resolutions, 700);
	out.quiet = quiet;
	out.mined = mined;
	fo.step(sim).map_err(|f| fo.qualify_lost_commitment(sim, f))?;
	if let Err(f) = co.step(sim) {
		if debug_foreign {
			return Err(f);
		}
		out.foreign = Some(("C01".into(), f.oracle));
		return Ok(out);
	}
	if let Some(e) = &fo.model_error {
		out.model_lost = true;
		if debug_foreign {
			return Err(Failure::new("bolt2-model", e.clone()));
		}
	}
	if quiet {
		fo.finish(sim, spec).map_err(|f| fo.qualify_lost_commitment(sim, f))?;
	}
	out.stats = fo.stats.clone();
	out.durability_checks = fo.durability_checks;
	out.dist = fo.disturbed_fulfilled(sim);
	Ok(out)
}

fn world_labels(spec: &WorldSpec, ctx: &mut Ctx) {
	ctx.label(match spec.topo {
		Topology::Line4 => "topo:line4",
		Topology::Line3Parallel => "topo:line3-parallel",
		_ => "topo:line3",
	});
	ctx.label(match spec.ctype {
		CType::Static => "type:static_remote_key",
		CType::Anchors => "type:anchors_zero_fee_htlc",
		CType::ZeroFee => "type:zero_fee_commitments",
	});
	ctx.label_if(spec.deferred, "deferred-chain-monitor");
}

fn outcome_label_list(o: &Outcome) -> Vec<String> {
	let mut v: Vec<String> = vec![];
	let mut add = |c: bool, l: &str| {
		if c {
			v.push(l.to_string());
		}
	};
	if let Some((p, k)) = &o.foreign {
		add(true, &format!("foreign-failure:{}:{}", p, k));
		return v;
	}
	let st = &o.stats;
	for t in ["claim-then", "close-then-claim", "mine-to-expiry", "force-close", "send-refused"] {
		add(o.tags.contains(&t), &format!("op:{}", t));
	}
	add(o.model_lost, "model-lost-track");
	add(!o.quiet, "not-quiescent");
	add(st.forwarded > 0, "forwarded");
	add(st.refused_forwards > 0, "forward-refused-and-failed-back");
	add(st.fee_edge[0] > 0, "forwarded-at-exact-policy-fee");
	add(st.delta_edge[0] > 0, "forwarded-at-exact-policy-delta");
	add(st.learned_msg > 0, "preimage-learned-by-message");
	add(st.learned_chain > 0, "preimage-learned-from-chain");
	add(st.up_fulfilled_msg > 0, "upstream-fulfilled-by-message");
	add(st.up_fulfilled_chain > 0, "upstream-claimed-on-chain");
	add(st.up_failed_after_offchain_removal > 0, "upstream-failed-after-offchain-removal");
	add(st.up_failed_after_onchain > 0, "upstream-failed-after-onchain-resolution");
	add(st.fee_events_checked > 0, "payment-forwarded-fee-checked");
	add(st.restarts_b > 0, "restarted-B");
	add(st.chans_onchain > 0, "channel-resolved-on-chain");
	add(st.dust_forfeits > 0, "upstream-dust-forfeited");
	add(o.durability_checks > 0, "durability-order-checked");
	add(st.knowledge_lost > 0, "preimage-lost-in-crash-before-durable");
	add(st.reforwards_after_undelivered > 0, "re-forward-after-undelivered-add-on-closed-channel");
	add(st.non_strict_forwards > 0, "forwarded-over-another-channel-to-the-same-peer");
	add(st.config_updates > 0, "forwarding-policy-changed");
	add(st.admissions_after_config_update > 0, "forward-admitted-after-a-policy-change");
	add(st.refused_forward_still_pending > 0, "obs:unforwarded-htlc-still-pending-after-restarts");
	add(o.dist[1] > 0, "disturbance:async-update-in-flight-at-fulfil");
	add(o.dist[2] > 0, "disturbance:disconnect");
	add(o.dist[3] > 0, "disturbance:restart");
	add(o.dist[4] > 0, "disturbance:on-chain");
	add(o.mined > 0, "settle-mined-blocks");
	add(o.quiet && !st.ledger.is_empty(), &format!("ledger:{}", st.ledger));
	v
}

fn outcome_labels(o: &Outcome, ctx: &mut Ctx) {
	for l in outcome_label_list(o) {
		ctx.label(&l);
	}
}

fn oracle(c: &Case, ctx: &mut Ctx) -> CaseResult {
	let o = run(&c.spec, &c.ops, &c.resolutions, ctx)?;
	world_labels(&c.spec, ctx);
	outcome_labels(&o, ctx);
	let st = &o.stats;
	ctx.sub_evaluations(st.admission_checks + st.learned_msg + st.learned_chain + st.up_failed_after_offchain_removal + st.up_failed_after_onchain);
	ctx.nontrivial_if(o.dist[0] > 0);
	ctx.summary(json!({"topo": format!("{:?}", c.spec.topo), "type": format!("{:?}", c.spec.ctype), "ops": o.tags, "forwarded": st.forwarded, "refused": st.refused_forwards, "learned": st.learned_msg + st.learned_chain, "blocks_in_settle": o.mined, "ledger": st.ledger}));
	Ok(())
}

// ------------------------------------------------------------------------------------------------
// (d) crash points: one short flow, B crashed and restarted after every prefix of it
// ------------------------------------------------------------------------------------------------

#[derive(Clone, Debug, Serialize, Deserialize)]
struct CrashCase {
	spec: WorldSpec,
	/// payments brought to the recipient, persistence modes
	setup: Vec<COp>,
	/// the flow around the recipient's claim, in atomic steps
	steps: Vec<COp>,
	/// crash after every prefix of `steps` (otherwise after the prefixes picked by `points`)
	all_points: bool,
	points: Vec<u16>,
	/// per crash: which manager snapshot (0 = newest) and whether in-flight monitor writes had landed
	snaps: Vec<u16>,
	landed: Vec<bool>,
	resolutions: Vec<bool>,
}

fn exact_send() -> impl Strategy<Value = FwdSend> + Clone {
	(any::<u16>(), prop_oneof![3 => (1_000_000u64..40_000_000).prop_map(Amt::Abs), 1 => amt_strategy()]).prop_map(|(route, a)| FwdSend { route, amt: FwdAmt::Base(a), fee_adj: 0, delta_adj: 0, final_delta: 70, use_prev: 0 })
}

fn crash_strat() -> impl Strategy<Value = CrashCase> {
	let setup_op = prop_oneof![
		5 => exact_send().prop_map(COp::FwdReady),
		2 => (any::<u16>(), Just(true)).prop_map(|(chan, on)| COp::AsyncB { chan, on }),
		1 => Just(COp::SnapshotB),
		1 => Just(COp::CompleteAllB),
	];
	let atomic = prop_oneof![
		40 => any::<u16>().prop_map(|link| COp::Deliver { link, k: 1 }),
		14 => any::<u16>().prop_map(|which| COp::CompleteB { which }),
		10 => Just(COp::SnapshotB),
		6 => Just(COp::Base(Op::Forwards { node: 30000 })),
		6 => any::<u16>().prop_map(|node| COp::Base(Op::Events { node })),
		4 => (any::<u16>(), 1u8..3, prop_oneof![Just(Disturb::None), Just(Disturb::AsyncUp), Just(Disturb::AsyncDown), Just(Disturb::AsyncBoth)]).prop_map(|(pay, k, then)| COp::ClaimThen { pay, k, then }),
		2 => any::<u16>().prop_map(|pay| COp::Base(Op::FailBack { pay })),
		2 => (any::<u16>(), any::<bool>()).prop_map(|(chan, on)| COp::AsyncB { chan, on }),
		2 => any::<u16>().prop_map(|pair| COp::Base(Op::Disconnect { pair })),
		3 => any::<u16>().prop_map(|pair| COp::Base(Op::Reconnect { pair })),
		// on-chain continuations inside the crash flows: a link of a held payment is closed and the recipient
		// claims on chain; blocks pass (the closed channel's monitor may be fully resolved before the crash)
		4 => (any::<u16>(), proptest::bool::weighted(0.7), any::<bool>(), 0u8..4, proptest::bool::weighted(0.85)).prop_map(|(pay, downstream, by_b, blocks, claim)| COp::CloseThenClaim { pay, downstream, by_b, blocks, claim }),
		6 => (1u8..9, any::<bool>()).prop_map(|(blocks, reverse)| COp::Mine { blocks, reverse }),
	];
	(
		world_spec(vec![Topology::Line3, Topology::Line3, Topology::Line3Parallel, Topology::Line4]),
		proptest::collection::vec(setup_op, 2..6),
		(any::<u16>(), 1u8..3, prop_oneof![Just(Disturb::None), Just(Disturb::AsyncUp), Just(Disturb::AsyncDown), Just(Disturb::AsyncBoth)]),
		proptest::collection::vec(atomic, 3..22),
		(proptest::bool::weighted(0.3), proptest::collection::vec(any::<u16>(), 3..7)),
		proptest::collection::vec(prop_oneof![3 => Just(0u16), 1 => Just(20000u16), 1 => any::<u16>()], 1..5),
		proptest::collection::vec(proptest::bool::weighted(0.3), 1..5),
		proptest::collection::vec(proptest::bool::weighted(0.8), 1..4),
		// a third of the flows continue on chain in a fixed order with generated parameters: a link of a held
		// payment is closed, the recipient claims there, blocks pass in two runs (the second long enough for the
		// closed channel's monitor to be fully resolved) with a few atomic steps in between
		(
			proptest::bool::weighted(0.34),
			(any::<u16>(), proptest::bool::weighted(0.8), any::<bool>(), 0u8..4, proptest::bool::weighted(0.9)),
			(1u8..5, 3u8..10, any::<bool>()),
			any::<u16>(),
			// half of those flows carry a single payment (then the closed channel's monitor has nothing else
			// pending and can become fully resolved) and skip the off-chain claim that otherwise opens the flow
			any::<bool>(),
		),
	)
		.prop_map(|(mut spec, mut setup, (pay, k, then), mut steps, (all_points, points), snaps, landed, resolutions, (onchain_tail, (cpay, downstream, by_b, blocks, claim), (m1, m2, reverse), async_chan, solo))| {
			let solo = onchain_tail && solo;
			if onchain_tail {
				if solo {
					setup.retain(|op| !matches!(op, COp::FwdReady(_)));
				}
				setup.insert(0, COp::ChainSyncAsyncB);
				let keep = steps.len().min(8);
				let mut tail: Vec<COp> = steps.drain(..keep).collect();
				let cut = tail.len() / 2;
				let second: Vec<COp> = tail.split_off(cut);
				steps = vec![COp::AsyncB { chan: async_chan, on: true }, COp::CloseThenClaim { pay: cpay, downstream, by_b, blocks, claim }, COp::Mine { blocks: m1, reverse }];
				steps.extend(tail);
				steps.push(COp::Mine { blocks: m2, reverse: false });
				steps.extend(second);
			}
			// room for forwarding, and a snapshot that is not older than the payments' arrival at the recipient
			spec.dust_exposure_fixed_msat = None;
			spec.dust_exposure_multiplier = spec.dust_exposure_multiplier.max(10_000);
			spec.inflight_pct = 100;
			spec.max_accepted = spec.max_accepted.max(20);
			spec.htlc_min_msat = spec.htlc_min_msat.min(1000);
			spec.reserve_ppm = spec.reserve_ppm.min(20_000);
			for v in spec.value_sat.iter_mut() {
				*v = (*v).max(200_000);
			}
			setup.push(COp::FwdReady(FwdSend { route: pay, amt: FwdAmt::Base(Amt::Abs(6_000_000)), fee_adj: 0, delta_adj: 0, final_delta: 70, use_prev: 0 }));
			setup.push(COp::SnapshotB);
			if !solo {
				steps.insert(0, COp::ClaimThen { pay, k, then });
			}
			CrashCase { spec, setup, steps, all_points, points, snaps, landed, resolutions }
		})
}

fn crash_oracle(c: &CrashCase, ctx: &mut Ctx) -> CaseResult {
	let n = c.steps.len();
	let mut positions: Vec<usize> = if c.all_points { (0..=n).collect() } else { c.points.iter().map(|p| pick(*p, n + 1)).collect() };
	positions.sort();
	positions.dedup();
	world_labels(&c.spec, ctx);
	let mut any_window = false;
	let mut agg: std::collections::BTreeSet<String> = Default::default();
	let mut evals = 0;
	for (i, pos) in positions.iter().enumerate() {
		let mut ops: Vec<COp> = c.setup.clone();
		ops.extend(c.steps[..*pos].iter().cloned());
		ops.push(COp::RestartB { snap: c.snaps[i % c.snaps.len()], landed: c.landed[i % c.landed.len()] });
		let o = run(&c.spec, &ops, &c.resolutions, ctx).map_err(|mut f| {
			f.detail = format!("[crash after step {} of {}, snapshot choice {}, landed {}] {}", pos, n, c.snaps[i % c.snaps.len()], c.landed[i % c.landed.len()], f.detail);
			f
		})?;
		evals += 1;
		// labels of the sub-runs are merged (one count per case)
		for l in outcome_label_list(&o) {
			agg.insert(l);
		}
		any_window |= o.dist[3] > 0;
	}
	for l in agg {
		ctx.label(&l);
	}
	ctx.label_if(c.all_points, "all-crash-points");
	ctx.sub_evaluations(evals);
	ctx.nontrivial_if(any_window);
	ctx.summary(json!({"topo": format!("{:?}", c.spec.topo), "type": format!("{:?}", c.spec.ctype), "steps": n, "crash_points": positions}));
	Ok(())
}

const RULE_TAIL: &str = "Oracles per forwarded HTLC pair (matched by payment hash on B's two links): (a) admission against the policy B advertises for the outgoing channel (fee, cltv_expiry_delta, expiry buffer, next hop's limits), refused forwards are failed back and reported; (b) once B learned the preimage (update_fulfill_htlc on an open channel, or a mined downstream preimage spend) the upstream HTLC ends fulfilled (message committed, or preimage spend of the upstream HTLC output) in the continuation driven to quiescence with uncensored mining; (c) an upstream update_fail_htlc is preceded by the downstream HTLC's irrevocable removal by failure (BOLT-2 model) or by an on-chain resolution without preimage buried ANTI_REORG_DELAY deep; (d) crash points: restarts of B from durable monitor images and any earlier manager snapshot, after which (b) must still hold; (e) B's msat total over its channels (model balances; on chain: monitor reports + spendable outputs + fees) is not below the start, PaymentForwarded fees equal amt_in - amt_out. Non-trivial: a forward whose downstream side was fulfilled and an async update in flight at B at that time, a disconnect, a restart of B, or an on-chain resolution of either link happened before the upstream resolution";

fn main() {
	install_recording_signer();
	netsim::rec::tolerate_monitor_roundtrip_tripwire();
	let mut c = Check::new("C02", "exploration");
	c.assume("peers of B are unmodified LDK nodes that stay up; messages are delivered FIFO per direction, individually, at generated times");
	c.assume("Persist follows its documented contract (InProgress at any time, completion in any order, back to synchronous only when nothing is in flight); a restart uses the durable (or latest written) monitor images and any manager snapshot taken earlier");
	c.assume("the chain is not censored: every block contains everything in the mempool valid for it, blocks reach every node at once, no reorgs; every node handles its events after each block (anchor claims are broadcast then)");
	c.assume("the forwarder's documented expiry buffer is LATENCY_GRACE_PERIOD_BLOCKS = 3 beyond the next block height; ANTI_REORG_DELAY = 6");
	c.assume("trampoline, intercepted and phantom forwards, fee updates and channel config updates are not generated; all channels of a world share one forwarding policy");
	c.assume("a preimage B learned by message counts as known only while it survives: after a crash it must be in the manager snapshot used (taken after it was learned) or in a monitor image used, otherwise B has to learn it again (retransmission or chain)");
	c.assume("the transport drops a bogus channel_reestablish (commitment numbers 0/0) for a channel neither end has any more: two LDK nodes that both closed a channel otherwise answer each other forever");
	c.assume("the irrevocable-removal and balance model is an independent BOLT-2 model instance (netsim::model::ChanModel) driven by the observed wire messages; CommitOracle runs alongside as a tripwire (foreign-failure:C01:* labels)");
	c.part_with(
		PartSpec {
			name: "forward-offchain",
			rule: &format!("line A-B-C (also A-B-C-D and two parallel B-C channels), generated world; 12..N operations: sends through B in both directions with the hop fee (-1/0/+1 msat) and CLTV delta (-1/0/+1) around B's policy, final CLTV deltas around the expiry buffer, amounts around the next hop's minimum / B's outbound limit / dust thresholds; claims and failures by the recipient; individual message deliveries, forwards, events; asynchronous persistence on B's channels with any completion order; disconnects; manager snapshots and restarts of B. {}", RULE_TAIL),
			quick_cases: 1800,
			thorough_cases: 70_000,
			max_shrink: 500,
		},
		|| strat(offchain_weights(), 12, 60),
		oracle,
	);
	c.part_with(
		PartSpec {
			name: "forward-onchain",
			rule: &format!("as forward-offchain plus force closes of either link by either end, uncensored mining (conflicting candidates in either order), and mining up to the downstream / upstream expiry of a forwarded HTLC -8..+8 blocks (the next hop claims before, at or after the timeout, or never). {}", RULE_TAIL),
			quick_cases: 1100,
			thorough_cases: 45_000,
			max_shrink: 500,
		},
		|| strat(onchain_weights(), 12, 50),
		oracle,
	);
	c.part_with(
		PartSpec {
			name: "crash-points",
			rule: &format!("fault enumeration over the crash point: roomy line worlds; setup brings 1-5 exact-policy payments through B to the recipient (some of B's channels persisting asynchronously) and ends with a manager snapshot; the flow starts with the recipient's claim reaching B and continues with 3..21 atomic steps (single message deliveries, single update completions, snapshots, forwards, events, further claims/failures, disconnects); B is crashed after every prefix of the flow (30% of the cases) or after 3-6 picked prefixes, restarted from the newest / an older manager snapshot and the durable (or landed) monitor images, and the continuation is driven to quiescence under all oracles. {} Non-trivial: in at least one crash the restart fell between B learning a preimage and the upstream resolution", RULE_TAIL),
			quick_cases: 220,
			thorough_cases: 9_000,
			max_shrink: 300,
		},
		crash_strat,
		crash_oracle,
	);
	c.finish();
}
