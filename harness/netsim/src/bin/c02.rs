//! C02 — a forwarding node never loses money on an HTLC it forwards. (stub, being built)
fn main() {}
