//! C03 — every outbound payment reaches a truthful terminal outcome (work in progress).
fn main() {}
