//! C03 — every outbound payment reaches a truthful terminal outcome.
use netsim::ext_c03::*;
use netsim::ops::*;
use netsim::oracle_commit::dump_history;
use netsim::rec::install_recording_signer;
use netsim::sim::*;
use proptest::prelude::*;
use serde::{Deserialize, Serialize};
use serde_json::json;
use vcore::*;

#[derive(Clone, Debug, Serialize, Deserialize)]
struct Case {
	spec: WorldSpec,
	ops: Vec<XOp>,
	/// per claimable payment at the end: 0-2 claim, 3-4 fail back, 5 ignore until it times out
	final_choices: Vec<u8>,
}

fn base_weights(chain: bool) -> OpWeights {
	OpWeights {
		claim: 9,
		fail: 4,
		deliver: 16,
		flush: 2,
		events: 8,
		forwards: 6,
		disconnect: 2,
		reconnect: 5,
		timer: 3,
		setfee: 2,
		async_toggle: 1,
		complete: 4,
		pump: 7,
		force_close: if chain { 1 } else { 0 },
		mine: if chain { 2 } else { 0 },
		..OpWeights::zero()
	}
}

fn weights(chain: bool, restart: bool) -> XWeights {
	XWeights {
		base: base_weights(chain),
		send_route: 9,
		underpay: 2,
		mpp: 6,
		router: 5,
		keysend: 3,
		dup: 3,
		abandon: 2,
		async_s: 3,
		interrupt: 5,
		snapshot: if restart { 5 } else { 0 },
		restart: if restart { 3 } else { 0 },
		resolve_cut: 10,
		mine_many: if chain { 1 } else { 0 },
		timer_s: 3,
	}
}

fn spec_strategy() -> impl Strategy<Value = WorldSpec> {
	world_spec(vec![Topology::Pair, Topology::Pair, Topology::Line3, Topology::Line3, Topology::Line3, Topology::Line4, Topology::Diamond, Topology::Diamond, Topology::Diamond, Topology::Line3Parallel]).prop_map(|mut s| {
		// short forwarding deltas keep the horizon at which every HTLC has timed out within a few hundred blocks
		s.cltv_delta = 72 + (s.cltv_delta - 72) % 12;
		s
	})
}

fn strat(max_ops: usize, chain: bool, restart: bool) -> impl Strategy<Value = Case> {
	(spec_strategy(), proptest::collection::vec(xop_strategy(weights(chain, restart)), 8..max_ops), proptest::collection::vec(0u8..6, 4)).prop_map(|(spec, ops, final_choices)| Case { spec, ops, final_choices })
}

/// The sender (channel funder with little balance) raises its fee twice, queues a payment at its send limit behind the
/// second, still unacknowledged update, switches to asynchronous persistence and lets the peer's answers arrive while
/// a monitor update is in flight: the queued HTLC is released outside the revoke_and_ack handler and may no longer be
/// affordable. Delivery counts and amounts are generated around that shape.
fn held_release_template() -> impl Strategy<Value = Case> {
	(
		world_spec(vec![Topology::Pair]),
		(1u32..400, 1u32..400, 900u16..992),
		proptest::collection::vec(prop_oneof![4 => Just(Amt::LimitMinus(0)), 1 => Just(Amt::LimitMinus(1)), 1 => (0u16..u16::MAX).prop_map(Amt::Frac)], 1..3),
		proptest::collection::vec(1u8..=2, 5),
		proptest::bool::weighted(0.85),
		proptest::collection::vec(xop_strategy(weights(false, false)), 0..10),
		proptest::collection::vec(0u8..6, 4),
	)
		.prop_map(|(mut spec, (d1, d2, push), amts, ks, async_on, tail, final_choices)| {
			spec.push_permille = vec![push];
			spec.value_sat = vec![spec.value_sat[0].clamp(60_000, 300_000)];
			spec.deferred = false;
			spec.node_tweaks = vec![];
			spec.htlc_min_msat = spec.htlc_min_msat.min(1000);
			let r0 = spec.feerate;
			let to_peer = |k: u8| XOp::Base(Op::Deliver { link: 0, k });
			let to_s = |k: u8| XOp::Base(Op::Deliver { link: 65_535, k });
			let mut ops = vec![XOp::Base(Op::SetFee { node: 0, rate: r0 + d1 }), to_peer(2), to_s(ks[0].min(1)), XOp::Base(Op::SetFee { node: 0, rate: r0 + d1 + d2 }), to_peer(ks[1])];
			for a in amts {
				ops.push(XOp::SendRoute { route: 0, amt: a, tweak: 0 });
			}
			if async_on {
				ops.push(XOp::AsyncS { chan: 0, on: true });
			}
			ops.extend([to_s(ks[2]), to_peer(ks[3]), to_s(ks[4]), XOp::Base(Op::CompleteAll { node: 0 }), XOp::Base(Op::Pump), XOp::Base(Op::CompleteAll { node: 0 }), XOp::Base(Op::Pump)]);
			ops.extend(tail);
			Case { spec, ops, final_choices }
		})
}

fn oracle(c: &Case, ctx: &mut Ctx) -> CaseResult {
	let mut sim = c.spec.build(false);
	if let Err(e) = sim.c03_seed_graphs() {
		return Err(Failure::new("harness-graph-seed", e));
	}
	let mut st = C03::new(&mut sim);
	let mut tags: Vec<&'static str> = vec![];
	// a panic inside the library is a failure of the case (the runner records it); in replay mode the history is
	// printed first
	let caught = std::panic::catch_unwind(std::panic::AssertUnwindSafe(|| run(c, ctx, &mut sim, &mut st, &mut tags)));
	let r = match &caught {
		Ok(r) => r.clone(),
		Err(_) => Err(Failure::new("panic", "")),
	};
	if ctx.replay && r.is_err() {
		println!("==== ops ====");
		for (i, (op, t)) in c.ops.iter().zip(tags.iter()).enumerate() {
			println!("{:>3} {:<18} {:?}", i, t, op);
		}
		println!("==== payments ====");
		for (i, m) in st.meta.iter().enumerate() {
			println!("pay#{} {:?} to n{} amt={} api={} send@{} claim@{:?} claimed_ev={} sent@{:?} failed@{:?} absent@{:?} predated={} onchain_claim@{:?}", i, m.kind, m.to, m.amt, m.api, m.send_step, m.claim_step, m.claimed_event, m.sent_obs, m.failed_obs, m.absent_since, m.predated, m.onchain_claim_step);
		}
		println!("restarts (step, snapshot step): {:?}; foreign: {:?}", st.restarts, st.co_dead);
		println!("==== history ====\n{}", dump_history(&sim));
	}
	if let Err(p) = caught {
		std::panic::resume_unwind(p);
	}
	r
}

fn run(c: &Case, ctx: &mut Ctx, sim: &mut Sim, st: &mut C03, tags: &mut Vec<&'static str>) -> CaseResult {
	for op in c.ops.iter() {
		let tag = st.apply(sim, &c.spec, op)?;
		tags.push(tag);
		if tag == "restart-failed" {
			// deserialization of legally persisted state is C10's verdict
			ctx.label("foreign-failure:C10:restart-deserialization");
			return Ok(());
		}
		st.step(sim)?;
	}
	let quiet = st.end_game(sim, &c.final_choices, 420)?;
	st.finish(sim, quiet)?;

	let s = st.stats.clone();
	ctx.label(match c.spec.topo {
		Topology::Pair => "topo:pair",
		Topology::Line3 => "topo:line3",
		Topology::Line4 => "topo:line4",
		Topology::Diamond => "topo:diamond",
		Topology::Line3Parallel => "topo:line3-parallel",
	});
	ctx.label(if quiet { "resolved-and-quiescent" } else { "not-quiescent-at-horizon" });
	if let Some(f) = &st.co_dead {
		ctx.label(&format!("foreign-failure:C01:{}", f));
	}
	for l in s.labels.iter() {
		ctx.label(l);
	}
	for t in ["send-route", "send-underpaid", "send-mpp", "send-router", "send-keysend", "dup-refused", "abandon", "interrupt", "resolve-cut", "restart", "force-close", "mine-many", "async-on"] {
		ctx.label_if(tags.contains(&t), &format!("op:{}", t));
	}
	ctx.label_if(s.sent > 0, "payment-sent");
	ctx.label_if(s.failed > 0, "payment-failed");
	ctx.label_if(s.sends_refused > 0, "send-refused-by-api");
	ctx.label_if(s.path_failed_attributed > 0, "path-failure-attribution-checked");
	ctx.label_if(s.redelivered_removals > 0, "fulfil-or-fail-redelivered-after-reconnect");
	ctx.label_if(s.repeats_after_restart > 0, "terminal-event-repeated-after-restart");
	ctx.label_if(s.stale_restarts > 0, "restart-from-snapshot-predating-a-send");
	ctx.label_if(s.absent_after_restart > 0, "payment-unlisted-after-restart");
	ctx.label_if(s.lost_payments > 0, "payment-lost-by-restart");
	ctx.label_if(s.onchain_claims > 0, "htlc-claimed-on-chain");
	ctx.label_if(s.s_chan_closed, "sender-channel-closed");
	ctx.label_if(s.mixed_mpp > 0, "mpp-sent-with-unfulfilled-part");
	ctx.label_if(s.accounting_exact > 0, "amount-plus-fee-checked-exactly");
	ctx.label_if(s.accounting_overstated > 0, "amount-plus-fee-overstated-after-onchain-loss");
	ctx.label_if(s.balance_checked, "sender-balance-decrease-checked");
	let restart_between = st.meta.iter().any(|m| (!m.sent_obs.is_empty() || !m.failed_obs.is_empty()) && st.restarts.iter().any(|r| r.0 > m.send_step && r.0 < *m.sent_obs.first().or(m.failed_obs.first()).unwrap()));
	ctx.label_if(restart_between, "restart-between-send-and-terminal-event");
	let terminal = s.sent + s.failed > 0;
	ctx.sub_evaluations(s.sent + s.failed + s.path_failed + s.dup_refused);
	ctx.nontrivial_if(terminal && (s.redelivered_removals > 0 || restart_between || s.mixed_mpp > 0 || s.onchain_claims > 0 || (s.s_chan_closed && s.failed > 0)));
	ctx.summary(json!({"topo": format!("{:?}", c.spec.topo), "type": format!("{:?}", c.spec.ctype), "ops": tags, "payments": st.meta.iter().map(|m| format!("{:?}:{}{}", m.kind, if !m.sent_obs.is_empty() { "sent" } else if !m.failed_obs.is_empty() { "failed" } else if m.api_ok { "open" } else { "refused" }, if m.predated { "(restart predates send)" } else { "" })).collect::<Vec<_>>(), "restarts": st.restarts.len()}));
	Ok(())
}

// ------------------------------------------------------------------------------------------------
// exact accounting: one payment in flight at a time, S's balance change measured around each payment
// ------------------------------------------------------------------------------------------------

#[derive(Clone, Debug, Serialize, Deserialize)]
struct Round {
	send: XOp,
	noise: Vec<XOp>,
	/// 0-2 the recipient claims, 3-4 fails back, 5 the sender abandons and the recipient fails back
	outcome: u8,
	cut_at: u8,
	reconnect: bool,
}

#[derive(Clone, Debug, Serialize, Deserialize)]
struct AcctCase {
	spec: WorldSpec,
	rounds: Vec<Round>,
}

fn acct_strat() -> impl Strategy<Value = AcctCase> {
	let send = xop_strategy(XWeights { base: OpWeights::zero(), send_route: 8, underpay: 2, mpp: 6, router: 5, keysend: 3, dup: 0, abandon: 0, async_s: 0, interrupt: 0, snapshot: 0, restart: 0, resolve_cut: 0, mine_many: 0, timer_s: 0 });
	let noise = xop_strategy(XWeights {
		base: OpWeights { deliver: 16, flush: 2, events: 6, forwards: 6, disconnect: 2, reconnect: 4, timer: 3, complete: 4, pump: 4, ..OpWeights::zero() },
		send_route: 0,
		underpay: 0,
		mpp: 0,
		router: 0,
		keysend: 0,
		dup: 2,
		abandon: 0,
		async_s: 3,
		interrupt: 5,
		snapshot: 2,
		restart: 2,
		resolve_cut: 0,
		mine_many: 0,
		timer_s: 2,
	});
	let round = (send, proptest::collection::vec(noise, 0..7), 0u8..6, 0u8..8, proptest::bool::weighted(0.85)).prop_map(|(send, noise, outcome, cut_at, reconnect)| Round { send, noise, outcome, cut_at, reconnect });
	(spec_strategy(), proptest::collection::vec(round, 1..6)).prop_map(|(spec, rounds)| AcctCase { spec, rounds })
}

fn acct_oracle(c: &AcctCase, ctx: &mut Ctx) -> CaseResult {
	let mut sim = c.spec.build(false);
	if let Err(e) = sim.c03_seed_graphs() {
		return Err(Failure::new("harness-graph-seed", e));
	}
	let mut st = C03::new(&mut sim);
	let r = acct_run(c, ctx, &mut sim, &mut st);
	if ctx.replay && r.is_err() {
		println!("==== payments ====");
		for (i, m) in st.meta.iter().enumerate() {
			println!("pay#{} {:?} to n{} amt={} api={} send@{} claim@{:?} sent@{:?} failed@{:?} first_sent={:?}", i, m.kind, m.to, m.amt, m.api, m.send_step, m.claim_step, m.sent_obs, m.failed_obs, m.first_sent);
		}
		println!("restarts (step, snapshot step): {:?}; foreign: {:?}", st.restarts, st.co_dead);
		println!("==== history ====\n{}", dump_history(&sim));
	}
	r
}

fn acct_run(c: &AcctCase, ctx: &mut Ctx, sim: &mut Sim, st: &mut C03) -> CaseResult {
	let mut measured = 0u64;
	let mut measured_sent = 0u64;
	let mut measured_failed = 0u64;
	let mut disturbed = 0u64;
	let mut stopped = false;
	for r in c.rounds.iter() {
		// a quiescent world with nothing in flight and all of S's channels alive
		let quiet = sim.c03_settle(30);
		st.step(sim)?;
		let clean = |sim: &Sim| sim.w.nodes[S].node.list_channels().iter().all(|d| d.pending_outbound_htlcs.is_empty() && d.pending_inbound_htlcs.is_empty());
		let Some(before) = sim.c03_s_capacity() else {
			stopped = true;
			break;
		};
		if !quiet || !clean(sim) {
			stopped = true;
			break;
		}
		let n_before = st.meta.len();
		let tag = st.apply(sim, &c.spec, &r.send)?;
		st.step(sim)?;
		if st.meta.len() == n_before {
			ctx.label(&format!("round-skipped:{}", tag));
			continue;
		}
		let idx = n_before;
		let mut round_disturbed = false;
		for op in r.noise.iter() {
			let t = st.apply(sim, &c.spec, op)?;
			if t == "restart-failed" {
				ctx.label("foreign-failure:C10:restart-deserialization");
				return Ok(());
			}
			round_disturbed |= matches!(t, "disconnect" | "interrupt" | "restart" | "async-on");
			st.step(sim)?;
		}
		// let the payment reach the recipient, then resolve it as generated
		if r.outcome == 5 {
			st.apply(sim, &c.spec, &XOp::Abandon { pay: 0 })?;
		}
		let t = st.apply(sim, &c.spec, &XOp::ResolveCut { pay: 0, claim: r.outcome <= 2, cut_at: r.cut_at, reconnect: r.reconnect })?;
		round_disturbed |= t == "resolve-cut";
		st.step(sim)?;
		let quiet = sim.c03_settle(40);
		st.step(sim)?;
		// a payment that is still claimable (the cut came first) is resolved now
		if sim.pays[idx].state == PayState::Claimable {
			if r.outcome <= 2 {
				sim.claim(idx);
			} else {
				sim.fail_back(idx);
			}
			sim.c03_settle(40);
			st.step(sim)?;
		}
		let Some(after) = sim.c03_s_capacity() else {
			stopped = true;
			break;
		};
		if !quiet || !clean(sim) {
			stopped = true;
			break;
		}
		let m = &st.meta[idx];
		let sent = !m.sent_obs.is_empty();
		let failed = !m.failed_obs.is_empty();
		let detail = format!("pay#{} ({:?}, api {}): S's outbound capacity {} -> {} msat, PaymentSent {:?} (amount, fee), PaymentFailed at {:?}", idx, m.kind, m.api, before, after, m.first_sent, m.failed_obs);
		if sent {
			// (a) the balances fell by exactly the amount plus the reported fee
			let (a, f) = m.first_sent.unwrap();
			let (Some(a), Some(f)) = (a, f) else {
				return Err(Failure::new("payment-sent-untruthful", format!("PaymentSent without amount or fee: {}", detail)).with_key("payment-sent-untruthful/amount-or-fee-missing"));
			};
			if before < after || before - after != a + f {
				return Err(Failure::new("payment-sent-untruthful", format!("S's balance fell by {} msat but PaymentSent reported amount + fee = {} msat: {}", before as i128 - after as i128, a + f, detail)).with_key("payment-sent-untruthful/balance-decrease"));
			}
			measured_sent += 1;
		} else {
			// (c) a payment that failed (or never left, or was lost by a restart) leaves the balances whole
			if before != after {
				return Err(Failure::new("balance-not-whole", format!("the payment did not succeed but S's balance changed by {} msat: {}", after as i128 - before as i128, detail)).with_key(if failed { "balance-not-whole/after-payment-failed" } else { "balance-not-whole/no-terminal-event" }));
			}
			if failed {
				measured_failed += 1;
			}
		}
		measured += 1;
		if round_disturbed {
			disturbed += 1;
		}
	}
	let quiet = st.end_game(sim, &[0, 3, 0, 3], 420)?;
	st.finish(sim, quiet)?;
	let s = st.stats.clone();
	ctx.label_if(stopped, "stopped:not-quiescent-or-channel-closed");
	ctx.label_if(measured_sent > 0, "balance-decrease-equals-amount-plus-fee");
	ctx.label_if(measured_failed > 0, "balance-whole-after-payment-failed");
	ctx.label_if(s.redelivered_removals > 0, "fulfil-or-fail-redelivered-after-reconnect");
	ctx.label_if(s.restarts > 0, "restart");
	ctx.label_if(s.path_failed_attributed > 0, "path-failure-attribution-checked");
	for k in [Kind::Route, Kind::Underpay, Kind::Mpp, Kind::Router, Kind::Keysend] {
		ctx.label_if(st.meta.iter().any(|m| m.kind == k && !m.sent_obs.is_empty()), &format!("sent:{:?}", k));
		ctx.label_if(st.meta.iter().any(|m| m.kind == k && !m.failed_obs.is_empty()), &format!("failed:{:?}", k));
	}
	if let Some(f) = &st.co_dead {
		ctx.label(&format!("foreign-failure:C01:{}", f));
	}
	ctx.sub_evaluations(measured);
	ctx.nontrivial_if(measured > 0 && disturbed > 0);
	ctx.summary(json!({"topo": format!("{:?}", c.spec.topo), "rounds": c.rounds.len(), "measured": measured, "sent": measured_sent, "failed": measured_failed, "disturbed_rounds": disturbed}));
	Ok(())
}

fn main() {
	install_recording_signer();
	netsim::rec::tolerate_monitor_roundtrip_tripwire();
	let mut c = Check::new("C03", "exploration");
	c.assume("all nodes are unmodified LDK nodes; the sender S (node 0) funds its channels and is the only payer; messages are delivered FIFO per direction, individually, at generated times");
	c.assume("restarts of S use any ChannelManager snapshot taken earlier in the run (stale managers are legal per the ChannelManager persistence docs) with, per channel, the durable or the latest written ChannelMonitor image");
	c.assume("PaymentSent.amount_msat + fee_paid_msat is compared with the HTLC amounts S actually had fulfilled; when a channel anywhere on the way was closed with a part in flight the library documents that the event may overstate (a forwarder or the recipient forfeited a dust HTLC) and only 'not understated' is checked");
	c.assume("R-level liveness (recipient's PaymentClaimed => PaymentSent) is asserted only when no channel was closed during the run; with closures only S's own HTLCs decide (fulfil irrevocably committed at S, or the peer's on-chain preimage claim of S's HTLC output confirmed => PaymentSent)");
	c.assume("'handled and persisted' = a manager snapshot written after the event was handled was used for the restart together with monitor images containing every update that was in flight when it was written; a copy still queued in the snapshot plus the copy the reloaded manager regenerates from its monitors (same first event batch) is a permitted repeat");
	c.assume("'eventually' is decided at a bounded end game (settle, resolve claimable payments by generated choice, mine up to 420 blocks); runs that do not reach quiescence with chain resolution complete are labelled, not flagged");
	let thorough = c.tier() == Tier::Thorough;
	let max_ops = if thorough { 70 } else { 45 };
	c.part_with(
		PartSpec {
			name: "lifecycle",
			rule: "random world (pair, line of 3/4, diamond, parallel channels; all channel types and parameters of netsim's world_spec; forwarding cltv deltas 72..83) + 8..N generated operations: S pays by explicit single path, explicit multi-path route (2-4 parts), the real router with Retry::Attempts(0..3) (with and without MPP), keysend, underpaying routes a forwarder must fail; duplicate-id sends, abandon_payment; recipients claim / fail back / ignore until timeout; single-message delivery, disconnect / reconnect at every point of the removal dance (ResolveCut, Interrupt), asynchronous persistence at S with generated completion order, manager snapshots and restarts of S from any earlier snapshot with durable or latest-written monitors, force closes by any node, block mining with generated inclusion, timer ticks, fee changes by the channel funder; one case in ten follows a template (funder with little balance raises its fee twice, queues a payment at its send limit behind the unacknowledged second update, persists asynchronously, the peer's answers arrive while a monitor update is in flight); then a bounded end game (settle, resolve claimable payments by generated choice, mine until nothing of S is in flight). Oracles (a)-(g) of the design over S's events, list_recent_payments, API results, wire-level HTLC tracking and the BOLT-2 model. Non-trivial: a terminal event was reached and the history has a fulfil/fail redelivered after reconnection, a restart of S between send and terminal event, an MPP with mixed part outcomes, or an on-chain resolution of one of S's HTLCs",
			quick_cases: 1400,
			thorough_cases: 36_000,
			max_shrink: 300,
		},
		move || prop_oneof![9 => strat(max_ops, true, true).boxed(), 1 => held_release_template().boxed()],
		oracle,
	);
	c.part_with(
		PartSpec {
			name: "exact-accounting",
			rule: "same worlds; 1..5 rounds, each: settle to quiescence, read S's balances (sum of outbound_capacity_msat over its channels), send ONE payment (any kind), 0..6 disturbance operations (single deliveries, disconnect / reconnect, interrupt, asynchronous persistence, snapshot / restart of S, duplicate-id send, timer ticks), the recipient claims or fails back (optionally after abandon_payment) with the removal dance cut after 0..7 messages and resumed after reconnection, settle, read the balances again: PaymentSent => decrease == amount_msat + fee_paid_msat exactly; otherwise the balances are unchanged; exactly one terminal event. A round ends the case when a channel of S closed or quiescence was not reached. Non-trivial: >=1 measured payment whose round contained a disconnect, restart, cut or asynchronous update",
			quick_cases: 400,
			thorough_cases: 10_000,
			max_shrink: 300,
		},
		acct_strat,
		acct_oracle,
	);
	c.finish();
}
