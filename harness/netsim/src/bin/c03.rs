//! C03 — every outbound payment reaches a truthful terminal outcome.
use netsim::ext_c03::*;
use netsim::ops::*;
use netsim::oracle_commit::dump_history;
use netsim::rec::install_recording_signer;
use netsim::sim::*;
use proptest::prelude::*;
use serde::{Deserialize, Serialize};
use serde_json::json;
use vcore::*;

#[derive(Clone, Debug, Serialize, Deserialize)]
struct Case {
	spec: WorldSpec,
	ops: Vec<XOp>,
	/// per claimable payment at the end: 0-2 claim, 3-4 fail back, 5 ignore until it times out
	final_choices: Vec<u8>,
}

fn base_weights(chain: bool) -> OpWeights {
	OpWeights {
		claim: 9,
		fail: 4,
		deliver: 16,
		flush: 2,
		events: 8,
		forwards: 6,
		disconnect: 2,
		reconnect: 5,
		timer: 3,
		async_toggle: 1,
		complete: 4,
		pump: 7,
		force_close: if chain { 1 } else { 0 },
		mine: if chain { 2 } else { 0 },
		..OpWeights::zero()
	}
}

fn weights(chain: bool, restart: bool) -> XWeights {
	XWeights {
		base: base_weights(chain),
		send_route: 9,
		underpay: 2,
		mpp: 6,
		router: 5,
		keysend: 3,
		dup: 3,
		abandon: 2,
		async_s: 3,
		interrupt: 5,
		snapshot: if restart { 5 } else { 0 },
		restart: if restart { 3 } else { 0 },
		resolve_cut: 10,
		mine_many: if chain { 1 } else { 0 },
	}
}

fn spec_strategy() -> impl Strategy<Value = WorldSpec> {
	world_spec(vec![Topology::Pair, Topology::Pair, Topology::Line3, Topology::Line3, Topology::Line3, Topology::Line4, Topology::Diamond, Topology::Diamond, Topology::Diamond, Topology::Line3Parallel]).prop_map(|mut s| {
		// short forwarding deltas keep the horizon at which every HTLC has timed out within a few hundred blocks
		s.cltv_delta = 72 + (s.cltv_delta - 72) % 12;
		s
	})
}

fn strat(max_ops: usize, chain: bool, restart: bool) -> impl Strategy<Value = Case> {
	(spec_strategy(), proptest::collection::vec(xop_strategy(weights(chain, restart)), 8..max_ops), proptest::collection::vec(0u8..6, 4)).prop_map(|(spec, ops, final_choices)| Case { spec, ops, final_choices })
}

fn oracle(c: &Case, ctx: &mut Ctx) -> CaseResult {
	let t0 = std::time::Instant::now();
	let mut sim = c.spec.build(false);
	dbg_line(&format!("TIMING build {} ms", t0.elapsed().as_millis()));
	if let Err(e) = sim.c03_seed_graphs() {
		return Err(Failure::new("harness-graph-seed", e));
	}
	let mut st = C03::new(&mut sim);
	let mut tags: Vec<&'static str> = vec![];
	let r = run(c, ctx, &mut sim, &mut st, &mut tags);
	if ctx.replay && r.is_err() {
		println!("==== ops ====");
		for (i, (op, t)) in c.ops.iter().zip(tags.iter()).enumerate() {
			println!("{:>3} {:<18} {:?}", i, t, op);
		}
		println!("==== payments ====");
		for (i, m) in st.meta.iter().enumerate() {
			println!("pay#{} {:?} to n{} amt={} api={} send@{} claim@{:?} claimed_ev={} sent@{:?} failed@{:?} absent@{:?} predated={} onchain_claim@{:?}", i, m.kind, m.to, m.amt, m.api, m.send_step, m.claim_step, m.claimed_event, m.sent_obs, m.failed_obs, m.absent_since, m.predated, m.onchain_claim_step);
		}
		println!("restarts (step, snapshot step): {:?}; foreign: {:?}", st.restarts, st.co_dead);
		println!("==== history ====\n{}", dump_history(&sim));
	}
	r
}

fn run(c: &Case, ctx: &mut Ctx, sim: &mut Sim, st: &mut C03, tags: &mut Vec<&'static str>) -> CaseResult {
	let t0 = std::time::Instant::now();
	for op in c.ops.iter() {
		let tag = st.apply(sim, &c.spec, op)?;
		tags.push(tag);
		if tag == "restart-failed" {
			// deserialization of legally persisted state is C10's verdict
			ctx.label("foreign-failure:C10:restart-deserialization");
			return Ok(());
		}
		st.step(sim)?;
	}
	dbg_line(&format!("TIMING ops {} ms n_ops {}", t0.elapsed().as_millis(), c.ops.len()));
	let quiet = st.end_game(sim, &c.final_choices, 420)?;
	st.finish(sim, quiet)?;

	let s = st.stats.clone();
	ctx.label(match c.spec.topo {
		Topology::Pair => "topo:pair",
		Topology::Line3 => "topo:line3",
		Topology::Line4 => "topo:line4",
		Topology::Diamond => "topo:diamond",
		Topology::Line3Parallel => "topo:line3-parallel",
	});
	ctx.label(if quiet { "resolved-and-quiescent" } else { "not-quiescent-at-horizon" });
	if let Some(f) = &st.co_dead {
		ctx.label(&format!("foreign-failure:C01:{}", f));
	}
	for l in s.labels.iter() {
		ctx.label(l);
	}
	for t in ["send-route", "send-underpaid", "send-mpp", "send-router", "send-keysend", "dup-refused", "abandon", "interrupt", "resolve-cut", "restart", "force-close", "mine-many", "async-on"] {
		ctx.label_if(tags.contains(&t), &format!("op:{}", t));
	}
	ctx.label_if(s.sent > 0, "payment-sent");
	ctx.label_if(s.failed > 0, "payment-failed");
	ctx.label_if(s.sends_refused > 0, "send-refused-by-api");
	ctx.label_if(s.path_failed_attributed > 0, "path-failure-attribution-checked");
	ctx.label_if(s.redelivered_removals > 0, "fulfil-or-fail-redelivered-after-reconnect");
	ctx.label_if(s.repeats_after_restart > 0, "terminal-event-repeated-after-restart");
	ctx.label_if(s.stale_restarts > 0, "restart-from-snapshot-predating-a-send");
	ctx.label_if(s.absent_after_restart > 0, "payment-unlisted-after-restart");
	ctx.label_if(s.lost_payments > 0, "payment-lost-by-restart");
	ctx.label_if(s.onchain_claims > 0, "htlc-claimed-on-chain");
	ctx.label_if(s.s_chan_closed, "sender-channel-closed");
	ctx.label_if(s.mixed_mpp > 0, "mpp-sent-with-unfulfilled-part");
	ctx.label_if(s.accounting_exact > 0, "amount-plus-fee-checked-exactly");
	ctx.label_if(s.accounting_overstated > 0, "amount-plus-fee-overstated-after-onchain-loss");
	ctx.label_if(s.balance_checked, "sender-balance-decrease-checked");
	let restart_between = st.meta.iter().any(|m| (!m.sent_obs.is_empty() || !m.failed_obs.is_empty()) && st.restarts.iter().any(|r| r.0 > m.send_step && r.0 < *m.sent_obs.first().or(m.failed_obs.first()).unwrap()));
	ctx.label_if(restart_between, "restart-between-send-and-terminal-event");
	let terminal = s.sent + s.failed > 0;
	ctx.sub_evaluations(s.sent + s.failed + s.path_failed + s.dup_refused);
	ctx.nontrivial_if(terminal && (s.redelivered_removals > 0 || restart_between || s.mixed_mpp > 0 || s.onchain_claims > 0 || (s.s_chan_closed && s.failed > 0)));
	ctx.summary(json!({"topo": format!("{:?}", c.spec.topo), "type": format!("{:?}", c.spec.ctype), "ops": tags, "payments": st.meta.iter().map(|m| format!("{:?}:{}{}", m.kind, if !m.sent_obs.is_empty() { "sent" } else if !m.failed_obs.is_empty() { "failed" } else if m.api_ok { "open" } else { "refused" }, if m.predated { "(restart predates send)" } else { "" })).collect::<Vec<_>>(), "restarts": st.restarts.len()}));
	Ok(())
}

fn main() {
	install_recording_signer();
	let mut c = Check::new("C03", "exploration");
	c.assume("all nodes are unmodified LDK nodes; the sender S (node 0) funds its channels and is the only payer; messages are delivered FIFO per direction, individually, at generated times");
	c.assume("restarts of S use any ChannelManager snapshot taken earlier in the run (stale managers are legal per the ChannelManager persistence docs) with, per channel, the durable or the latest written ChannelMonitor image");
	c.assume("'eventually' is decided at a bounded end game (settle, resolve claimable payments by generated choice, mine up to 420 blocks); runs that do not reach quiescence with chain resolution complete are labelled, not flagged");
	c.part_with(
		PartSpec {
			name: "lifecycle",
			rule: "wip",
			quick_cases: 1500,
			thorough_cases: 60_000,
			max_shrink: 300,
		},
		|| strat(45, true, true),
		oracle,
	);
	c.finish();
}
