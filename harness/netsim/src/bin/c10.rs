//! C10 — restarting from persisted state is safe at every crash point.
use netsim::ops::*;
use netsim::oracle_commit::*;
use netsim::oracle_revoke::*;
use netsim::rec::install_recording_signer;
use netsim::sim::*;
use proptest::prelude::*;
use serde::{Deserialize, Serialize};
use serde_json::json;
use vcore::*;

#[derive(Clone, Debug, Serialize, Deserialize)]
struct Case {
	spec: WorldSpec,
	ops: Vec<Op>,
}

fn weights() -> OpWeights {
	OpWeights {
		send: 26,
		claim: 12,
		fail: 5,
		deliver: 40,
		flush: 4,
		events: 14,
		forwards: 14,
		disconnect: 3,
		reconnect: 12,
		setfee: 1,
		timer: 0,
		async_toggle: 8,
		complete: 12,
		pump: 8,
		force_close: 0,
		tamper_revoke: 0,
		mine: 0,
		reorg: 0,
		set_style: 0,
		snapshot: 14,
		restart: 8,
	}
}

fn strat(max_ops: usize) -> impl Strategy<Value = Case> {
	(world_spec(vec![Topology::Pair, Topology::Line3, Topology::Line3]), proptest::collection::vec(op_strategy(weights()), 15..max_ops)).prop_map(|(spec, ops)| Case { spec, ops })
}

fn oracle(c: &Case, ctx: &mut Ctx) -> CaseResult {
	let mut sim = c.spec.build(false);
	let r = oracle_inner(c, ctx, &mut sim);
	if ctx.replay && r.is_err() {
		println!("==== history ====\n{}", dump_history(&sim));
	}
	r
}

fn oracle_inner(c: &Case, ctx: &mut Ctx, sim: &mut Sim) -> CaseResult {
	for i in 0..sim.w.n {
		sim.snapshot_manager(i);
	}
	let mut ro = RevokeOracle::new(sim);
	let mut keys = initial_keys_map(sim);
	let mut tags: Vec<&'static str> = vec![];
	let mut restarts = 0;
	for op in c.ops.iter() {
		let tag = apply(sim, &c.spec, op);
		tags.push(tag);
		if tag == "restart-failed" {
			return Err(Failure::new("restart-deserialization", format!("restart from legally persisted state failed: {:?}", sim.last_restart_error)));
		}
		if tag == "restart" {
			restarts += 1;
		}
		ro.step(sim, &mut keys)?;
	}
	ctx.label_if(restarts > 0, "restarted");
	ctx.label_if(restarts > 1, "restarted-twice+");
	ctx.nontrivial_if(restarts > 0);
	ctx.summary(json!({"ops": tags}));
	Ok(())
}

fn main() {
	install_recording_signer();
	let mut c = Check::new("C10", "fault_enumeration");
	c.part_with(
		PartSpec { name: "restart-sampled", rule: "wip", quick_cases: 1500, thorough_cases: 60_000, max_shrink: 400 },
		|| strat(70),
		oracle,
	);
	c.finish();
}
