//! C10 — restarting from persisted state is safe at every crash point.
use netsim::ext_c10::*;
use netsim::ops::*;
use netsim::oracle_commit::*;
use netsim::oracle_revoke::*;
use netsim::rec::install_recording_signer;
use netsim::sim::*;
use proptest::prelude::*;
use serde::{Deserialize, Serialize};
use serde_json::json;
use vcore::*;

/// One crash: after operation `after` (index into the flow) node `node` restarts from the `snap`-th newest
/// manager snapshot and durable (or, if `landed`, latest written) monitors.
#[derive(Clone, Debug, Serialize, Deserialize)]
struct Crash {
	after: u16,
	node: u16,
	snap: u16,
	landed: bool,
}

#[derive(Clone, Debug, Serialize, Deserialize)]
struct Case {
	spec: WorldSpec,
	flow: Vec<Op>,
	/// snapshot the manager after an op when it says it needs persistence and this bit (cycled) is set
	snap_bits: Vec<bool>,
	crashes: Vec<Crash>,
	/// operations between the crashes / after the last crash, before the final settle
	recovery: Vec<Op>,
	/// before the flow: node 0 sends one payment in two parts over the two parallel channels of a
	/// Line3Parallel world (amounts in msat), and everything is pumped until the recipient holds it
	#[serde(default)]
	mpp: Option<(u64, u64)>,
	/// every node's manager is written right after these flow positions, whatever `snap_bits` says
	#[serde(default)]
	force_snap: Vec<u16>,
}

fn weights() -> OpWeights {
	OpWeights { send: 26, claim: 14, fail: 5, deliver: 44, flush: 2, events: 16, forwards: 14, decode_adds: 5, disconnect: 3, reconnect: 8, setfee: 1, async_toggle: 8, complete: 12, pump: 5, ..OpWeights::zero() }
}

fn recovery_weights() -> OpWeights {
	OpWeights { claim: 6, deliver: 30, events: 12, forwards: 12, reconnect: 30, complete: 10, pump: 10, ..OpWeights::zero() }
}

fn crash_strat() -> impl Strategy<Value = Crash> {
	(any::<u16>(), any::<u16>(), prop_oneof![2 => Just(0u16), 2 => 0u16..3, 3 => 1u16..8, 1 => any::<u16>()], any::<bool>()).prop_map(|(after, node, snap, landed)| Crash { after, node, snap, landed })
}

fn strat(max_ops: usize) -> impl Strategy<Value = Case> {
	(
		world_spec(vec![Topology::Pair, Topology::Line3, Topology::Line3, Topology::Diamond]),
		proptest::collection::vec(op_strategy(weights()), 10..max_ops),
		// how often the manager is written varies per case: the lag of the snapshot behind the monitors is what
		// most restart defects need
		prop_oneof![Just(0.15f64), Just(0.35), Just(0.6), Just(0.85)].prop_flat_map(|p| proptest::collection::vec(proptest::bool::weighted(p), 7)),
		proptest::collection::vec(crash_strat(), 1..3),
		proptest::collection::vec(op_strategy(recovery_weights()), 0..12),
	)
		.prop_map(|(spec, flow, snap_bits, crashes, recovery)| Case { spec, flow, snap_bits, crashes, recovery, mpp: None, force_snap: vec![] })
}

/// The forwarding node's manager is written (by another thread) between the two halves of
/// `process_pending_htlc_forwards`: the inbound HTLC's onion is decoded and the forward queued, the manager is
/// written, the forward goes out and is committed downstream; no later manager write happens before the node crashes.
fn queued_forward_strat() -> impl Strategy<Value = Case> {
	(
		world_spec(vec![Topology::Line3]),
		prop_oneof![(2_000_000u64..40_000_000).prop_map(Amt::Abs), (1000u16..30_000).prop_map(Amt::Frac)],
		proptest::collection::vec(op_strategy(OpWeights { deliver: 20, events: 8, claim: 8, forwards: 4, pump: 3, ..OpWeights::zero() }), 0..8),
		0usize..6,
		any::<bool>(),
		proptest::collection::vec(op_strategy(recovery_weights()), 0..10),
	)
		.prop_map(|(mut spec, amt, tail, extra, landed, recovery)| {
			spec.value_sat = vec![spec.value_sat[0].max(200_000)];
			spec.push_permille = vec![100, 500];
			spec.inflight_pct = 100;
			spec.dust_exposure_fixed_msat = None;
			spec.htlc_min_msat = spec.htlc_min_msat.min(1000);
			spec.max_accepted = spec.max_accepted.max(10);
			let mut flow = vec![Op::Send { route: 0, amt }, Op::Flush, Op::DecodeAdds { node: 30_000 }, Op::Forwards { node: 30_000 }, Op::Flush];
			flow.extend(tail);
			let len = flow.len();
			let pos = (5 + extra).min(len);
			let after = ((pos * 65536 + len) / (len + 1)) as u16;
			Case { spec, flow, snap_bits: vec![false; 7], crashes: vec![Crash { after, node: 30_000, snap: 0, landed }], recovery, mpp: None, force_snap: vec![2] }
		})
}

/// Crashes inside a two-sided update dance: a few non-dust payments are fully committed and become claimable,
/// then a claim by one side and a new send by the other are started back to back (their messages queued, not
/// delivered) and a generated tail delivers single messages, handles events, completes persistence and starts
/// further claims / sends; the crashes fall inside that tail, with a generated manager-snapshot lag.
fn crossing_strat() -> impl Strategy<Value = Case> {
	let tail_w = OpWeights { send: 10, claim: 10, fail: 2, deliver: 60, events: 18, forwards: 8, decode_adds: 3, async_toggle: 4, complete: 8, ..OpWeights::zero() };
	let nondust = || (20u16..30000).prop_map(Amt::Frac);
	(
		world_spec(vec![Topology::Pair, Topology::Pair, Topology::Line3]),
		proptest::collection::vec((any::<u16>(), nondust()), 1..4),
		proptest::collection::vec(prop_oneof![any::<u16>().prop_map(|pay| Op::Claim { pay }), (any::<u16>(), nondust()).prop_map(|(route, amt)| Op::Send { route, amt })], 2..5),
		proptest::collection::vec(op_strategy(tail_w), 8..28),
		prop_oneof![Just(0.15f64), Just(0.4), Just(0.7)].prop_flat_map(|p| proptest::collection::vec(proptest::bool::weighted(p), 7)),
		proptest::collection::vec((any::<u16>(), any::<u16>(), 0u16..7, any::<bool>()), 1..3),
		proptest::collection::vec(op_strategy(recovery_weights()), 0..10),
	)
		.prop_map(|(spec, pre, starts, tail, snap_bits, crashes, recovery)| {
			let mut flow: Vec<Op> = pre.into_iter().map(|(route, amt)| Op::Send { route, amt }).collect();
			flow.push(Op::Pump);
			flow.push(Op::Pump);
			let head = flow.len();
			flow.extend(starts);
			flow.extend(tail);
			let len = flow.len();
			// crash positions inside the part after the committed prefix
			let crashes = crashes
				.into_iter()
				.map(|(pos, node, lag, landed)| {
					let at = head + 1 + pick(pos, len - head);
					let after = ((((at as u32) << 16) / (len as u32 + 1)) + 1).min(65535) as u16;
					// `Sim::restart` maps snap with pick(snap, k) onto the k snapshots kept (0 = newest): aim at `lag`
					// snapshots back assuming about one snapshot per two operations
					let k = (at / 2 + 2) as u32;
					let snap = (((lag as u32).min(k - 1) << 16) / k + 1).min(65535) as u16;
					Crash { after, node, snap, landed }
				})
				.collect();
			Case { spec, flow, snap_bits, crashes, recovery, mpp: None, force_snap: vec![] }
		})
}

/// A two-part payment over two channels from the same peer is held by the recipient; the recipient's persistence
/// goes asynchronous, it claims, and a generated tail completes single writes, delivers single messages and adds
/// further traffic; the recipient crashes inside that tail with a generated snapshot lag (often a snapshot
/// written before the claim) and in-flight writes lost or landed.
fn mpp_strat() -> impl Strategy<Value = Case> {
	let tail_w = OpWeights { send: 14, claim: 10, deliver: 50, events: 14, forwards: 8, complete: 4, pump: 6, ..OpWeights::zero() };
	(
		world_spec(vec![Topology::Line3Parallel]),
		// each part needs more than half of what one of the parallel channels can carry, so the forwarder has
		// to use both channels
		(80_000_000u64..125_000_000, 80_000_000u64..125_000_000),
		proptest::collection::vec(op_strategy(tail_w), 6..40),
		prop_oneof![Just(0.15f64), Just(0.4), Just(0.7)].prop_flat_map(|p| proptest::collection::vec(proptest::bool::weighted(p), 7)),
		proptest::collection::vec((any::<u16>(), proptest::bool::weighted(0.8), 0u16..5, proptest::bool::weighted(0.35)), 1..3),
		proptest::collection::vec(op_strategy(recovery_weights()), 0..10),
		any::<u16>(),
	)
		.prop_map(|(mut spec, mpp, tail, snap_bits, crashes, recovery, pay)| {
			spec.value_sat = vec![300_000];
			spec.push_permille = vec![50, 500, 500];
			spec.reserve_ppm = spec.reserve_ppm.min(10_000);
			spec.inflight_pct = 100;
			spec.dust_exposure_fixed_msat = None;
			// the recipient (node 2) persists asynchronously on both channels, then claims
			// (one of its two channels, sometimes both: a write of the other channel then completes at once)
			let mut flow = vec![Op::Async { node: 65535, chan: if pay & 1 == 0 { 0 } else { 65535 }, on: true }];
			if pay % 3 == 0 {
				flow.push(Op::Async { node: 65535, chan: if pay & 1 == 0 { 65535 } else { 0 }, on: true });
			}
			flow.push(Op::Events { node: 65535 });
			flow.push(Op::Claim { pay });
			let head = flow.len();
			flow.extend(tail);
			let len = flow.len();
			let crashes = crashes
				.into_iter()
				.map(|(pos, recipient, lag, landed)| {
					let at = head + pick(pos, len - head + 1);
					let after = ((((at as u32) << 16) / (len as u32 + 1)) + 1).min(65535) as u16;
					let k = (at / 2 + 2) as u32;
					let snap = (((lag as u32).min(k - 1) << 16) / k + 1).min(65535) as u16;
					Crash { after, node: if recipient { 65535 } else { pos }, snap, landed }
				})
				.collect();
			Case { spec, flow, snap_bits, crashes, recovery, mpp: Some(mpp), force_snap: vec![] }
		})
}

fn oracle(c: &Case, ctx: &mut Ctx) -> CaseResult {
	let mut sim = c.spec.build(false);
	let r = match std::panic::catch_unwind(std::panic::AssertUnwindSafe(|| oracle_inner(c, ctx, &mut sim))) {
		Ok(r) => r,
		Err(payload) => {
			if ctx.replay {
				println!("==== history (panicked) ====\n{}", dump_history(&sim));
			}
			let (msg, loc) = vcore::take_last_panic().unwrap_or_default();
			if let Some(key) = classify_id_reuse_panic(&sim, &msg) {
				// listed finding, matched on its mechanism (see known_findings.json)
				Err(Failure::new("panic", format!("panic at {}: {}", loc, msg)).with_key(key))
			} else {
				vcore::set_last_panic(Some((msg, loc)));
				std::panic::resume_unwind(payload)
			}
		},
	};
	if ctx.replay && (r.is_err() || std::env::var("VERIF_C10_TRACE").is_ok()) {
		println!("==== history ====\n{}", dump_history(&sim));
	}
	r
}

fn pending_htlcs(sim: &Sim) -> usize {
	let mut n = 0;
	for (ci, c) in sim.chans.iter().enumerate() {
		if let Some(d) = sim.chan_details(c.a, ci) {
			n += d.pending_inbound_htlcs.len() + d.pending_outbound_htlcs.len();
		}
	}
	n
}

fn oracle_inner(c: &Case, ctx: &mut Ctx, sim: &mut Sim) -> CaseResult {
	let n = sim.w.n;
	let mut ro = RevokeOracle::new(sim);
	let mut so = RestartOracle::new(sim);
	let mut keys = initial_keys_map(sim);
	if let Some((a1, a2)) = c.mpp {
		if sim.c03_send_explicit(&[(vec![0, 1], a1), (vec![0, 2], a2)], 0).is_none() {
			ctx.discard();
			return Ok(());
		}
		for _ in 0..3 {
			apply(sim, &c.spec, &Op::Pump);
		}
		so.step(sim)?;
		ro.step(sim, &mut keys)?;
		ctx.label_if(sim.pays.iter().any(|p| p.claimable_seen), "mpp-claimable-at-recipient");
	}
	for i in 0..n {
		sim.snapshot_manager(i);
		so.note_snapshot(sim, i);
	}
	// crash positions in flow order
	let mut crashes: Vec<(usize, &Crash)> = c.crashes.iter().map(|k| (pick(k.after, c.flow.len() + 1), k)).collect();
	crashes.sort_by_key(|(a, _)| *a);
	let mut tags: Vec<String> = vec![];
	let mut snap_i = 0;
	let mut crashed = 0;
	let do_crash = |sim: &mut Sim, so: &mut RestartOracle, ro: &mut RevokeOracle, keys: &mut std::collections::BTreeMap<(usize, [u8; 32]), usize>, k: &Crash, ctx: &mut Ctx, tags: &mut Vec<String>| -> CaseResult {
		let node = pick(k.node, n);
		let pend = pending_htlcs(sim);
		let inflight = sim.w.pending_updates(node).len();
		so.stats.htlcs_pending_at_crash += pend as u64;
		if k.landed && inflight > 0 {
			ctx.label("async-write-landed-at-crash");
		}
		if !k.landed && inflight > 0 {
			so.stats.async_write_lost += 1;
			ctx.label("async-write-lost-at-crash");
		}
		let r = sim.restart(node, k.snap, k.landed);
		tags.push(format!("CRASH n{} snap{} landed={} pending_htlcs={} inflight_updates={}", node, k.snap, k.landed, pend, inflight));
		so.step(sim)?;
		ro.step(sim, keys)?;
		if let Err(e) = r {
			return Err(Failure::new("restart-deserialization", e));
		}
		// the restarted node persists its manager once it is up (as a real node does on start)
		sim.snapshot_manager(node);
		so.note_snapshot(sim, node);
		Ok(())
	};
	let mut next_crash = 0;
	for (i, op) in c.flow.iter().enumerate() {
		while next_crash < crashes.len() && crashes[next_crash].0 == i {
			do_crash(sim, &mut so, &mut ro, &mut keys, crashes[next_crash].1, ctx, &mut tags)?;
			crashed += 1;
			next_crash += 1;
			// a few recovery operations before the flow continues
			for rop in c.recovery.iter().take(4) {
				tags.push(apply(sim, &c.spec, rop).to_string());
				so.step(sim)?;
				ro.step(sim, &mut keys)?;
			}
		}
		let tag = apply(sim, &c.spec, op);
		tags.push(tag.to_string());
		so.step(sim)?;
		ro.step(sim, &mut keys)?;
		if c.force_snap.contains(&(i as u16)) {
			for nd in 0..n {
				let _ = sim.w.nodes[nd].node.get_and_clear_needs_persistence();
				sim.snapshot_manager(nd);
				so.note_snapshot(sim, nd);
			}
		}
		// manager persistence as the background processor would do it, at generated moments
		for nd in 0..n {
			if sim.w.nodes[nd].node.get_and_clear_needs_persistence() {
				let bit = c.snap_bits[snap_i % c.snap_bits.len()];
				snap_i += 1;
				if bit {
					sim.snapshot_manager(nd);
					so.note_snapshot(sim, nd);
				}
			}
		}
	}
	while next_crash < crashes.len() {
		do_crash(sim, &mut so, &mut ro, &mut keys, crashes[next_crash].1, ctx, &mut tags)?;
		crashed += 1;
		next_crash += 1;
	}
	for rop in c.recovery.iter() {
		tags.push(apply(sim, &c.spec, rop).to_string());
		so.step(sim)?;
		ro.step(sim, &mut keys)?;
	}
	// resolve whatever became claimable, then drive everything (off-chain and on-chain) to resolution
	for round in 0..3 {
		sim.settle(30);
		let cands: Vec<usize> = sim.pays.iter().filter(|p| p.state == PayState::Claimable).map(|p| p.idx).collect();
		if cands.is_empty() && round > 0 {
			break;
		}
		for (j, p) in cands.iter().enumerate() {
			if j % 3 == 2 {
				sim.fail_back(*p);
			} else {
				sim.claim(*p);
			}
		}
		so.step(sim)?;
		ro.step(sim, &mut keys)?;
	}
	let (resolved, mined) = sim.settle_with_chain(400);
	so.step(sim)?;
	ro.step(sim, &mut keys)?;
	so.finish(sim, resolved)?;
	let st = &so.stats;
	ctx.label(if resolved { "fully-resolved" } else { "not-resolved-within-bound" });
	ctx.label_if(st.stale_manager_closures > 0, "stale-manager-closure");
	ctx.label_if(st.manager_lagged > 0, "manager-lagged-behind-monitor");
	ctx.label_if(crashed > 1, "crashed-twice");
	ctx.label_if(mined > 0, "on-chain-resolution");
	ctx.label_if(st.claimed_then_sent > 0, "claim-replayed-to-sender");
	ctx.label_if(st.dust_forfeited_after_stale_restart > 0, "dust-htlc-forfeited-after-stale-restart");
	ctx.label_if(st.parts_checked > 1, "multi-part-collection-checked");
	ctx.label_if(st.uncommitted_fulfil_then_onchain > 0, "uncommitted-fulfil-resolved-on-chain-after-stale-restart");
	ctx.label_if(st.htlcs_pending_at_crash > 0, "htlcs-pending-at-crash");
	ctx.label(match c.spec.topo {
		Topology::Pair => "topo:pair",
		Topology::Diamond => "topo:diamond",
		_ => "topo:line3",
	});
	ctx.sub_evaluations(st.broadcasts_checked + st.payments_sent + st.payments_failed);
	ctx.nontrivial_if(st.htlcs_pending_at_crash > 0 && (st.manager_lagged > 0 || st.async_write_lost > 0 || st.stale_manager_closures > 0));
	ctx.summary(json!({"topo": format!("{:?}", c.spec.topo), "type": format!("{:?}", c.spec.ctype), "trace": tags, "blocks_mined": mined}));
	Ok(())
}

/// Crash-point enumeration: for each of `flows` generated short flows, every position between two
/// operations x every node x {durable, landed} monitors x {newest, previous} manager snapshot.
fn enumerated_cases(seed: u64, flows: usize) -> Vec<Case> {
	let fine = OpWeights { send: 24, claim: 14, fail: 4, deliver: 50, events: 16, forwards: 14, decode_adds: 4, async_toggle: 8, complete: 12, reconnect: 2, ..OpWeights::zero() };
	let st = (
		world_spec(vec![Topology::Pair, Topology::Line3, Topology::Line3]),
		proptest::collection::vec(op_strategy(fine), 12..26),
		proptest::collection::vec(proptest::bool::weighted(0.6), 7),
	);
	let mut out = vec![];
	for f in 0..flows {
		let (spec, flow, snap_bits) = sample_once(&st, seed.wrapping_mul(1_000_003).wrapping_add(f as u64));
		let n = spec.topo.nodes();
		for pos in 0..=flow.len() {
			for node in 0..n {
				for (snap, landed) in [(0u16, false), (0, true), (1, false)] {
					// `pick` maps (x * len) >> 16: choose x so that it lands exactly on pos / node
					let after = (((pos as u32) << 16) / (flow.len() as u32 + 1) + 1).min(65535) as u16;
					let nodesel = ((((node as u32) << 16) / n as u32) + 1).min(65535) as u16;
					out.push(Case { spec: spec.clone(), flow: flow.clone(), snap_bits: snap_bits.clone(), crashes: vec![Crash { after, node: nodesel, snap: if snap == 0 { 0 } else { 40000 }, landed }], recovery: vec![], mpp: None, force_snap: vec![] });
				}
			}
		}
	}
	out
}

fn main() {
	install_recording_signer();
	netsim::rec::tolerate_monitor_roundtrip_tripwire();
	let mut c = Check::new("C10", "fault_enumeration");
	c.assume("the restarted node gets, per channel, the durable monitor image (every completed update) or the latest written one, and any earlier-written ChannelManager; monitors and manager are synced to the chain tip separately before use, as documented");
	c.assume("crash points are the points between two harness operations (each operation performs at most a few durable writes); crashes inside one library call are not generated");
	c.assume("liveness clauses are decided at a bounded horizon (up to 400 blocks mined); runs that do not resolve are labelled, not failed");
	c.part_with(
		PartSpec {
			name: "restart-sampled",
			rule: "pair / line / diamond worlds, generated payment flows with async persistence; manager snapshots at generated persistence points; 1-2 crashes at generated positions (second possibly during recovery) restarting a generated node from a generated snapshot lag and durable-or-landed monitors; then reconnect, resolve payments, mine to full resolution. Checked: deserialization succeeds, monitor-ahead channels are closed as OutdatedChannelManager and not resumed, revocation rules hold across restarts, every broadcast is consensus-valid, PaymentSent is truthful and never contradicted, a claim acknowledged to the recipient reaches PaymentSent at the sender. Non-trivial: HTLCs pending at the crash and the manager lagged a monitor or an async write was lost",
			quick_cases: 800,
			thorough_cases: 40_000,
			max_shrink: 300,
		},
		|| prop_oneof![9 => strat(60).boxed(), 1 => queued_forward_strat().boxed()],
		oracle,
	);
	c.part_with(
		PartSpec {
			name: "restart-crossing",
			rule: "as restart-sampled, but the flow is built to crash inside concurrent updates: 1-3 non-dust payments fully committed, then claims and new sends started back to back with their messages still queued, then a generated tail of single-message deliveries / event handling / persistence completions; 1-2 crashes inside the tail with a manager snapshot lagging 0-6 snapshots. Non-trivial as in restart-sampled",
			quick_cases: 1000,
			thorough_cases: 30_000,
			max_shrink: 300,
		},
		crossing_strat,
		oracle,
	);
	c.part_with(
		PartSpec {
			name: "restart-mpp",
			rule: "Line3Parallel world: a two-part payment over two channels from the same peer is claimed by a recipient whose persistence is asynchronous; generated tail of single write completions / message deliveries / further traffic; 1-2 crashes (mostly of the recipient) inside the tail with a manager snapshot lagging 0-4 snapshots and in-flight writes lost or landed. Same oracles as restart-sampled plus: a payment reported as claimed is collected in full (every non-dust part fulfilled by message or taken on chain with the preimage). Non-trivial as in restart-sampled",
			quick_cases: 500,
			thorough_cases: 12_000,
			max_shrink: 300,
		},
		mpp_strat,
		oracle,
	);
	let flows = if c.tier() == Tier::Thorough { 300 } else { 3 };
	let cases = enumerated_cases(c.args.seed, flows);
	c.enumerate(
		"restart-enumerated",
		"for each of a few generated short flows (12..25 fine-grained operations over pair / line worlds with async persistence): EVERY crash position between two operations x every node x {durable monitors, landed async writes, older manager snapshot}; same oracles as restart-sampled. Exhaustive over the crash points of the explored flows (not over flows)",
		cases,
		false,
		oracle,
	);
	c.finish();
}
