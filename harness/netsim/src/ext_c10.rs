//! Property-specific engine extensions for C10 (owned by the C10 check).
