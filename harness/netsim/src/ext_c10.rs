//! Property-specific engine extensions for C10 (owned by the C10 check): drive a world to full resolution
//! including on-chain resolution of closed channels, and the restart-safety oracles.

use crate::chain::Reject;
use crate::oracle_commit::{merged_since, M};
use crate::rec::*;
use crate::sim::*;
use bitcoin::hashes::{sha256, Hash};
use lightning::chain::channelmonitor::Balance;
use lightning::events::{ClosureReason, Event};
use lightning::ln::types::ChannelId;
use std::collections::{BTreeMap, BTreeSet};
use vcore::{CaseResult, Failure};

fn fail(oracle: &str, detail: String) -> Failure {
	Failure::new(oracle, detail)
}

impl Sim {
	/// true if some node still expects on-chain funds from a closed channel or the mempool is not empty
	pub fn onchain_unresolved(&self) -> bool {
		if !self.chain.mempool.is_empty() {
			return true;
		}
		for nd in self.w.nodes.iter() {
			for b in nd.chain_monitor.chain_monitor.get_claimable_balances(&[]) {
				if !matches!(b, Balance::ClaimableOnChannelClose { .. }) {
					return true;
				}
			}
		}
		false
	}

	/// Reconnect everybody, settle off-chain, and mine until every closed channel is resolved on chain
	/// (bounded). Returns (quiescent, blocks mined).
	pub fn settle_with_chain(&mut self, max_blocks: u32) -> (bool, u32) {
		let mut mined = 0;
		let mut quiet = self.settle(30);
		let mut idle_rounds = 0;
		while mined < max_blocks {
			for i in 0..self.w.n {
				self.w.nodes[i].chain_monitor.chain_monitor.rebroadcast_pending_claims();
				self.drain(i);
			}
			if !self.onchain_unresolved() {
				break;
			}
			// mine everything that is valid now (arrival order), then let the nodes react
			let txs = self.chain.mempool.clone();
			let had = !txs.is_empty();
			self.mine_block(txs);
			mined += 1;
			if !had {
				// nothing to confirm: jump ahead to let timelocks mature
				let burst = if idle_rounds < 3 { 5 } else { 20 };
				for _ in 0..burst {
					if mined >= max_blocks {
						break;
					}
					self.mine_block(vec![]);
					mined += 1;
				}
				idle_rounds += 1;
			}
			quiet = self.settle(20);
		}
		quiet = quiet && self.settle(20);
		(quiet && !self.onchain_unresolved(), mined)
	}
}

#[derive(Default, Clone, Debug)]
pub struct RestartStats {
	pub restarts: u64,
	pub stale_manager_closures: u64,
	pub resumed_channels: u64,
	pub htlcs_pending_at_crash: u64,
	pub manager_lagged: u64,
	pub async_write_lost: u64,
	pub broadcasts_checked: u64,
	pub payments_sent: u64,
	pub payments_failed: u64,
	pub claimed_then_sent: u64,
	pub dust_forfeited_after_stale_restart: u64,
	pub parts_checked: u64,
	pub uncommitted_fulfil_then_onchain: u64,
}

/// What the harness knows about the persisted state at the moment of a manager snapshot.
#[derive(Clone, Debug, Default)]
pub struct SnapshotInfo {
	/// per channel: latest update id handed to persistence when the snapshot was taken
	pub latest_ids: BTreeMap<ChannelId, u64>,
	pub open_channels: BTreeSet<ChannelId>,
	/// payments whose PaymentSent the manager lineage this snapshot belongs to had handled
	pub sent: BTreeSet<[u8; 32]>,
}

pub struct RestartOracle {
	cur_h: usize,
	cur_s: usize,
	/// (node, snapshot step) -> info
	pub snap_info: BTreeMap<(usize, u64), SnapshotInfo>,
	/// per node: payment hashes with a terminal event: hash -> (sent, failed)
	terminal: BTreeMap<(usize, [u8; 32]), (u32, u32)>,
	pub stats: RestartStats,
	/// channels (by node) expected to be closed as outdated after the last restart
	expect_outdated: BTreeSet<(usize, ChannelId)>,
	seen_outdated: BTreeSet<(usize, ChannelId)>,
	/// per node: step of the manager snapshot used by its latest restart
	last_restart_snapshot: BTreeMap<usize, u64>,
	/// per node: step of its latest restart
	last_restart_step: BTreeMap<usize, u64>,
	/// (node, hash) -> step of the first PaymentSent
	sent_at: BTreeMap<(usize, [u8; 32]), u64>,
	claimable_at: BTreeMap<(usize, [u8; 32]), u64>,
	/// (node, chan) -> steps at which a commitment_signed was delivered to the node
	commit_deliveries: BTreeMap<(usize, ChannelId), Vec<u64>>,
	/// (node, chan) -> ids of updates carrying a holder commitment, in hand-over order
	holder_updates: BTreeMap<(usize, ChannelId), Vec<u64>>,
	/// (node, chan): the node has sent an update_fail_htlc / update_fail_malformed_htlc on that channel
	fails_emitted: BTreeSet<(usize, ChannelId)>,
	/// per node: payments whose PaymentSent was handled by the running manager or an ancestor of it (a
	/// restart from snapshot S continues the lineage of S, not that of the manager that crashed)
	sent_lineage: BTreeMap<usize, BTreeSet<[u8; 32]>>,
	/// (node, payment hash) -> HTLC parts delivered to that node: (channel, htlc id, amount)
	parts_in: BTreeMap<(usize, [u8; 32]), BTreeSet<(ChannelId, u64, u64)>>,
	/// (node, channel, htlc id) the node has sent update_fulfill_htlc for
	fulfils_out: BTreeSet<(usize, ChannelId, u64)>,
	/// (node, payment hash) -> outpoints the node spent in broadcast transactions with the preimage in the witness
	onchain_preimage_spends: BTreeMap<(usize, [u8; 32]), BTreeSet<bitcoin::OutPoint>>,
}

pub fn dust_floor_msat(sim: &Sim) -> u64 {
	sim.dust_floor_msat()
}

/// Discriminating condition of the listed finding "revocation secret lost across a stale-manager reload": some node
/// was restarted from a manager snapshot taken when more distinct revoke_and_ack messages had been delivered to it
/// on a channel than CommitmentSecret steps are contained in the monitor image it restarted from (the update for
/// the last revocation was still blocked inside the Channel), *and* that image's update id is not smaller than the
/// id the blocked update would have had (a later, unblocked update took the id). LDK then drops the blocked
/// update on load as "already applied".
pub fn blocked_raa_update_lost_on_reload(sim: &Sim) -> bool {
	use std::collections::BTreeSet;
	for (r_step, ev) in sim.log.iter() {
		let SEvent::Restart { node, snapshot_step, monitor_ids, ok: true, .. } = ev else { continue };
		for (chan, used_id) in monitor_ids.iter() {
			let mut raas: BTreeSet<[u8; 32]> = BTreeSet::new();
			for (s, e) in sim.log.iter() {
				if *s >= *snapshot_step {
					break;
				}
				if let SEvent::Deliver { to, wire: Wire::Revoke(m), .. } = e {
					if to == node && m.channel_id == *chan {
						raas.insert(m.per_commitment_secret);
					}
				}
			}
			let mut secrets = 0usize;
			for (s, e) in hist_since(0) {
				if s >= *r_step {
					break;
				}
				if let HEvent::PersistUpdate { node: n, chan: c, update_id: Some(id), steps, .. } = e {
					if n == *node && c == *chan && id <= *used_id {
						secrets += steps.iter().filter(|k| k.as_str() == "CommitmentSecret").count();
					}
				}
			}
			if raas.len() > secrets {
				return true;
			}
		}
	}
	false
}

/// Known symptoms (library panics / debug assertions) of the listed id-reuse finding, keyed on the panic message
/// *and* the history condition `blocked_raa_update_lost_on_reload`.
pub fn classify_id_reuse_panic(sim: &Sim, msg: &str) -> Option<&'static str> {
	let key = if msg.contains("Latest counterparty commitment secret was invalid") {
		"panic/commitment-secret-rejected/blocked-raa-update-dropped-on-stale-reload"
	} else if msg.contains("Attempted to apply post-force-close ChannelMonitorUpdate") {
		"panic/post-force-close-update/blocked-update-id-reused-after-stale-reload"
	} else if msg.contains("HTLC Sources for all revoked commitment transactions should be none") {
		"panic/htlc-sources-of-revoked-commitment-kept/blocked-raa-update-dropped-on-stale-reload"
	} else {
		return None;
	};
	if blocked_raa_update_lost_on_reload(sim) {
		Some(key)
	} else {
		None
	}
}

impl RestartOracle {
	pub fn new(sim: &Sim) -> RestartOracle {
		RestartOracle {
			cur_h: hist_len(),
			cur_s: sim.log.len(),
			snap_info: BTreeMap::new(),
			terminal: BTreeMap::new(),
			stats: RestartStats::default(),
			expect_outdated: BTreeSet::new(),
			seen_outdated: BTreeSet::new(),
			last_restart_snapshot: BTreeMap::new(),
			last_restart_step: BTreeMap::new(),
			sent_at: BTreeMap::new(),
			claimable_at: BTreeMap::new(),
			commit_deliveries: BTreeMap::new(),
			holder_updates: BTreeMap::new(),
			fails_emitted: BTreeSet::new(),
			sent_lineage: BTreeMap::new(),
			parts_in: BTreeMap::new(),
			fulfils_out: BTreeSet::new(),
			onchain_preimage_spends: BTreeMap::new(),
		}
	}

	/// call right after `sim.snapshot_manager(node)`
	pub fn note_snapshot(&mut self, sim: &Sim, node: usize) {
		let Some((step, _)) = sim.snapshots[node].last() else { return };
		let mut info = SnapshotInfo::default();
		// the manager's own view: the highest update id it has handed to chain::Watch per channel (recorded by
		// the test ChainMonitor at hand-over time, i.e. also for updates still queued in deferred mode)
		for (c, (id, _)) in sim.w.nodes[node].chain_monitor.latest_monitor_update_id.lock().unwrap().iter() {
			info.latest_ids.insert(*c, *id);
		}
		for d in sim.w.nodes[node].node.list_channels() {
			info.open_channels.insert(d.channel_id);
		}
		info.sent = self.sent_lineage.get(&node).cloned().unwrap_or_default();
		self.snap_info.insert((node, *step), info);
	}

	pub fn step(&mut self, sim: &Sim) -> CaseResult {
		let evs = merged_since(sim, &mut self.cur_h, &mut self.cur_s);
		for (at, ev) in evs {
			match ev {
				M::S(SEvent::Restart { node, snapshot_step, monitor_ids, ok, detail }) => {
					self.last_restart_snapshot.insert(node, snapshot_step);
					self.last_restart_step.insert(node, at);
					if let Some(info) = self.snap_info.get(&(node, snapshot_step)) {
						self.sent_lineage.insert(node, info.sent.clone());
					}
					if !ok {
						return Err(fail("restart-deserialization", format!("node {} could not be restarted from legally persisted state: {}", node, detail)));
					}
					self.stats.restarts += 1;
					// (c) channels whose monitor is ahead of the manager snapshot must be closed, not resumed
					// The manager's own update counter can run ahead of what it has handed over (blocked updates), so
					// "monitor ahead of manager" is only asserted where it is certain: the monitor image contains a
					// holder-commitment update that answers a commitment_signed delivered AFTER the snapshot was
					// written -- the snapshot cannot know that update.
					if let Some(info) = self.snap_info.get(&(node, snapshot_step)) {
						let mut lagged = false;
						for (c, mon_id) in monitor_ids.iter() {
							if !info.open_channels.contains(c) {
								continue;
							}
							let deliveries = self.commit_deliveries.get(&(node, *c)).cloned().unwrap_or_default();
							let holder_updates = self.holder_updates.get(&(node, *c)).cloned().unwrap_or_default();
							for (k, uid) in holder_updates.iter().enumerate() {
								if *uid <= *mon_id {
									if let Some(dstep) = deliveries.get(k) {
										if *dstep > snapshot_step {
											self.expect_outdated.insert((node, *c));
											lagged = true;
										}
									}
								}
							}
							let snap_id = info.latest_ids.get(c).cloned().unwrap_or(0);
							if *mon_id > snap_id {
								self.stats.resumed_channels += 1;
							}
						}
						if lagged {
							self.stats.manager_lagged += 1;
						}
					}
				},
				M::S(SEvent::Deliver { to, wire: Wire::Commit(m), .. }) => {
					self.commit_deliveries.entry((to, m.channel_id)).or_default().push(at);
				},
				M::S(SEvent::Emit { from, wire: Wire::Fail(m), .. }) => {
					self.fails_emitted.insert((from, m.channel_id));
				},
				M::S(SEvent::Deliver { to, wire: Wire::Add(m), .. }) => {
					self.parts_in.entry((to, m.payment_hash.0)).or_default().insert((m.channel_id, m.htlc_id, m.amount_msat));
				},
				M::S(SEvent::Emit { from, wire: Wire::Fulfill(m), .. }) => {
					self.fulfils_out.insert((from, m.channel_id, m.htlc_id));
				},
				M::S(SEvent::Emit { from, wire: Wire::FailMalformed(m), .. }) => {
					self.fails_emitted.insert((from, m.channel_id));
				},
				M::H(HEvent::PersistUpdate { node, chan, update_id: Some(id), steps, .. }) => {
					if steps.iter().any(|s| s.starts_with("LatestHolderCommitment")) {
						// (an in-flight update replayed after a restart is handed over again under the same id)
						let v = self.holder_updates.entry((node, chan)).or_default();
						if !v.contains(&id) {
							v.push(id);
						}
					}
				},
				M::S(SEvent::Ldk { node, ev }) => match &ev {
					Event::ChannelClosed { channel_id, reason, .. } => {
						if matches!(reason, ClosureReason::OutdatedChannelManager) {
							self.seen_outdated.insert((node, *channel_id));
							self.stats.stale_manager_closures += 1;
						}
					},
					Event::PaymentClaimable { payment_hash, .. } => {
						self.claimable_at.entry((node, payment_hash.0)).or_insert(at);
					},
					Event::PaymentSent { payment_hash, payment_preimage, .. } => {
						let h = sha256::Hash::hash(&payment_preimage.0).to_byte_array();
						if h != payment_hash.0 {
							return Err(fail("payment-sent-untruthful", format!("node {} reported PaymentSent with a preimage that does not hash to the payment hash", node)));
						}
						let e = self.terminal.entry((node, payment_hash.0)).or_insert((0, 0));
						e.0 += 1;
						self.stats.payments_sent += 1;
						self.sent_at.entry((node, payment_hash.0)).or_insert(at);
						self.sent_lineage.entry(node).or_default().insert(payment_hash.0);
						if e.1 > 0 {
							return Err(fail("contradictory-terminal-events", format!("node {} reported PaymentSent after PaymentFailed for payment {}", node, payment_hash)));
						}
						// truthful: the recipient released the preimage (the harness called claim_funds)
						if let Some(p) = sim.pays.iter().find(|p| p.hash == *payment_hash && p.from == node) {
							if !(p.state == PayState::ClaimRequested || p.claimed_event) {
								return Err(fail("payment-sent-untruthful", format!("node {} reported PaymentSent for pay#{} although the recipient never released the preimage (state {:?})", node, p.idx, p.state)));
							}
						}
					},
					Event::PaymentFailed { payment_hash: Some(payment_hash), .. } => {
						let e = self.terminal.entry((node, payment_hash.0)).or_insert((0, 0));
						e.1 += 1;
						self.stats.payments_failed += 1;
						if e.0 > 0 {
							// exact signature of the documented limitation: the node restarted from a manager written
							// before it saw PaymentSent, and the monitor it restarted from had already forgotten the
							// resolved HTLC (it was in no current counterparty commitment any more). A monitor that
							// still tracks the HTLC must also still know its preimage, so that case is not excused.
							let sent = self.sent_at.get(&(node, payment_hash.0)).cloned().unwrap_or(0);
							let stale = self.last_restart_snapshot.contains_key(&node) && !self.sent_lineage.get(&node).map(|l| l.contains(&payment_hash.0)).unwrap_or(false);
							let tracked = sim.monitor_htlcs_at_restart.get(&node).map(|v| v.iter().any(|(h, _)| *h == payment_hash.0)).unwrap_or(false);
							// a fulfil that was never committed for an HTLC too small for a commitment output: the
							// channel is closed on chain from the stale state, the HTLC is forfeited to fees and the
							// restarted lineage (which never handled PaymentSent) truthfully reports the failure
							let dustable = sim.pays.iter().find(|p| p.hash == *payment_hash && p.from == node).map(|p| p.amt_msat < dust_floor_msat(sim)).unwrap_or(false);
							let tracked_without_preimage = sim.monitor_htlcs_at_restart.get(&node).map(|v| v.iter().any(|(h, pre)| *h == payment_hash.0 && !*pre)).unwrap_or(false);
							if stale && tracked_without_preimage && dustable {
								self.stats.dust_forfeited_after_stale_restart += 1;
								continue;
							}
							// the fulfil the old lineage saw was never committed (no commitment_signed covering it reached
							// the node before it stopped), so no monitor ever held the preimage; the HTLC's fate was then
							// decided on chain and the restarted lineage, which never handled PaymentSent, reports what
							// the chain says
							let crash = self.last_restart_step.get(&node).cloned().unwrap_or(u64::MAX);
							if stale && tracked_without_preimage && !sim.fulfil_committed_before(node, &payment_hash.0, crash) {
								self.stats.uncommitted_fulfil_then_onchain += 1;
								continue;
							}
							let key = if stale && !tracked {
								"contradictory-terminal-events/failed-after-sent/manager-snapshot-predates-sent"
							} else if stale {
								"contradictory-terminal-events/failed-after-sent/monitor-still-tracked-the-htlc"
							} else {
								"contradictory-terminal-events/failed-after-sent"
							};
							return Err(fail("contradictory-terminal-events", format!("node {} reported PaymentFailed after PaymentSent for payment {} (PaymentSent at step {}, restarted from manager snapshot of step {:?})", node, payment_hash, sent, self.last_restart_snapshot.get(&node))).with_key(key));
						}
						// truthful failure: no part may still be pending. Decidable for a direct (one-hop) payment
						// whose recipient holds the HTLC as claimable, has not failed it back, and whose expiry has
						// not been reached on the chain: that HTLC is live and can still be claimed.
						if let Some(p) = sim.pays.iter().find(|p| p.hash == *payment_hash && p.from == node) {
							let live = p.path_chans.len() == 1
								&& p.claimable_seen && (p.state == PayState::Claimable || p.state == PayState::ClaimRequested)
								&& sim.chain.height() + 2 < p.cltv_expiry
								// the recipient node fails a claimable HTLC back by itself once its claim deadline passes
								// (or after a restart lost a claim request): any fail it sent on that channel may be this one
								&& !self.fails_emitted.contains(&(p.to, sim.chans[p.path_chans[0]].id));
							if live {
								let claimable_at = self.claimable_at.get(&(p.to, payment_hash.0)).cloned().unwrap_or(0);
								let stale = self.last_restart_snapshot.get(&node).map(|s| *s < claimable_at).unwrap_or(false);
								let key = if stale { "payment-failed-while-htlc-live/manager-snapshot-predates-commitment" } else { "payment-failed-while-htlc-live" };
								return Err(fail(
									"payment-failed-while-htlc-live",
									format!("node {} reported PaymentFailed for pay#{} although the recipient (node {}) holds the HTLC as claimable (expiry {}, chain height {}); restarted from manager snapshot of step {:?}, HTLC became claimable at step {}", node, p.idx, p.to, p.cltv_expiry, sim.chain.height(), self.last_restart_snapshot.get(&node), claimable_at),
								)
								.with_key(key));
							}
						}
					},
					_ => {},
				},
				M::S(SEvent::Broadcast { node, tx, height, verdict }) => {
					self.stats.broadcasts_checked += 1;
					for i in tx.input.iter() {
						for w in i.witness.iter() {
							if w.len() == 32 {
								let h = sha256::Hash::hash(w).to_byte_array();
								if sim.pays.iter().any(|p| p.hash.0 == h) {
									self.onchain_preimage_spends.entry((node, h)).or_default().insert(i.previous_output);
								}
							}
						}
					}
					match verdict {
						Ok(_) | Err(Reject::Duplicate) | Err(Reject::MempoolConflict(_)) | Err(Reject::AlreadySpent(_, _)) => {},
						Err(Reject::MissingInput(op)) => {
							// legitimate only if the parent was seen before (e.g. mined and reorged out / not yet mined
							// because a competing transaction won); a spend of a never-seen output is not
							if !sim.chain.seen.contains_key(&op.txid) {
								return Err(fail("invalid-broadcast", format!("node {} broadcast {} spending unknown output {} at height {}", node, tx.compute_txid(), op, height)).with_key("invalid-broadcast/unknown-input"));
							}
						},
						Err(e) => {
							return Err(fail("invalid-broadcast", format!("node {} broadcast {} at height {} which is not valid for the next block: {:?}", node, tx.compute_txid(), height, e))
								.with_key(format!("invalid-broadcast/{}", format!("{:?}", e).split(|c: char| !c.is_alphanumeric()).next().unwrap_or(""))));
						},
					}
				},
				_ => {},
			}
		}
		Ok(())
	}

	/// After the post-crash settle: stale-manager channels were closed rather than resumed; payments whose
	/// recipient claim was acknowledged to the recipient reached PaymentSent at the sender.
	pub fn finish(&mut self, sim: &Sim, resolved: bool) -> CaseResult {
		for (node, c) in self.expect_outdated.iter() {
			let still_listed = sim.w.nodes[*node].node.list_channels().iter().any(|d| d.channel_id == *c);
			if still_listed {
				return Err(fail("stale-manager-channel-resumed", format!("node {} resumed channel {} although its ChannelMonitor was ahead of the ChannelManager it restarted from", node, c)));
			}
		}
		if resolved {
			// an HTLC too small for a commitment output is forfeited if its channel closes on chain before the
			// claim is committed (the properties' stated exception): only non-dust amounts are asserted, with a
			// margin of twice the highest current feerate estimate
			let dust_floor_msat = dust_floor_msat(sim);
			// a payment the recipient reported as claimed is collected in full: every non-dust part that was
			// delivered to it is fulfilled by message or taken on chain with the preimage (all-or-nothing
			// across the crash: the preimage is out, so an uncollected part is lost to the previous hop)
			for p in sim.pays.iter() {
				if !p.claimed_event {
					continue;
				}
				let Some(parts) = self.parts_in.get(&(p.to, p.hash.0)) else { continue };
				let need: Vec<_> = parts.iter().filter(|(_, _, amt)| *amt >= dust_floor_msat).collect();
				let by_msg = need.iter().filter(|(c, id, _)| self.fulfils_out.contains(&(p.to, *c, *id))).count();
				let on_chain = self.onchain_preimage_spends.get(&(p.to, p.hash.0)).map(|s| s.len()).unwrap_or(0);
				self.stats.parts_checked += need.len() as u64;
				if by_msg + on_chain < need.len() {
					return Err(fail(
						"claimed-part-not-collected",
						format!("node {} reported PaymentClaimed for pay#{} but collected only {} of its {} non-dust parts ({} fulfilled by message, {} HTLC outputs spent with the preimage); parts (channel, htlc id, msat): {:?}", p.to, p.idx, by_msg + on_chain, need.len(), by_msg, on_chain, need),
					));
				}
			}
			for p in sim.pays.iter() {
				if p.claimed_event && p.amt_msat >= dust_floor_msat {
					let t = self.terminal.get(&(p.from, p.hash.0)).cloned().unwrap_or((0, 0));
					if t.0 == 0 {
						// the sender must know: unless it restarted from a manager that predates the send *and* no
						// monitor carried the HTLC (then it legitimately has no record)
						let listed = sim.w.nodes[p.from].node.list_recent_payments().len();
						return Err(fail(
							"claimed-but-never-sent",
							format!("pay#{} was claimed by node {} (PaymentClaimed seen) but sender node {} never reported PaymentSent after full resolution (failed events: {}, recent payments listed: {})", p.idx, p.to, p.from, t.1, listed),
						));
					} else {
						self.stats.claimed_then_sent += 1;
					}
				}
			}
		}
		Ok(())
	}
}
