//! Harness-owned transport and operation interpreter on top of [`World`].
//!
//! Every `MessageSendEvent` is split into individually deliverable wire messages kept in one FIFO per
//! directed link. Nothing moves unless an operation says so.

use crate::chain::{ChainSim, Reject};
use crate::rec::*;
use crate::world::*;
use bitcoin::secp256k1::PublicKey;
use bitcoin::Transaction;
use lightning::chain::chaininterface::ConfirmationTarget;
use lightning::events::{Event, PaymentPurpose};
use lightning::ln::channel_state::ChannelDetails;
use lightning::ln::channelmanager::PaymentId;
use lightning::ln::outbound_payment::RecipientOnionFields;
use lightning::ln::functional_test_utils::*;
use lightning::ln::msgs::{self, BaseMessageHandler, ChannelMessageHandler, ErrorAction, MessageSendEvent};
use lightning::ln::types::ChannelId;
use lightning::routing::router::{Path, PaymentParameters, Route, RouteHop, RouteParameters};
use lightning::types::features::{ChannelFeatures, NodeFeatures};
use lightning::types::payment::{PaymentHash, PaymentPreimage, PaymentSecret};
use std::collections::{BTreeMap, BTreeSet, VecDeque};

/// One individually deliverable wire message.
#[derive(Clone, Debug)]
pub enum Wire {
	Add(msgs::UpdateAddHTLC),
	Fulfill(msgs::UpdateFulfillHTLC),
	Fail(msgs::UpdateFailHTLC),
	FailMalformed(msgs::UpdateFailMalformedHTLC),
	Fee(msgs::UpdateFee),
	Commit(msgs::CommitmentSigned),
	Revoke(msgs::RevokeAndACK),
	Reestablish(msgs::ChannelReestablish),
	ChannelReady(msgs::ChannelReady),
	Shutdown(msgs::Shutdown),
	ClosingSigned(msgs::ClosingSigned),
	AnnSigs(msgs::AnnouncementSignatures),
	ChannelUpdate(msgs::ChannelUpdate),
	Error(msgs::ErrorMessage),
	Warning(msgs::WarningMessage),
	/// anything else (channel establishment etc.), delivered through the generic path
	Other(Box<MessageSendEvent>),
}

impl Wire {
	pub fn kind(&self) -> &'static str {
		match self {
			Wire::Add(_) => "add",
			Wire::Fulfill(_) => "fulfill",
			Wire::Fail(_) => "fail",
			Wire::FailMalformed(_) => "fail_malformed",
			Wire::Fee(_) => "fee",
			Wire::Commit(_) => "commit",
			Wire::Revoke(_) => "revoke",
			Wire::Reestablish(_) => "reestablish",
			Wire::ChannelReady(_) => "channel_ready",
			Wire::Shutdown(_) => "shutdown",
			Wire::ClosingSigned(_) => "closing_signed",
			Wire::AnnSigs(_) => "ann_sigs",
			Wire::ChannelUpdate(_) => "channel_update",
			Wire::Error(_) => "error",
			Wire::Warning(_) => "warning",
			Wire::Other(_) => "other",
		}
	}
	pub fn channel_id(&self) -> Option<ChannelId> {
		Some(match self {
			Wire::Add(m) => m.channel_id,
			Wire::Fulfill(m) => m.channel_id,
			Wire::Fail(m) => m.channel_id,
			Wire::FailMalformed(m) => m.channel_id,
			Wire::Fee(m) => m.channel_id,
			Wire::Commit(m) => m.channel_id,
			Wire::Revoke(m) => m.channel_id,
			Wire::Reestablish(m) => m.channel_id,
			Wire::ChannelReady(m) => m.channel_id,
			Wire::Shutdown(m) => m.channel_id,
			Wire::ClosingSigned(m) => m.channel_id,
			Wire::AnnSigs(m) => m.channel_id,
			Wire::Error(m) => m.channel_id,
			Wire::Warning(m) => m.channel_id,
			_ => return None,
		})
	}
}

/// Facts recorded by the simulator (interleaved with the signer / persister facts of [`HEvent`] through
/// the shared step counter).
#[derive(Clone, Debug)]
pub enum SEvent {
	Emit { from: usize, to: usize, wire: Wire },
	Deliver { from: usize, to: usize, wire: Wire },
	Dropped { from: usize, to: usize, wire: Wire },
	/// a `HandleError` action surfaced by `from` concerning peer `to`
	ErrorAction { from: usize, to: usize, action: String, is_error_msg: bool, disconnect: bool },
	Ldk { node: usize, ev: Event },
	/// `verdict`: what the consensus simulator says about the transaction as a candidate for the next block
	Broadcast { node: usize, tx: Transaction, height: u32, verdict: Result<u64, Reject> },
	/// a block was mined on the global chain (height) with these transactions
	Mined { height: u32, txids: Vec<bitcoin::Txid> },
	/// the tip was disconnected down to (and excluding) this height
	Reorged { to_height: u32 },
	/// a block was delivered to a node
	BlockDelivered { node: usize, height: u32 },
	Disconnect { a: usize, b: usize },
	Reconnect { a: usize, b: usize },
	Api { node: usize, what: String, ok: bool, detail: String },
	/// node restarted from a manager snapshot taken at `snapshot_step` and monitors at these update ids
	Restart { node: usize, snapshot_step: u64, monitor_ids: Vec<(ChannelId, u64)>, ok: bool, detail: String },
	/// the harness corrupted the secret of a queued revoke_and_ack (adversarial sub-profile of C05)
	Tamper { from: usize, to: usize, secret: [u8; 32] },
}

#[derive(Clone, Debug)]
pub struct ChanInfo {
	pub a: usize,
	pub b: usize,
	pub id: ChannelId,
	pub scid: u64,
	pub value_sat: u64,
	pub push_msat: u64,
	pub funding_tx: Transaction,
	pub open: msgs::OpenChannel,
	pub accept: msgs::AcceptChannel,
}

#[derive(Clone, Debug, PartialEq, Eq)]
pub enum PayState {
	/// send_payment returned Ok
	Sent,
	/// send API refused
	Refused,
	/// recipient saw PaymentClaimable
	Claimable,
	/// harness called claim_funds
	ClaimRequested,
	/// harness called fail_htlc_backwards
	FailRequested,
}

#[derive(Clone, Debug)]
pub struct PayInfo {
	pub idx: usize,
	pub from: usize,
	pub to: usize,
	pub path_nodes: Vec<usize>,
	pub path_chans: Vec<usize>,
	pub amt_msat: u64,
	/// absolute expiry height of the HTLC at the recipient
	pub cltv_expiry: u32,
	pub hash: PaymentHash,
	pub preimage: PaymentPreimage,
	pub secret: PaymentSecret,
	pub id: PaymentId,
	pub state: PayState,
	pub claimable_seen: bool,
	pub claimed_event: bool,
	pub sent_event: bool,
	pub failed_event: bool,
}

pub struct Sim {
	pub w: World,
	pub links: BTreeMap<(usize, usize), VecDeque<Wire>>,
	pub connected: BTreeSet<(usize, usize)>,
	pub chans: Vec<ChanInfo>,
	pub pays: Vec<PayInfo>,
	pub log: Vec<(u64, SEvent)>,
	/// transactions seen on each node's broadcaster, in order
	pub broadcasts: Vec<Vec<Transaction>>,
	pub next_payment_id: u64,
	/// HandleError actions are emulated like PeerManager does (disconnect) when true
	pub emulate_disconnects: bool,
	pub chain: ChainSim,
	/// manager snapshots per node: (step, bytes)
	pub snapshots: Vec<Vec<(u64, Vec<u8>)>>,
	/// reorgs never go below this height (channel establishment is not reorged)
	pub min_reorg_floor: u32,
	/// description of the last failed restart (deserialization error), if any
	pub last_restart_error: Option<String>,
	/// per node: (payment hash, preimage known) of every outbound HTLC the monitors it was last restarted from
	/// still tracked in a current counterparty commitment (read through the `_verif_hooks` accessor)
	pub monitor_htlcs_at_restart: BTreeMap<usize, Vec<([u8; 32], bool)>>,
	/// (node, channel index) -> the forwarding policy (fee base, ppm, cltv delta) that channel had before its latest update_channel_config
	pub prev_policy: BTreeMap<(usize, usize), (u32, u32, u16)>,
}

fn pair(a: usize, b: usize) -> (usize, usize) {
	if a < b {
		(a, b)
	} else {
		(b, a)
	}
}

impl Sim {
	pub fn new(w: World) -> Sim {
		let n = w.n;
		let mut connected = BTreeSet::new();
		let mut links = BTreeMap::new();
		for a in 0..n {
			for b in 0..n {
				if a != b {
					links.insert((a, b), VecDeque::new());
					connected.insert(pair(a, b));
				}
			}
		}
		let genesis = w.nodes[0].blocks.lock().unwrap()[0].0.clone();
		Sim { w, links, connected, chans: vec![], pays: vec![], log: vec![], broadcasts: vec![vec![]; n], next_payment_id: 1, emulate_disconnects: true, chain: ChainSim::new(genesis), snapshots: vec![vec![]; n], min_reorg_floor: 0, last_restart_error: None, monitor_htlcs_at_restart: BTreeMap::new(), prev_policy: BTreeMap::new() }
	}

	pub fn rec(&mut self, e: SEvent) {
		let s = hist_tick();
		self.log.push((s, e));
	}

	pub fn is_connected(&self, a: usize, b: usize) -> bool {
		self.connected.contains(&pair(a, b))
	}

	pub fn node(&self, i: usize) -> &SNode {
		&self.w.nodes[i]
	}

	/// Mine a block on the global chain containing `txs` (invalid ones are skipped and returned) and deliver
	/// it to every node.
	pub fn mine_block(&mut self, txs: Vec<Transaction>) -> Vec<(bitcoin::Txid, Reject)> {
		let (block, rejected) = self.chain.mine(txs);
		let height = self.chain.height();
		self.rec(SEvent::Mined { height, txids: block.txdata.iter().map(|t| t.compute_txid()).collect() });
		for i in 0..self.w.n {
			self.deliver_block(i, &block);
		}
		rejected
	}

	pub fn mine_empty(&mut self, n: u32) {
		for _ in 0..n {
			self.mine_block(vec![]);
		}
	}

	/// Hand one block of the global chain to one node, in that node's current connect style.
	pub fn deliver_block(&mut self, node: usize, block: &bitcoin::Block) {
		connect_block(&self.w.nodes[node], block);
		let height = self.w.nodes[node].best_block_info().1;
		self.rec(SEvent::BlockDelivered { node, height });
		self.w.nodes[node].chain_monitor.added_monitors.lock().unwrap().clear();
		self.drain(node);
	}

	/// Disconnect `depth` blocks from the tip of the global chain and of every node's view.
	pub fn reorg_disconnect(&mut self, depth: u32) {
		for _ in 0..depth {
			self.chain.disconnect_tip();
		}
		for i in 0..self.w.n {
			disconnect_blocks(&self.w.nodes[i], depth);
			self.drain(i);
		}
		let to_height = self.chain.height();
		self.rec(SEvent::Reorged { to_height });
	}

	/// Give every node on-chain funds for anchor bumping: `utxos` outputs of one bitcoin each.
	pub fn fund_wallets(&mut self, utxos: usize) {
		let mut output = vec![];
		for nd in self.w.nodes.iter() {
			let spk = lightning::util::wallet_utils::WalletSourceSync::get_change_script(&*nd.wallet_source).unwrap();
			for _ in 0..utxos {
				output.push(bitcoin::TxOut { value: bitcoin::Amount::ONE_BTC, script_pubkey: spk.clone() });
			}
		}
		let tx = Transaction { version: bitcoin::transaction::Version::TWO, lock_time: bitcoin::absolute::LockTime::ZERO, input: vec![], output };
		self.mine_block(vec![tx]);
	}

	/// Open a channel a->b (a funds) on the global chain (synchronous persistence assumed), capturing the
	/// negotiated parameters from `open_channel` / `accept_channel`.
	pub fn open_channel(&mut self, a: usize, b: usize, value_sat: u64, push_msat: u64) -> usize {
		self.open_channel_with(a, b, value_sat, push_msat, None, None)
	}

	/// `pol_a` / `pol_b`: forwarding policy (fee base msat, fee ppm, cltv_expiry_delta) the opener / the acceptor
	/// sets for this channel alone when it is created (`create_channel`'s override configuration,
	/// `accept_inbound_channel`'s overrides); None = the node's configured default.
	pub fn open_channel_with(&mut self, a: usize, b: usize, value_sat: u64, push_msat: u64, pol_a: Option<(u32, u32, u16)>, pol_b: Option<(u32, u32, u16)>) -> usize {
		let ida = self.w.node_id(a);
		let idb = self.w.node_id(b);
		let (tx, open, accept) = {
			let na = &self.w.nodes[a];
			let nb = &self.w.nodes[b];
			let override_a = pol_a.map(|(base, ppm, delta)| {
				let mut c = self.w.configs[a].clone();
				c.channel_config.forwarding_fee_base_msat = base;
				c.channel_config.forwarding_fee_proportional_millionths = ppm;
				c.channel_config.cltv_expiry_delta = delta;
				c
			});
			let temp_id = na.node.create_channel(idb, value_sat, push_msat, 42, None, override_a).unwrap();
			let open = get_event_msg!(na, MessageSendEvent::SendOpenChannel, idb);
			match pol_b {
				None => handle_and_accept_open_channel(nb, ida, &open),
				Some((base, ppm, delta)) => {
					nb.node.handle_open_channel(ida, &open);
					let events = nb.node.get_and_clear_pending_events();
					assert_eq!(events.len(), 1);
					match &events[0] {
						Event::OpenChannelRequest { temporary_channel_id, counterparty_node_id, .. } => {
							let ov = lightning::util::config::ChannelConfigOverrides {
								handshake_overrides: None,
								update_overrides: Some(lightning::util::config::ChannelConfigUpdate {
									forwarding_fee_base_msat: Some(base),
									forwarding_fee_proportional_millionths: Some(ppm),
									cltv_expiry_delta: Some(delta),
									..Default::default()
								}),
							};
							nb.node.accept_inbound_channel(temporary_channel_id, counterparty_node_id, 42, Some(ov)).unwrap();
						},
						_ => panic!("harness: unexpected event while accepting a channel"),
					}
				},
			}
			let accept = get_event_msg!(nb, MessageSendEvent::SendAcceptChannel, ida);
			na.node.handle_accept_channel(idb, &accept);
			let tx = sign_funding_transaction(na, nb, value_sat, temp_id);
			(tx, open, accept)
		};
		// confirm on the global chain; every node sees the same blocks
		let saved_emulate = self.emulate_disconnects;
		let (block, _) = self.chain.mine(vec![tx.clone()]);
		let mut blocks = vec![block];
		for _ in 0..(CHAN_CONFIRM_DEPTH - 1) {
			blocks.push(self.chain.mine(vec![]).0);
		}
		for blk in blocks.iter() {
			for i in 0..self.w.n {
				connect_block(&self.w.nodes[i], blk);
			}
		}
		self.emulate_disconnects = saved_emulate;
		// exchange channel_ready / announcement signatures / channel_update through the harness transport
		let id = ChannelId::v1_from_funding_txid(tx.compute_txid().as_ref(), 0);
		for _ in 0..20 {
			self.drain_all();
			let live: Vec<(usize, usize)> = self.links.iter().filter(|(_, q)| !q.is_empty()).map(|(k, _)| *k).collect();
			if live.is_empty() {
				break;
			}
			for (f, t) in live {
				while self.deliver(f, t, 1) > 0 {}
			}
		}
		for i in [a, b] {
			let usable = self.w.nodes[i].node.list_channels().iter().any(|c| c.channel_id == id && c.is_channel_ready);
			assert!(usable, "harness: channel did not become ready on node {}", i);
		}
		let scid = self.w.nodes[a].node.list_channels().iter().find(|c| c.channel_id == id).and_then(|c| c.short_channel_id).unwrap();
		for nd in self.w.nodes.iter() {
			nd.chain_monitor.added_monitors.lock().unwrap().clear();
			let _ = nd.node.get_and_clear_pending_msg_events();
			let _ = nd.node.get_and_clear_pending_events();
			nd.tx_broadcaster.clear();
		}
		self.chans.push(ChanInfo { a, b, id, scid, value_sat, push_msat, funding_tx: tx, open, accept });
		self.chans.len() - 1
	}

	/// Stop `node` and restart it from the `snap`-th newest manager snapshot and, per channel, the durable
	/// monitor image (or the latest written one if `landed`). All its connections drop.
	pub fn restart(&mut self, node: usize, snap: u16, landed: bool) -> Result<(), String> {
		if self.snapshots[node].is_empty() {
			self.snapshot_manager(node);
		}
		let k = self.snapshots[node].len();
		let idx = k - 1 - vcore::pick(snap, k);
		let (snap_step, mgr_bytes) = self.snapshots[node][idx].clone();
		let (images, ids): (Vec<Vec<u8>>, Vec<(ChannelId, u64)>) = {
			let st = self.w.persisters[node].state.lock().unwrap();
			let mut images = vec![];
			let mut ids = vec![];
			let keys: Vec<ChannelId> = st.durable.keys().cloned().collect();
			for c in keys {
				let (id, bytes) = if landed { st.latest.get(&c).unwrap_or(&st.durable[&c]).clone() } else { st.durable[&c].clone() };
				ids.push((c, id));
				images.push(bytes);
			}
			(images, ids)
		};
		// connections drop; whatever was queued is lost
		let peers: Vec<usize> = (0..self.w.n).filter(|j| *j != node && self.is_connected(node, *j)).collect();
		for j in 0..self.w.n {
			if j != node && self.is_connected(node, j) {
				self.connected.remove(&pair(node, j));
				for (f, t) in [(node, j), (j, node)] {
					let q: Vec<Wire> = self.links.get_mut(&(f, t)).unwrap().drain(..).collect();
					for wire in q {
						self.rec(SEvent::Dropped { from: f, to: t, wire });
					}
				}
				self.rec(SEvent::Disconnect { a: node, b: j });
			}
		}
		let r = self.w.restart(node, &mgr_bytes, &images, &peers);
		if r.is_ok() {
			let cm = &self.w.nodes[node].chain_monitor.chain_monitor;
			let mut v = vec![];
			for cid in cm.list_monitors() {
				if let Ok(m) = cm.get_monitor(cid) {
					v.extend(m.verif_current_outbound_htlcs().into_iter().map(|(h, p)| (h.0, p)));
				}
			}
			self.monitor_htlcs_at_restart.insert(node, v);
		}
		self.rec(SEvent::Restart { node, snapshot_step: snap_step, monitor_ids: ids, ok: r.is_ok(), detail: r.clone().err().unwrap_or_default() });
		if let Err(e) = &r {
			self.last_restart_error = Some(e.clone());
			return r;
		}
		// snapshots newer than the one used are gone (the node really went back to that state)
		self.snapshots[node].truncate(idx + 1);
		for j in 0..self.w.n {
			if j != node {
				self.drain(j);
			}
		}
		self.drain(node);
		Ok(())
	}

	/// Serialize `node`'s manager and monitors as they are now and restart the node from exactly those images
	/// without telling the new objects anything about the chain. All its connections drop; returns the peers
	/// it was connected to.
	pub fn reload_live(&mut self, node: usize) -> Result<Vec<usize>, String> {
		use lightning::util::ser::Writeable;
		let mgr_bytes = self.w.nodes[node].node.encode();
		let (images, ids): (Vec<Vec<u8>>, Vec<(ChannelId, u64)>) = {
			let cm = &self.w.nodes[node].chain_monitor.chain_monitor;
			let mut l = cm.list_monitors();
			l.sort();
			let mut images = vec![];
			let mut ids = vec![];
			for c in l {
				if let Ok(m) = cm.get_monitor(c) {
					ids.push((c, m.get_latest_update_id()));
					images.push(m.encode());
				}
			}
			(images, ids)
		};
		let peers: Vec<usize> = (0..self.w.n).filter(|j| *j != node && self.is_connected(node, *j)).collect();
		for j in peers.iter().cloned() {
			self.connected.remove(&pair(node, j));
			for (f, t) in [(node, j), (j, node)] {
				let q: Vec<Wire> = self.links.get_mut(&(f, t)).unwrap().drain(..).collect();
				for wire in q {
					self.rec(SEvent::Dropped { from: f, to: t, wire });
				}
			}
			self.rec(SEvent::Disconnect { a: node, b: j });
		}
		let r = self.w.restart_opts(node, &mgr_bytes, &images, &peers, false);
		let step = hist_tick();
		self.rec(SEvent::Restart { node, snapshot_step: step, monitor_ids: ids, ok: r.is_ok(), detail: r.clone().err().unwrap_or_default() });
		if let Err(e) = &r {
			self.last_restart_error = Some(e.clone());
			return Err(e.clone());
		}
		for j in 0..self.w.n {
			self.drain(j);
		}
		Ok(peers)
	}

	/// Was the peer's fulfil of an HTLC with this payment hash, delivered to `node`, followed by a
	/// commitment_signed of the same channel delivered to `node` before step `before`? Only then can `node`'s
	/// monitor ever have stored the preimage (it arrives with the holder commitment update).
	pub fn fulfil_committed_before(&self, node: usize, hash: &[u8; 32], before: u64) -> bool {
		use bitcoin::hashes::{sha256, Hash};
		let mut fulfilled: Vec<(lightning::ln::types::ChannelId, u64)> = vec![];
		for (s, e) in self.log.iter() {
			if *s >= before {
				break;
			}
			match e {
				SEvent::Deliver { to, wire: Wire::Fulfill(m), .. } if *to == node => {
					if sha256::Hash::hash(&m.payment_preimage.0).to_byte_array() == *hash {
						fulfilled.push((m.channel_id, *s));
					}
				},
				SEvent::Deliver { to, wire: Wire::Commit(m), .. } if *to == node => {
					if fulfilled.iter().any(|(c, fs)| *c == m.channel_id && *fs < *s) {
						return true;
					}
				},
				_ => {},
			}
		}
		false
	}

	/// Amounts below this may have no output on a commitment transaction (dust limit plus HTLC transaction fee
	/// at twice the highest current feerate estimate): such an HTLC is forfeited when its channel closes on chain.
	pub fn dust_floor_msat(&self) -> u64 {
		let mut maxfee = 253u64;
		for nd in self.w.nodes.iter() {
			maxfee = maxfee.max(*nd.fee_estimator.sat_per_kw.lock().unwrap() as u64);
			for (_, v) in nd.fee_estimator.target_override.lock().unwrap().iter() {
				maxfee = maxfee.max(*v as u64);
			}
		}
		(354 + 703 * 2 * maxfee / 1000 + 1) * 1000
	}

	/// Serialize the node's ChannelManager now and keep it as a restart candidate.
	pub fn snapshot_manager(&mut self, node: usize) {
		use lightning::util::ser::Writeable;
		let bytes = self.w.nodes[node].node.encode();
		let s = hist_tick();
		self.snapshots[node].push((s, bytes));
	}

	pub fn chan_details(&self, node: usize, chan: usize) -> Option<ChannelDetails> {
		let id = self.chans[chan].id;
		self.w.nodes[node].node.list_channels().into_iter().find(|c| c.channel_id == id)
	}

	pub fn peer_of(&self, chan: usize, node: usize) -> usize {
		let c = &self.chans[chan];
		if c.a == node {
			c.b
		} else {
			c.a
		}
	}

	// ---------------------------------------------------------------------------------------------
	// draining
	// ---------------------------------------------------------------------------------------------

	/// Move every pending message event of `node` into the link FIFOs; record broadcasts.
	pub fn drain(&mut self, node: usize) {
		let evs = self.w.nodes[node].node.get_and_clear_pending_msg_events();
		for ev in evs {
			self.route_event(node, ev);
		}
		let txs = self.w.nodes[node].tx_broadcaster.txn_broadcast();
		for tx in txs {
			self.broadcasts[node].push(tx.clone());
			let verdict = self.chain.broadcast(&tx);
			let height = self.chain.height();
			self.rec(SEvent::Broadcast { node, tx, height, verdict });
		}
	}

	pub fn drain_all(&mut self) {
		for i in 0..self.w.n {
			self.drain(i);
		}
	}

	fn push_wire(&mut self, from: usize, to: PublicKey, wire: Wire) {
		let Some(to) = self.w.index_of(&to) else { return };
		if self.is_connected(from, to) {
			self.rec(SEvent::Emit { from, to, wire: wire.clone() });
			self.links.get_mut(&(from, to)).unwrap().push_back(wire);
		} else {
			self.rec(SEvent::Dropped { from, to, wire });
		}
	}

	fn route_event(&mut self, from: usize, ev: MessageSendEvent) {
		match ev {
			MessageSendEvent::UpdateHTLCs { node_id, updates, .. } => {
				for m in updates.update_add_htlcs {
					self.push_wire(from, node_id, Wire::Add(m));
				}
				for m in updates.update_fulfill_htlcs {
					self.push_wire(from, node_id, Wire::Fulfill(m));
				}
				for m in updates.update_fail_htlcs {
					self.push_wire(from, node_id, Wire::Fail(m));
				}
				for m in updates.update_fail_malformed_htlcs {
					self.push_wire(from, node_id, Wire::FailMalformed(m));
				}
				if let Some(m) = updates.update_fee {
					self.push_wire(from, node_id, Wire::Fee(m));
				}
				for m in updates.commitment_signed {
					self.push_wire(from, node_id, Wire::Commit(m));
				}
			},
			MessageSendEvent::SendRevokeAndACK { node_id, msg } => self.push_wire(from, node_id, Wire::Revoke(msg)),
			MessageSendEvent::SendChannelReestablish { node_id, msg } => self.push_wire(from, node_id, Wire::Reestablish(msg)),
			MessageSendEvent::SendChannelReady { node_id, msg } => self.push_wire(from, node_id, Wire::ChannelReady(msg)),
			MessageSendEvent::SendShutdown { node_id, msg } => self.push_wire(from, node_id, Wire::Shutdown(msg)),
			MessageSendEvent::SendClosingSigned { node_id, msg } => self.push_wire(from, node_id, Wire::ClosingSigned(msg)),
			MessageSendEvent::SendAnnouncementSignatures { node_id, msg } => self.push_wire(from, node_id, Wire::AnnSigs(msg)),
			MessageSendEvent::SendChannelUpdate { node_id, msg } => self.push_wire(from, node_id, Wire::ChannelUpdate(msg)),
			MessageSendEvent::HandleError { node_id, action } => {
				let Some(to) = self.w.index_of(&node_id) else { return };
				let (is_error_msg, disconnect, wire) = match &action {
					ErrorAction::DisconnectPeer { msg } => (msg.is_some(), true, msg.clone().map(Wire::Error)),
					ErrorAction::DisconnectPeerWithWarning { msg } => (false, true, Some(Wire::Warning(msg.clone()))),
					ErrorAction::SendErrorMessage { msg } => (true, false, Some(Wire::Error(msg.clone()))),
					ErrorAction::SendWarningMessage { msg, .. } => (false, false, Some(Wire::Warning(msg.clone()))),
					_ => (false, false, None),
				};
				self.rec(SEvent::ErrorAction { from, to, action: format!("{:?}", action), is_error_msg, disconnect });
				if let Some(wire) = wire {
					if self.is_connected(from, to) {
						// error / warning messages are delivered immediately (PeerManager sends them before dropping
						// the connection); they are not subject to FIFO scheduling
						self.rec(SEvent::Emit { from, to, wire: wire.clone() });
						self.rec(SEvent::Deliver { from, to, wire: wire.clone() });
						self.handle_wire(from, to, &wire);
					}
				}
				if disconnect && self.emulate_disconnects && self.is_connected(from, to) {
					self.disconnect(from, to);
				}
			},
			MessageSendEvent::BroadcastChannelAnnouncement { .. }
			| MessageSendEvent::BroadcastChannelUpdate { .. }
			| MessageSendEvent::BroadcastNodeAnnouncement { .. }
			| MessageSendEvent::SendChannelAnnouncement { .. }
			| MessageSendEvent::SendGossipTimestampFilter { .. }
			| MessageSendEvent::SendChannelRangeQuery { .. }
			| MessageSendEvent::SendShortIdsQuery { .. }
			| MessageSendEvent::SendReplyChannelRange { .. }
			| MessageSendEvent::SendPeerStorage { .. }
			| MessageSendEvent::SendPeerStorageRetrieval { .. } => {},
			other => {
				let node_id = msg_event_target(&other);
				if let Some(node_id) = node_id {
					self.push_wire(from, node_id, Wire::Other(Box::new(other)));
				}
			},
		}
	}

	fn handle_wire(&mut self, from: usize, to: usize, wire: &Wire) {
		let from_id = self.w.node_id(from);
		let n = self.w.nodes[to].node;
		match wire {
			Wire::Add(m) => n.handle_update_add_htlc(from_id, m),
			Wire::Fulfill(m) => n.handle_update_fulfill_htlc(from_id, m.clone()),
			Wire::Fail(m) => n.handle_update_fail_htlc(from_id, m),
			Wire::FailMalformed(m) => n.handle_update_fail_malformed_htlc(from_id, m),
			Wire::Fee(m) => n.handle_update_fee(from_id, m),
			Wire::Commit(m) => n.handle_commitment_signed(from_id, m),
			Wire::Revoke(m) => n.handle_revoke_and_ack(from_id, m),
			Wire::Reestablish(m) => n.handle_channel_reestablish(from_id, m),
			Wire::ChannelReady(m) => n.handle_channel_ready(from_id, m),
			Wire::Shutdown(m) => n.handle_shutdown(from_id, m),
			Wire::ClosingSigned(m) => n.handle_closing_signed(from_id, m),
			Wire::AnnSigs(m) => n.handle_announcement_signatures(from_id, m),
			Wire::ChannelUpdate(m) => n.handle_channel_update(from_id, m),
			Wire::Error(m) => n.handle_error(from_id, m),
			Wire::Warning(_) => {},
			Wire::Other(ev) => match &**ev {
				MessageSendEvent::SendOpenChannel { msg, .. } => n.handle_open_channel(from_id, msg),
				MessageSendEvent::SendAcceptChannel { msg, .. } => n.handle_accept_channel(from_id, msg),
				MessageSendEvent::SendFundingCreated { msg, .. } => n.handle_funding_created(from_id, msg),
				MessageSendEvent::SendFundingSigned { msg, .. } => n.handle_funding_signed(from_id, msg),
				_ => {},
			},
		}
	}

	/// Deliver up to `k` messages from the head of the directed link; returns how many were delivered.
	pub fn deliver(&mut self, from: usize, to: usize, k: usize) -> usize {
		let mut done = 0;
		for _ in 0..k {
			if !self.is_connected(from, to) {
				break;
			}
			let Some(wire) = self.links.get_mut(&(from, to)).unwrap().pop_front() else { break };
			// recorded before processing so that everything the receiver does in response is stamped later
			self.rec(SEvent::Deliver { from, to, wire: wire.clone() });
			self.handle_wire(from, to, &wire);
			done += 1;
			self.drain(to);
			self.drain(from);
		}
		done
	}

	pub fn queued(&self, from: usize, to: usize) -> usize {
		self.links.get(&(from, to)).map(|q| q.len()).unwrap_or(0)
	}

	pub fn total_queued(&self) -> usize {
		self.links.values().map(|q| q.len()).sum()
	}

	pub fn disconnect(&mut self, a: usize, b: usize) {
		if !self.is_connected(a, b) {
			return;
		}
		self.connected.remove(&pair(a, b));
		let ida = self.w.node_id(a);
		let idb = self.w.node_id(b);
		self.w.nodes[a].node.peer_disconnected(idb);
		self.w.nodes[b].node.peer_disconnected(ida);
		self.w.nodes[a].onion_messenger.peer_disconnected(idb);
		self.w.nodes[b].onion_messenger.peer_disconnected(ida);
		for (f, t) in [(a, b), (b, a)] {
			let q: Vec<Wire> = self.links.get_mut(&(f, t)).unwrap().drain(..).collect();
			for wire in q {
				self.rec(SEvent::Dropped { from: f, to: t, wire });
			}
		}
		self.rec(SEvent::Disconnect { a, b });
		// anything LDK still queues for the gone peer is dropped by push_wire
		self.drain(a);
		self.drain(b);
	}

	pub fn reconnect(&mut self, a: usize, b: usize) {
		if self.is_connected(a, b) {
			return;
		}
		self.connected.insert(pair(a, b));
		connect_nodes(&self.w.nodes[a], &self.w.nodes[b]);
		self.rec(SEvent::Reconnect { a, b });
		self.drain(a);
		self.drain(b);
	}

	// ---------------------------------------------------------------------------------------------
	// node-level operations
	// ---------------------------------------------------------------------------------------------

	pub fn process_events(&mut self, node: usize) -> Vec<Event> {
		let evs = self.w.nodes[node].node.get_and_clear_pending_events();
		for ev in evs.iter() {
			self.rec(SEvent::Ldk { node, ev: ev.clone() });
			match ev {
				Event::PaymentClaimable { payment_hash, .. } => {
					for p in self.pays.iter_mut() {
						if p.hash == *payment_hash && p.to == node {
							p.claimable_seen = true;
							if p.state == PayState::Sent {
								p.state = PayState::Claimable;
							}
						}
					}
				},
				Event::PaymentClaimed { payment_hash, .. } => {
					for p in self.pays.iter_mut() {
						if p.hash == *payment_hash && p.to == node {
							p.claimed_event = true;
						}
					}
				},
				Event::PaymentSent { payment_hash, .. } => {
					for p in self.pays.iter_mut() {
						if p.hash == *payment_hash && p.from == node {
							p.sent_event = true;
						}
					}
				},
				Event::PaymentFailed { payment_hash, .. } => {
					for p in self.pays.iter_mut() {
						if Some(p.hash) == *payment_hash && p.from == node {
							p.failed_event = true;
						}
					}
				},
				Event::BumpTransaction(bump) => {
					self.w.nodes[node].bump_tx_handler.handle_event(bump);
				},
				_ => {},
			}
		}
		// chain monitor events (SpendableOutputs etc.)
		let mevs = self.w.nodes[node].chain_monitor.chain_monitor.get_and_clear_pending_events();
		for ev in mevs.iter() {
			self.rec(SEvent::Ldk { node, ev: ev.clone() });
			if let Event::BumpTransaction(bump) = ev {
				self.w.nodes[node].bump_tx_handler.handle_event(bump);
			}
		}
		self.drain(node);
		let mut all = evs;
		all.extend(mevs);
		all
	}

	pub fn process_forwards(&mut self, node: usize) {
		self.w.nodes[node].node.process_pending_htlc_forwards();
		self.drain(node);
	}

	pub fn timer_tick(&mut self, node: usize) {
		self.w.nodes[node].node.timer_tick_occurred();
		self.drain(node);
	}

	/// Set the feerate the node's estimator reports for its *own* channel-fee targets; the minimum
	/// acceptable remote feerates and the close minimum stay at the floor and the maximum estimate never
	/// falls below any other target, so the estimator stays self-consistent (as a real one is) and an
	/// honest update is always acceptable to the peer.
	pub fn set_feerate(&mut self, node: usize, sat_per_kw: u32) {
		let fe = self.w.nodes[node].fee_estimator;
		let base = *fe.sat_per_kw.lock().unwrap();
		let mut ov = fe.target_override.lock().unwrap();
		ov.insert(ConfirmationTarget::MinAllowedAnchorChannelRemoteFee, 253);
		ov.insert(ConfirmationTarget::MinAllowedNonAnchorChannelRemoteFee, 253);
		ov.insert(ConfirmationTarget::ChannelCloseMinimum, 253);
		ov.insert(ConfirmationTarget::AnchorChannelFee, sat_per_kw);
		ov.insert(ConfirmationTarget::NonAnchorChannelFee, sat_per_kw);
		let prev_max = ov.get(&ConfirmationTarget::MaximumFeeEstimate).cloned().unwrap_or(base);
		let new_max = prev_max.max(sat_per_kw).max(base);
		drop(ov);
		// the fee market is global: every node's highest estimate (which scales the dust-exposure limit under
		// the fee-rate-multiplier policy) follows it, otherwise peers with identical policies would disagree
		// about the limit only because the harness fed them different markets
		for nd in self.w.nodes.iter() {
			let mut ov = nd.fee_estimator.target_override.lock().unwrap();
			let cur = ov.get(&ConfirmationTarget::MaximumFeeEstimate).cloned().unwrap_or(*nd.fee_estimator.sat_per_kw.lock().unwrap());
			ov.insert(ConfirmationTarget::MaximumFeeEstimate, cur.max(new_max));
		}
	}

	/// Build an explicit single-path route over the given channel indices starting at `from`.
	pub fn build_route(&self, from: usize, chans: &[usize], amt_msat: u64, final_cltv_delta: u32) -> Option<(Route, Vec<usize>)> {
		let mut hops = vec![];
		let mut nodes = vec![from];
		let mut cur = from;
		for ci in chans {
			let c = &self.chans[*ci];
			let next = if c.a == cur {
				c.b
			} else if c.b == cur {
				c.a
			} else {
				return None;
			};
			nodes.push(next);
			cur = next;
		}
		// fees: hop i's fee_msat pays node i+1 for forwarding over channel i+1; last hop carries the amount
		let mut amounts = vec![0u64; chans.len()];
		let mut deltas = vec![0u32; chans.len()];
		let last = chans.len() - 1;
		amounts[last] = amt_msat;
		deltas[last] = final_cltv_delta;
		let mut carried = amt_msat;
		for i in (0..last).rev() {
			// node nodes[i+1] forwards `carried` over chans[i+1]; its policy for that outgoing channel
			let fwd = nodes[i + 1];
			let det = self.chan_details(fwd, chans[i + 1])?;
			let cfg = det.config?;
			let fee = cfg.forwarding_fee_base_msat as u64 + carried * cfg.forwarding_fee_proportional_millionths as u64 / 1_000_000;
			amounts[i] = fee;
			deltas[i] = cfg.cltv_expiry_delta as u32;
			carried += fee;
		}
		for (i, ci) in chans.iter().enumerate() {
			let c = &self.chans[*ci];
			hops.push(RouteHop {
				pubkey: self.w.node_id(nodes[i + 1]),
				node_features: NodeFeatures::empty(),
				short_channel_id: c.scid,
				channel_features: ChannelFeatures::empty(),
				fee_msat: amounts[i],
				cltv_expiry_delta: deltas[i],
				maybe_announced_channel: true,
			});
		}
		let payee = self.w.node_id(*nodes.last().unwrap());
		let mut route_params =
			RouteParameters::from_payment_params_and_value(PaymentParameters::from_node_id(payee, final_cltv_delta), amt_msat);
		route_params.max_total_routing_fee_msat = None;
		Some((Route { paths: vec![Path { hops, blinded_tail: None }], route_params }, nodes))
	}

	/// Register an inbound payment at `to` and send it from `from` over `chans`. Returns the payment index.
	pub fn send(&mut self, from: usize, chans: &[usize], amt_msat: u64) -> usize {
		self.try_send(from, chans, amt_msat).expect("route")
	}

	/// Like [`Sim::send`] but returns None when no route can be built (a channel on the path is gone).
	pub fn try_send(&mut self, from: usize, chans: &[usize], amt_msat: u64) -> Option<usize> {
		let (route, nodes) = self.build_route(from, chans, amt_msat, TEST_FINAL_CLTV)?;
		let to = *nodes.last().unwrap();
		let (preimage, hash, secret) = get_payment_preimage_hash(&self.w.nodes[to], None, None);
		let idn = self.next_payment_id;
		self.next_payment_id += 1;
		let mut idb = [0u8; 32];
		idb[..8].copy_from_slice(&idn.to_be_bytes());
		let id = PaymentId(idb);
		let res = self.w.nodes[from].node.send_payment_with_route(route, hash, RecipientOnionFields::secret_only(secret, amt_msat), id);
		let ok = res.is_ok();
		self.rec(SEvent::Api { node: from, what: format!("send pay#{} amt={} chans={:?}", self.pays.len(), amt_msat, chans), ok, detail: format!("{:?}", res) });
		self.pays.push(PayInfo {
			idx: self.pays.len(),
			from,
			to,
			path_nodes: nodes,
			path_chans: chans.to_vec(),
			amt_msat,
			cltv_expiry: self.chain.height() + 1 + TEST_FINAL_CLTV,
			hash,
			preimage,
			secret,
			id,
			state: if ok { PayState::Sent } else { PayState::Refused },
			claimable_seen: false,
			claimed_event: false,
			sent_event: false,
			failed_event: false,
		});
		self.w.nodes[from].chain_monitor.added_monitors.lock().unwrap().clear();
		self.drain(from);
		Some(self.pays.len() - 1)
	}

	/// Like [`Sim::try_send`], but the recipient hides behind a blinded payment path it builds itself with the
	/// public blinded-path API: the first forwarding node of the route is the introduction node (on a direct
	/// payment the recipient itself), every later hop is blinded; each blinded forwarder's relay parameters are
	/// the policy of its outgoing channel. The sender pays over an explicit route ending in the blinded tail.
	pub fn try_send_blinded(&mut self, from: usize, chans: &[usize], amt_msat: u64) -> Option<usize> {
		use lightning::blinded_path::payment::{BlindedPaymentPath, Bolt12RefundContext, ForwardTlvs, PaymentConstraints, PaymentContext, PaymentForwardNode, PaymentRelay, ReceiveTlvs};
		use lightning::routing::router::BlindedTail;
		use lightning::sign::NodeSigner;
		use lightning::types::features::BlindedHopFeatures;
		let (_, nodes) = self.build_route(from, chans, amt_msat, TEST_FINAL_CLTV)?;
		let to = *nodes.last().unwrap();
		let last = chans.len() - 1;
		let mut inter: Vec<PaymentForwardNode> = vec![];
		for j in 1..=last {
			// nodes[j] forwards over chans[j]
			let det = self.chan_details(nodes[j], chans[j])?;
			let cfg = det.config?;
			inter.push(PaymentForwardNode {
				tlvs: ForwardTlvs {
					short_channel_id: self.chans[chans[j]].scid,
					payment_relay: PaymentRelay { cltv_expiry_delta: cfg.cltv_expiry_delta, fee_proportional_millionths: cfg.forwarding_fee_proportional_millionths, fee_base_msat: cfg.forwarding_fee_base_msat },
					payment_constraints: PaymentConstraints { max_cltv_expiry: 400_000_000, htlc_minimum_msat: 1 },
					features: BlindedHopFeatures::empty(),
					next_blinding_override: None,
				},
				node_id: self.w.node_id(nodes[j]),
				htlc_maximum_msat: 21_000_000 * 100_000_000 * 1000,
			});
		}
		let (preimage, hash, secret) = get_payment_preimage_hash(&self.w.nodes[to], None, None);
		let payee_tlvs = ReceiveTlvs {
			payment_secret: secret,
			payment_constraints: PaymentConstraints { max_cltv_expiry: 400_000_000, htlc_minimum_msat: 1 },
			payment_context: PaymentContext::Bolt12Refund(Bolt12RefundContext { payment_metadata: None }),
		};
		let secp = bitcoin::secp256k1::Secp256k1::new();
		let km = self.w.nodes[to].keys_manager;
		let bp = BlindedPaymentPath::new(&inter, self.w.node_id(to), km.get_receive_auth_key(), payee_tlvs, 21_000_000 * 100_000_000 * 1000, TEST_FINAL_CLTV as u16, km, &secp).ok()?;
		let info = bp.payinfo.clone();
		let fee = info.fee_base_msat as u64 + (amt_msat as u128 * info.fee_proportional_millionths as u128 / 1_000_000) as u64;
		let intro = nodes[1];
		let hop = RouteHop {
			pubkey: self.w.node_id(intro),
			node_features: NodeFeatures::empty(),
			short_channel_id: self.chans[chans[0]].scid,
			channel_features: ChannelFeatures::empty(),
			fee_msat: fee,
			cltv_expiry_delta: info.cltv_expiry_delta as u32,
			maybe_announced_channel: true,
		};
		let tail = BlindedTail { trampoline_hops: vec![], hops: bp.blinded_hops().to_vec(), blinding_point: bp.blinding_point(), excess_final_cltv_expiry_delta: 0, final_value_msat: amt_msat };
		let mut route_params = RouteParameters::from_payment_params_and_value(PaymentParameters::blinded(vec![bp]), amt_msat);
		route_params.max_total_routing_fee_msat = None;
		let route = Route { paths: vec![Path { hops: vec![hop], blinded_tail: Some(tail) }], route_params };
		let idn = self.next_payment_id;
		self.next_payment_id += 1;
		let mut idb = [0u8; 32];
		idb[..8].copy_from_slice(&idn.to_be_bytes());
		let id = PaymentId(idb);
		let res = self.w.nodes[from].node.send_payment_with_route(route, hash, RecipientOnionFields::spontaneous_empty(amt_msat), id);
		let ok = res.is_ok();
		self.rec(SEvent::Api { node: from, what: format!("send-blinded pay#{} amt={} chans={:?}", self.pays.len(), amt_msat, chans), ok, detail: format!("{:?}", res) });
		let extra_delta: u32 = info.cltv_expiry_delta as u32 - TEST_FINAL_CLTV;
		let _ = extra_delta;
		self.pays.push(PayInfo {
			idx: self.pays.len(),
			from,
			to,
			path_nodes: nodes,
			path_chans: chans.to_vec(),
			amt_msat,
			cltv_expiry: self.chain.height() + 1 + TEST_FINAL_CLTV,
			hash,
			preimage,
			secret,
			id,
			state: if ok { PayState::Sent } else { PayState::Refused },
			claimable_seen: false,
			claimed_event: false,
			sent_event: false,
			failed_event: false,
		});
		self.w.nodes[from].chain_monitor.added_monitors.lock().unwrap().clear();
		self.drain(from);
		Some(self.pays.len() - 1)
	}

	pub fn claim(&mut self, pay: usize) {
		let p = self.pays[pay].clone();
		self.w.nodes[p.to].node.claim_funds(p.preimage);
		self.pays[pay].state = PayState::ClaimRequested;
		self.rec(SEvent::Api { node: p.to, what: format!("claim pay#{}", pay), ok: true, detail: String::new() });
		self.drain(p.to);
	}

	pub fn fail_back(&mut self, pay: usize) {
		let p = self.pays[pay].clone();
		self.w.nodes[p.to].node.fail_htlc_backwards(&p.hash);
		self.pays[pay].state = PayState::FailRequested;
		self.rec(SEvent::Api { node: p.to, what: format!("fail pay#{}", pay), ok: true, detail: String::new() });
		self.drain(p.to);
	}

	/// Complete every in-flight monitor update of `node` (oldest first).
	pub fn complete_all_updates(&mut self, node: usize) {
		loop {
			let pend = self.w.pending_updates(node);
			if pend.is_empty() {
				break;
			}
			for (c, id) in pend {
				self.w.complete_update(node, c, id);
			}
			self.drain(node);
		}
	}

	/// Drive everything to quiescence: complete monitor updates, reconnect, deliver all, forward, process
	/// events, until a fixpoint or `max_rounds`. Returns true if quiescent.
	pub fn settle(&mut self, max_rounds: usize) -> bool {
		for i in 0..self.w.n {
			self.w.set_async(i, None, false);
			let chans: Vec<ChannelId> = self.w.persisters[i].state.lock().unwrap().async_chans.iter().cloned().collect();
			for c in chans {
				// the documented rule allows switching back to synchronous persistence only once nothing is
				// in flight; completing everything first establishes that
				let _ = c;
			}
		}
		for _ in 0..max_rounds {
			let mut progress = false;
			for i in 0..self.w.n {
				if !self.w.pending_updates(i).is_empty() {
					self.complete_all_updates(i);
					progress = true;
				}
			}
			for i in 0..self.w.n {
				let chans: Vec<ChannelId> = self.w.persisters[i].state.lock().unwrap().async_chans.iter().cloned().collect();
				for c in chans {
					self.w.set_async(i, Some(c), false);
				}
			}
			let n = self.w.n;
			for a in 0..n {
				for b in (a + 1)..n {
					if !self.is_connected(a, b) {
						self.reconnect(a, b);
						progress = true;
					}
				}
			}
			self.drain_all();
			let keys: Vec<(usize, usize)> = self.links.keys().cloned().collect();
			for (f, t) in keys {
				while self.queued(f, t) > 0 && self.is_connected(f, t) {
					self.deliver(f, t, 1);
					progress = true;
				}
			}
			for i in 0..self.w.n {
				if self.w.nodes[i].node.needs_pending_htlc_processing() {
					self.process_forwards(i);
					progress = true;
				}
				let evs = self.process_events(i);
				if !evs.is_empty() {
					progress = true;
				}
			}
			self.drain_all();
			if !progress && self.total_queued() == 0 {
				return true;
			}
		}
		false
	}

	pub fn trim(&self) {
		self.w.trim();
	}
}

fn msg_event_target(ev: &MessageSendEvent) -> Option<PublicKey> {
	Some(match ev {
		MessageSendEvent::SendAcceptChannel { node_id, .. }
		| MessageSendEvent::SendAcceptChannelV2 { node_id, .. }
		| MessageSendEvent::SendOpenChannel { node_id, .. }
		| MessageSendEvent::SendOpenChannelV2 { node_id, .. }
		| MessageSendEvent::SendFundingCreated { node_id, .. }
		| MessageSendEvent::SendFundingSigned { node_id, .. }
		| MessageSendEvent::SendStfu { node_id, .. } => *node_id,
		_ => return None,
	})
}

/// The `PaymentPurpose` preimage if the library supplies it (inbound payments registered with
/// `create_inbound_payment`).
pub fn purpose_preimage(p: &PaymentPurpose) -> Option<PaymentPreimage> {
	p.preimage()
}
